(* The specification function of Valid/Overlap.v (a search with a visited set) computes the
   declarative reading of FieldsInSetCanMerge / SameResponseShape: a conflict is a finite
   derivation (a chain of nested field pairs ending in a direct conflict). *)
From GV Require Import Base.Prelude Valid.Overlap Valid.OverlapProps.

(* ---------------------------------------------------------------- lists and verdicts *)
Inductive before {A} (x y : A) : list A -> Prop :=
| before_here l : In y l -> before x y (x :: l)
| before_later z l : before x y l -> before x y (z :: l).

Lemma before_in {A} (x y : A) l : before x y l -> In x l /\ In y l.
Proof. induction 1; cbn; intuition. Qed.

Lemma vjoin_conflict a b : vjoin a b = VConflict -> a = VConflict \/ b = VConflict.
Proof. destruct a, b; cbn; intro H; try discriminate; auto. Qed.

Lemma vjoin_no a b : vjoin a b = VNo -> a = VNo /\ b = VNo.
Proof. destruct a, b; cbn; intro H; try discriminate; auto. Qed.

Lemma row_conflict {A S} (f : S -> A -> verdict * S) l : forall st,
  fst (row f st l) = VConflict -> exists y st', In y l /\ fst (f st' y) = VConflict.
Proof.
  induction l as [|y r IH]; intros st H; cbn [row] in H.
  - discriminate.
  - destruct (f st y) as [v1 st1] eqn:E1. destruct (row f st1 r) as [v2 st2] eqn:E2.
    cbn [fst] in H. apply vjoin_conflict in H as [->| ->].
    + exists y, st. rewrite E1. cbn. auto.
    + destruct (IH st1) as [y' [st' [Hy Hf]]]; [rewrite E2; reflexivity|].
      exists y', st'. cbn. auto.
Qed.

Lemma pairs_conflict {A S} (f : S -> A -> A -> verdict * S) l : forall st,
  fst (pairs f st l) = VConflict -> exists x y st', before x y l /\ fst (f st' x y) = VConflict.
Proof.
  induction l as [|x r IH]; intros st H; cbn [pairs] in H.
  - discriminate.
  - destruct (row (fun st y => f st x y) st r) as [v1 st1] eqn:E1.
    destruct (pairs f st1 r) as [v2 st2] eqn:E2.
    cbn [fst] in H. apply vjoin_conflict in H as [->| ->].
    + destruct (row_conflict (fun st y => f st x y) r st) as [y [st' [Hy Hf]]]; [rewrite E1; reflexivity|].
      exists x, y, st'. split; auto. constructor. exact Hy.
    + destruct (IH st1) as [x' [y' [st' [Hb Hf]]]]; [rewrite E2; reflexivity|].
      exists x', y', st'. split; auto. constructor. exact Hb.
Qed.

(* threading lemma for the completeness direction: [T x y V] = the pair (x,y) is accounted for in
   V, [C V k] = k is closed with respect to V; both monotone in V *)
Section Closure.
  Context {A K : Type}.
  Variable K_dec : forall a b : K, {a = b} + {a <> b}.
  Variable T : A -> A -> list K -> Prop.
  Variable C : list K -> K -> Prop.
  Hypothesis T_mono : forall x y V V', incl V V' -> T x y V -> T x y V'.
  Hypothesis C_mono : forall k V V', incl V V' -> C V k -> C V' k.

  Definition step_ok (v : list K) (x y : A) (r : verdict * list K) : Prop :=
    incl v (snd r) /\ (fst r = VNo -> T x y (snd r) /\ forall k, In k (snd r) -> ~ In k v -> C (snd r) k).

  Lemma row_closure (f : list K -> A -> verdict * list K) x l :
    (forall v y, In y l -> step_ok v x y (f v y)) ->
    forall st, incl st (snd (row f st l)) /\
      (fst (row f st l) = VNo ->
       (forall y, In y l -> T x y (snd (row f st l))) /\
       forall k, In k (snd (row f st l)) -> ~ In k st -> C (snd (row f st l)) k).
  Proof.
    induction l as [|y r IH]; intros H st; cbn [row].
    - cbn. split; [apply incl_refl|]. intros _. split; [intros ? []|]. intros k Hk Hn. contradiction.
    - destruct (H st y (or_introl eq_refl)) as [S1 S2].
      destruct (f st y) as [v1 st1]. cbn [fst snd] in S1, S2.
      destruct (IH (fun v y' Hy => H v y' (or_intror Hy)) st1) as [R1 R2].
      destruct (row f st1 r) as [v2 st2]. cbn [fst snd] in *.
      split; [eapply incl_tran; eauto|].
      intro Hv. apply vjoin_no in Hv as [-> ->].
      destruct (S2 eq_refl) as [S3 S4]. destruct (R2 eq_refl) as [R3 R4].
      split.
      + intros y' [<-|Hy]; [eapply T_mono; eauto | apply R3; exact Hy].
      + intros k Hk Hn. destruct (in_dec K_dec k st1) as [Hi|Hi].
        * eapply C_mono; [exact R1|]. apply S4; assumption.
        * apply R4; assumption.
  Qed.

  Lemma pairs_closure (f : list K -> A -> A -> verdict * list K) l :
    (forall v x y, In x l -> In y l -> step_ok v x y (f v x y)) ->
    forall st, incl st (snd (pairs f st l)) /\
      (fst (pairs f st l) = VNo ->
       (forall x y, before x y l -> T x y (snd (pairs f st l))) /\
       forall k, In k (snd (pairs f st l)) -> ~ In k st -> C (snd (pairs f st l)) k).
  Proof.
    induction l as [|x r IH]; intros H st; cbn [pairs].
    - cbn. split; [apply incl_refl|]. intros _. split; [intros ? ? Hb; inversion Hb|].
      intros k Hk Hn. contradiction.
    - destruct (row_closure (fun v y => f v x y) x r
                  (fun v y Hy => H v x y (or_introl eq_refl) (or_intror Hy)) st) as [R1 R2].
      destruct (row (fun v y => f v x y) st r) as [v1 st1]. cbn [fst snd] in R1, R2.
      destruct (IH (fun v x' y' Hx Hy => H v x' y' (or_intror Hx) (or_intror Hy)) st1) as [P1 P2].
      destruct (pairs f st1 r) as [v2 st2]. cbn [fst snd] in *.
      split; [eapply incl_tran; eauto|].
      intro Hv. apply vjoin_no in Hv as [-> ->].
      destruct (R2 eq_refl) as [R3 R4]. destruct (P2 eq_refl) as [P3 P4].
      split.
      + intros x' y' Hb. inversion Hb; subst.
        * eapply T_mono; [exact P1|]. apply R3. assumption.
        * apply P3. assumption.
      + intros k Hk Hn. destruct (in_dec K_dec k st1) as [Hi|Hi].
        * eapply C_mono; [exact P1|]. apply R4; assumption.
        * apply P4; assumption.
  Qed.
End Closure.

(* ---------------------------------------------------------------- the declarative reading *)
Section Spec.
  Variable s : schema.
  Variable d : document.
  Notation frags := (d_frags d).
  Notation cf := (length (d_frags d)).

  Definition ft (e : entry) : option ty := field_type s (e_parent e) (f_name (e_fld e)).

  (* "the parent types are different Object types" or an enclosing pair already was *)
  Definition excl_of (so : bool) (a b : entry) : bool :=
    so || (negb (e_parent a =? e_parent b) && is_object s (e_parent a) && is_object s (e_parent b)).

  (* the pair cannot be merged by itself: different field / arguments (unless exclusive), or
     different response shapes of the return types *)
  Definition direct (so : bool) (a b : entry) (ta tb : ty) : bool :=
    (negb (excl_of so a b)
     && (negb (f_name (e_fld a) =? f_name (e_fld b)) || negb (args_same (f_args (e_fld a)) (f_args (e_fld b)))))
    || shape_conflict s ta tb.

  (* mergedSet with fragments visited once *)
  Definition merged (a b : entry) (ta tb : ty) : option (list entry) :=
    match collect frags cf (named ta) (e_sub a) ([], []) with
    | None => None
    | Some st1 => match collect frags cf (named tb) (e_sub b) st1 with
                  | None => None
                  | Some st2 => Some (snd st2)
                  end
    end.

  (* fieldA and fieldB (same response name) cannot be merged; [so] = only SameResponseShape is required *)
  Inductive Conf : bool -> entry -> entry -> Prop :=
  | Conf_direct so a b ta tb :
      ft a = Some ta -> ft b = Some tb -> direct so a b ta tb = true -> Conf so a b
  | Conf_nested so a b ta tb l x y :
      ft a = Some ta -> ft b = Some tb -> direct so a b ta tb = false ->
      merged a b ta tb = Some l -> before x y l -> same_rname x y = true ->
      Conf (excl_of so a b) x y -> Conf so a b.

  (* FieldsInSetCanMerge(set) is false *)
  Definition SetConf (p : N) (ss : sels) : Prop :=
    exists st x y, collect frags cf p ss ([], []) = Some st /\
                   before x y (snd st) /\ same_rname x y = true /\ Conf false x y.

  Lemma conf_step_shape rec vis so a b ta tb :
    ft a = Some ta -> ft b = Some tb ->
    pkey_mem (f_id (e_fld a), f_id (e_fld b), so) vis = false ->
    conf_step s frags cf rec vis so a b =
    let vis1 := (f_id (e_fld a), f_id (e_fld b), so) :: vis in
    if direct so a b ta tb then (VConflict, vis1)
    else match merged a b ta tb with
         | None => (VFuel, vis1)
         | Some l => pairs (fun v x y => if same_rname x y then rec v (excl_of so a b) x y else (VNo, v)) vis1 l
         end.
  Proof.
    intros Ha Hb Hm. unfold conf_step, ft in *. rewrite Hm, Ha, Hb. cbv zeta.
    unfold direct, merged, excl_of.
    destruct (negb _ && _); cbn [orb]; [reflexivity|].
    destruct (shape_conflict s ta tb); [reflexivity|].
    destruct (collect frags cf (named ta) (e_sub a) ([], [])) as [st1|]; [|reflexivity].
    destruct (collect frags cf (named tb) (e_sub b) st1) as [st2|]; reflexivity.
  Qed.

  (* ---- soundness: a reported conflict has a derivation ---- *)
  Lemma conf_sound fuel : forall vis so a b,
    fst (conf s frags cf fuel vis so a b) = VConflict -> Conf so a b.
  Proof.
    induction fuel as [|f IH]; intros vis so a b H; cbn [conf] in H.
    - discriminate.
    - destruct (pkey_mem (f_id (e_fld a), f_id (e_fld b), so) vis) eqn:Em.
      { unfold conf_step in H. rewrite Em in H. discriminate. }
      destruct (ft a) as [ta|] eqn:Ea.
      2:{ unfold conf_step, ft in *. rewrite Em, Ea in H. discriminate. }
      destruct (ft b) as [tb|] eqn:Eb.
      2:{ unfold conf_step, ft in *. rewrite Em, Ea, Eb in H. discriminate. }
      rewrite (conf_step_shape _ vis so a b ta tb Ea Eb Em) in H. cbv zeta in H.
      destruct (direct so a b ta tb) eqn:Ed.
      + eapply Conf_direct; eauto.
      + destruct (merged a b ta tb) as [l|] eqn:El; [|discriminate].
        apply pairs_conflict in H as [x [y [v [Hb Hf]]]].
        destruct (same_rname x y) eqn:Er; [|discriminate].
        eapply Conf_nested; eauto.
  Qed.

  Theorem check_set_sound p ss : check_set s frags cf (depth_fuel d) p ss = VConflict -> SetConf p ss.
  Proof.
    unfold check_set. destruct (collect frags cf p ss ([], [])) as [st|] eqn:Ec; [|discriminate].
    intro H. apply pairs_conflict in H as [x [y [v [Hb Hf]]]].
    destruct (same_rname x y) eqn:Er; [|discriminate].
    exists st, x, y. repeat split; auto. eapply conf_sound. exact Hf.
  Qed.

  (* ---- field occurrences of the document ---- *)
  Inductive InDoc : N -> sels -> Prop :=
  | ID_op o : In o (d_ops d) -> InDoc (fst o) (snd o)
  | ID_frag fd : In fd frags -> InDoc (fr_type fd) (fr_body fd)
  | ID_field_rest p f sub rest : InDoc p (SelField f sub rest) -> InDoc p rest
  | ID_field_sub p f sub rest t :
      InDoc p (SelField f sub rest) -> field_type s p (f_name f) = Some t -> InDoc (named t) sub
  | ID_inline_rest p i tc sub rest : InDoc p (SelInline i tc sub rest) -> InDoc p rest
  | ID_inline_sub p i tc sub rest :
      InDoc p (SelInline i tc sub rest) -> InDoc (match tc with Some t => t | None => p end) sub
  | ID_spread_rest p n rest : InDoc p (SelSpread n rest) -> InDoc p rest.

  Definition EntryOk (e : entry) : Prop :=
    exists rest, InDoc (e_parent e) (SelField (e_fld e) (e_sub e) rest).

  Definition collects_ok (c : collect_fn) : Prop :=
    forall p ss st st', InDoc p ss -> Forall EntryOk (snd st) -> c p ss st = Some st' -> Forall EntryOk (snd st').

  Lemma collect_go_entries rec : collects_ok rec -> collects_ok (collect_go frags rec).
  Proof.
    intros Hrec p ss. revert p.
    induction ss as [|f sub IHsub rest IHrest|iid tc sub IHsub rest IHrest|n rest IHrest];
      intros p st st' Hin Hok H; cbn [collect_go] in H.
    - inversion H; subst. exact Hok.
    - eapply IHrest; [eapply ID_field_rest; eauto| |exact H]. cbn [snd].
      apply Forall_app. split; auto. constructor; auto. exists rest. exact Hin.
    - destruct (collect_go frags rec (match tc with Some t => t | None => p end) sub st) as [st1|] eqn:E1;
        [|discriminate].
      eapply IHrest; [eapply ID_inline_rest; eauto| |exact H].
      eapply IHsub; [eapply ID_inline_sub; eauto|exact Hok|exact E1].
    - assert (Hr : InDoc p rest) by (eapply ID_spread_rest; eauto).
      destruct (mem n (fst st)); [eapply IHrest; eauto|].
      destruct (find_frag frags n) as [fd|] eqn:Ef.
      + destruct (rec (fr_type fd) (fr_body fd) (n :: fst st, snd st)) as [st1|] eqn:E1; [|discriminate].
        apply find_frag_some in Ef as [Hfd _].
        eapply IHrest; [exact Hr| |exact H].
        eapply Hrec; [apply ID_frag; exact Hfd| |exact E1]. exact Hok.
      + eapply IHrest; [exact Hr| |exact H]. exact Hok.
  Qed.

  Lemma collect_entries fuel : collects_ok (collect frags fuel).
  Proof.
    induction fuel as [|f IH]; cbn [collect]; apply collect_go_entries.
    - intros p ss st st' _ _ H. discriminate.
    - exact IH.
  Qed.

  Lemma merged_entries a b ta tb l :
    EntryOk a -> EntryOk b -> ft a = Some ta -> ft b = Some tb -> merged a b ta tb = Some l ->
    Forall EntryOk l.
  Proof.
    intros [ra Ha] [rb Hb] Hta Htb H. unfold merged in H.
    destruct (collect frags cf (named ta) (e_sub a) ([], [])) as [st1|] eqn:E1; [|discriminate].
    destruct (collect frags cf (named tb) (e_sub b) st1) as [st2|] eqn:E2; [|discriminate].
    inversion H; subst.
    eapply collect_entries; [|
      eapply collect_entries; [| |exact E1]|exact E2].
    - eapply ID_field_sub; [exact Hb|exact Htb].
    - eapply ID_field_sub; [exact Ha|exact Hta].
    - constructor.
  Qed.

  (* ---- completeness: the search misses no derivation (ids identify field occurrences) ---- *)
  Hypothesis Hid : forall e e', EntryOk e -> EntryOk e' -> f_id (e_fld e) = f_id (e_fld e') -> e = e'.

  Definition key (so : bool) (a b : entry) : N * N * bool := (f_id (e_fld a), f_id (e_fld b), so).

  (* a visited pair that neither conflicts directly nor has an unvisited nested pair *)
  Definition closed (V : list (N * N * bool)) (k : N * N * bool) : Prop :=
    forall so a b, EntryOk a -> EntryOk b -> key so a b = k ->
      exists ta tb l, ft a = Some ta /\ ft b = Some tb /\ direct so a b ta tb = false /\
                      merged a b ta tb = Some l /\
                      forall x y, before x y l -> same_rname x y = true -> In (key (excl_of so a b) x y) V.

  Lemma closed_mono k V V' : incl V V' -> closed V k -> closed V' k.
  Proof.
    intros Hi Hc so a b Ha Hb Hk. destruct (Hc so a b Ha Hb Hk) as [ta [tb [l [H1 [H2 [H3 [H4 H5]]]]]]].
    exists ta, tb, l. repeat split; auto.
  Qed.

  Definition pkey_dec : forall a b : N * N * bool, {a = b} + {a <> b}.
  Proof. decide equality; [apply Bool.bool_dec | decide equality; apply N.eq_dec]. Defined.

  Lemma conf_complete fuel : forall vis so a b, EntryOk a -> EntryOk b ->
    let r := conf s frags cf fuel vis so a b in
    incl vis (snd r) /\
    (fst r = VNo -> In (key so a b) (snd r) /\ forall k, In k (snd r) -> ~ In k vis -> closed (snd r) k).
  Proof.
    induction fuel as [|f IH]; intros vis so a b Ha Hb; cbn zeta; cbn [conf].
    - cbn. split; [apply incl_refl | discriminate].
    - destruct (pkey_mem (f_id (e_fld a), f_id (e_fld b), so) vis) eqn:Em.
      { unfold conf_step. rewrite Em. cbn [fst snd]. split; [apply incl_refl|]. intros _.
        split; [apply pkey_mem_In; exact Em|]. intros k Hk Hn. contradiction. }
      destruct (ft a) as [ta|] eqn:Ea.
      2:{ unfold conf_step, ft in *. rewrite Em, Ea. cbn [fst snd]. split; [apply incl_tl, incl_refl | discriminate]. }
      destruct (ft b) as [tb|] eqn:Eb.
      2:{ unfold conf_step, ft in *. rewrite Em, Ea, Eb. cbn [fst snd]. split; [apply incl_tl, incl_refl | discriminate]. }
      rewrite (conf_step_shape _ vis so a b ta tb Ea Eb Em). cbv zeta.
      destruct (direct so a b ta tb) eqn:Ed.
      { cbn [fst snd]. split; [apply incl_tl, incl_refl | discriminate]. }
      destruct (merged a b ta tb) as [l|] eqn:El.
      2:{ cbn [fst snd]. split; [apply incl_tl, incl_refl | discriminate]. }
      pose proof (merged_entries a b ta tb l Ha Hb Ea Eb El) as Hl. rewrite Forall_forall in Hl.
      set (k0 := (f_id (e_fld a), f_id (e_fld b), so)).
      set (g := fun v x y => if same_rname x y then conf s frags cf f v (excl_of so a b) x y else (VNo, v)).
      destruct (pairs_closure pkey_dec
                  (fun x y V => same_rname x y = true -> In (key (excl_of so a b) x y) V)
                  closed
                  (fun x y V V' Hi HT Hr => Hi _ (HT Hr))
                  closed_mono g l) with (st := k0 :: vis) as [P1 P2].
      { intros v x y Hx Hy. unfold step_ok, g. destruct (same_rname x y) eqn:Er.
        - destruct (IH v (excl_of so a b) x y (Hl x Hx) (Hl y Hy)) as [I1 I2]. split; auto.
          intro Hv. destruct (I2 Hv) as [I3 I4]. split; auto.
        - cbn [fst snd]. split; [apply incl_refl|]. intros _. split; [discriminate|].
          intros k Hk Hn. contradiction. }
      split.
      + intros z Hz. apply P1. right. exact Hz.
      + intro Hv. destruct (P2 Hv) as [P3 P4]. split.
        * apply P1. left. reflexivity.
        * intros k Hk Hn. destruct (pkey_dec k k0) as [->|Hne].
          -- (* the pair itself is closed *)
             intros so' a' b' Ha' Hb' Hk'. unfold key, k0 in Hk'. inversion Hk'; subst so'.
             assert (a' = a) by (apply Hid; auto). assert (b' = b) by (apply Hid; auto). subst a' b'.
             exists ta, tb, l. repeat split; auto.
          -- apply P4; auto. intros [Hc|Hc]; [congruence | contradiction].
  Qed.

  (* a closed visited set contains no pair with a derivation *)
  Lemma closed_no_conf V : (forall k, In k V -> closed V k) ->
    forall so a b, Conf so a b -> EntryOk a -> EntryOk b -> In (key so a b) V -> False.
  Proof.
    intros HV so a b H. induction H as [so a b ta tb Ha Hb Hd | so a b ta tb l x y Ha Hb Hd Hm Hbf Hr Hc IH];
      intros Hoa Hob Hin.
    - destruct (HV _ Hin so a b Hoa Hob eq_refl) as [ta' [tb' [l [H1 [H2 [H3 _]]]]]].
      rewrite Ha in H1. rewrite Hb in H2. inversion H1; inversion H2; subst. congruence.
    - destruct (HV _ Hin so a b Hoa Hob eq_refl) as [ta' [tb' [l' [H1 [H2 [H3 [H4 H5]]]]]]].
      rewrite Ha in H1. rewrite Hb in H2. inversion H1; inversion H2; subst ta' tb'.
      rewrite Hm in H4. inversion H4; subst l'.
      pose proof (merged_entries a b ta tb l Hoa Hob Ha Hb Hm) as Hl. rewrite Forall_forall in Hl.
      destruct (before_in x y l Hbf) as [Hx Hy].
      apply IH; auto.
  Qed.

  Theorem check_set_complete p ss :
    InDoc p ss -> SetConf p ss -> check_set s frags cf (depth_fuel d) p ss <> VNo.
  Proof.
    intros Hin [st [x [y [Hc [Hb [Hr Hconf]]]]]] Hv. unfold check_set in Hv. rewrite Hc in Hv.
    assert (Hst : Forall EntryOk (snd st)).
    { eapply collect_entries; [exact Hin| |exact Hc]. constructor. }
    rewrite Forall_forall in Hst.
    set (g := fun v x y => if same_rname x y then conf s frags cf (depth_fuel d) v false x y else (VNo, v)) in *.
    destruct (pairs_closure pkey_dec
                (fun x y V => same_rname x y = true -> In (key false x y) V)
                closed
                (fun x y V V' Hi HT Hr => Hi _ (HT Hr))
                closed_mono g (snd st)) with (st := @nil (N * N * bool)) as [P1 P2].
    { intros v x' y' Hx Hy. unfold step_ok, g. destruct (same_rname x' y') eqn:Er.
      - destruct (conf_complete (depth_fuel d) v false x' y' (Hst x' Hx) (Hst y' Hy)) as [I1 I2]. split; auto.
        intro Hv'. destruct (I2 Hv') as [I3 I4]. split; auto.
      - cbn [fst snd]. split; [apply incl_refl|]. intros _. split; [discriminate|].
        intros k Hk Hn. contradiction. }
    destruct (P2 Hv) as [P3 P4].
    destruct (before_in x y (snd st) Hb) as [Hx Hy].
    eapply (closed_no_conf (snd (pairs g [] (snd st)))); eauto.
  Qed.
End Spec.

(* ---------------------------------------------------------------- the whole document *)
Section Doc.
  Variable s : schema.
  Variable d : document.
  Notation frags := (d_frags d).

  (* the selection sets below (p, ss) on which the rule is evaluated, with the type they apply to *)
  Fixpoint checked_sets (p : N) (ss : sels) : list (N * sels) :=
    match ss with
    | SelNil => []
    | SelField f sub rest =>
      (match field_type s p (f_name f) with
       | None => []
       | Some t => match sub with
                   | SelNil => []
                   | _ => (named t, sub) :: checked_sets (named t) sub
                   end
       end) ++ checked_sets p rest
    | SelInline _ tc sub rest =>
      let p' := match tc with Some t => t | None => p end in
      (if is_composite s p' then (p', sub) :: checked_sets p' sub else []) ++ checked_sets p rest
    | SelSpread _ rest => checked_sets p rest
    end.

  Definition root_sets (p : N) (ss : sels) : list (N * sels) :=
    if is_composite s p then (p, ss) :: checked_sets p ss else [].

  (* "any selection set defined in the GraphQL document" *)
  Definition doc_sets : list (N * sels) :=
    flat_map (fun o => root_sets (fst o) (snd o)) (d_ops d) ++
    flat_map (fun fd => root_sets (fr_type fd) (fr_body fd)) frags.

  Definition DocConf : Prop := exists p ss, In (p, ss) doc_sets /\ SetConf s d p ss.

  Lemma walk_no chk : forall ss p, walk s chk p ss = VNo ->
    forall q t, In (q, t) (checked_sets p ss) -> chk q t = VNo.
  Proof.
    induction ss as [|f sub IHsub rest IHrest|iid tc sub IHsub rest IHrest|n rest IHrest];
      intros p H q t Hin; cbn [walk checked_sets] in *.
    - contradiction.
    - apply vjoin_no in H as [H1 H2]. apply in_app_or in Hin as [Hin|Hin]; [|eapply IHrest; eauto].
      destruct (field_type s p (f_name f)) as [ty|]; [|contradiction].
      destruct sub; [contradiction| | |];
        (apply vjoin_no in H1 as [H3 H4]; destruct Hin as [Hin|Hin];
         [inversion Hin; subst; exact H3 | eapply IHsub; eauto]).
    - apply vjoin_no in H as [H1 H2]. apply in_app_or in Hin as [Hin|Hin]; [|eapply IHrest; eauto].
      destruct (is_composite s match tc with Some t0 => t0 | None => p end); [|contradiction].
      apply vjoin_no in H1 as [H3 H4]. destruct Hin as [Hin|Hin];
        [inversion Hin; subst; exact H3 | eapply IHsub; eauto].
    - eapply IHrest; eauto.
  Qed.

  Lemma walk_conflict chk : forall ss p, walk s chk p ss = VConflict ->
    exists q t, In (q, t) (checked_sets p ss) /\ chk q t = VConflict.
  Proof.
    induction ss as [|f sub IHsub rest IHrest|iid tc sub IHsub rest IHrest|n rest IHrest];
      intros p H; cbn [walk checked_sets] in *.
    - discriminate.
    - apply vjoin_conflict in H as [H|H].
      + destruct (field_type s p (f_name f)) as [ty|]; [|discriminate].
        destruct sub; [discriminate| | |];
          (apply vjoin_conflict in H as [H|H];
           [eexists; eexists; split; [apply in_or_app; left; left; reflexivity | exact H]
           | destruct (IHsub _ H) as [q [t [Hi Hc]]]; exists q, t; split; auto;
             apply in_or_app; left; right; exact Hi]).
      + destruct (IHrest _ H) as [q [t [Hi Hc]]]. exists q, t. split; auto. apply in_or_app. right. exact Hi.
    - apply vjoin_conflict in H as [H|H].
      + destruct (is_composite s match tc with Some t0 => t0 | None => p end); [|discriminate].
        apply vjoin_conflict in H as [H|H].
        * eexists; eexists; split; [apply in_or_app; left; left; reflexivity | exact H].
        * destruct (IHsub _ H) as [q [t [Hi Hc]]]. exists q, t. split; auto.
          apply in_or_app. left. right. exact Hi.
      + destruct (IHrest _ H) as [q [t [Hi Hc]]]. exists q, t. split; auto. apply in_or_app. right. exact Hi.
    - apply IHrest. exact H.
  Qed.

  Lemma checked_sets_indoc : forall ss p q t,
    InDoc s d p ss -> In (q, t) (checked_sets p ss) -> InDoc s d q t.
  Proof.
    induction ss as [|f sub IHsub rest IHrest|iid tc sub IHsub rest IHrest|n rest IHrest];
      intros p q t Hd Hin; cbn [checked_sets] in Hin.
    - contradiction.
    - apply in_app_or in Hin as [Hin|Hin].
      + destruct (field_type s p (f_name f)) as [ty|] eqn:Et; [|contradiction].
        assert (Hs : InDoc s d (named ty) sub) by (eapply ID_field_sub; eauto).
        destruct sub; [contradiction| | |];
          (destruct Hin as [Hin|Hin]; [inversion Hin; subst; exact Hs | eapply IHsub; eauto]).
      + eapply IHrest; [eapply ID_field_rest; eauto | exact Hin].
    - apply in_app_or in Hin as [Hin|Hin].
      + assert (Hs : InDoc s d (match tc with Some t0 => t0 | None => p end) sub) by (eapply ID_inline_sub; eauto).
        destruct (is_composite s match tc with Some t0 => t0 | None => p end); [|contradiction].
        destruct Hin as [Hin|Hin]; [inversion Hin; subst; exact Hs | eapply IHsub; eauto].
      + eapply IHrest; [eapply ID_inline_rest; eauto | exact Hin].
    - eapply IHrest; [eapply ID_spread_rest; eauto | exact Hin].
  Qed.

  Lemma doc_sets_indoc p ss : In (p, ss) doc_sets -> InDoc s d p ss.
  Proof.
    unfold doc_sets, root_sets. intro H. apply in_app_or in H as [H|H]; apply in_flat_map in H as [x [Hx H]].
    - destruct (is_composite s (fst x)); [|contradiction].
      destruct H as [H|H]; [inversion H; subst; apply ID_op; exact Hx|].
      eapply checked_sets_indoc; [apply ID_op; exact Hx | exact H].
    - destruct (is_composite s (fr_type x)); [|contradiction].
      destruct H as [H|H]; [inversion H; subst; apply ID_frag; exact Hx|].
      eapply checked_sets_indoc; [apply ID_frag; exact Hx | exact H].
  Qed.

  Lemma fold_vjoin_no {A} (f : A -> verdict) l :
    fold_right (fun x acc => vjoin (f x) acc) VNo l = VNo -> forall x, In x l -> f x = VNo.
  Proof.
    induction l as [|a l IH]; cbn; intros H x Hx; [contradiction|].
    apply vjoin_no in H as [H1 H2]. destruct Hx as [<-|Hx]; auto.
  Qed.

  Lemma fold_vjoin_conflict {A} (f : A -> verdict) l :
    fold_right (fun x acc => vjoin (f x) acc) VNo l = VConflict -> exists x, In x l /\ f x = VConflict.
  Proof.
    induction l as [|a l IH]; cbn; intro H; [discriminate|].
    apply vjoin_conflict in H as [H|H]; [exists a; auto|].
    destruct (IH H) as [x [Hx Hf]]. exists x. auto.
  Qed.

  Let chk := check_set s frags (collect_fuel d) (depth_fuel d).

  Lemma check_root_conflict p ss : check_root s chk p ss = VConflict ->
    exists q t, In (q, t) (root_sets p ss) /\ chk q t = VConflict.
  Proof.
    unfold check_root, root_sets. destruct (is_composite s p); [|discriminate]. intro H.
    apply vjoin_conflict in H as [H|H].
    - exists p, ss. split; [left; reflexivity | exact H].
    - destruct (walk_conflict chk ss p H) as [q [t [Hi Hc]]]. exists q, t. split; [right; exact Hi | exact Hc].
  Qed.

  Lemma check_root_no p ss : check_root s chk p ss = VNo ->
    forall q t, In (q, t) (root_sets p ss) -> chk q t = VNo.
  Proof.
    unfold check_root, root_sets. destruct (is_composite s p); [|discriminate]. intros H q t Hin.
    apply vjoin_no in H as [H1 H2]. destruct Hin as [Hin|Hin].
    - inversion Hin; subst. exact H1.
    - eapply walk_no; eauto.
  Qed.

  Theorem spec_sound : spec_conflicts s d = true -> DocConf.
  Proof.
    unfold spec_conflicts. destruct (spec_verdict s d) eqn:Ev; try discriminate. intros _.
    unfold spec_verdict in Ev. fold chk in Ev.
    apply vjoin_conflict in Ev as [Ev|Ev].
    - apply (fold_vjoin_conflict (fun o => check_root s chk (fst o) (snd o))) in Ev as [o [Ho Hc]].
      destruct (check_root_conflict _ _ Hc) as [q [t [Hi Hq]]].
      exists q, t. split.
      + unfold doc_sets. apply in_or_app. left. apply in_flat_map. exists o. auto.
      + apply check_set_sound. exact Hq.
    - apply (fold_vjoin_conflict (fun fd => check_root s chk (fr_type fd) (fr_body fd))) in Ev as [fd [Hf Hc]].
      destruct (check_root_conflict _ _ Hc) as [q [t [Hi Hq]]].
      exists q, t. split.
      + unfold doc_sets. apply in_or_app. right. apply in_flat_map. exists fd. auto.
      + apply check_set_sound. exact Hq.
  Qed.

  Hypothesis Hid : forall e e', EntryOk s d e -> EntryOk s d e' -> f_id (e_fld e) = f_id (e_fld e') -> e = e'.

  Theorem spec_complete : DocConf -> spec_verdict s d <> VUntyped -> spec_conflicts s d = true.
  Proof.
    intros [p [ss [Hin Hc]]] Hu. unfold spec_conflicts.
    pose proof (spec_verdict_terminates s d) as Hf.
    destruct (spec_verdict s d) eqn:Ev; try reflexivity; try contradiction.
    exfalso. unfold spec_verdict in Ev. fold chk in Ev. apply vjoin_no in Ev as [E1 E2].
    assert (Hno : chk p ss = VNo).
    { unfold doc_sets in Hin. apply in_app_or in Hin as [Hin|Hin]; apply in_flat_map in Hin as [x [Hx Hin]].
      - eapply check_root_no; [|exact Hin].
        apply (fold_vjoin_no (fun o => check_root s chk (fst o) (snd o)) _ E1 x Hx).
      - eapply check_root_no; [|exact Hin].
        apply (fold_vjoin_no (fun fd => check_root s chk (fr_type fd) (fr_body fd)) _ E2 x Hx). }
    revert Hno. apply check_set_complete; auto. apply doc_sets_indoc. exact Hin.
  Qed.
End Doc.

(* ---------------------------------------------------------------- unique ids identify occurrences *)
Section Ids.
  Variable s : schema.
  Variable d : document.

  Fixpoint occ (p : N) (ss : sels) : list entry :=
    match ss with
    | SelNil => []
    | SelField f sub rest =>
      mkEntry p f sub ::
      occ (match field_type s p (f_name f) with Some t => named t | None => 0 end) sub ++ occ p rest
    | SelInline _ tc sub rest => occ (match tc with Some t => t | None => p end) sub ++ occ p rest
    | SelSpread _ rest => occ p rest
    end.

  Definition efid (e : entry) : N := f_id (e_fld e).

  Lemma occ_fids : forall ss p, map efid (occ p ss) = fids_sels ss.
  Proof.
    induction ss as [|f sub IHsub rest IHrest|iid tc sub IHsub rest IHrest|n rest IHrest];
      intro p; cbn [occ fids_sels map]; auto.
    - rewrite map_app, IHsub, IHrest. reflexivity.
    - rewrite map_app, IHsub, IHrest. reflexivity.
  Qed.

  Definition doc_occ : list entry :=
    flat_map (fun o => occ (fst o) (snd o)) (d_ops d) ++
    flat_map (fun fd => occ (fr_type fd) (fr_body fd)) (d_frags d).

  Lemma map_flat_map {A B C} (f : B -> C) (g : A -> list B) l :
    map f (flat_map g l) = flat_map (fun x => map f (g x)) l.
  Proof. induction l; cbn; auto. rewrite map_app, IHl. reflexivity. Qed.

  Lemma doc_occ_fids : map efid doc_occ = doc_fids d.
  Proof.
    unfold doc_occ, doc_fids. rewrite map_app, !map_flat_map. f_equal.
    - apply flat_map_ext. intro o. apply occ_fids.
    - apply flat_map_ext. intro fd. apply occ_fids.
  Qed.

  Lemma indoc_occ p ss : InDoc s d p ss -> incl (occ p ss) doc_occ.
  Proof.
    induction 1 as [o Ho|fd Hf|p f sub rest _ IH|p f sub rest t _ IH Ht|p i tc sub rest _ IH
                   |p i tc sub rest _ IH|p n rest _ IH]; intros e He.
    - unfold doc_occ. apply in_or_app. left. apply in_flat_map. exists o. auto.
    - unfold doc_occ. apply in_or_app. right. apply in_flat_map. exists fd. auto.
    - apply IH. cbn [occ]. right. apply in_or_app. right. exact He.
    - apply IH. cbn [occ]. rewrite Ht. right. apply in_or_app. left. exact He.
    - apply IH. cbn [occ]. apply in_or_app. right. exact He.
    - apply IH. cbn [occ]. apply in_or_app. left. exact He.
    - apply IH. exact He.
  Qed.

  Lemma nodupb_NoDup l : nodupb l = true -> NoDup l.
  Proof.
    induction l as [|x l IH]; cbn; intro H; constructor.
    - apply andb_true_iff in H as [H _]. intro Hc. apply mem_In in Hc. rewrite Hc in H. discriminate.
    - apply andb_true_iff in H as [_ H]. auto.
  Qed.

  Lemma nodup_map_inj {A B} (f : A -> B) l : NoDup (map f l) ->
    forall x y, In x l -> In y l -> f x = f y -> x = y.
  Proof.
    induction l as [|a l IH]; cbn; intros H x y Hx Hy Hf; [contradiction|].
    inversion H as [|? ? Hn Hr]; subst.
    destruct Hx as [->|Hx], Hy as [->|Hy]; auto.
    - exfalso. apply Hn. rewrite Hf. apply in_map. exact Hy.
    - exfalso. apply Hn. rewrite <- Hf. apply in_map. exact Hx.
  Qed.

  Theorem unique_ids_identify : nodupb (doc_fids d) = true ->
    forall e e', EntryOk s d e -> EntryOk s d e' -> f_id (e_fld e) = f_id (e_fld e') -> e = e'.
  Proof.
    intros Hn e e' [r Hr] [r' Hr'] Hf.
    apply nodupb_NoDup in Hn. rewrite <- doc_occ_fids in Hn.
    apply (nodup_map_inj efid doc_occ Hn); auto.
    - apply (indoc_occ _ _ Hr). destruct e. cbn. left. reflexivity.
    - apply (indoc_occ _ _ Hr'). destruct e'. cbn. left. reflexivity.
  Qed.
End Ids.

(* The specification function decides the declarative reading: on a document whose field ids are
   unique and that can be typed, [spec_conflicts] holds iff some selection set of the document has
   two fields with the same response name and a derivation that they cannot be merged. *)
Theorem spec_adequate s d :
  nodupb (doc_fids d) = true -> spec_verdict s d <> VUntyped ->
  (spec_conflicts s d = true <-> DocConf s d).
Proof.
  intros Hn Hu. split.
  - apply spec_sound.
  - intro H. apply spec_complete; auto. apply unique_ids_identify. exact Hn.
Qed.
