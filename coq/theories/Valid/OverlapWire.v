(* Wire decoding for the C14 models (used by Run/RunOverlap.v only). *)
From GV Require Import Base.Prelude Valid.Overlap Valid.PairSet.

Definition nat_of (n : N) : nat := N.to_nat n.

Fixpoint dec_ty (fuel : nat) (l : list N) : option (ty * list N) :=
  match fuel with
  | O => None
  | S f =>
    match l with
    | 0 :: n :: r => Some (TNamed n, r)
    | 1 :: r => match dec_ty f r with Some (t, r') => Some (TList t, r') | None => None end
    | 2 :: r => match dec_ty f r with Some (t, r') => Some (TNonNull t, r') | None => None end
    | _ => None
    end
  end.

Fixpoint dec_fields (cnt : nat) (l : list N) : option (list (N * ty) * list N) :=
  match cnt with
  | O => Some ([], l)
  | S c =>
    match l with
    | nm :: r =>
      match dec_ty 64 r with
      | Some (t, r') => match dec_fields c r' with
                        | Some (fs, r'') => Some ((nm, t) :: fs, r'')
                        | None => None end
      | None => None end
    | [] => None
    end
  end.

Definition dec_kind (k : N) : tkind :=
  if k =? 0 then KObject else if k =? 1 then KInterface else if k =? 2 then KUnion else KLeaf.

Fixpoint dec_types (cnt : nat) (l : list N) : option (schema * list N) :=
  match cnt with
  | O => Some ([], l)
  | S c =>
    match l with
    | nm :: k :: nf :: r =>
      match dec_fields (nat_of nf) r with
      | Some (fs, r') => match dec_types c r' with
                         | Some (ts, r'') => Some (mkTdef nm (dec_kind k) fs :: ts, r'')
                         | None => None end
      | None => None end
    | _ => None
    end
  end.

Fixpoint dec_value (fuel : nat) (l : list N) : option (value * list N) :=
  match fuel with
  | O => None
  | S f =>
    match l with
    | 0 :: n :: r => Some (VVar n, r)
    | 1 :: tag :: len :: r => Some (VAtom tag (firstn (nat_of len) r), skipn (nat_of len) r)
    | 2 :: n :: r =>
      match (fix go (cnt : nat) (l : list N) : option (list value * list N) :=
               match cnt with
               | O => Some ([], l)
               | S c => match dec_value f l with
                        | Some (v, l') => match go c l' with
                                          | Some (vs, l'') => Some (v :: vs, l'')
                                          | None => None end
                        | None => None end
               end) (nat_of n) r with
      | Some (vs, r') => Some (VList vs, r')
      | None => None
      end
    | 3 :: n :: r =>
      match (fix go (cnt : nat) (l : list N) : option (list (N * value) * list N) :=
               match cnt with
               | O => Some ([], l)
               | S c => match l with
                        | k :: l0 =>
                          match dec_value f l0 with
                          | Some (v, l') => match go c l' with
                                            | Some (vs, l'') => Some ((k, v) :: vs, l'')
                                            | None => None end
                          | None => None end
                        | [] => None end
               end) (nat_of n) r with
      | Some (fs, r') => Some (VObj fs, r')
      | None => None
      end
    | _ => None
    end
  end.

Fixpoint dec_args (cnt : nat) (l : list N) : option (list (N * value) * list N) :=
  match cnt with
  | O => Some ([], l)
  | S c =>
    match l with
    | k :: r => match dec_value 64 r with
                | Some (v, r') => match dec_args c r' with
                                  | Some (a, r'') => Some ((k, v) :: a, r'')
                                  | None => None end
                | None => None end
    | [] => None
    end
  end.

(* selection set: count, then items
   0 fid rname fname nargs args sels | 1 iid hastc tc sels | 2 name *)
Fixpoint dec_sels (fuel : nat) (l : list N) : option (sels * list N) :=
  match fuel with
  | O => None
  | S f =>
    match l with
    | n :: r =>
      (fix items (cnt : nat) (l : list N) : option (sels * list N) :=
         match cnt with
         | O => Some (SelNil, l)
         | S c =>
           match l with
           | 0 :: fid :: rn :: fn :: na :: r1 =>
             match dec_args (nat_of na) r1 with
             | Some (args, r2) =>
               match dec_sels f r2 with
               | Some (sub, r3) =>
                 match items c r3 with
                 | Some (rest, r4) => Some (SelField (mkFld fid rn fn args) sub rest, r4)
                 | None => None end
               | None => None end
             | None => None end
           | 1 :: iid :: has :: tc :: r1 =>
             match dec_sels f r1 with
             | Some (sub, r2) =>
               match items c r2 with
               | Some (rest, r3) =>
                 Some (SelInline iid (if has =? 0 then None else Some tc) sub rest, r3)
               | None => None end
             | None => None end
           | 2 :: nm :: r1 =>
             match items c r1 with
             | Some (rest, r2) => Some (SelSpread nm rest, r2)
             | None => None end
           | _ => None
           end
         end) (nat_of n) r
    | [] => None
    end
  end.

Fixpoint dec_ops (cnt : nat) (l : list N) : option (list (N * sels) * list N) :=
  match cnt with
  | O => Some ([], l)
  | S c =>
    match l with
    | root :: r => match dec_sels 64 r with
                   | Some (ss, r') => match dec_ops c r' with
                                      | Some (os, r'') => Some ((root, ss) :: os, r'')
                                      | None => None end
                   | None => None end
    | [] => None
    end
  end.

Fixpoint dec_frags (cnt : nat) (l : list N) : option (list fragdef * list N) :=
  match cnt with
  | O => Some ([], l)
  | S c =>
    match l with
    | nm :: tc :: r => match dec_sels 64 r with
                       | Some (ss, r') => match dec_frags c r' with
                                          | Some (fs, r'') => Some (mkFrag nm tc ss :: fs, r'')
                                          | None => None end
                       | None => None end
    | _ => None
    end
  end.

(* ntypes types nops ops nfrags frags *)
Definition dec_case (l : list N) : option (schema * document) :=
  match l with
  | nt :: r =>
    match dec_types (nat_of nt) r with
    | Some (s, no :: r1) =>
      match dec_ops (nat_of no) r1 with
      | Some (ops, nf :: r2) =>
        match dec_frags (nat_of nf) r2 with
        | Some (frs, []) => Some (s, mkDoc ops frs)
        | _ => None end
      | _ => None end
    | _ => None end
  | [] => None
  end.

(* text: len cps *)
Definition dec_text (l : list N) : option (text * list N) :=
  match l with
  | n :: r => if (length r <? nat_of n)%nat then None else Some (firstn (nat_of n) r, skipn (nat_of n) r)
  | [] => None
  end.

Fixpoint dec_ps_ops (cnt : nat) (l : list N) : option (list (bool * text * text * bool)) :=
  match cnt with
  | O => Some []
  | S c =>
    match l with
    | isadd :: e :: r =>
      match dec_text r with
      | Some (a, r1) =>
        match dec_text r1 with
        | Some (b, r2) =>
          match dec_ps_ops c r2 with
          | Some ops => Some ((negb (isadd =? 0), a, b, negb (e =? 0)) :: ops)
          | None => None end
        | None => None end
      | None => None end
    | _ => None
    end
  end.

Fixpoint dec_ops_ops (cnt : nat) (l : list N) : option (list (bool * N * text * bool)) :=
  match cnt with
  | O => Some []
  | S c =>
    match l with
    | isadd :: e :: a :: r =>
      match dec_text r with
      | Some (b, r1) =>
        match dec_ops_ops c r1 with
        | Some ops => Some ((negb (isadd =? 0), a, b, negb (e =? 0)) :: ops)
        | None => None end
      | None => None end
    | _ => None
    end
  end.
