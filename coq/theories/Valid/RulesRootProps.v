(* Proofs about Valid/RulesRoot.v (28 DeferStreamDirectiveOnRootField): the fuel rf_fuel is always
   sufficient (cyclic and undefined fragment spreads included), the visited set only grows, errors
   are only appended. *)
From GV Require Import Base.Prelude Lang.Ast Valid.Rules Valid.RulesBase Valid.RulesGraph
  Valid.RulesDir Valid.RulesRoot.

(* names of defined fragments not yet visited *)
Definition unc (fr : list (str * (path * node))) (col : list str) : nat :=
  length (filter (fun n => negb (mem n col)) (map fst fr)).

Lemma unc_le fr x col : (unc fr (x :: col) <= unc fr col)%nat.
Proof. apply filter_len_le. Qed.

Lemma unc_lt fr x col : In x (map fst fr) -> mem x col = false -> (unc fr (x :: col) < unc fr col)%nat.
Proof. apply filter_len_lt. Qed.

Lemma unc_nil fr : unc fr [] = length fr.
Proof. unfold unc. rewrite <- (map_length fst fr). induction (map fst fr); cbn; auto. Qed.

Lemma report_fst o st : fst (report o st) = fst st.
Proof. destruct o; reflexivity. Qed.

Lemma report_snd o st : exists l, snd (report o st) = snd st ++ l.
Proof. destruct o; cbn; [eauto | exists []; rewrite app_nil_r; reflexivity]. Qed.

(* what every step preserves: visited fragments stay visited, errors are only appended *)
Definition ext (st st' : rstate) : Prop :=
  (forall x, mem x (fst st) = true -> mem x (fst st') = true) /\ exists l, snd st' = snd st ++ l.

Lemma ext_refl st : ext st st.
Proof. split; [auto | exists []; rewrite app_nil_r; reflexivity]. Qed.

Lemma ext_trans a b c : ext a b -> ext b c -> ext a c.
Proof.
  intros [H1 [l1 E1]] [H2 [l2 E2]]. split; [auto|].
  exists (l1 ++ l2). rewrite E2, E1, app_assoc. reflexivity.
Qed.

Lemma ext_report o st : ext st (report o st).
Proof. split; [rewrite report_fst; auto | apply report_snd]. Qed.

Section Meas.
  Variable fr : list (str * (path * node)).
  Let m (st : rstate) : nat := unc fr (fst st).

  Definition good (B : nat) (st : rstate) (o : option rstate) : Prop :=
    (m st < B)%nat -> exists st', o = Some st' /\ (m st' <= m st)%nat /\ ext st st'.

  Lemma foldi_good {A} (f : nat -> A -> rstate -> option rstate) B l :
    (forall j a st, In a l -> good B st (f j a st)) ->
    forall j st, good B st (foldi f j l st).
  Proof.
    induction l as [|a l IH]; intros H j st Hm; cbn [foldi].
    - exists st. split; [reflexivity|]. split; [lia | apply ext_refl].
    - destruct (H j a st (or_introl eq_refl) Hm) as (st1 & -> & H1 & E1).
      destruct (IH (fun j a st Hin => H j a st (or_intror Hin)) (S j) st1) as (st2 & -> & H2 & E2); [lia|].
      exists st2. split; [reflexivity|]. split; [lia | eapply ext_trans; eauto].
  Qed.

  Section W.
    Variable spread : path -> node -> str -> rstate -> option rstate.
    Variable B : nat.
    Hypothesis Hs : forall sp sel name st, good B st (spread sp sel name st).

    (* one selection at sp (the body of the loop of wsel) *)
    Definition wsel1 (sp : path) (sel : node) (st : rstate) : option rstate :=
      match sel with
      | Nd KField _ => Some (report (first_dir n_stream sp 0 (sel_dirs sel)) st)
      | Nd KFragmentSpread (_ :: ANode nm :: _) => spread sp sel (name_str nm) st
      | Nd KInlineFragment (_ :: ANode s' :: _) =>
        wsel spread (sp ++ [(1, O)]%nat) s' (report (first_dir n_defer sp 0 (sel_dirs sel)) st)
      | _ => Some st
      end.

    Lemma wsel_unfold p sels r st :
      wsel spread p (Nd KSelectionSet (AList sels :: r)) st =
      foldi (fun j sel st => wsel1 (p ++ [(O, j)]) sel st) O sels st.
    Proof. reflexivity. Qed.

    Lemma good_id st : good B st (Some st).
    Proof. intros _. exists st. split; [reflexivity|]. split; [lia | apply ext_refl]. Qed.

    Lemma wsel_good_both n :
      (forall p st, good B st (wsel spread p n st)) /\ (forall sp st, good B st (wsel1 sp n st)).
    Proof.
      induction n as [k attrs IH] using node_ind2. split.
      - intros p st.
        destruct k; try apply good_id.
        destruct attrs as [|[| | sels | | |] r]; try apply good_id.
        rewrite wsel_unfold. apply foldi_good. intros j sel st0 Hin.
        inversion IH as [|a0 r0 Ha _]; subst. inversion Ha as [| |l0 Hall| | |]; subst.
        rewrite Forall_forall in Hall. apply (Hall sel Hin).
      - intros sp st.
        destruct k; try apply good_id.
        + (* field *)
          intros _. cbn [wsel1]. eexists. split; [reflexivity|]. split.
          * unfold m. rewrite report_fst. lia.
          * apply ext_report.
        + (* spread *)
          destruct attrs as [|a1 [|[| nm | | | |] r1]]; try apply good_id. apply Hs.
        + (* inline fragment *)
          destruct attrs as [|a1 [|[| s' | | | |] r1]]; try apply good_id.
          inversion IH as [|? ? _ H1]; subst. inversion H1 as [|? ? H2 _]; subst.
          inversion H2 as [|? Hs'| | | |]; subst. destruct Hs' as [Hs' _].
          intros Hm. cbn [wsel1].
          destruct (Hs' (sp ++ [(1, 0)])%nat
                        (report (first_dir n_defer sp 0 (sel_dirs (Nd KInlineFragment (a1 :: ANode s' :: r1)))) st))
            as (st1 & E & H3 & E3).
          * unfold m. rewrite report_fst. exact Hm.
          * exists st1. split; [exact E|]. split.
            -- unfold m in *. rewrite report_fst in H3. exact H3.
            -- eapply ext_trans; [apply ext_report | exact E3].
    Qed.

    Lemma wsel_good ss : forall p st, good B st (wsel spread p ss st).
    Proof. apply wsel_good_both. Qed.
  End W.

  Lemma rf_good fuel : forall p ss st, good fuel st (rf fuel fr p ss st).
  Proof.
    induction fuel as [|f IH]; intros p ss st.
    - intros Hm. lia.
    - change (rf (S f) fr) with
        (wsel (fun sp sel name st =>
           if mem name (fst st) then Some st
           else
             let st1 := (name :: fst st, snd st) in
             match lookup name fr with
             | Some (fp, fss) => rf f fr fp fss (report (first_dir n_defer sp 0 (sel_dirs sel)) st1)
             | None => Some st1
             end)).
      apply wsel_good. intros sp sel name st0 Hm.
      destruct (mem name (fst st0)) eqn:Em.
      + exists st0. split; [reflexivity|]. split; [lia | apply ext_refl].
      + cbv zeta.
        assert (Hext : ext st0 (name :: fst st0, snd st0)).
        { split; [|exists []; rewrite app_nil_r; reflexivity].
          intros x Hx. cbn [fst mem]. rewrite Hx. apply orb_true_r. }
        destruct (lookup name fr) as [[fp fss]|] eqn:El.
        * assert (Hin : In name (map fst fr)).
          { apply lookup_Some_In in El. apply in_map_iff. exists (name, (fp, fss)). auto. }
          pose proof (unc_lt fr name (fst st0) Hin Em) as Hlt.
          destruct (IH fp fss (report (first_dir n_defer sp 0 (sel_dirs sel)) (name :: fst st0, snd st0)))
            as (st1 & E & H1 & E1).
          { unfold m in *. rewrite report_fst. cbn [fst]. lia. }
          exists st1. split; [exact E|]. split.
          -- unfold m in *. rewrite report_fst in H1. cbn [fst] in H1. lia.
          -- eapply ext_trans; [exact Hext|]. eapply ext_trans; [apply ext_report | exact E1].
        * exists (name :: fst st0, snd st0). split; [reflexivity|]. split; [|exact Hext].
          unfold m. cbn [fst]. apply unc_le.
  Qed.
End Meas.

(* the fuel is sufficient *)
Theorem rf_total fr p ss : exists st, rf (rf_fuel fr) fr p ss ([], []) = Some st.
Proof.
  destruct (rf_good fr (rf_fuel fr) p ss ([], [])) as (st & E & _).
  - cbn [fst]. rewrite unc_nil. unfold rf_fuel. lia.
  - eauto.
Qed.

Lemma opt_concat_total {A} (l : list (option (list A))) :
  (forall o, In o l -> exists x, o = Some x) -> exists y, opt_concat l = Some y.
Proof.
  induction l as [|o l IH]; intro H; cbn [opt_concat]; [eauto|].
  destruct (H o (or_introl eq_refl)) as (x & ->).
  destruct IH as (y & ->); [intros; apply H; right; auto|]. eauto.
Qed.

Theorem rule_root_field_total ds d : exists es, rule_root_field ds d = Some es.
Proof.
  unfold rule_root_field. apply opt_concat_total. intros o Hin.
  unfold mapi in Hin. apply In_mapi_from in Hin. destruct Hin as (j & n & _ & ->).
  destruct n as [k attrs]. destruct k; eauto.
  destruct attrs as [|[| ss | | | |] r]; eauto.
  destruct (op_code _); eauto.
  destruct (_ && _); eauto.
  destruct (rf_total (rf_frags d) [(O, O + j); (O, O)]%nat ss) as (st & ->). cbn. eauto.
Qed.

(* a document without mutation / subscription operations is never reported *)
Theorem rule_root_field_queries ds d :
  (forall n, In n (ddefs d) -> op_code n = Some 0 \/ op_code n = None) ->
  rule_root_field ds d = Some [].
Proof.
  intro H. unfold rule_root_field.
  assert (G : forall l j0, (forall n, In n l -> op_code n = Some 0 \/ op_code n = None) ->
              opt_concat (mapi_from (fun j n =>
                match n with
                | Nd KOperationDefinition (ANode ss :: _) =>
                  match op_code n with
                  | Some o => if ((o =? 1) || (o =? 2)) && has_root ds o
                              then option_map snd (rf (rf_fuel (rf_frags d)) (rf_frags d) [(O, j); (O, O)] ss ([], []))
                              else Some []
                  | None => Some []
                  end
                | _ => Some []
                end) j0 l) = Some (@nil verr)).
  { induction l as [|n l IH]; intros j0 Hl; cbn [mapi_from opt_concat]; [reflexivity|].
    rewrite (IH (S j0)) by (intros; apply Hl; right; auto).
    destruct (Hl n (or_introl eq_refl)) as [E|E];
      destruct n as [k attrs]; destruct k; try reflexivity;
      destruct attrs as [|[| ss | | | |] r]; try reflexivity; rewrite E; reflexivity. }
  apply G. exact H.
Qed.

(* visited fragments stay visited, errors are only appended, the measure never grows *)
Theorem rf_ext fr fuel p ss st st' :
  (unc fr (fst st) < fuel)%nat -> rf fuel fr p ss st = Some st' ->
  ext st st' /\ (unc fr (fst st') <= unc fr (fst st))%nat.
Proof.
  intros Hm E. destruct (rf_good fr fuel p ss st Hm) as (st1 & E1 & H1 & X1).
  rewrite E in E1. inversion E1; subst. auto.
Qed.
