(* C13 / the expansion of a selection list through fragment spreads is finite when no fragment
   is cyclic.  Part A: on the execution model's document (acyclic spread graph over finitely
   many fragment definitions => a height bound OverlapBridge.hb exists).  Part B: the spread
   graph of the translated document (ToExec.to_exec) is a subgraph of the one
   NoFragmentCycles (Rules.rule_no_fragment_cycles, RulesSpec.Cyclic) speaks about. *)
From Coq Require Import Relations.
From GV Require Import Base.Prelude Lang.Ast Exec.Value Exec.Schema Exec.Spec Exec.SpecProps Exec.Typing
  Valid.Rules Valid.RulesBase Valid.RulesSpec Valid.RulesProps
  Valid.Rules13 Valid.ToExec Valid.RulesLit Valid.RulesTyping Valid.RulesTypingGlue
  Valid.ToOverlapProps Valid.OverlapBridge Valid.RulesDir Valid.RulesDirProps.

(* names of the fragment spreads anywhere inside a selection *)
Fixpoint xspr (x : selection) : list Value.str :=
  match x with
  | SField _ _ _ _ sub => flat_map xspr sub
  | SSpread n _ => [n]
  | SInline _ _ sub => flat_map xspr sub
  end.
Definition xsprs (L : list selection) : list Value.str := flat_map xspr L.

Section Fin.
  Variable frags : list fragment.

  Definition xedge (a b : Value.str) : Prop :=
    exists fr, find_frag a frags = Some fr /\ In b (xsprs (fr_sels fr)).

  Definition xacyclic : Prop := forall a, ~ clos_trans Value.str xedge a a.

  Definition resolved (b : Value.str) : Prop :=
    forall fr, find_frag b frags = Some fr -> exists n, hb frags n (fr_sels fr).

  Lemma hb_single_app n m x r : hb frags n [x] -> hb frags m r -> hb frags (Nat.max n m) (x :: r).
  Proof.
    intros H1 H2. change (x :: r) with ([x] ++ r). apply hb_app.
    - apply (hb_le frags n); [apply Nat.le_max_l | exact H1].
    - apply (hb_le frags m); [apply Nat.le_max_r | exact H2].
  Qed.

  Definition hgoal (x : selection) : Prop :=
    (forall b, In b (xspr x) -> resolved b) -> exists n, hb frags n [x].

  Lemma list_height L : Forall hgoal L -> (forall b, In b (xsprs L) -> resolved b) -> exists n, hb frags n L.
  Proof.
    induction 1 as [|x r Hx Hr IH]; intro Hres.
    - exists O. reflexivity.
    - destruct Hx as [n Hn]. { intros b Hb. apply Hres. unfold xsprs. cbn. apply in_app_iff. left. exact Hb. }
      destruct IH as [m Hm]. { intros b Hb. apply Hres. unfold xsprs. cbn. apply in_app_iff. right. exact Hb. }
      exists (Nat.max n m). apply hb_single_app; assumption.
  Qed.

  Lemma sel_height x : hgoal x.
  Proof.
    induction x as [al nm args dirs sub IH|nm dirs|tc dirs sub IH] using selection_ind2; intro Hres.
    - destruct (list_height sub IH) as [n Hn]. { intros b Hb. apply Hres. exact Hb. }
      exists (S n). cbn [hb]. intros y [<-|[]]. exact Hn.
    - destruct (find_frag nm frags) as [fr|] eqn:Ef.
      + destruct (Hres nm (or_introl eq_refl) fr Ef) as [n Hn]. exists (S n). cbn [hb]. intros y [<-|[]].
        intros fr' Hf'. rewrite Ef in Hf'. inversion Hf'; subst. exact Hn.
      + exists 1%nat. cbn [hb]. intros y [<-|[]]. intros fr' Hf'. rewrite Ef in Hf'. discriminate.
    - destruct (list_height sub IH) as [n Hn]. { intros b Hb. apply Hres. exact Hb. }
      exists (S n). cbn [hb]. intros y [<-|[]]. exact Hn.
  Qed.

  Lemma sels_height L : (forall b, In b (xsprs L) -> resolved b) -> exists n, hb frags n L.
  Proof. apply list_height. apply Forall_forall. intros x _. apply sel_height. Qed.

  Lemma find_frag_name a fr : find_frag a frags = Some fr -> In a (map fr_name frags).
  Proof.
    induction frags as [|f r IH]; cbn; [discriminate|].
    destruct (str_eqb a (fr_name f)) eqn:E; intro H.
    - left. symmetry. apply str_eqb_eq. exact E.
    - right. apply IH. exact H.
  Qed.

  Hypothesis Hacyc : xacyclic.

  (* a: the current fragment, p: the distinct fragments on the way to it *)
  Lemma frag_height k : forall a p,
    NoDup (a :: p) -> (forall y, In y p -> clos_trans Value.str xedge y a) ->
    incl (a :: p) (map fr_name frags) ->
    (length (map fr_name frags) <= length (a :: p) + k)%nat ->
    resolved a.
  Proof.
    induction k as [|k IH]; intros a p Hnd Hpath Hincl Hlen fr Hf; apply sels_height; intros b Hb fr' Hf'.
    all: assert (Hab : xedge a b) by (exists fr; split; assumption).
    all: assert (Hnd' : NoDup (b :: a :: p)).
    1,3: constructor; [|exact Hnd]; intros [<-|Hin];
         [ apply (Hacyc a); apply t_step; exact Hab
         | apply (Hacyc b); apply t_trans with a; [apply Hpath; exact Hin | apply t_step; exact Hab] ].
    all: assert (Hincl' : incl (b :: a :: p) (map fr_name frags))
      by (intros y [<-|Hy]; [eapply find_frag_name; eauto | apply Hincl; exact Hy]).
    - exfalso. pose proof (NoDup_incl_length Hnd' Hincl') as Hl. cbn [length] in Hl, Hlen. lia.
    - refine (IH b (a :: p) Hnd' _ Hincl' _ fr' Hf').
      + intros y [<-|Hy]; [apply t_step; exact Hab|]. apply t_trans with a; [apply Hpath; exact Hy | apply t_step; exact Hab].
      + cbn [length] in *. lia.
  Qed.

  Theorem acyclic_finite L : exists n, hb frags n L.
  Proof.
    apply sels_height. intros b _ fr Hf.
    refine (frag_height (length (map fr_name frags)) b [] _ _ _ _ fr Hf).
    - constructor; [intros [] | constructor].
    - intros y [].
    - intros y [<-|[]]. eapply find_frag_name; eauto.
    - cbn. lia.
  Qed.
End Fin.

(* ---- Part B: the spreads of a translated selection set are among ValidationContext's ---- *)
Definition spart (p : path) (j : nat) (sel : node) : list spread * list spread :=
  match sel with
  | Nd KFragmentSpread _ => ([spread_of (p ++ [(O, j)]) sel], [])
  | Nd KField (_ :: _ :: _ :: _ :: ANode s' :: _) => ([], set_spreads (p ++ [(O, j); (4, O)])%nat s')
  | Nd KInlineFragment (_ :: ANode s' :: _) => ([], set_spreads (p ++ [(O, j); (1, O)])%nat s')
  | _ => ([], [])
  end.

Lemma set_spreads_unfold p sels r :
  set_spreads p (Nd KSelectionSet (AList sels :: r)) =
  concat (map fst (mapi (spart p) sels)) ++ concat (rev (map snd (mapi (spart p) sels))).
Proof. reflexivity. Qed.

Lemma set_spreads_part p sels r j sel s :
  nth_error sels j = Some sel -> In s (fst (spart p j sel) ++ snd (spart p j sel)) ->
  In s (set_spreads p (Nd KSelectionSet (AList sels :: r))).
Proof.
  intros Hj Hs. rewrite set_spreads_unfold.
  assert (Hin : In (spart p j sel) (mapi (spart p) sels)).
  { unfold mapi. apply In_mapi_from. exists j, sel. split; [exact Hj | reflexivity]. }
  apply in_app_iff. apply in_app_iff in Hs as [Hs|Hs].
  - left. apply in_concat. exists (fst (spart p j sel)). split; [apply List.in_map; exact Hin | exact Hs].
  - right. apply in_concat. exists (snd (spart p j sel)). split; [|exact Hs].
    apply -> in_rev. apply List.in_map. exact Hin.
Qed.

Section Glue.
  Variable fl : list N -> Z * N.

  Definition gA (n : node) : Prop := forall L, sels_of fl n = Some L ->
    forall p b, In b (xsprs L) -> exists s, In s (set_spreads p n) /\ sp_name s = b.
  Definition gB (n : node) : Prop := forall x, sel1_of fl n = Some x ->
    forall p j b, In b (xspr x) -> exists s, In s (fst (spart p j n) ++ snd (spart p j n)) /\ sp_name s = b.

  Lemma gA_from sels r : Forall gB sels -> gA (Nd KSelectionSet (AList sels :: r)).
  Proof.
    intros HF L HL p b Hb. rewrite sels_of_unfold in HL.
    pose proof (all_some_Forall2 _ _ _ HL) as H2. rewrite Forall_forall in HF.
    unfold xsprs in Hb. apply in_flat_map in Hb as (x & Hx & Hb).
    apply In_nth_error in Hx as [j Hj]. destruct (Forall2_nth _ _ _ H2 j _ Hj) as (sel & Ej & Hs).
    destruct (HF sel (nth_error_In _ _ Ej) x Hs p j b Hb) as (s & Hin & Hn).
    exists s. split; [|exact Hn]. eapply set_spreads_part; eauto.
  Qed.

  Lemma spreads_glue n : gA n /\ gB n.
  Proof.
    induction n as [k attrs IH] using node_ind2. split.
    - destruct k; try (intros L HL; discriminate HL).
      destruct attrs as [|[| |sels| | |] r]; try (intros L HL; discriminate HL).
      apply gA_from. inversion IH as [|a l Ha _]; subst. inversion Ha as [| |l' Hl| | |]; subst.
      eapply Forall_impl; [|exact Hl]. intros m Hm. apply Hm.
    - destruct k; try (intros x Hx; discriminate Hx).
      + (* field *)
        destruct attrs as [|d [|[|nm| | | |] [|al [|a [|sset r]]]]]; try (intros x Hx; discriminate Hx).
        intros x Hx p j b Hb. cbn [sel1_of] in Hx.
        destruct (args_of fl a) as [args|]; [|discriminate]. destruct (dirs_of fl d) as [dirs|]; [|discriminate].
        destruct sset as [|s'| | | |].
        2:{ destruct (sels_of fl s') as [sub|] eqn:Es; [|discriminate]. inversion Hx; subst x. cbn [xspr] in Hb.
            repeat (inversion IH as [|? ? ? IH']; subst; clear IH; rename IH' into IH).
            match goal with H : attr_all _ (ANode s') |- _ => inversion H as [|? [HA _]| | | |]; subst end.
            cbn [spart fst snd app]. exact (HA sub Es _ b Hb). }
        all: inversion Hx; subst x; cbn in Hb; destruct Hb.
      + (* spread *)
        intros x Hx p j b Hb.
        destruct attrs as [|d [|[|nm| | | |] [|[] r]]]; try discriminate Hx. cbn [sel1_of] in Hx.
        destruct (dirs_of fl d) as [dirs|]; [|discriminate]. inversion Hx; subst x. cbn in Hb. destruct Hb as [<-|[]].
        eexists. split; [cbn; left; reflexivity | reflexivity].
      + (* inline fragment *)
        destruct attrs as [|d [|[|s'| | | |] [|tc r]]]; try (intros x Hx; discriminate Hx).
        intros x Hx p j b Hb. cbn [sel1_of] in Hx.
        destruct (dirs_of fl d) as [dirs|]; [|discriminate].
        destruct (sels_of fl s') as [sub|] eqn:Es; [|discriminate].
        destruct (match tc with ANode (Nd KNamedType (ANode nm :: _)) => Some (Some (name_str nm))
                  | ANode _ => None | _ => Some None end) as [c|]; [|discriminate].
        inversion Hx; subst x. cbn [xspr] in Hb.
        repeat (inversion IH as [|? ? ? IH']; subst; clear IH; rename IH' into IH).
        match goal with H : attr_all _ (ANode s') |- _ => inversion H as [|? [HA _]| | | |]; subst end.
        cbn [spart fst snd app]. exact (HA sub Es _ b Hb).
  Qed.

  (* an edge of the translated document is an edge "a spreads b" of the validation graph *)
  Lemma xedge_spreads d x a b : to_exec fl None d = Some x ->
    xedge (d_frags x) a b -> Spreads (frags_of (xdefs d)) a b.
  Proof.
    intros Hx (fr & Hf & Hb).
    destruct (to_exec_inv fl d x Hx) as (jo & ss & a1 & a2 & vds & a4 & o & r & _ & _ & _ & _ & Hfr).
    assert (Hin : In fr (d_frags x) /\ fr_name fr = a).
    { clear Hfr Hb. induction (d_frags x) as [|f l IH]; cbn in Hf; [discriminate|].
      destruct (str_eqb a (fr_name f)) eqn:E.
      - inversion Hf; subst. split; [left; reflexivity | symmetry; apply str_eqb_eq; exact E].
      - destruct (IH Hf) as [H1 H2]. split; [right; exact H1 | exact H2]. }
    destruct Hin as [Hin Hname].
    destruct (all_some_In _ _ _ _ Hfr Hin) as (fn & Hfn & Hof).
    apply filter_In in Hfn as [Hfn _]. apply In_nth_error in Hfn as [j Hj].
    destruct fn as [k attrs]. destruct k; try discriminate Hof.
    destruct attrs as [|[|fss| | | |] [|a1' [|[|nm| | | |] [|[| |[|] | | |] [|a4' [|[|tcn| | | |] r']]]]]]; try discriminate Hof.
    destruct tcn as [tk tat]. destruct tk; try discriminate Hof.
    destruct tat as [|[|tn| | | |] rt5]; try discriminate Hof.
    cbn [frag_of] in Hof. destruct (sels_of fl fss) as [body|] eqn:Eb; [|discriminate]. inversion Hof; subst fr.
    cbn [fr_sels fr_name] in *.
    destruct (proj1 (spreads_glue fss) body Eb ([(O, j)] ++ [(O, O)])%nat b Hb) as (sp & Hsp & Hn).
    eexists (FR [(O, j)]%nat (name_str nm) _ _ _), sp. split.
    - apply In_frags. rewrite xdefs_doc. unfold mapi. apply In_mapi_from. eexists j, _. split; [exact Hj|]. cbn. reflexivity.
    - cbn [f_name f_spreads]. split; [exact Hname|]. split; [exact Hsp | exact Hn].
  Qed.

  Theorem to_exec_acyclic d x : to_exec fl None d = Some x ->
    (forall a, ~ Cyclic (frags_of (xdefs d)) a) -> xacyclic (d_frags x).
  Proof.
    intros Hx Hno a Hc. apply (Hno a). unfold Cyclic.
    assert (Hall : forall u v, clos_trans Value.str (xedge (d_frags x)) u v ->
                               clos_trans Rules.str (Spreads (frags_of (xdefs d))) u v).
    { intros u v H. induction H as [u v Huv|u v w _ IH1 _ IH2].
      - apply t_step. eapply xedge_spreads; eauto.
      - apply t_trans with v; assumption. }
    apply Hall. exact Hc.
  Qed.

  (* NoFragmentCycles and UniqueFragmentNames silent => the expansion of the translated operation is finite *)
  Theorem rules_expansion_finite d x : to_exec fl None d = Some x ->
    rule_unique_fragment_names d = [] -> rule_no_fragment_cycles d = Some [] ->
    exists n, hb (d_frags x) n (d_sels x).
  Proof.
    intros Hx Hu Hc. apply acyclic_finite. apply (to_exec_acyclic d x Hx).
    assert (Hnd : NoDup (map f_name (frags_of (xdefs d)))).
    { pose proof (proj1 (unique_fragment_names_nil d) Hu) as Hu'. unfold UniqueNames in Hu'.
      rewrite (named_frags_names d) in Hu'. exact Hu'. }
    apply (proj1 (no_fragment_cycles_nil d [] Hnd Hc) eq_refl).
  Qed.
End Glue.

(* ---- the root operation type exists: KnownOperationTypes (Valid/RulesDir.v, rule 23) ---- *)
(* the rule's view of the schema agrees with the execution model's: a mutation type is present
   when the rule believes so (the query type always is, in Exec.Schema) *)
Definition roots_agree (ds : dschema) (s : schema) : Prop :=
  has_root ds 1 = true -> s_mutation s <> None.

Theorem rules_root_exists fl d x ds s : to_exec fl None d = Some x ->
  roots_agree ds s -> rule_known_operation_types ds d = [] ->
  exists rt, root_type s (d_kind x) = Some rt.
Proof.
  unfold to_exec. intros Hx Hag Hr.
  destruct (filter (op_selected None) (doc_defs d)) as [|opn [|n2 l2]] eqn:Ef; try discriminate.
  2:{ exfalso. destruct opn as [ko oattrs]. destruct ko; try discriminate Hx.
      destruct oattrs as [|[|ss| | | |] [|a1 [|a2 [|vds [|a4 [|[| | | | |o] r]]]]]]; discriminate Hx. }
  assert (Hopn : In opn (doc_defs d)).
  { assert (H : In opn (filter (op_selected None) (doc_defs d))) by (rewrite Ef; cbn; auto).
    apply filter_In in H as [H _]. exact H. }
  destruct opn as [ko oattrs]. destruct ko; try (cbn in Hx; discriminate Hx).
  destruct oattrs as [|[|ss| | | |] [|a1 [|a2 [|vds [|a4 [|[| | | | |o] r]]]]]]; try (cbn in Hx; discriminate Hx).
  pose proof (proj1 (known_operation_types_nil ds d) Hr _ o Hopn eq_refl) as Hroot.
  destruct (o =? 0) eqn:E0.
  - destruct (all_some (map (vardef_of fl) (attr_list vds))); [|discriminate].
    destruct (sels_of fl ss); [|discriminate]. destruct (all_some (map (frag_of fl) _)); [|discriminate].
    inversion Hx; subst x. cbn. eauto.
  - destruct (o =? 1) eqn:E1; [|discriminate].
    destruct (all_some (map (vardef_of fl) (attr_list vds))); [|discriminate].
    destruct (sels_of fl ss); [|discriminate]. destruct (all_some (map (frag_of fl) _)); [|discriminate].
    inversion Hx; subst x. cbn. apply N.eqb_eq in E1. subst o.
    destruct (s_mutation s) as [m|] eqn:Em; [eauto|]. exfalso. exact (Hag Hroot Em).
Qed.
