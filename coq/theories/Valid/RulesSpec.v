(* Declarative specifications of the twelve rules of Valid/Rules.v, in the vocabulary of the
   GraphQL specification (section 5, Validation).  They speak about the data of a document d:
     xdefs d                    its definitions, in order;
     ops_of / frags_of          the operations / fragment definitions among them, with name,
                                variable definitions, the fragment spreads below the selection
                                set and the variable usages below the definition;
     all_spreads d, arg_lists d, object_fields d.
   No algorithmic state (visited sets, dictionaries, work lists) appears here. *)
From Coq Require Import Relations.
From GV Require Import Base.Prelude Lang.Ast Valid.Rules.

(* ---- 5.1.1 Executable definitions ---- *)
Definition NonExecutable (d : node) (p : path) : Prop := In (XOther p) (xdefs d).

(* ---- 5.2.1.1 / 5.5.1.1 name uniqueness ----
   l lists (name, name node) of the definitions in document order.  [Dup l p0 p]: p is the name
   node of a definition whose name was defined before; p0 is the name node of its FIRST definition *)
Inductive Dup (l : list (str * path)) (p0 p : path) : Prop :=
| Dup_intro pre s mid post :
    l = pre ++ (s, p0) :: mid ++ (s, p) :: post -> ~ In s (map fst pre) -> Dup l p0 p.

Definition UniqueNames (l : list (str * path)) : Prop := NoDup (map fst l).

(* all name nodes carrying the name s, in order *)
Definition occ (s : str) (l : list (str * path)) : list path :=
  map snd (filter (fun e => streq (fst e) s) l).

(* the distinct names in order of first occurrence *)
Definition distinct (l : list str) : list str :=
  fold_left (fun acc s => if mem s acc then acc else acc ++ [s]) l [].

(* ---- 5.2.2.1 Lone anonymous operation ---- *)
Definition LoneAnonymous (os : list opinfo) : Prop :=
  forall o, In o os -> o_name o = None -> length os = 1%nat.

(* ---- fragments ---- *)
(* the fragment definition a name resolves to.  (With unique fragment names: the definition of
   that name, lemma resolves_unique; with duplicates the implementation's table keeps the last) *)
Definition Resolves (fs : list fraginfo) (s : str) (f : fraginfo) : Prop := get_fragment fs s = Some f.
Definition Defined (fs : list fraginfo) (s : str) : Prop := exists f, In f fs /\ f_name f = s.

(* 5.5.2.1 Fragment spread target defined *)
Definition UnknownSpread (d : node) (s : spread) : Prop :=
  In s (all_spreads d) /\ ~ Defined (frags_of (xdefs d)) (sp_name s).

(* fragments reachable from a selection set (given by its spreads) through fragment spreads *)
Inductive Reach (fs : list fraginfo) (start : list spread) : fraginfo -> Prop :=
| Reach_start s f : In s start -> Resolves fs (sp_name s) f -> Reach fs start f
| Reach_step g s f : Reach fs start g -> In s (f_spreads g) -> Resolves fs (sp_name s) f ->
                     Reach fs start f.

(* 5.5.1.4 Fragments must be used *)
Definition Used (fs : list fraginfo) (os : list opinfo) (name : str) : Prop :=
  exists o f, In o os /\ Reach fs (o_spreads o) f /\ f_name f = name.

(* 5.5.2.2 Fragment spreads must not form cycles: "a spreads b" on fragment names *)
Definition Spreads (fs : list fraginfo) (a b : str) : Prop :=
  exists f s, In f fs /\ f_name f = a /\ In s (f_spreads f) /\ sp_name s = b.
Definition Cyclic (fs : list fraginfo) (a : str) : Prop := clos_trans str (Spreads fs) a a.

(* a chain of spreads starting in fragment g: each spread stands in the fragment the previous one
   resolves to; the last one names t *)
Inductive Chain (fs : list fraginfo) : fraginfo -> list spread -> str -> Prop :=
| Chain_last g s : In s (f_spreads g) -> Chain fs g [s] (sp_name s)
| Chain_step g s g' c t : In s (f_spreads g) -> Resolves fs (sp_name s) g' -> Chain fs g' c t ->
                          Chain fs g (s :: c) t.
(* a closed chain: what one NoFragmentCycles error points at *)
Definition IsCycle (fs : list fraginfo) (c : list spread) : Prop :=
  exists g, In g fs /\ Chain fs g c (f_name g).

(* ---- variables ---- *)
(* 5.8.3 / 5.8.4: the variable usages an operation answers for: its own and those of the
   fragments it spreads transitively, except usages bound by a fragment's own variable
   definitions (fragment arguments, experimental) *)
Definition InScope (fs : list fraginfo) (o : opinfo) (u : usage) : Prop :=
  In u (o_usages o) \/
  exists f, Reach fs (o_spreads o) f /\ In u (f_usages f) /\ frag_local fs f u = false.

Definition DefinesVar (o : opinfo) (s : str) : Prop := In s (map vd_name (o_vdefs o)).

(* 5.8.3 All variable uses defined *)
Definition UndefinedUse (fs : list fraginfo) (o : opinfo) (u : usage) : Prop :=
  InScope fs o u /\ ~ DefinesVar o (us_name u).

(* 5.8.4 All variables used *)
Definition UnusedVar (fs : list fraginfo) (o : opinfo) (v : vdef) : Prop :=
  In v (o_vdefs o) /\ ~ exists u, InScope fs o u /\ us_name u = vd_name v.
Definition UnusedFragVar (f : fraginfo) (v : vdef) : Prop :=
  In v (f_vdefs f) /\ ~ exists u, In u (f_usages f) /\ us_name u = vd_name v.
