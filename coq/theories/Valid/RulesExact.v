(* Multiplicities: the lists reported by the node-by-node rules have no repetitions (so the
   membership characterisations of RulesProps determine them as multisets), and the exact
   lists of the variable rules and of the dictionary scan. *)
From GV Require Import Base.Prelude Lang.Ast Valid.Rules Valid.RulesBase Valid.RulesSpec
  Valid.RulesNames Valid.RulesGraph Valid.RulesPaths Valid.RulesProps.

Lemma flat_map_key_NoDup {A B} (f : A -> list B) (ka : A -> path) (kb : B -> path) l :
  NoDup (map ka l) ->
  (forall a b, In b (f a) -> f a = [b] /\ kb b = ka a) ->
  NoDup (map kb (flat_map f l)).
Proof.
  induction l as [|a l IH]; intros Hn Hf; cbn; [constructor|].
  inversion Hn as [|? ? Hi Hn']; subst. rewrite map_app. apply NoDup_app_disj.
  - destruct (f a) as [|b r] eqn:Ef; [constructor|].
    destruct (Hf a b) as [E _]; [rewrite Ef; cbn; auto|]. rewrite Ef in E. inversion E; subst.
    repeat constructor. intros [].
  - apply IH; auto.
  - intros x Hx Hx'. apply in_map_iff in Hx as (b & <- & Hb). apply in_map_iff in Hx' as (b' & He & Hb').
    apply in_flat_map in Hb' as (a' & Ha' & Hb'). destruct (Hf a b Hb) as [_ K]. destruct (Hf a' b' Hb') as [_ K'].
    apply Hi. rewrite <- K, <- He, K'. apply in_map. exact Ha'.
Qed.

Lemma NoDup_map_inv' {A B} (f : A -> B) l : NoDup (map f l) -> NoDup l.
Proof.
  induction l as [|a l IH]; cbn; intro H; [constructor|]. inversion H as [|? ? Hi Hn]; subst.
  constructor; [|apply IH; exact Hn]. intro Hin. apply Hi. apply in_map. exact Hin.
Qed.

(* ---- definitions have pairwise different paths ---- *)
Definition xdef_path (x : xdef) : path :=
  match x with XOp o => o_path o | XFrag f => f_path f | XOther p => p end.

Lemma xdef_of_path p n : xdef_path (xdef_of p n) = p.
Proof.
  destruct n as [k attrs]. destruct k; try reflexivity;
    destruct attrs as [|s [|dsc [|nm [|vs r]]]]; reflexivity.
Qed.

Lemma def_paths_NoDup {A} (l : list A) : forall i,
  NoDup (mapi_from (fun j (_ : A) => [(O, j)]) i l).
Proof.
  induction l as [|a l IH]; intro i; cbn; constructor; [|apply IH].
  intro H. apply In_mapi_from in H as (j & _ & _ & He). inversion He. lia.
Qed.

Theorem xdefs_paths_NoDup d : NoDup (map xdef_path (xdefs d)).
Proof.
  destruct d as [k attrs]. destruct k; try constructor.
  destruct attrs as [|[| |l| | |] r]; try constructor.
  cbn [xdefs]. unfold mapi. rewrite map_mapi_from.
  rewrite (mapi_from_ext _ (fun j (_ : node) => [(O, j)])); [apply def_paths_NoDup|].
  intros. apply xdef_of_path.
Qed.

Theorem ops_paths_NoDup d : NoDup (map o_path (ops_of (xdefs d))).
Proof.
  unfold ops_of. apply (flat_map_key_NoDup _ xdef_path); [apply xdefs_paths_NoDup|].
  intros [o|f|p] b Hb; cbn in Hb; try destruct Hb; try tauto. subst. auto.
Qed.

Theorem frags_paths_NoDup d : NoDup (map f_path (frags_of (xdefs d))).
Proof.
  unfold frags_of. apply (flat_map_key_NoDup _ xdef_path); [apply xdefs_paths_NoDup|].
  intros [o|f|p] b Hb; cbn in Hb; try destruct Hb; try tauto. subst. auto.
Qed.

(* ---- no repetitions in the reported lists ---- *)
Definition first_node (e : verr) : path := hd [] (ve_nodes e).
Definition last_node (e : verr) : path := last (ve_nodes e) [].

Theorem executable_definitions_NoDup d : NoDup (rule_executable_definitions d).
Proof.
  apply (NoDup_map_inv' first_node). unfold rule_executable_definitions.
  apply (flat_map_key_NoDup _ xdef_path); [apply xdefs_paths_NoDup|].
  intros [o|f|p] b Hb; cbn in Hb; try destruct Hb; try tauto. subst. auto.
Qed.

Theorem lone_anonymous_NoDup d : NoDup (rule_lone_anonymous_operation d).
Proof.
  apply (NoDup_map_inv' first_node). unfold rule_lone_anonymous_operation.
  apply (flat_map_key_NoDup _ o_path); [apply ops_paths_NoDup|].
  intros o b Hb. destruct (o_name o); [destruct Hb|].
  destruct (1 <? length (ops_of (xdefs d)))%nat; [|destruct Hb]. destruct Hb as [<-|[]]. auto.
Qed.

Lemma app_inj_tail_path (p q : path) x : p ++ x = q ++ x -> p = q.
Proof. apply app_inv_tail. Qed.

Theorem known_fragment_names_NoDup d : NoDup (rule_known_fragment_names d).
Proof.
  apply (NoDup_map_inv' (fun e => removelast (first_node e))). unfold rule_known_fragment_names.
  apply (flat_map_key_NoDup _ sp_path); [apply all_spreads_NoDup|].
  intros s b Hb. destruct (get_fragment _ (sp_name s)); [destruct Hb|]. destruct Hb as [<-|[]].
  split; [reflexivity|]. unfold first_node, name_step. cbn [ve_nodes hd]. apply removelast_last.
Qed.

Theorem no_unused_fragments_NoDup d es : rule_no_unused_fragments d = Some es -> NoDup es.
Proof.
  unfold rule_no_unused_fragments. destruct (used_names _ _) as [u|]; [|discriminate].
  intro H. inversion H; subst. clear H. apply (NoDup_map_inv' first_node).
  apply (flat_map_key_NoDup _ f_path); [apply frags_paths_NoDup|].
  intros f b Hb. destruct (mem (f_name f) u); [destruct Hb|]. destruct Hb as [<-|[]]. auto.
Qed.

Theorem unique_input_field_names_NoDup d : NoDup (rule_unique_input_field_names d).
Proof.
  apply (NoDup_map_inv' last_node). unfold rule_unique_input_field_names.
  apply (flat_map_key_NoDup _ (fun e => snd (snd e))); [apply object_fields_NoDup|].
  intros [before [s p]] b Hb. cbn [fst snd] in *. destruct (lookup s before); [|destruct Hb].
  destruct Hb as [<-|[]]. auto.
Qed.

(* ---- exact lists ---- *)
Lemma opt_concat_map_flat {A B} (f : A -> option (list B)) l : forall es,
  opt_concat (map f l) = Some es ->
  es = flat_map (fun x => match f x with Some y => y | None => [] end) l.
Proof.
  induction l as [|a l IH]; intros es H; cbn in H; [inversion H; reflexivity|].
  destruct (f a) as [y|] eqn:Ef; [|discriminate]. destruct (opt_concat (map f l)) as [z|]; [|discriminate].
  inversion H; subst. cbn. rewrite Ef, <- (IH z eq_refl). reflexivity.
Qed.

(* the variable usages an operation answers for, as the list the implementation builds: its own,
   then those of each transitively spread fragment - every fragment exactly once - without the
   usages bound by the fragment's own variable definitions *)
Definition scope (fs : list fraginfo) (o : opinfo) : list usage :=
  match op_usages fs o with Some us => us | None => [] end.

Theorem scope_exact fs o :
  exists rf, NoDup (map f_name rf) /\ (forall f, In f rf <-> Reach fs (o_spreads o) f) /\
             scope fs o = o_usages o ++
                          flat_map (fun f => filter (fun u => negb (frag_local fs f u)) (f_usages f)) rf.
Proof.
  unfold scope, op_usages. destruct (refs_total fs (o_spreads o)) as [rf E]. rewrite E.
  destruct (refs_spec fs _ _ E) as [H1 H2]. exists rf. auto.
Qed.

Theorem no_undefined_variables_exact d es : rule_no_undefined_variables d = Some es ->
  es = flat_map (fun o =>
         flat_map (fun u => if mem (us_name u) (map vd_name (o_vdefs o)) then []
                            else [VE R_UNDEFV [us_path u; o_path o]])
                  (scope (frags_of (xdefs d)) o))
       (ops_of (xdefs d)).
Proof.
  unfold rule_no_undefined_variables. intro H. apply opt_concat_map_flat in H. rewrite H.
  apply flat_map_ext'. intros o _. unfold undefined_in, scope.
  destruct (op_usages (frags_of (xdefs d)) o); reflexivity.
Qed.

Theorem no_unused_variables_exact d es : rule_no_unused_variables d = Some es ->
  es = flat_map (fun x =>
         match x with
         | XOp o => flat_map (fun v => if mem (vd_name v) (map us_name (scope (frags_of (xdefs d)) o))
                                       then [] else [VE R_UNUSEDV [vd_path v]]) (o_vdefs o)
         | XFrag f => flat_map (fun v => if mem (vd_name v) (map us_name (f_usages f))
                                         then [] else [VE R_UNUSEDV [vd_path v]]) (f_vdefs f)
         | XOther _ => []
         end) (xdefs d).
Proof.
  unfold rule_no_unused_variables. intro H.
  assert (Hall : forall x, In x (xdefs d) -> exists y, unused_in (frags_of (xdefs d)) x = Some y).
  { intros x _. destruct x as [o|f|p]; cbn; eauto.
    destruct (op_usages_total d o) as [us ->]. eauto. }
  apply opt_concat_map_flat in H. rewrite H. apply flat_map_ext'. intros x Hx.
  destruct x as [o|f|p]; cbn [unused_in]; try reflexivity.
  unfold scope. destruct (op_usages_total d o) as [us E]. rewrite E. reflexivity.
Qed.

(* the dictionary scan without dictionary: an element is reported iff its name occurs in front
   of it, together with the first element of that name *)
Theorem dup_scan_exact l : dup_scan [] l = dup_spec [] l.
Proof. apply dup_scan_spec. reflexivity. Qed.

(* ---- rule 12 in the words of the specification: when nothing is reported, every input object
   value of the document has pairwise different field names ---- *)
Definition is_object_field (n : node) : bool :=
  match n with Nd KObjectField _ => true | _ => false end.

Lemma NoDup_by_prefix {A} (L : list A) :
  (forall j x, nth_error L j = Some x -> ~ In x (firstn j L)) -> NoDup L.
Proof.
  induction L as [|x L IH] using rev_ind; intro H; [constructor|].
  apply NoDup_snoc.
  - apply IH. intros j y Hj Hin. assert (Hlt : (j < length L)%nat) by (apply nth_error_Some; congruence).
    apply (H j y).
    + rewrite nth_error_app1 by exact Hlt. exact Hj.
    + rewrite firstn_app. apply in_app_iff. left. exact Hin.
  - intro Hin. apply (H (length L) x).
    + rewrite nth_error_app2 by lia. rewrite Nat.sub_diag. reflexivity.
    + rewrite firstn_app, Nat.sub_diag, firstn_all. cbn. rewrite app_nil_r. exact Hin.
Qed.

Theorem input_object_fields_unique d : rule_unique_input_field_names d = [] ->
  forall it fl r, In it (doc_items d) -> it_node it = Nd KObjectValue (AList fl :: r) ->
    forallb is_object_field fl = true -> NoDup (map arg_name fl).
Proof.
  intros Hsil [q n sb] fl r Hit Hn Hall. cbn [it_node] in Hn. subst n.
  pose proof (proj1 (unique_input_field_names_nil d) Hsil) as Hs.
  apply NoDup_by_prefix. intros j s Hj Hin.
  rewrite nth_error_map in Hj. destruct (nth_error fl j) as [m|] eqn:Em; [|discriminate].
  cbn in Hj. inversion Hj; subst s. clear Hj.
  pose proof (walk_child_list no_stop d [] [] q KObjectValue (AList fl :: r) sb O fl j m Hit eq_refl
                (or_introl eq_refl) eq_refl Em) as Hc.
  assert (Hof : is_object_field m = true).
  { rewrite forallb_forall in Hall. apply Hall. eapply nth_error_In; eauto. }
  destruct m as [k attrs]. destruct k; try discriminate.
  apply (Hs (map (fun pn => (arg_name (snd pn), fst pn ++ [(O, O)]))
                 (mapi (fun j' m' => (q ++ [(O, j')], m')) (firstn j fl)))
            (arg_name (Nd KObjectField attrs)) ((q ++ [(O, j)]) ++ [(O, O)])).
  - unfold object_fields. apply in_flat_map. eexists. split; [exact Hc|]. cbn. auto.
  - rewrite map_map. cbn [fst]. unfold mapi. rewrite map_mapi_from. cbn [snd].
    assert (E : forall (L : list node) i, mapi_from (fun (_ : nat) (a : node) => arg_name a) i L = map arg_name L).
    { induction L as [|a L IHL]; intro i; cbn; [reflexivity | rewrite IHL; reflexivity]. }
    rewrite E. rewrite firstn_map in Hin. exact Hin.
Qed.
