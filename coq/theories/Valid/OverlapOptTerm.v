(* Termination of the memoised algorithm model (Valid/OverlapOpt.v): with the fuel
   [opt_fuel d] the algorithm never runs out of fuel, whatever the fragment spread graph.
   Argument: every memo miss strictly decreases a potential (2 per absent key, 1 per exclusive
   entry, 0 per non-exclusive entry, over the finite set of possible keys); between two misses
   on a call chain the calls descend into sub-selections of bounded depth. *)
From GV Require Import Base.Prelude Valid.Overlap Valid.OverlapProps Valid.PairSet Valid.PairSetProps
  Valid.OverlapOpt Valid.OverlapEquiv.

Definition pot (o : option bool) : nat :=
  match o with None => 2 | Some true => 1 | Some false => 0 end.

Fixpoint sumf {A} (f : A -> nat) (l : list A) : nat :=
  match l with [] => O | a :: r => (f a + sumf f r)%nat end.

Lemma sumf_le {A} (f g : A -> nat) l :
  (forall k, In k l -> (g k <= f k)%nat) -> (sumf g l <= sumf f l)%nat.
Proof.
  induction l as [|a l IH]; cbn [sumf]; intro H; auto.
  pose proof (H a (or_introl eq_refl)). specialize (IH (fun k Hk => H k (or_intror Hk))). lia.
Qed.

Lemma sumf_lt {A} (f g : A -> nat) l k0 :
  (forall k, In k l -> (g k <= f k)%nat) -> In k0 l -> (g k0 < f k0)%nat ->
  (sumf g l < sumf f l)%nat.
Proof.
  induction l as [|a l IH]; cbn [sumf]; intros H Hin Hlt; [contradiction|].
  pose proof (H a (or_introl eq_refl)).
  pose proof (sumf_le f g l (fun k Hk => H k (or_intror Hk))).
  destruct Hin as [->|Hin]; [lia|].
  specialize (IH (fun k Hk => H k (or_intror Hk)) Hin Hlt). lia.
Qed.

Section Term.
  Variable s : schema.
  Variable frags : list fragdef.
  Variable US : list N.      (* codes of selection set identities *)
  Variable UF : list N.      (* fragment names (defined or spread) *)
  Variable D : nat.          (* bound on the nesting depth of every selection set *)

  Definition phi_fp (fp : opairset) : nat :=
    sumf (fun k => pot (ops_get fp (fst k) (fkey (snd k)))) (list_prod US UF).
  Definition phi_ff (ff : pairset) : nat :=
    sumf (fun k => pot (ps_get ff (fkey (fst k)) (fkey (snd k)))) (list_prod UF UF).
  Definition phi (m : memo) : nat := (phi_fp (m_fp m) + phi_ff (m_ff m))%nat.

  Lemma fkey_inj a b : fkey a = fkey b -> a = b.
  Proof. unfold fkey. intro H. inversion H. reflexivity. Qed.

  (* a miss in the fields-vs-fragment table strictly decreases the potential *)
  Lemma phi_fp_add fp a b q : In a US -> In b UF -> ops_has fp a (fkey b) q = false ->
    (phi_fp (ops_add fp a (fkey b) q) < phi_fp fp)%nat.
  Proof.
    intros Ha Hb Hh. unfold phi_fp.
    apply (sumf_lt _ _ _ (a, b)).
    - intros [a' b'] _. cbn [fst snd].
      destruct (N.eq_dec a' a) as [->|Hna]; [destruct (N.eq_dec b' b) as [->|Hnb]|].
      + rewrite ops_get_add_same. unfold ops_has in Hh.
        destruct (ops_get fp a (fkey b)) as [[|]|]; destruct q; cbn in *; try discriminate; lia.
      + rewrite ops_get_add_other; [lia|]. intro Hc. inversion Hc. contradiction.
      + rewrite ops_get_add_other; [lia|]. intro Hc. inversion Hc. contradiction.
    - apply in_prod; assumption.
    - cbn [fst snd]. rewrite ops_get_add_same. unfold ops_has in Hh.
      destruct (ops_get fp a (fkey b)) as [[|]|]; destruct q; cbn in *; try discriminate; lia.
  Qed.

  Lemma order_single' a b c d :
    order (fkey a) (fkey b) = order (fkey c) (fkey d) -> (a = c /\ b = d) \/ (a = d /\ b = c).
  Proof.
    unfold order, fkey. cbn [text_ltb].
    destruct (a <? b), (b <? a), (c <? d), (d <? c); intro H; inversion H; auto.
  Qed.

  Lemma order_dec' (x y u v : text) : order x y = order u v \/ order x y <> order u v.
  Proof.
    destruct (order x y) as [x1 x2], (order u v) as [y1 y2].
    destruct (nat_list_eqb x1 y1) eqn:E1; destruct (nat_list_eqb x2 y2) eqn:E2.
    - apply nat_list_eqb_eq in E1. apply nat_list_eqb_eq in E2. subst. left. reflexivity.
    - right. intro Hc. inversion Hc. subst. rewrite (proj2 (nat_list_eqb_eq y2 y2) eq_refl) in E2. discriminate.
    - right. intro Hc. inversion Hc. subst. rewrite (proj2 (nat_list_eqb_eq y1 y1) eq_refl) in E1. discriminate.
    - right. intro Hc. inversion Hc. subst. rewrite (proj2 (nat_list_eqb_eq y1 y1) eq_refl) in E1. discriminate.
  Qed.

  Lemma phi_ff_add ff a b q : In a UF -> In b UF -> ps_has ff (fkey a) (fkey b) q = false ->
    (phi_ff (ps_add ff (fkey a) (fkey b) q) < phi_ff ff)%nat.
  Proof.
    intros Ha Hb Hh. unfold phi_ff.
    assert (Hsame : (pot (ps_get (ps_add ff (fkey a) (fkey b) q) (fkey a) (fkey b))
                     < pot (ps_get ff (fkey a) (fkey b)))%nat).
    { rewrite ps_get_add_same. unfold ps_has in Hh.
      destruct (ps_get ff (fkey a) (fkey b)) as [[|]|]; destruct q; cbn in *; try discriminate; lia. }
    apply (sumf_lt _ _ _ (a, b)).
    - intros [a' b'] _. cbn [fst snd].
      destruct (order_dec' (fkey a') (fkey b') (fkey a) (fkey b)) as [Ho|Ho].
      + rewrite (ps_get_order _ _ _ _ _ Ho). rewrite (ps_get_order ff _ _ _ _ Ho). lia.
      + rewrite ps_get_add_other by exact Ho. lia.
    - apply in_prod; assumption.
    - exact Hsame.
  Qed.

  (* ---- well-formedness of what the algorithm handles ---- *)
  Fixpoint sels_ok (ss : sels) : Prop :=
    match ss with
    | SelNil => True
    | SelField f sub rest => In (setid_code (IdField (f_id f))) US /\ sels_ok sub /\ sels_ok rest
    | SelInline iid _ sub rest => In (setid_code (IdInline iid)) US /\ sels_ok sub /\ sels_ok rest
    | SelSpread n rest => In n UF /\ sels_ok rest
    end.

  Definition eok (e : entry) : Prop :=
    In (setid_code (IdField (f_id (e_fld e)))) US /\ sels_ok (e_sub e) /\ (S (dep (e_sub e)) <= D)%nat.

  Definition frags_wf : Prop :=
    forall fd, In fd frags -> sels_ok (fr_body fd) /\ (dep (fr_body fd) <= D)%nat.

  Lemma fas_props : forall ss p acc, sels_ok ss -> (dep ss <= D)%nat ->
    Forall eok (fst acc) -> incl (snd acc) UF ->
    Forall eok (fst (fields_and_spreads p ss acc)) /\ incl (snd (fields_and_spreads p ss acc)) UF /\
    (forall e, In e (fst (fields_and_spreads p ss acc)) -> In e (fst acc) \/ (S (dep (e_sub e)) <= dep ss)%nat).
  Proof.
    induction ss as [|f sub IHsub rest IHrest|iid tc sub IHsub rest IHrest|n rest IHrest];
      intros p acc Hok Hd Ha Hs; cbn [fields_and_spreads sels_ok dep] in *.
    - repeat split; auto.
    - destruct Hok as [H1 [H2 H3]].
      destruct (IHrest p (fst acc ++ [mkEntry p f sub], snd acc) H3 ltac:(lia)) as [A1 [A2 A3]]; cbn [fst snd]; auto.
      { apply Forall_app. split; auto. constructor; auto. repeat split; cbn [e_sub e_fld]; auto. lia. }
      repeat split; auto. intros e He. destruct (A3 e He) as [Hi|Hi]; [|right; lia].
      cbn [fst] in Hi. apply in_app_or in Hi as [Hi|[<-|[]]]; [left; exact Hi|right; cbn [e_sub]; lia].
    - destruct Hok as [_ [H2 H3]].
      destruct (IHsub (match tc with Some t => t | None => p end) acc H2 ltac:(lia) Ha Hs) as [B1 [B2 B3]].
      destruct (IHrest p _ H3 ltac:(lia) B1 B2) as [A1 [A2 A3]].
      repeat split; auto. intros e He. destruct (A3 e He) as [Hi|Hi]; [|right; lia].
      destruct (B3 e Hi) as [Hj|Hj]; [left; exact Hj | right; lia].
    - destruct Hok as [H1 H3].
      destruct (IHrest p (fst acc, if mem n (snd acc) then snd acc else snd acc ++ [n]) H3 Hd) as [A1 [A2 A3]];
        cbn [fst snd]; auto.
      { destruct (mem n (snd acc)); auto. intros x Hx. apply in_app_or in Hx as [Hx|[<-|[]]]; auto. }
  Qed.

  Lemma fas_nil p ss : sels_ok ss -> (dep ss <= D)%nat ->
    Forall eok (fst (fields_and_spreads p ss ([], []))) /\
    incl (snd (fields_and_spreads p ss ([], []))) UF /\
    (forall e, In e (fst (fields_and_spreads p ss ([], []))) -> (S (dep (e_sub e)) <= dep ss)%nat).
  Proof.
    intros H1 H2. destruct (fas_props ss p ([], []) H1 H2) as [A1 [A2 A3]]; cbn; auto; try (intros x []).
    repeat split; auto. intros e He. destruct (A3 e He) as [[]|Hi]. exact Hi.
  Qed.

  (* ---- the fuel a call needs ---- *)
  Definition W : nat := (2 * D + 3)%nat.

  Definition sz (c : call) : nat :=
    match c with
    | CFindConflict _ a b => (2 * Nat.max (dep (e_sub a)) (dep (e_sub b)) + 3)%nat
    | CBetweenSubs _ _ _ ss1 _ _ ss2 => (2 * Nat.max (dep ss1) (dep ss2) + 2)%nat
    | CFieldsFrag _ _ _ _ => 1%nat
    | CFragFrag _ _ _ => 1%nat
    end.

  Definition call_ok (c : call) : Prop :=
    match c with
    | CFindConflict _ a b => eok a /\ eok b
    | CBetweenSubs _ _ id1 ss1 _ id2 ss2 =>
      In (setid_code id1) US /\ sels_ok ss1 /\ (dep ss1 <= D)%nat /\
      In (setid_code id2) US /\ sels_ok ss2 /\ (dep ss2 <= D)%nat
    | CFieldsFrag _ id fm frag => In (setid_code id) US /\ Forall eok fm /\ In frag UF
    | CFragFrag _ f1 f2 => In f1 UF /\ In f2 UF
    end.

  (* not out of fuel, and the potential did not grow *)
  Definition good_res (m : memo) (r : result) : Prop :=
    match r with
    | RFuel => False
    | ROk m' => (phi m' <= phi m)%nat
    | RConflict m' => (phi m' <= phi m)%nat
    end.

  Lemma good_res_trans m m' r : (phi m' <= phi m)%nat -> good_res m' r -> good_res m r.
  Proof. destruct r; cbn; auto; lia. Qed.

  Lemma bind_good m r f :
    good_res m r -> (forall m', (phi m' <= phi m)%nat -> good_res m' (f m')) -> good_res m (bind r f).
  Proof.
    destruct r as [|m'|m']; cbn [bind good_res]; auto.
    intros H Hf. eapply good_res_trans; [exact H | apply Hf; exact H].
  Qed.

  Lemma for_each_good {A} (f : A -> memo -> result) l : forall m,
    (forall x m', In x l -> (phi m' <= phi m)%nat -> good_res m' (f x m')) ->
    good_res m (for_each f l m).
  Proof.
    induction l as [|x r IH]; intros m H; cbn [for_each].
    - cbn. lia.
    - apply bind_good.
      + apply H; [left; reflexivity | lia].
      + intros m' Hm'. apply IH. intros y m'' Hy Hm''. apply H; [right; exact Hy | lia].
  Qed.

  Hypothesis Hfr : frags_wf.

  Definition rec_ok (rec : call -> memo -> result) (fuel : nat) : Prop :=
    forall c m, call_ok c -> (phi m * W + sz c <= fuel)%nat -> good_res m (rec c m).

  Lemma eok_sz a b so : eok a -> eok b -> (sz (CFindConflict so a b) + 2 <= W)%nat.
  Proof. intros [_ [_ Ha]] [_ [_ Hb]]. unfold sz, W. lia. Qed.

  Lemma between_good rec fuel excl fm1 fm2 m :
    rec_ok rec fuel -> Forall eok fm1 -> Forall eok fm2 ->
    (forall x y, In x fm1 -> In y fm2 -> (phi m * W + sz (CFindConflict excl x y) <= fuel)%nat) ->
    good_res m (between rec excl fm1 fm2 m).
  Proof.
    intros Hrec H1 H2 Hfuel. rewrite Forall_forall in H1, H2. unfold between.
    apply for_each_good. intros [k l] m1 Hg Hm1. cbn [fst snd].
    apply for_each_good. intros f1 m2 Hf1 Hm2.
    apply for_each_good. intros f2 m3 Hf2 Hm3.
    assert (Hx : In f1 fm1).
    { apply in_groups_iff in Hg. subst l. apply filter_In in Hf1. tauto. }
    assert (Hy : In f2 fm2).
    { rewrite group_get_groups in Hf2. apply filter_In in Hf2. tauto. }
    apply Hrec.
    - split; [apply H1; exact Hx | apply H2; exact Hy].
    - specialize (Hfuel f1 f2 Hx Hy).
      assert ((phi m3 * W <= phi m * W)%nat) by (apply Nat.mul_le_mono_r; lia). lia.
  Qed.

  Lemma mul_le_W a b : (a <= b)%nat -> (a * W <= b * W)%nat.
  Proof. intro H. apply Nat.mul_le_mono_r. exact H. Qed.

  Lemma exec_step_ok rec f : rec_ok rec f -> rec_ok (exec_step s frags rec) (S f).
  Proof.
    intros Hrec c m Hok Hfuel.
    destruct c as [pexcl a b|excl p1 id1 ss1 p2 id2 ss2|excl id fm frag|excl f1 f2];
      cbn [exec_step call_ok sz] in *.
    - (* find_conflict *)
      destruct Hok as [Ha Hb]. cbv zeta.
      match goal with |- good_res m (if ?c then _ else _) => destruct c end; [cbn; lia|].
      match goal with |- good_res m (if ?c then _ else _) => destruct c end; [cbn; lia|].
      match goal with |- good_res m (if ?c then _ else _) => destruct c end; [|cbn; lia].
      apply Hrec.
      + destruct Ha as [A1 [A2 A3]], Hb as [B1 [B2 B3]]. cbn [call_ok]. repeat split; auto; lia.
      + cbn [sz]. lia.
    - (* between two sub-selections *)
      destruct Hok as [I1 [O1 [D1 [I2 [O2 D2]]]]].
      destruct (fas_nil p1 ss1 O1 D1) as [F1 [S1 E1]]. destruct (fas_nil p2 ss2 O2 D2) as [F2 [S2 E2]].
      destruct (fields_and_spreads p1 ss1 ([], [])) as [fm1 sp1].
      destruct (fields_and_spreads p2 ss2 ([], [])) as [fm2 sp2]. cbn [fst snd] in *.
      apply bind_good.
      { apply (between_good rec f); auto. intros x y Hx Hy. cbn [sz].
        specialize (E1 x Hx). specialize (E2 y Hy). lia. }
      intros m1 Hm1. pose proof (mul_le_W _ _ Hm1). apply bind_good.
      { apply for_each_good. intros sp m2 Hsp Hm2. pose proof (mul_le_W _ _ Hm2).
        apply Hrec; [cbn [call_ok]; repeat split; auto | cbn [sz]; lia]. }
      intros m2 Hm2. pose proof (mul_le_W _ _ Hm2). apply bind_good.
      { apply for_each_good. intros sp m3 Hsp Hm3. pose proof (mul_le_W _ _ Hm3).
        apply Hrec; [cbn [call_ok]; repeat split; auto | cbn [sz]; lia]. }
      intros m3 Hm3. pose proof (mul_le_W _ _ Hm3).
      apply for_each_good. intros s1 m4 Hs1 Hm4. pose proof (mul_le_W _ _ Hm4).
      apply for_each_good. intros s2 m5 Hs2 Hm5. pose proof (mul_le_W _ _ Hm5).
      apply Hrec; [cbn [call_ok]; split; auto | cbn [sz]; lia].
    - (* fields vs fragment *)
      destruct Hok as [I1 [Hfm Hfrag]].
      destruct (ops_has (m_fp m) (setid_code id) (fkey frag) excl) eqn:Eh.
      { cbn. unfold phi. cbn [m_fp m_ff]. lia. }
      cbv zeta.
      set (m1 := mkMemo (ops_add (m_fp m) (setid_code id) (fkey frag) excl) (m_ff m)
                        (EvStart TFp (setid_code id) frag excl :: m_log m)).
      assert (Hlt : (phi m1 < phi m)%nat).
      { unfold phi, m1. cbn [m_fp m_ff]. pose proof (phi_fp_add (m_fp m) _ _ excl I1 Hfrag Eh). lia. }
      assert (HltW : (phi m1 * W + W <= phi m * W)%nat).
      { replace (phi m1 * W + W)%nat with ((S (phi m1)) * W)%nat by (cbn; lia). apply mul_le_W. lia. }
      destruct (find_frag frags frag) as [fd|] eqn:Ef; [|cbn; lia].
      destruct (setid_code id =? setid_code (IdFrag frag)); [cbn; lia|].
      apply find_frag_some in Ef as [Hfd _]. destruct (Hfr fd Hfd) as [Ob Db].
      destruct (fas_nil (fr_type fd) (fr_body fd) Ob Db) as [F2 [S2 E2]].
      destruct (fields_and_spreads (fr_type fd) (fr_body fd) ([], [])) as [fm2 sp2]. cbn [fst snd] in *.
      apply (good_res_trans m m1); [lia|].
      apply bind_good.
      { apply (between_good rec f); auto. intros x y Hx Hy.
        rewrite Forall_forall in Hfm, F2.
        pose proof (eok_sz x y excl (Hfm x Hx) (F2 y Hy)). lia. }
      intros m2 Hm2. pose proof (mul_le_W _ _ Hm2).
      apply for_each_good. intros sp m3 Hsp Hm3. pose proof (mul_le_W _ _ Hm3).
      apply Hrec; [cbn [call_ok]; repeat split; auto | cbn [sz]; unfold W in *; lia].
    - (* fragment vs fragment *)
      destruct Hok as [H1 H2].
      destruct (f1 =? f2); [cbn; lia|].
      destruct (ps_has (m_ff m) (fkey f1) (fkey f2) excl) eqn:Eh.
      { cbn. unfold phi. cbn [m_fp m_ff]. lia. }
      cbv zeta.
      set (m1 := mkMemo (m_fp m) (ps_add (m_ff m) (fkey f1) (fkey f2) excl)
                        (EvStart TFf f1 f2 excl :: m_log m)).
      assert (Hlt : (phi m1 < phi m)%nat).
      { unfold phi, m1. cbn [m_fp m_ff]. pose proof (phi_ff_add (m_ff m) _ _ excl H1 H2 Eh). lia. }
      assert (HltW : (phi m1 * W + W <= phi m * W)%nat).
      { replace (phi m1 * W + W)%nat with ((S (phi m1)) * W)%nat by (cbn; lia). apply mul_le_W. lia. }
      destruct (find_frag frags f1) as [d1|] eqn:Ef1; [|cbn; lia].
      destruct (find_frag frags f2) as [d2|] eqn:Ef2; [|cbn; lia].
      apply find_frag_some in Ef1 as [Hd1 _]. apply find_frag_some in Ef2 as [Hd2 _].
      destruct (Hfr d1 Hd1) as [Ob1 Db1]. destruct (Hfr d2 Hd2) as [Ob2 Db2].
      destruct (fas_nil (fr_type d1) (fr_body d1) Ob1 Db1) as [F1 [S1 E1]].
      destruct (fas_nil (fr_type d2) (fr_body d2) Ob2 Db2) as [F2 [S2 E2]].
      destruct (fields_and_spreads (fr_type d1) (fr_body d1) ([], [])) as [fm1 sp1].
      destruct (fields_and_spreads (fr_type d2) (fr_body d2) ([], [])) as [fm2 sp2]. cbn [fst snd] in *.
      apply (good_res_trans m m1); [lia|].
      apply bind_good.
      { apply (between_good rec f); auto. intros x y Hx Hy.
        rewrite Forall_forall in F1, F2.
        pose proof (eok_sz x y excl (F1 x Hx) (F2 y Hy)). lia. }
      intros m2 Hm2. pose proof (mul_le_W _ _ Hm2). apply bind_good.
      { apply for_each_good. intros sp m3 Hsp Hm3. pose proof (mul_le_W _ _ Hm3).
        apply Hrec; [cbn [call_ok]; split; auto | cbn [sz]; unfold W in *; lia]. }
      intros m3 Hm3. pose proof (mul_le_W _ _ Hm3).
      apply for_each_good. intros sp m4 Hsp Hm4. pose proof (mul_le_W _ _ Hm4).
      apply Hrec; [cbn [call_ok]; split; auto | cbn [sz]; unfold W in *; lia].
  Qed.

  Lemma exec_ok_fuel fuel : rec_ok (exec s frags fuel) fuel.
  Proof.
    induction fuel as [|f IH].
    - intros c m _ H. destruct c; cbn [sz] in H; lia.
    - cbn [exec]. apply exec_step_ok. exact IH.
  Qed.

  (* more fuel than needed is fine *)
  Lemma exec_good fuel c m : call_ok c -> (phi m * W + sz c <= fuel)%nat -> good_res m (exec s frags fuel c m).
  Proof. intros. apply exec_ok_fuel; assumption. Qed.

  (* ---- the top level: every selection set of the document ---- *)
  Definition top_fuel (fuel : nat) (m : memo) : Prop := (phi m * W + W <= fuel)%nat.

  Lemma top_fuel_mono fuel m m' : (phi m' <= phi m)%nat -> top_fuel fuel m -> top_fuel fuel m'.
  Proof. unfold top_fuel. intros H1 H2. pose proof (mul_le_W _ _ H1). lia. Qed.

  Lemma within_group_good fuel : forall l m, Forall eok l -> top_fuel fuel m ->
    good_res m (within_group s frags fuel l m).
  Proof.
    induction l as [|x r IH]; intros m Hl Hf; cbn [within_group].
    - cbn. lia.
    - inversion Hl as [|? ? Hx Hr]; subst. apply bind_good.
      + apply for_each_good. intros y m' Hy Hm'. rewrite Forall_forall in Hr.
        apply exec_good; [split; auto|].
        pose proof (eok_sz x y false Hx (Hr y Hy)). pose proof (top_fuel_mono fuel m m' Hm' Hf).
        unfold top_fuel in *. lia.
      + intros m' Hm'. apply IH; auto. eapply top_fuel_mono; eauto.
  Qed.

  Lemma spreads_bc_good fuel id fm : forall sps m,
    In (setid_code id) US -> Forall eok fm -> incl sps UF -> top_fuel fuel m ->
    good_res m (spreads_bc s frags fuel id fm sps m).
  Proof.
    induction sps as [|sp r IH]; intros m Hid Hfm Hs Hf; cbn [spreads_bc].
    - cbn. lia.
    - assert (Hsp : In sp UF) by (apply Hs; left; reflexivity).
      assert (Hr : incl r UF) by (intros z Hz; apply Hs; right; exact Hz).
      apply bind_good.
      + apply exec_good; [cbn [call_ok]; auto|]. cbn [sz]. unfold top_fuel, W in *. lia.
      + intros m1 Hm1. pose proof (top_fuel_mono fuel m m1 Hm1 Hf) as Hf1. apply bind_good.
        * apply for_each_good. intros o m2 Ho Hm2. pose proof (top_fuel_mono fuel m1 m2 Hm2 Hf1).
          apply exec_good; [cbn [call_ok]; auto|]. cbn [sz]. unfold top_fuel, W in *. lia.
        * intros m2 Hm2. apply IH; auto. eapply top_fuel_mono; eauto.
  Qed.

  Lemma groups_members es k l : In (k, l) (groups es) -> Forall eok es -> Forall eok l.
  Proof.
    intros Hg Hes. apply in_groups_iff in Hg. subst l. rewrite Forall_forall in *.
    intros x Hx. apply filter_In in Hx as [Hx _]. auto.
  Qed.

  Lemma within_set_good fuel p id ss m :
    In (setid_code id) US -> sels_ok ss -> (dep ss <= D)%nat -> top_fuel fuel m ->
    good_res m (within_set s frags fuel p id ss m).
  Proof.
    intros Hid Hok Hd Hf. unfold within_set.
    destruct (fas_nil p ss Hok Hd) as [F1 [S1 _]].
    destruct (fields_and_spreads p ss ([], [])) as [fm sps]. cbn [fst snd] in *.
    apply bind_good.
    - apply for_each_good. intros [k l] m' Hg Hm'. cbn [snd].
      apply within_group_good; [eapply groups_members; eauto | eapply top_fuel_mono; eauto].
    - intros m' Hm'. apply spreads_bc_good; auto. eapply top_fuel_mono; eauto.
  Qed.

  Lemma walk_opt_good fuel : forall ss p m, sels_ok ss -> (dep ss <= D)%nat -> top_fuel fuel m ->
    good_res m (walk_opt s frags fuel p ss m).
  Proof.
    induction ss as [|f sub IHsub rest IHrest|iid tc sub IHsub rest IHrest|n rest IHrest];
      intros p m Hok Hd Hf; cbn [walk_opt sels_ok dep] in *.
    - cbn. lia.
    - destruct Hok as [H1 [H2 H3]]. apply bind_good.
      + assert (Hj : forall q, good_res m (bind (within_set s frags fuel q (IdField (f_id f)) sub m)
                                               (walk_opt s frags fuel q sub))).
        { intro q. apply bind_good; [apply within_set_good; auto; lia|].
          intros m' Hm'. apply IHsub; auto; [lia | eapply top_fuel_mono; eauto]. }
        destruct sub; [cbn; lia| | |]; apply Hj.
      + intros m' Hm'. apply IHrest; auto; [lia | eapply top_fuel_mono; eauto].
    - destruct Hok as [H1 [H2 H3]]. apply bind_good.
      + apply bind_good; [apply within_set_good; auto; lia|].
        intros m' Hm'. apply IHsub; auto; [lia | eapply top_fuel_mono; eauto].
      + intros m' Hm'. apply IHrest; auto; [lia | eapply top_fuel_mono; eauto].
    - destruct Hok as [_ H3]. apply IHrest; auto.
  Qed.

  Lemma visit_set_good fuel p id ss m :
    In (setid_code id) US -> sels_ok ss -> (dep ss <= D)%nat -> top_fuel fuel m ->
    good_res m (visit_set s frags fuel p id ss m).
  Proof.
    intros Hid Hok Hd Hf. unfold visit_set. apply bind_good; [apply within_set_good; auto|].
    intros m' Hm'. apply walk_opt_good; auto. eapply top_fuel_mono; eauto.
  Qed.
End Term.

(* ---------------------------------------------------------------- the fuel of a document *)
Fixpoint codes_sels (ss : sels) : list N :=
  match ss with
  | SelNil => []
  | SelField f sub rest => setid_code (IdField (f_id f)) :: codes_sels sub ++ codes_sels rest
  | SelInline iid _ sub rest => setid_code (IdInline iid) :: codes_sels sub ++ codes_sels rest
  | SelSpread _ rest => codes_sels rest
  end.

Fixpoint spreads_sels (ss : sels) : list N :=
  match ss with
  | SelNil => []
  | SelField _ sub rest => spreads_sels sub ++ spreads_sels rest
  | SelInline _ _ sub rest => spreads_sels sub ++ spreads_sels rest
  | SelSpread n rest => n :: spreads_sels rest
  end.

Definition doc_US (d : document) : list N :=
  map (fun i => setid_code (IdOp (N.of_nat i))) (seq 0 (length (d_ops d))) ++
  map (fun fd => setid_code (IdFrag (fr_name fd))) (d_frags d) ++
  flat_map (fun o => codes_sels (snd o)) (d_ops d) ++
  flat_map (fun fd => codes_sels (fr_body fd)) (d_frags d).

Definition doc_UF (d : document) : list N :=
  map fr_name (d_frags d) ++
  flat_map (fun o => spreads_sels (snd o)) (d_ops d) ++
  flat_map (fun fd => spreads_sels (fr_body fd)) (d_frags d).

Definition doc_D (d : document) : nat :=
  Nat.max (fold_right (fun o acc => Nat.max (dep (snd o)) acc) 0%nat (d_ops d))
          (fold_right (fun fd acc => Nat.max (dep (fr_body fd)) acc) 0%nat (d_frags d)).

(* (number of possible memo misses + 1) * (longest chain of calls between two misses) *)
Definition opt_fuel (d : document) : nat :=
  let us := length (doc_US d) in
  let uf := length (doc_UF d) in
  ((2 * (us * uf) + 2 * (uf * uf) + 1) * (2 * doc_D d + 3))%nat.

Lemma fold_max_le {A} (f : A -> nat) l x :
  In x l -> (f x <= fold_right (fun a acc => Nat.max (f a) acc) 0%nat l)%nat.
Proof.
  induction l as [|a l IH]; cbn; intro H; [contradiction|].
  destruct H as [->|H]; [lia | specialize (IH H); lia].
Qed.

Lemma sels_ok_incl US UF : forall ss,
  incl (codes_sels ss) US -> incl (spreads_sels ss) UF -> sels_ok US UF ss.
Proof.
  induction ss as [|f sub IHsub rest IHrest|iid tc sub IHsub rest IHrest|n rest IHrest];
    intros Hc Hs; cbn [sels_ok codes_sels spreads_sels] in *.
  - exact I.
  - split; [apply Hc; left; reflexivity|]. split.
    + apply IHsub; intros x Hx; [apply Hc; right | apply Hs]; apply in_or_app; left; exact Hx.
    + apply IHrest; intros x Hx; [apply Hc; right | apply Hs]; apply in_or_app; right; exact Hx.
  - split; [apply Hc; left; reflexivity|]. split.
    + apply IHsub; intros x Hx; [apply Hc; right | apply Hs]; apply in_or_app; left; exact Hx.
    + apply IHrest; intros x Hx; [apply Hc; right | apply Hs]; apply in_or_app; right; exact Hx.
  - split; [apply Hs; left; reflexivity|]. apply IHrest; auto. intros x Hx. apply Hs. right. exact Hx.
Qed.

Lemma sumf_const {A} (l : list A) c : sumf (fun _ => c) l = (c * length l)%nat.
Proof. induction l; cbn [sumf length]; lia. Qed.

Lemma phi_init US UF :
  phi US UF (mkMemo [] [] []) = (2 * length (list_prod US UF) + 2 * length (list_prod UF UF))%nat.
Proof.
  unfold phi, phi_fp, phi_ff. cbn [m_fp m_ff].
  rewrite <- !sumf_const. f_equal.
  induction (list_prod UF UF) as [|k l IH]; cbn [sumf]; auto.
  rewrite IH. f_equal. unfold ps_get. destruct (order (fkey (fst k)) (fkey (snd k))). reflexivity.
Qed.

(* The memoised algorithm terminates on every document, cyclic fragment spreads included:
   with [opt_fuel d] it never runs out of fuel, in whatever order the definitions are visited. *)
Theorem opt_terminates s d order fuel : (opt_fuel d <= fuel)%nat -> opt_run s d order fuel <> RFuel.
Proof.
  intro Hfuel.
  set (US := doc_US d). set (UF := doc_UF d). set (D := doc_D d).
  assert (Hops : forall o, In o (d_ops d) -> sels_ok US UF (snd o) /\ (dep (snd o) <= D)%nat).
  { intros o Ho. split.
    - apply sels_ok_incl; intros x Hx.
      + unfold US, doc_US. apply in_or_app. right. apply in_or_app. right. apply in_or_app. left.
        apply in_flat_map. exists o. auto.
      + unfold UF, doc_UF. apply in_or_app. right. apply in_or_app. left. apply in_flat_map. exists o. auto.
    - unfold D, doc_D. pose proof (fold_max_le (fun o => dep (snd o)) (d_ops d) o Ho). lia. }
  assert (Hfr : frags_wf (d_frags d) US UF D).
  { intros fd Hfd. split.
    - apply sels_ok_incl; intros x Hx.
      + unfold US, doc_US. apply in_or_app. right. apply in_or_app. right. apply in_or_app. right.
        apply in_flat_map. exists fd. auto.
      + unfold UF, doc_UF. apply in_or_app. right. apply in_or_app. right. apply in_flat_map. exists fd. auto.
    - unfold D, doc_D. pose proof (fold_max_le (fun fd => dep (fr_body fd)) (d_frags d) fd Hfd). lia. }
  set (m0 := mkMemo [] [] []).
  assert (Htop : top_fuel US UF D fuel m0).
  { unfold top_fuel, m0. rewrite phi_init, !prod_length. unfold opt_fuel, W in *. fold US UF D in Hfuel. lia. }
  assert (Hgood : good_res US UF m0 (opt_run s d order fuel)).
  { unfold opt_run. fold m0. apply for_each_good. intros [isop i] m' _ Hm'. cbn [fst snd].
    pose proof (top_fuel_mono US UF D fuel m0 m' Hm' Htop) as Hf'.
    destruct isop.
    - destruct (nth_error (d_ops d) i) as [o|] eqn:En; [|cbn; lia].
      destruct (Hops o (nth_error_In _ _ En)) as [O1 O2].
      apply (visit_set_good s (d_frags d) US UF D Hfr); auto.
      unfold US, doc_US. apply in_or_app. left. apply in_map_iff. exists i. split; auto.
      apply in_seq. assert (i < length (d_ops d))%nat by (apply nth_error_Some; congruence). lia.
    - destruct (nth_error (d_frags d) i) as [fd|] eqn:En; [|cbn; lia].
      pose proof (nth_error_In _ _ En) as Hfd. destruct (Hfr fd Hfd) as [O1 O2].
      apply (visit_set_good s (d_frags d) US UF D Hfr); auto.
      unfold US, doc_US. apply in_or_app. right. apply in_or_app. left. apply in_map_iff. exists fd. auto. }
  intro Hc. rewrite Hc in Hgood. exact Hgood.
Qed.
