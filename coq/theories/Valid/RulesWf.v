(* On the trees the parser returns (Lang/Wf.v) the extraction layer of Valid/Rules.v reads every
   definition as what the grammar says it is. *)
From GV Require Import Base.Prelude Lang.Lexer Lang.Ast Lang.Parser Lang.Wf Valid.Rules Valid.RulesBase.

Section Flags.
  Variables xfa xdd : bool.

  Lemma xdef_of_operation p m : wf_operation xfa m -> exists o, xdef_of p m = XOp o /\ o_path o = p.
  Proof. intros [s dsc n vs ds o Hs Hd Hn Hv Hds Ho]. eexists. split; reflexivity. Qed.

  Lemma xdef_of_fragment p m : wf_fragment_definition xfa m ->
    exists f, xdef_of p m = XFrag f /\ f_path f = p.
  Proof. intros [s dsc n vs ds tc Hs Hd Hn Hv Hds Ht]. eexists. split; reflexivity. Qed.

  Lemma xdef_of_type_system p m : wf_type_system_definition xdd m -> xdef_of p m = XOther p.
  Proof. intros []; reflexivity. Qed.

  Lemma xdef_of_extension p m : wf_extension xdd m -> xdef_of p m = XOther p.
  Proof. intros []; reflexivity. Qed.

  (* every definition of a parsed document is classified: operation, fragment, or not executable *)
  Theorem wf_document_xdefs d : wf_document xfa xdd d ->
    exists l, d = Nd KDocument [AList l] /\ length (xdefs d) = length l /\
      forall j m, nth_error l j = Some m ->
        (wf_operation xfa m /\ exists o, nth_error (xdefs d) j = Some (XOp o) /\ o_path o = [(O, j)]) \/
        (wf_fragment_definition xfa m /\ exists f, nth_error (xdefs d) j = Some (XFrag f) /\ f_path f = [(O, j)]) \/
        ((wf_type_system_definition xdd m \/ wf_extension xdd m) /\
         nth_error (xdefs d) j = Some (XOther [(O, j)])).
  Proof.
    intros [x l Hx Hl]. exists (x :: l). split; [reflexivity|]. cbn [xdefs].
    split; [unfold mapi; apply mapi_from_length|].
    intros j m Hj.
    assert (Hm : wf_definition xfa xdd m).
    { destruct j; cbn in Hj; [inversion Hj; subst; exact Hx|].
      rewrite Forall_forall in Hl. apply Hl. eapply nth_error_In; eauto. }
    assert (Hn : nth_error (mapi (fun j m => xdef_of [(O, j)] m) (x :: l)) j = Some (xdef_of [(O, j)] m)).
    { unfold mapi. clear Hm Hx Hl. revert Hj. generalize (x :: l). intro L.
      assert (G : forall i, nth_error L j = Some m ->
                  nth_error (mapi_from (fun j m => xdef_of [(O, j)] m) i L) j = Some (xdef_of [(O, (i + j)%nat)] m)).
      { revert j. induction L as [|a L IH]; intros [|j] i H; try discriminate.
        - inversion H; subst. cbn. rewrite Nat.add_0_r. reflexivity.
        - cbn [mapi_from nth_error]. rewrite (IH j (S i) H).
          replace (S i + j)%nat with (i + S j)%nat by lia. reflexivity. }
      apply (G O). }
    destruct Hm as [m Ho|m Hf|m Ht|m He].
    - left. split; [exact Ho|]. destruct (xdef_of_operation [(O, j)] m Ho) as (o & E & P).
      exists o. rewrite Hn, E. auto.
    - right. left. split; [exact Hf|]. destruct (xdef_of_fragment [(O, j)] m Hf) as (f & E & P).
      exists f. rewrite Hn, E. auto.
    - right. right. split; [auto|]. rewrite Hn, (xdef_of_type_system _ m Ht). reflexivity.
    - right. right. split; [auto|]. rewrite Hn, (xdef_of_extension _ m He). reflexivity.
  Qed.
End Flags.
