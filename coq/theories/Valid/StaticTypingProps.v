(* Static typing (what validation's descent establishes) implies the runtime-type-directed
   judgment of Exec/Typing.v, on schemas whose objects implement their interfaces, for operations
   whose mergeable fields have one name (the part OverlappingFieldsCanBeMerged contributes). *)
From GV Require Import Base.Prelude Exec.Value Exec.Schema Exec.Spec Exec.SpecProps Exec.Typing
  Exec.Soundness Valid.StaticTyping.

Lemma ty_eqb_eq a : forall b, ty_eqb a b = true -> a = b.
Proof.
  induction a as [x|a IH|a IH]; intros [y|b|b] H; cbn in H; try discriminate.
  - apply str_eqb_eq in H. congruence.
  - f_equal. apply IH. exact H.
  - f_equal. apply IH. exact H.
Qed.

Lemma is_nil_true {A} (l : list A) : is_nil l = true -> l = [].
Proof. destruct l; [reflexivity | discriminate]. Qed.

Lemma leaf_not_composite td : is_leaf_def td = true -> is_composite_def td = false.
Proof. destruct td; cbn; congruence. Qed.

Section Props.
  Variable s : schema.
  Variable vdefs : list var_def.

  Lemma sstatic_all pt' sub :
    (fix all (l : list selection) : bool :=
       match l with [] => true | y :: r => sstatic s vdefs pt' y && all r end) sub
    = forallb (sstatic s vdefs pt') sub.
  Proof. induction sub as [|y r IH]; cbn; [reflexivity | rewrite IH; reflexivity]. Qed.

  Lemma sstatic_field pt al name args dirs sub :
    sstatic s vdefs pt (SField al name args dirs sub) =
    if str_eqb name n_typename then is_nil args && is_nil sub
    else
      match lookup_field s pt name with
      | None => false
      | Some fd =>
        args_ok s vdefs [] (f_args fd) args &&
        match lookup_type s (named_of (f_type fd)) with
        | None => false
        | Some td =>
          if is_leaf_def td then is_nil sub
          else is_composite_def td && negb (is_nil sub) &&
               forallb (sstatic s vdefs (named_of (f_type fd))) sub
        end
      end.
  Proof.
    cbn [sstatic]. destruct (str_eqb name n_typename); [reflexivity|].
    destruct (lookup_field s pt name) as [fd|]; [|reflexivity].
    destruct (lookup_type s (named_of (f_type fd))) as [td|]; [|reflexivity].
    destruct (is_leaf_def td); [reflexivity|]. rewrite sstatic_all. reflexivity.
  Qed.

  Lemma sstatic_inline pt tc dirs sub :
    sstatic s vdefs pt (SInline tc dirs sub) =
    forallb (sstatic s vdefs (match tc with Some c => c | None => pt end)) sub.
  Proof. cbn [sstatic]. apply sstatic_all. Qed.

  (* ---- runtime types ---- *)
  Lemma cond_runtime c rt : is_object s rt = true -> cond_matches s c rt = true ->
    runtime_of_b s c rt = true.
  Proof.
    intros Ho H. unfold cond_matches in H. unfold runtime_of_b. apply orb_true_iff in H as [H|H].
    - apply str_eqb_eq in H. subst c. rewrite Ho, str_eqb_refl. reflexivity.
    - rewrite Ho, H. cbn. apply orb_true_r.
  Qed.

  Lemma runtime_object pt rt : runtime_of_b s pt rt = true -> is_object s rt = true.
  Proof.
    unfold runtime_of_b. intro H. apply orb_true_iff in H as [H|H]; apply andb_true_iff in H as [H1 H2].
    - apply str_eqb_eq in H2. subst. exact H1.
    - exact H1.
  Qed.

  Lemma is_object_inv n : is_object s n = true ->
    exists fs ifs, lookup_type s n = Some (TObject fs ifs) /\ In (n, TObject fs ifs) (s_types s).
  Proof.
    unfold is_object. destruct (lookup_type s n) as [[| |fs ifs| | |]|] eqn:E; try discriminate.
    intros _. exists fs, ifs. split; [reflexivity|]. unfold lookup_type in E.
    destruct (scalar_of_name n); [discriminate|]. apply lookup_In. exact E.
  Qed.

  Lemma object_in_names n : is_object s n = true -> In n (object_names s).
  Proof.
    intro H. destruct (is_object_inv n H) as (fs & ifs & _ & Hin).
    unfold object_names. apply in_flat_map. exists (n, TObject fs ifs). cbn. auto.
  Qed.

  Lemma runtime_cases pt rt : runtime_of_b s pt rt = true ->
    (is_object s pt = true /\ rt = pt) \/ (is_object s rt = true /\ possible s pt rt = true).
  Proof.
    unfold runtime_of_b. intro H. apply orb_true_iff in H as [H|H]; apply andb_true_iff in H as [H1 H2].
    - left. apply str_eqb_eq in H2. auto.
    - right. auto.
  Qed.

  (* ---- what static typing gives for every reachable field ---- *)
  Variable frags : list fragment.
  Hypothesis Hfrags : frags_static s vdefs frags = true.

  Definition lstatic (rt : str) (sels : list selection) : Prop :=
    forall x, In x sels -> exists pt, runtime_of_b s pt rt = true /\ sstatic s vdefs pt x = true.

  Lemma lstatic_of_list pt rt sels : runtime_of_b s pt rt = true ->
    forallb (sstatic s vdefs pt) sels = true -> lstatic rt sels.
  Proof.
    intros Hr H x Hx. exists pt. split; [exact Hr|]. rewrite forallb_forall in H. apply H. exact Hx.
  Qed.

  Lemma runtime_composite_def pt rt : runtime_of_b s pt rt = true ->
    exists td, lookup_type s pt = Some td /\ is_composite_def td = true.
  Proof.
    intro H. destruct (runtime_cases pt rt H) as [[Ho _]|[_ Hp]].
    - destruct (is_object_inv pt Ho) as (fs & ifs & E & _). eexists. split; [exact E | reflexivity].
    - unfold possible in Hp. destruct (lookup_type s pt) as [[| | | | |]|]; try discriminate;
        eexists; split; reflexivity.
  Qed.

  Lemma reach_static rt sels k f :
    is_object s rt = true -> reach s frags rt sels k f -> lstatic rt sels ->
    exists pt al dirs, runtime_of_b s pt rt = true /\
      sstatic s vdefs pt (SField al (fs_name f) (fs_args f) dirs (fs_sels f)) = true.
  Proof.
    intros Ho H. induction H as [sels al name args dirs sub Hin
                               | sels tc dirs sub k f Hin Hc Hr IH
                               | sels name dirs fr k f Hin Hf Hc Hr IH]; intro Hl.
    - destruct (Hl _ Hin) as (pt & H1 & H2). exists pt, al, dirs. auto.
    - apply IH. destruct (Hl _ Hin) as (pt & H1 & H2). rewrite sstatic_inline in H2.
      destruct tc as [c|].
      + apply (lstatic_of_list c); [apply cond_runtime; assumption | exact H2].
      + apply (lstatic_of_list pt); assumption.
    - apply IH. assert (Hin' : In fr frags).
      { clear -Hf. induction frags as [|g r IHr]; cbn in Hf; [discriminate|].
        destruct (str_eqb name (fr_name g)); [inversion Hf; cbn; auto | right; auto]. }
      pose proof (cond_runtime _ _ Ho Hc) as Hrt.
      destruct (runtime_composite_def _ _ Hrt) as (td & Etd & Hcomp).
      unfold frags_static in Hfrags. rewrite forallb_forall in Hfrags. specialize (Hfrags _ Hin').
      rewrite Etd, Hcomp in Hfrags. cbn in Hfrags.
      apply (lstatic_of_list (fr_cond fr)); assumption.
  Qed.

  (* ---- interface implementation ---- *)
  Hypothesis Himpl : schema_impl_ok s = true.

  Lemma object_fields_wf rt fs ifs : In (rt, TObject fs ifs) (s_types s) -> fields_wf s fs = true.
  Proof.
    intro Hin. unfold schema_impl_ok in Himpl. rewrite forallb_forall in Himpl.
    specialize (Himpl _ Hin). cbn in Himpl. apply andb_true_iff in Himpl as [H _]. exact H.
  Qed.

  Lemma impl_field pt rt name fi :
    is_object s rt = true -> possible s pt rt = true -> lookup_field s pt name = Some fi ->
    exists fo, lookup_field s rt name = Some fo /\ field_impl s fi fo = true.
  Proof.
    intros Ho Hp Hl. destruct (is_object_inv rt Ho) as (fs & ifs & Ert & Hin).
    unfold possible in Hp. rewrite Ert in Hp. unfold lookup_field in *.
    destruct (lookup_type s pt) as [[| | |ifs'|ms|]|] eqn:Ept; try discriminate.
    pose proof Himpl as Hi. unfold schema_impl_ok in Hi. rewrite forallb_forall in Hi.
    specialize (Hi _ Hin). cbn in Hi. apply andb_true_iff in Hi as [_ Hi].
    rewrite forallb_forall in Hi. apply mem_In in Hp. specialize (Hi _ Hp). rewrite Ept in Hi.
    rewrite forallb_forall in Hi. apply find_field_In in Hl as [Hfi Hn]. specialize (Hi _ Hfi).
    rewrite Hn in Hi. rewrite Ert. destruct (find_field name fs) as [fo|]; [|discriminate]. eauto.
  Qed.

  Lemma required_compat ai ao : arg_compat ai ao = true -> required_arg ao = required_arg ai.
  Proof.
    unfold arg_compat, required_arg, has_default. intro H. apply andb_true_iff in H as [H1 H2].
    apply ty_eqb_eq in H1. rewrite H1. apply Bool.eqb_prop in H2.
    destruct (a_default ai), (a_default ao); cbn in *; congruence.
  Qed.

  Lemma args_transfer nulls di do_ args :
    args_impl di do_ = true -> nodup_names (map a_name do_) = true ->
    args_ok s vdefs nulls di args = true -> args_ok s vdefs nulls do_ args = true.
  Proof.
    intros Hi Hnd Hok. unfold args_impl in Hi. apply andb_true_iff in Hi as [Hi1 Hi2].
    rewrite forallb_forall in Hi1, Hi2.
    unfold args_ok in *. apply andb_true_iff in Hok as [Hk Hd]. rewrite forallb_forall in Hk, Hd.
    assert (Hknown : forall k v, In (k, v) args -> exists ai ao,
              find_arg k di = Some ai /\ find_arg k do_ = Some ao /\ arg_compat ai ao = true).
    { intros k v Hin. specialize (Hk _ Hin). cbn in Hk.
      destruct (find_arg k di) as [ai|] eqn:Ea; [|discriminate].
      pose proof (find_arg_In _ _ _ Ea) as [Hai Hn]. specialize (Hi1 _ Hai). rewrite Hn in Hi1.
      destruct (find_arg k do_) as [ao|] eqn:Eo; [|discriminate]. eauto. }
    apply andb_true_iff. split; apply forallb_forall.
    - intros [k v] Hin. cbn. destruct (Hknown k v Hin) as (ai & ao & _ & -> & _). reflexivity.
    - intros ao Hao. pose proof (find_arg_self _ _ Hnd Hao) as Hself.
      destruct (lookup (a_name ao) args) as [v|] eqn:El.
      + pose proof (lookup_In _ _ _ El) as Hin. destruct (Hknown _ _ Hin) as (ai & ao' & Ea & Eo & Hc).
        rewrite Hself in Eo. inversion Eo; subst ao'.
        pose proof (find_arg_In _ _ _ Ea) as [Hai Hn]. specialize (Hd _ Hai). rewrite Hn, El in Hd.
        unfold arg_compat in Hc. apply andb_true_iff in Hc as [H1 H2].
        apply ty_eqb_eq in H1. apply Bool.eqb_prop in H2. rewrite <- H1, <- H2. exact Hd.
      + destruct (find_arg (a_name ao) di) as [ai|] eqn:Ea.
        * pose proof (find_arg_In _ _ _ Ea) as [Hai Hn]. pose proof (Hd _ Hai) as Hd'.
          rewrite Hn, El in Hd'. specialize (Hi1 _ Hai). rewrite Hn, Hself in Hi1.
          rewrite (required_compat _ _ Hi1). exact Hd'.
        * specialize (Hi2 _ Hao). rewrite Ea in Hi2. exact Hi2.
  Qed.

  Lemma out_compat_runtime ni no rt' : out_compat s ni no = true ->
    runtime_of_b s no rt' = true -> runtime_of_b s ni rt' = true.
  Proof.
    unfold out_compat. intros H Hr. apply orb_true_iff in H as [H|H].
    - apply str_eqb_eq in H. subst. exact Hr.
    - apply andb_true_iff in H as [_ H]. rewrite forallb_forall in H.
      specialize (H rt' (object_in_names _ (runtime_object _ _ Hr))). rewrite Hr in H. exact H.
  Qed.

  (* a field typed at a static parent type is accepted at every runtime type of that parent *)
  Lemma field_transfer pt rt al name args dirs sub :
    runtime_of_b s pt rt = true ->
    sstatic s vdefs pt (SField al name args dirs sub) = true ->
    field_ok s vdefs [] rt (mkFS name args sub) = true /\
    (str_eqb name n_typename = false ->
     exists fi fo, lookup_field s pt name = Some fi /\ lookup_field s rt name = Some fo /\
                   out_compat s (named_of (f_type fi)) (named_of (f_type fo)) = true /\
                   (sub <> [] -> forallb (sstatic s vdefs (named_of (f_type fi))) sub = true)).
  Proof.
    intros Hr H. rewrite sstatic_field in H. unfold field_ok. cbn [fs_name fs_args fs_sels].
    destruct (str_eqb name n_typename) eqn:Et.
    { split; [|discriminate]. apply andb_true_iff in H as [H1 H2].
      apply is_nil_true in H1, H2. subst. reflexivity. }
    destruct (lookup_field s pt name) as [fi|] eqn:Ei; [|discriminate].
    apply andb_true_iff in H as [Hargs Hty].
    destruct (lookup_type s (named_of (f_type fi))) as [tdi|] eqn:Etdi; [|discriminate].
    assert (Hsub : sub <> [] -> forallb (sstatic s vdefs (named_of (f_type fi))) sub = true).
    { intro Hne. destruct (is_leaf_def tdi).
      - apply is_nil_true in Hty. contradiction.
      - apply andb_true_iff in Hty as [_ Hty]. exact Hty. }
    destruct (runtime_cases _ _ Hr) as [[Ho ->]|[Ho Hp]].
    - (* the parent is the object type itself *)
      rewrite Ei, Hargs, Etdi. cbn [andb]. split.
      + destruct (is_leaf_def tdi); [destruct sub; [reflexivity | discriminate]|].
        apply andb_true_iff in Hty as [Hty _]. apply andb_true_iff in Hty as [H1 H2]. rewrite H1. cbn.
        destruct sub; [discriminate | reflexivity].
      + intros _. exists fi, fi. repeat split; try assumption.
        unfold out_compat. rewrite str_eqb_refl. reflexivity.
    - (* an abstract parent *)
      destruct (impl_field _ _ _ _ Ho Hp Ei) as (fo & Eo & Hfi).
      unfold field_impl in Hfi. apply andb_true_iff in Hfi as [Ha Hout].
      destruct (is_object_inv rt Ho) as (fs & ifs & Ert & Hin).
      pose proof (object_fields_wf _ _ _ Hin) as Hwf. unfold fields_wf in Hwf. rewrite forallb_forall in Hwf.
      assert (Hfo : In fo fs).
      { unfold lookup_field in Eo. rewrite Ert in Eo. apply find_field_In in Eo. tauto. }
      specialize (Hwf _ Hfo). apply andb_true_iff in Hwf as [Hnd Hto].
      rewrite Eo, (args_transfer [] _ _ _ Ha Hnd Hargs). cbn [andb]. split.
      + destruct (lookup_type s (named_of (f_type fo))) as [tdo|] eqn:Etdo; [|discriminate].
        unfold out_compat in Hout. apply orb_true_iff in Hout as [Hout|Hout].
        * apply str_eqb_eq in Hout. rewrite Hout, Etdi in Etdo. inversion Etdo; subst tdo.
          destruct (is_leaf_def tdi); [destruct sub; [reflexivity | discriminate]|].
          apply andb_true_iff in Hty as [Hty _]. apply andb_true_iff in Hty as [H1 H2]. rewrite H1. cbn.
          destruct sub; [discriminate | reflexivity].
        * apply andb_true_iff in Hout as [Hout _]. apply andb_true_iff in Hout as [Hci Hco].
          unfold composite_name in Hci, Hco. rewrite Etdi in Hci. rewrite Etdo in Hco.
          assert (Hli : is_leaf_def tdi = false) by (destruct tdi; cbn in *; congruence).
          assert (Hlo : is_leaf_def tdo = false) by (destruct tdo; cbn in *; congruence).
          rewrite Hli in Hty. rewrite Hlo, Hco. cbn.
          apply andb_true_iff in Hty as [Hty _]. apply andb_true_iff in Hty as [_ H2].
          destruct sub; [discriminate | reflexivity].
      + intros _. exists fi, fo. repeat split; assumption.
  Qed.

  (* ---- the theorem ---- *)
  Theorem static_typed rt sels :
    names_agree s frags rt sels -> is_object s rt = true -> lstatic rt sels ->
    set_typed s frags vdefs [] rt sels.
  Proof.
    induction 1 as [rt sels Hn1 Hn2 IH]. intros Ho Hl. constructor.
    - intros k f Hr. destruct (reach_static _ _ _ _ Ho Hr Hl) as (pt & al & dirs & Hrt & Hs).
      destruct f as [name args sub]. cbn [fs_name fs_args fs_sels] in Hs.
      apply (field_transfer _ _ _ _ _ _ _ Hrt Hs).
    - exact Hn1.
    - intros k fs f1 fd rt' Hall Hin1 Hfd Hrt'. apply (IH k fs f1 fd rt' Hall Hin1 Hfd Hrt').
      + eapply runtime_object; eauto.
      + intros x Hx. unfold merged_sels in Hx. apply in_flat_map in Hx as (f & Hf & Hx).
        pose proof (Hall _ Hf) as Hr.
        destruct (reach_static _ _ _ _ Ho Hr Hl) as (pt & al & dirs & Hrt & Hs).
        pose proof (Hn1 k f f1 Hr (Hall _ Hin1)) as Hname.
        destruct f as [name args sub]. cbn [fs_name fs_args fs_sels] in *.
        destruct (field_transfer _ _ _ _ _ _ _ Hrt Hs) as [_ Hex].
        assert (Ht : str_eqb name n_typename = false).
        { destruct (str_eqb name n_typename) eqn:Et; [|reflexivity]. exfalso.
          rewrite sstatic_field, Et in Hs. apply andb_true_iff in Hs as [_ Hs].
          apply is_nil_true in Hs. subst. destruct Hx. }
        destruct (Hex Ht) as (fi & fo & Ei & Eo & Hout & Hsub).
        rewrite Hname, Hfd in Eo. inversion Eo; subst fo.
        exists (named_of (f_type fi)). split.
        * eapply out_compat_runtime; eauto.
        * assert (Hne : sub <> []) by (intro; subst; destruct Hx).
          specialize (Hsub Hne). rewrite forallb_forall in Hsub. apply Hsub. exact Hx.
  Qed.
End Props.

(* static typing is enough for C13's conclusion: conforming data, accepted variables none of which
   is a null of nullable type => no errors *)
Theorem static_sound fuel s d vars root cv rt j es cs :
  schema_ok s = true -> schema_impl_ok s = true ->
  nodup_names (map v_name (d_vars d)) = true ->
  root_type s (d_kind d) = Some rt -> is_object s rt = true ->
  sstatic_list s (d_vars d) rt (d_sels d) = true -> frags_static s (d_vars d) (d_frags d) = true ->
  names_agree s (d_frags d) rt (d_sels d) ->
  coerce_variable_values s (d_vars d) vars = Some cv -> nulls_of (d_vars d) cv = [] ->
  conforms_root s rt root = true ->
  execute_fuel fuel s d vars root = Resp j es cs ->
  es = [] /\ j <> JNull.
Proof.
  intros Hs Hi Hnd Hrt Hobj Hst Hfr Hna Hcv Hnulls Hconf Hex.
  assert (Hty : set_typed s (d_frags d) (d_vars d) (nulls_of (d_vars d) cv) rt (d_sels d)).
  { rewrite Hnulls. apply (static_typed s (d_vars d) (d_frags d) Hfr Hi rt (d_sels d) Hna Hobj).
    apply (lstatic_of_list s (d_vars d) rt rt); [|exact Hst].
    unfold runtime_of_b. rewrite Hobj, str_eqb_refl. reflexivity. }
  apply conforms_root_inv in Hconf. destruct Hconf as [tn [flds [-> [_ Hoc]]]].
  apply execute_fuel_resp in Hex. destruct Hex as [cv' [tn' [r [Hcv' [Hrt'' [_ [He ->]]]]]]].
  rewrite Hcv in Hcv'. inversion Hcv'; subst cv'. rewrite Hrt in Hrt''. inversion Hrt''; subst tn'.
  pose proof (coerce_vars_ok _ _ _ _ Hnd Hcv) as Hok.
  destruct (exec_sound s (d_frags d) (d_vars d) cv Hs Hok fuel) as [Hsels _].
  destruct (Hsels rt flds (d_sels d) _ Hobj Hty Hoc He) as [j' [cs' [Heq Hj]]].
  inversion Heq; subst. split; [reflexivity | exact Hj].
Qed.

(* the merging hypothesis is exactly what the judgment itself contains *)
Lemma set_typed_names_agree s frags vdefs nulls rt sels :
  set_typed s frags vdefs nulls rt sels -> names_agree s frags rt sels.
Proof.
  induction 1 as [rt sels _ H2 _ IH]. constructor; [exact H2|].
  intros k fs f1 fd rt' Ha Hi Hf Hr. eapply IH; eauto.
Qed.
