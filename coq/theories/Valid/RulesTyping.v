(* Rules silent on a selection set => static typing (Valid/StaticTyping.sstatic) and directive
   conditions (Typing.sel_dirs_ok) of its translation. *)
From GV Require Import Base.Prelude Lang.Ast Exec.Value Exec.Schema Exec.Spec Exec.SpecProps Exec.Typing
  Exec.Soundness Valid.StaticTyping Valid.StaticTypingProps
  Valid.Rules Valid.RulesBase Valid.Rules13 Valid.ToExec Valid.RulesLit.

(* the specified @skip / @include in the directive table *)
Definition if_def : arg_def := mkArg n_if (TNonNull (TNamed n_Boolean)) None.
Definition dirs_std (vs : vschema) : bool :=
  match Value.lookup n_skip (vs_dirs vs), Value.lookup n_include (vs_dirs vs) with
  | Some [a], Some [b] =>
    str_eqb (a_name a) n_if && ty_eqb (a_type a) (TNonNull (TNamed n_Boolean)) && negb (has_default a) &&
    str_eqb (a_name b) n_if && ty_eqb (a_type b) (TNonNull (TNamed n_Boolean)) && negb (has_default b)
  | _, _ => false
  end.

(* one selection of sel_evs / sels_of *)
Definition sel1_evs (vs : vschema) (fr : list (str * node)) (sp : npath) (sel : node)
           (ct : option str) (fd : option field_def) : list ev :=
  let s := vs_s vs in
  let pt := composite_of s ct in
  match sel with
  | Nd KField (d :: ANode nm :: _ :: a :: sset :: _) =>
    let fdef := match pt with Some t => get_field s t (name_str nm) | None => None end in
    let ftype := match fdef with
                 | Some f => if is_output_named s (named_of (f_type f)) then Some (f_type f) else None
                 | None => None
                 end in
    let args := attr_list a in
    (match pt, fdef with Some _, None => [err1 R_FIELDS sp] | _, _ => [] end)
    ++ (match ftype with
        | Some t =>
          if is_leaf s (named_of t)
          then match sset with ANode _ => [err1 R_LEAFS (sp ++ [(4, O)]%nat)] | _ => [] end
          else match sset with
               | ANode (Nd KSelectionSet (AList [] :: _)) => [err1 R_LEAFS sp]
               | ANode _ => []
               | _ => [err1 R_LEAFS sp]
               end
        | None => []
        end)
    ++ arg_evs s sp 3 args (option_map f_args fdef) (match fdef with Some _ => true | None => false end)
    ++ dir_evs vs sp 0 (attr_list d) fdef
    ++ (match sset with
        | ANode s' => sel_evs vs fr (sp ++ [(4, O)]%nat) s' (option_map named_of ftype) fdef
        | _ => []
        end)
    ++ (match fdef with Some f => req_evs sp (f_args f) args | None => [] end)
  | Nd KFragmentSpread (d :: ANode nm :: _) =>
    spread_evs s sp (match Rules.lookup (name_str nm) fr with Some tc => cond_type vs tc | None => None end) pt
    ++ dir_evs vs sp 0 (attr_list d) fd
  | Nd KInlineFragment (d :: ANode s' :: tc :: _) =>
    let ct' := match tc with ANode t => cond_type vs t | _ => ct end in
    (match tc with ANode t => cond_evs vs (sp ++ [(2, O)]%nat) t | _ => [] end)
    ++ spread_evs s sp ct' pt
    ++ dir_evs vs sp 0 (attr_list d) fd
    ++ sel_evs vs fr (sp ++ [(1, O)]%nat) s' ct' fd
  | _ => []
  end.

Lemma sel_evs_unfold vs fr p sels r ct fd :
  sel_evs vs fr p (Nd KSelectionSet (AList sels :: r)) ct fd =
  concat (mapi (fun j sel => sel1_evs vs fr (p ++ [(O, j)]) sel ct fd) sels).
Proof. reflexivity. Qed.

Section One.
  Variable fl : list N -> Z * N.

  Definition sel1_of (sel : node) : option selection :=
    match sel with
    | Nd KField (d :: ANode nm :: al :: a :: sset :: _) =>
      match args_of fl a, dirs_of fl d,
            match sset with ANode s' => sels_of fl s' | _ => Some [] end with
      | Some args, Some dirs, Some sub => Some (SField (opt_name al) (name_str nm) args dirs sub)
      | _, _, _ => None
      end
    | Nd KFragmentSpread (d :: ANode nm :: ANone :: _) =>
      option_map (SSpread (name_str nm)) (dirs_of fl d)
    | Nd KInlineFragment (d :: ANode s' :: tc :: _) =>
      match dirs_of fl d, sels_of fl s',
            match tc with
            | ANode (Nd KNamedType (ANode nm :: _)) => Some (Some (name_str nm))
            | ANode _ => None
            | _ => Some None
            end with
      | Some dirs, Some sub, Some c => Some (SInline c dirs sub)
      | _, _, _ => None
      end
    | _ => None
    end.

  Lemma sels_of_unfold sels r :
    sels_of fl (Nd KSelectionSet (AList sels :: r)) = all_some (map sel1_of sels).
  Proof. reflexivity. Qed.
End One.

Lemma errs_of_err1 r l : errs_of (map (err1 r) l) = map (fun p => VE r [p]) l.
Proof. induction l as [|a l IH]; cbn; [reflexivity | rewrite <- IH; reflexivity]. Qed.
Lemma uses_of_err1 r l : uses_of (map (err1 r) l) = [].
Proof. induction l as [|a l IH]; cbn; [reflexivity | exact IH]. Qed.

Lemma lookup_mem_none {A} k (l : list (Value.str * A)) : Value.lookup k l = None <-> Value.mem k (map fst l) = false.
Proof.
  unfold Value.mem. induction l as [|[k' v] r IH]; cbn; [tauto|].
  destruct (str_eqb k k'); [split; discriminate | exact IH].
Qed.

Section Sound.
  Variable vs : vschema.
  Let s := vs_s vs.
  Variable fl : list N -> Z * N.
  Variable vdefs : list var_def.
  Hypothesis Hinputs : schema_inputs_ok s = true.
  Hypothesis Hsok : schema_ok s = true.

  Definition arg_kv (a : node) : option (Value.str * value) :=
    match a with
    | Nd KArgument (ANode nm :: ANode v :: _) => option_map (pair (name_str nm)) (val_of fl v)
    | _ => None
    end.

  Lemma arg_kv_inv a k x : arg_kv a = Some (k, x) ->
    exists nm vn r, a = Nd KArgument (ANode nm :: ANode vn :: r) /\ k = arg_name a /\ val_of fl vn = Some x.
  Proof.
    destruct a as [kd attrs]. destruct kd; cbn; try discriminate.
    destruct attrs as [|[| nm| | | |] [|[| vn| | | |] r]]; cbn; try discriminate.
    destruct (val_of fl vn) as [x'|] eqn:E; cbn; [|discriminate]. intro H. inversion H; subst.
    exists nm, vn, r. auto.
  Qed.

  Lemma args_of_kv a : args_of fl a = all_some (map arg_kv (attr_list a)).
  Proof. reflexivity. Qed.

  Lemma arg_names args kvs : Forall2 (fun a kv => arg_kv a = Some kv) args kvs ->
    map fst kvs = map arg_name args.
  Proof.
    induction 1 as [|a [k x] l1 l2 Ha H IH]; [reflexivity|]. cbn [map fst].
    apply arg_kv_inv in Ha as (nm & vn & r & -> & -> & _). rewrite IH. reflexivity.
  Qed.

  (* the arguments of a field or directive with known definitions *)
  Lemma args_sound p i args defs kvs :
    nodup_names (map a_name defs) = true -> arg_types_ok s defs = true ->
    all_some (map arg_kv args) = Some kvs ->
    errs_of (arg_evs s p i args (Some defs) true) = [] ->
    errs_of (req_evs p defs args) = [] ->
    (forall u, In u (uses_of (arg_evs s p i args (Some defs) true)) -> usage_ok vdefs u) ->
    args_ok s vdefs [] defs kvs = true.
  Proof.
    intros Hnd Htypes Ha He Hr Hu.
    pose proof (all_some_Forall2 _ _ _ Ha) as H2. pose proof (arg_names _ _ H2) as Hnames.
    unfold arg_types_ok in Htypes. rewrite forallb_forall in Htypes.
    unfold arg_evs in He, Hu.
    assert (Harg : forall j a k x, nth_error args j = Some a -> arg_kv a = Some (k, x) ->
              exists ad, find_arg k defs = Some ad /\ lit_ok s vdefs [] x (a_type ad) (has_default ad) = true).
    { intros j a k x Ej Hkv. apply arg_kv_inv in Hkv as (nm & vn & r & -> & -> & Hx).
      pose proof (mapi_nth_errs _ _ _ _ He Ej) as He'. cbv beta iota in He'.
      destruct (find_arg (arg_name (Nd KArgument (ANode nm :: ANode vn :: r))) defs) as [ad|] eqn:Ead.
      2:{ cbn in He'. discriminate. }
      exists ad. split; [reflexivity|].
      pose proof (find_arg_In _ _ _ Ead) as [Hadin _]. specialize (Htypes _ Hadin).
      apply andb_true_iff in Htypes as [Hi1 Hi2].
      unfold as_input in He'. rewrite Hi1 in He'. cbn [app] in He'.
      rewrite errs_of_app, errs_of_err1 in He'. apply app_eq_nil in He' as [Hv He'].
      apply map_eq_nil in Hv.
      apply (lit_sound s fl vdefs Hinputs Hsok vn _ _ _ false x Hi1 Hi2 Hx Hv He').
      intros u Hin. apply Hu. apply (mapi_nth_uses _ _ _ _ _ Ej). cbv beta iota.
      rewrite Ead. unfold as_input. rewrite Hi1. cbn [app]. rewrite uses_of_app, uses_of_err1. exact Hin. }
    unfold args_ok. apply andb_true_iff. split; apply forallb_forall.
    - intros [k x] Hin. cbn [fst]. apply In_nth_error in Hin as [j Hj].
      destruct (Forall2_nth _ _ _ H2 j _ Hj) as (a & Ea & Hkv).
      destruct (Harg j a k x Ea Hkv) as (ad & -> & _). reflexivity.
    - intros ad Had. destruct (Value.lookup (a_name ad) kvs) as [v|] eqn:El.
      + pose proof (lookup_In _ _ _ El) as Hin. apply In_nth_error in Hin as [j Hj].
        destruct (Forall2_nth _ _ _ H2 j _ Hj) as (a & Ea & Hkv).
        destruct (Harg j a _ v Ea Hkv) as (ad' & Hf & Hok).
        rewrite (find_arg_self _ _ Hnd Had) in Hf. inversion Hf; subst ad'. exact Hok.
      + apply lookup_mem_none in El. rewrite Hnames in El.
        unfold req_evs in Hr. pose proof (proj1 (flat_map_nil _ _) Hr) as Hr'.
        assert (Hfm : forall ad0, In ad0 defs ->
                  (if required_arg ad0 && negb (has_arg (a_name ad0) args) then [err1 R_REQ p] else []) = []).
        { intros ad0 H0. unfold errs_of in Hr. rewrite flat_map_concat_map in Hr.
          destruct (required_arg ad0 && negb (has_arg (a_name ad0) args)) eqn:Eb; [|reflexivity].
          exfalso. clear -Hr H0 Eb. induction defs as [|d0 l IH]; [destruct H0|].
          cbn in Hr. destruct H0 as [->|H0].
          - rewrite Eb in Hr. cbn in Hr. discriminate.
          - apply IH; [|exact H0]. destruct (required_arg d0 && negb (has_arg (a_name d0) args)); [discriminate | exact Hr]. }
        specialize (Hfm _ Had). unfold has_arg in Hfm. rewrite El in Hfm. cbn [negb] in Hfm.
        rewrite andb_true_r in Hfm. destruct (required_arg ad); [discriminate | reflexivity].
  Qed.

  (* ---- directives ---- *)
  Hypothesis Hdirs : dirs_std vs = true.

  Definition dir_kv (x : node) : option directive :=
    match x with
    | Nd KDirective (ANode nm :: ar :: _) => option_map (pair (name_str nm)) (args_of fl ar)
    | _ => None
    end.

  Lemma dirs_of_kv a : dirs_of fl a = all_some (map dir_kv (attr_list a)).
  Proof. reflexivity. Qed.

  Lemma std_dir name : str_eqb name n_skip || str_eqb name n_include = true ->
    exists a, Value.lookup name (vs_dirs vs) = Some [a] /\ a_name a = n_if /\
              a_type a = TNonNull (TNamed n_Boolean) /\ has_default a = false.
  Proof.
    intro H. unfold dirs_std in Hdirs.
    destruct (Value.lookup n_skip (vs_dirs vs)) as [[|a [|]]|] eqn:Es; try discriminate.
    destruct (Value.lookup n_include (vs_dirs vs)) as [[|b [|]]|] eqn:Ei; try discriminate.
    repeat (apply andb_true_iff in Hdirs as [Hdirs ?]).
    apply orb_true_iff in H as [H|H]; apply str_eqb_eq in H; subst name.
    - exists a. rewrite Es. repeat split.
      + apply str_eqb_eq. assumption.
      + apply ty_eqb_eq. assumption.
      + apply negb_true_iff. assumption.
    - exists b. rewrite Ei. repeat split.
      + apply str_eqb_eq. assumption.
      + apply ty_eqb_eq. assumption.
      + apply negb_true_iff. assumption.
  Qed.

  Lemma dirs_sound p i ds fd dl :
    all_some (map dir_kv ds) = Some dl ->
    errs_of (dir_evs vs p i ds fd) = [] ->
    (forall u, In u (uses_of (dir_evs vs p i ds fd)) -> usage_ok vdefs u) ->
    dirs_ok s vdefs [] dl = true.
  Proof.
    intros Ha He Hu. pose proof (all_some_Forall2 _ _ _ Ha) as H2.
    unfold dirs_ok. apply forallb_forall. intros [name kvs] Hin. cbn [fst snd].
    destruct (str_eqb name n_skip || str_eqb name n_include) eqn:Estd; [|reflexivity].
    apply In_nth_error in Hin as [j Hj]. destruct (Forall2_nth _ _ _ H2 j _ Hj) as (dn & Ej & Hkv).
    destruct dn as [kd attrs]. destruct kd; try discriminate Hkv.
    destruct attrs as [|[| nm| | | |] [|ar r]]; try discriminate Hkv. cbn [dir_kv] in Hkv.
    rewrite args_of_kv in Hkv.
    destruct (all_some (map arg_kv (attr_list ar))) as [kvs'|] eqn:Eargs; [|discriminate]. cbn in Hkv.
    inversion Hkv; subst. clear Hkv.
    destruct (std_dir _ Estd) as (a & Hl & Hn & Ht & Hd).
    unfold dir_evs in He, Hu.
    pose proof (mapi_nth_errs _ _ _ _ He Ej) as He'. cbv beta iota in He'. rewrite Hl in He'.
    rewrite errs_of_app in He'. apply app_eq_nil in He' as [He1 He2].
    assert (Hok : args_ok s vdefs [] [a] kvs = true).
    { apply (args_sound (p ++ [(i, j)]) 1 (attr_list ar) [a] kvs); auto.
      - unfold arg_types_ok. cbn [forallb]. rewrite Ht. reflexivity.
      - intros u Hin. apply Hu. apply (mapi_nth_uses _ _ _ _ _ Ej). cbv beta iota. rewrite Hl.
        rewrite uses_of_app. apply in_app_iff. left. exact Hin. }
    unfold args_ok in Hok. apply andb_true_iff in Hok as [_ Hok]. cbn [forallb] in Hok.
    rewrite andb_true_r, Hn in Hok.
    destruct (Value.lookup n_if kvs) as [v|].
    - rewrite Ht, Hd in Hok. exact Hok.
    - unfold required_arg in Hok. rewrite Ht in Hok. unfold has_default in Hd.
      destruct (a_default a); [discriminate Hd | discriminate Hok].
  Qed.

  (* ---- selections ---- *)
  Hypothesis Himpl : schema_impl_ok s = true.
  Variable fr : list (str * node).

  Lemma field_facts pt name fd' : lookup_field s pt name = Some fd' ->
    nodup_names (map a_name (f_args fd')) = true /\ arg_types_ok s (f_args fd') = true /\
    exists td, lookup_type s (named_of (f_type fd')) = Some td /\
               (is_leaf_def td || is_composite_def td) = true.
  Proof.
    intro Hl. unfold lookup_field in Hl.
    destruct (lookup_type s pt) as [td0|] eqn:Ept; [|discriminate].
    assert (Hin : In (pt, td0) (s_types s)).
    { unfold lookup_type in Ept. destruct (scalar_of_name pt); [inversion Ept; subst; discriminate Hl|].
      apply lookup_In. exact Ept. }
    pose proof Himpl as Hi. unfold schema_impl_ok in Hi. rewrite forallb_forall in Hi. specialize (Hi _ Hin).
    pose proof Hinputs as Hp. unfold schema_inputs_ok in Hp. rewrite forallb_forall in Hp. specialize (Hp _ Hin).
    cbn [snd] in Hi, Hp.
    assert (Hgen : forall fs, fields_wf s fs = true ->
                   forallb (fun fd => arg_types_ok s (f_args fd)) fs = true ->
                   find_field name fs = Some fd' ->
                   nodup_names (map a_name (f_args fd')) = true /\ arg_types_ok s (f_args fd') = true /\
                   exists td, lookup_type s (named_of (f_type fd')) = Some td /\
                              (is_leaf_def td || is_composite_def td) = true).
    { intros fs Hwf Hat Hf. apply find_field_In in Hf as [Hf _].
      unfold fields_wf in Hwf. rewrite forallb_forall in Hwf, Hat. specialize (Hwf _ Hf). specialize (Hat _ Hf).
      apply andb_true_iff in Hwf as [H1 H2]. split; [exact H1|]. split; [exact Hat|].
      destruct (lookup_type s (named_of (f_type fd'))) as [td|]; [|discriminate]. eauto. }
    destruct td0 as [| |fs ifs|fs| |]; try discriminate.
    - apply andb_true_iff in Hi as [Hi _]. apply (Hgen fs Hi Hp Hl).
    - apply (Hgen fs Hi Hp Hl).
  Qed.

  Definition uses_ok (evs : list ev) : Prop := forall u, In u (uses_of evs) -> usage_ok vdefs u.

  Lemma uses_ok_app a b : uses_ok (a ++ b) -> uses_ok a /\ uses_ok b.
  Proof.
    unfold uses_ok. intro H. split; intros u Hu; apply H; rewrite uses_of_app; apply in_app_iff; auto.
  Qed.

  Definition sgoalA (n : node) : Prop := forall p ct fd pt sels,
    sels_of fl n = Some sels -> composite_of s ct = Some pt ->
    errs_of (sel_evs vs fr p n ct fd) = [] -> uses_ok (sel_evs vs fr p n ct fd) ->
    forallb (sstatic s vdefs pt) sels = true /\ forallb (sel_dirs_ok s vdefs []) sels = true.

  Definition sgoalB (n : node) : Prop := forall sp ct fd pt x,
    sel1_of fl n = Some x -> composite_of s ct = Some pt ->
    errs_of (sel1_evs vs fr sp n ct fd) = [] -> uses_ok (sel1_evs vs fr sp n ct fd) ->
    sstatic s vdefs pt x = true /\ sel_dirs_ok s vdefs [] x = true.

  Lemma set_from_selections sels r : Forall sgoalB sels -> sgoalA (Nd KSelectionSet (AList sels :: r)).
  Proof.
    intros HF p ct fd pt xs Hx Hpt He Hu. rewrite sels_of_unfold in Hx. rewrite sel_evs_unfold in He, Hu.
    pose proof (all_some_Forall2 _ _ _ Hx) as H2. rewrite Forall_forall in HF.
    assert (Hall : forall x, In x xs -> sstatic s vdefs pt x = true /\ sel_dirs_ok s vdefs [] x = true).
    { intros x Hin. apply In_nth_error in Hin as [j Hj]. destruct (Forall2_nth _ _ _ H2 j _ Hj) as (sel & Ej & Hs).
      apply (HF sel (nth_error_In _ _ Ej) (p ++ [(O, j)]) ct fd pt x Hs Hpt).
      - apply (mapi_nth_errs _ _ _ _ He Ej).
      - intros u Hin. apply Hu. apply (mapi_nth_uses _ _ _ _ _ Ej). exact Hin. }
    split; apply forallb_forall; intros x Hin; apply Hall; exact Hin.
  Qed.

  Lemma no_args_kvs p i args kvs :
    all_some (map arg_kv args) = Some kvs -> errs_of (arg_evs s p i args (Some []) true) = [] -> kvs = [].
  Proof.
    intros Ha He. destruct args as [|a0 rest]; [cbn in Ha; inversion Ha; reflexivity|]. exfalso.
    cbn [map all_some] in Ha. destruct (arg_kv a0) as [[k x]|] eqn:Ek; [|discriminate].
    apply arg_kv_inv in Ek as (nm & vn & r & -> & _ & _).
    unfold arg_evs in He. pose proof (mapi_nth_errs _ _ O _ He eq_refl) as He'. cbn in He'. discriminate.
  Qed.

  Lemma sel_dirs_field al name args dirs sub :
    sel_dirs_ok s vdefs [] (SField al name args dirs sub) =
    dirs_ok s vdefs [] dirs && forallb (sel_dirs_ok s vdefs []) sub.
  Proof. reflexivity. Qed.
  Lemma sel_dirs_inline tc dirs sub :
    sel_dirs_ok s vdefs [] (SInline tc dirs sub) =
    dirs_ok s vdefs [] dirs && forallb (sel_dirs_ok s vdefs []) sub.
  Proof. reflexivity. Qed.

  Lemma field_sound d nm al a sset r :
    (forall s', sset = ANode s' -> sgoalA s') ->
    sgoalB (Nd KField (d :: ANode nm :: al :: a :: sset :: r)).
  Proof.
    intros HA sp ct fd pt x Hx Hpt He Hu.
    cbn [sel1_of] in Hx. rewrite args_of_kv, dirs_of_kv in Hx.
    destruct (all_some (map arg_kv (attr_list a))) as [kvs|] eqn:Eargs; [|discriminate].
    destruct (all_some (map dir_kv (attr_list d))) as [dl|] eqn:Edirs; [|discriminate].
    destruct (match sset with ANode s' => sels_of fl s' | _ => Some [] end) as [sub|] eqn:Esub; [|discriminate].
    inversion Hx; subst x. clear Hx.
    unfold sel1_evs in He, Hu. cbv zeta in He, Hu. fold s in He, Hu. rewrite Hpt in He, Hu.
    rewrite sstatic_field, sel_dirs_field.
    destruct (get_field s pt (name_str nm)) as [f|] eqn:Eg; [|cbn in He; discriminate].
    cbn [app] in He, Hu.
    rewrite !errs_of_app in He.
    apply app_eq_nil in He as [Hleaf He]. apply app_eq_nil in He as [Hargs He].
    apply app_eq_nil in He as [Hdir He]. apply app_eq_nil in He as [Hsub Hreq].
    apply uses_ok_app in Hu as [_ Hu]. apply uses_ok_app in Hu as [Huargs Hu].
    apply uses_ok_app in Hu as [Hudir Hu]. apply uses_ok_app in Hu as [Husub _].
    assert (Hdirs_ok : dirs_ok s vdefs [] dl = true) by (eapply dirs_sound; eauto).
    unfold get_field in Eg. destruct (str_eqb (name_str nm) n_typename) eqn:Etn.
    - (* __typename *)
      inversion Eg; subst f. clear Eg. cbn [typename_def f_args f_type option_map] in *.
      assert (kvs = []) by (eapply no_args_kvs; eauto). subst kvs.
      assert (sub = []).
      { destruct sset as [|s'| | | |]; try (inversion Esub; reflexivity). exfalso.
        revert Hleaf. unfold is_output_named, is_leaf. cbn. discriminate. }
      subst sub. split; [reflexivity|]. rewrite Hdirs_ok. reflexivity.
    - (* a field of the parent type *)
      destruct (field_facts _ _ _ Eg) as (Hnd & Htypes & td & Etd & Hlc).
      assert (Hout : is_output_named s (named_of (f_type f)) = true).
      { unfold is_output_named. rewrite Etd. destruct td; cbn in Hlc; try discriminate; reflexivity. }
      rewrite Hout in *. cbn [option_map] in *.
      rewrite Eg, Etd.
      assert (Hargs_ok : args_ok s vdefs [] (f_args f) kvs = true) by (eapply args_sound; eauto).
      rewrite Hargs_ok. cbn [andb].
      unfold is_leaf in Hleaf. rewrite Etd in Hleaf.
      destruct (is_leaf_def td) eqn:Eleaf.
      + (* leaf: no sub-selection *)
        assert (sub = []).
        { destruct sset as [|s'| | | |]; try (inversion Esub; reflexivity). cbn in Hleaf. discriminate. }
        subst sub. split; [reflexivity|]. rewrite Hdirs_ok. reflexivity.
      + (* composite: a non-empty sub-selection typed at the field's type *)
        cbn [orb] in Hlc. rewrite Hlc. cbn [andb].
        destruct sset as [|s'| | | |]; try (cbn in Hleaf; discriminate).
        assert (Hcomp : composite_of s (Some (named_of (f_type f))) = Some (named_of (f_type f))).
        { unfold composite_of, is_composite. rewrite Etd, Hlc. reflexivity. }
        destruct (HA s' eq_refl _ _ _ _ sub Esub Hcomp Hsub Husub) as [H1 H2].
        assert (Hne : is_nil sub = false).
        { destruct s' as [k' at']. destruct k'; try discriminate Esub.
          destruct at' as [|[| |sl| | |] r']; try discriminate Esub.
          destruct sl as [|x0 l]; [cbn in Hleaf; discriminate|].
          rewrite sels_of_unfold in Esub. apply all_some_map in Esub as [Hlen _].
          destruct sub; [cbn in Hlen; discriminate | reflexivity]. }
        rewrite Hne, H1, H2, Hdirs_ok. split; reflexivity.
  Qed.

  Lemma spread_sound attrs : sgoalB (Nd KFragmentSpread attrs).
  Proof.
    intros sp ct fd pt x Hx Hpt He Hu.
    destruct attrs as [|d [|[|nm| | | |] [|[] r]]]; try discriminate Hx. cbn [sel1_of] in Hx.
    rewrite dirs_of_kv in Hx. destruct (all_some (map dir_kv (attr_list d))) as [dl|] eqn:Edirs; [|discriminate].
    inversion Hx; subst x. clear Hx. split; [reflexivity|].
    unfold sel1_evs in He, Hu. cbv zeta in He, Hu. rewrite errs_of_app in He. apply app_eq_nil in He as [_ He].
    apply uses_ok_app in Hu as [_ Hu]. cbn [sel_dirs_ok]. eapply dirs_sound; eauto.
  Qed.

  Lemma composite_output n : is_composite s n = true -> is_output_named s n = true.
  Proof.
    unfold is_composite, is_output_named. destruct (lookup_type s n) as [[]|]; cbn; congruence.
  Qed.

  Lemma inline_sound d s' tc r : sgoalA s' -> sgoalB (Nd KInlineFragment (d :: ANode s' :: tc :: r)).
  Proof.
    intros HA sp ct fd pt x Hx Hpt He Hu.
    cbn [sel1_of] in Hx. rewrite dirs_of_kv in Hx.
    destruct (all_some (map dir_kv (attr_list d))) as [dl|] eqn:Edirs; [|discriminate].
    destruct (sels_of fl s') as [sub|] eqn:Esub; [|discriminate].
    unfold sel1_evs in He, Hu. cbv zeta in He, Hu. fold s in He, Hu.
    rewrite !errs_of_app in He.
    apply app_eq_nil in He as [Hcond He]. apply app_eq_nil in He as [_ He].
    apply app_eq_nil in He as [Hdir Hsub].
    apply uses_ok_app in Hu as [_ Hu]. apply uses_ok_app in Hu as [_ Hu]. apply uses_ok_app in Hu as [Hudir Husub].
    assert (Hdirs_ok : dirs_ok s vdefs [] dl = true) by (eapply dirs_sound; eauto).
    destruct tc as [|t| | | |].
    - (* no type condition: the parent type *)
      inversion Hx; subst x. rewrite sstatic_inline, sel_dirs_inline.
      destruct (HA _ _ _ _ sub Esub Hpt Hsub Husub) as [H1 H2]. rewrite H1, H2, Hdirs_ok. split; reflexivity.
    - (* a type condition: known and composite *)
      destruct t as [kt at_]. destruct kt; try discriminate Hx.
      destruct at_ as [|[|tn| | | |] rt]; try discriminate Hx. inversion Hx; subst x. clear Hx.
      rewrite sstatic_inline, sel_dirs_inline.
      unfold cond_evs in Hcond. unfold cond_type in Hsub, Husub.
      destruct (tfa vs (Nd KNamedType (ANode tn :: rt))) as [t0|] eqn:Et; [|cbn in Hcond; discriminate].
      unfold tfa in Et. cbn [ty_of named_of] in Et.
      destruct (in_map vs (name_str tn)); [|discriminate]. inversion Et; subst t0. cbn [named_of] in *.
      destruct (is_composite (vs_s vs) (name_str tn)) eqn:Ec; [|cbn in Hcond; discriminate].
      fold s in Ec, Hsub, Husub. rewrite (composite_output _ Ec) in Hsub, Husub.
      assert (Hc : composite_of s (Some (name_str tn)) = Some (name_str tn)).
      { unfold composite_of. rewrite Ec. reflexivity. }
      destruct (HA _ _ _ _ sub Esub Hc Hsub Husub) as [H1 H2]. rewrite H1, H2, Hdirs_ok. split; reflexivity.
    - inversion Hx; subst x. rewrite sstatic_inline, sel_dirs_inline.
      destruct (HA _ _ _ _ sub Esub Hpt Hsub Husub) as [H1 H2]. rewrite H1, H2, Hdirs_ok. split; reflexivity.
    - inversion Hx; subst x. rewrite sstatic_inline, sel_dirs_inline.
      destruct (HA _ _ _ _ sub Esub Hpt Hsub Husub) as [H1 H2]. rewrite H1, H2, Hdirs_ok. split; reflexivity.
    - inversion Hx; subst x. rewrite sstatic_inline, sel_dirs_inline.
      destruct (HA _ _ _ _ sub Esub Hpt Hsub Husub) as [H1 H2]. rewrite H1, H2, Hdirs_ok. split; reflexivity.
    - inversion Hx; subst x. rewrite sstatic_inline, sel_dirs_inline.
      destruct (HA _ _ _ _ sub Esub Hpt Hsub Husub) as [H1 H2]. rewrite H1, H2, Hdirs_ok. split; reflexivity.
  Qed.

  Theorem selections_sound n : sgoalA n /\ sgoalB n.
  Proof.
    induction n as [k attrs IH] using node_ind2. split.
    - destruct k; try (intros p ct fd pt sels Hx; discriminate Hx).
      destruct attrs as [|[| |sels| | |] r]; try (intros p ct fd pt xs Hx; discriminate Hx).
      apply set_from_selections. inversion IH as [|a l Ha _]; subst. inversion Ha as [| |l' Hl| | |]; subst.
      eapply Forall_impl; [|exact Hl]. intros m Hm. apply Hm.
    - destruct k; try (intros sp ct fd pt x Hx; discriminate Hx).
      + (* field *)
        destruct attrs as [|d [|[|nm| | | |] [|al [|a [|sset r]]]]]; try (intros sp ct fd pt x Hx; discriminate Hx).
        apply field_sound. intros s' ->.
        repeat (inversion IH as [|? ? ? IH']; subst; clear IH; rename IH' into IH).
        match goal with H : attr_all _ (ANode s') |- _ => inversion H; subst end.
        match goal with H : _ /\ _ |- _ => apply H end.
      + apply spread_sound.
      + (* inline fragment *)
        destruct attrs as [|d [|[|s'| | | |] [|tc r]]]; try (intros sp ct fd pt x Hx; discriminate Hx).
        apply inline_sound.
        repeat (inversion IH as [|? ? ? IH']; subst; clear IH; rename IH' into IH).
        match goal with H : attr_all _ (ANode s') |- _ => inversion H; subst end.
        match goal with H : _ /\ _ |- _ => apply H end.
  Qed.
End Sound.
