(* C12 / rules 23-25 (Valid/RulesDir.v) against their declarative readings. *)
From GV Require Import Base.Prelude Lang.Ast Valid.Rules Valid.RulesBase Valid.RulesSpec Valid.RulesNames
  Valid.RulesPaths Valid.RulesProps Valid.RulesDir.

(* ---------------------------------------------------------------- 23 KnownOperationTypes *)
Theorem known_operation_types_In ds d e :
  In e (rule_known_operation_types ds d) <->
  exists j n o, nth_error (ddefs d) j = Some n /\ op_code n = Some o /\ has_root ds o = false /\
                e = VE R_KOPT [[(O, j)]].
Proof.
  unfold rule_known_operation_types. rewrite In_concat. split.
  - intros (l & Hl & He). unfold mapi in Hl. apply In_mapi_from in Hl as (j & n & Hj & ->). cbn [plus] in He.
    destruct (op_code n) as [o|] eqn:Eo; [|destruct He]. destruct (has_root ds o) eqn:Er; [destruct He|].
    destruct He as [<-|[]]. exists j, n, o. auto.
  - intros (j & n & o & Hj & Ho & Hr & ->). eexists. split.
    + unfold mapi. apply In_mapi_from. exists j, n. split; [exact Hj | reflexivity].
    + cbn [plus]. rewrite Ho, Hr. left. reflexivity.
Qed.

Theorem known_operation_types_nil ds d :
  rule_known_operation_types ds d = [] <->
  forall n o, In n (ddefs d) -> op_code n = Some o -> has_root ds o = true.
Proof.
  split.
  - intros H n o Hn Ho. destruct (has_root ds o) eqn:Er; [reflexivity|]. exfalso.
    apply In_nth_error in Hn as [j Hj].
    assert (Hin : In (VE R_KOPT [[(O, j)]]) (rule_known_operation_types ds d)).
    { apply known_operation_types_In. exists j, n, o. auto. }
    rewrite H in Hin. destruct Hin.
  - intro H. destruct (rule_known_operation_types ds d) as [|e es] eqn:E; [reflexivity|]. exfalso.
    assert (Hin : In e (rule_known_operation_types ds d)) by (rewrite E; left; reflexivity).
    apply known_operation_types_In in Hin as (j & n & o & Hj & Ho & Hr & _).
    rewrite (H n o (nth_error_In _ _ Hj) Ho) in Hr. discriminate.
Qed.

(* ---------------------------------------------------------------- the ancestors of a node *)
(* one step more: the chain of q ++ [(i, j)] is the chain of q extended by the node at q (and the
   tuple the child sits in) *)
Lemma chain_snoc q : forall n acc i j,
  chain n (q ++ [(i, j)]) acc =
  match chain n q acc, get n q with
  | Some up, Some m =>
    match nth i (attrs_of m) ANone with
    | ANode _ => if (j =? 0)%nat then Some (uitem_of m :: up) else None
    | AList l => match nth_error l j with Some _ => Some (UList :: uitem_of m :: up) | None => None end
    | _ => None
    end
  | _, _ => None
  end.
Proof.
  induction q as [|[i0 j0] r IH]; intros n acc i j.
  - cbn [app chain get]. destruct (nth i (attrs_of n) ANone) as [|m|l| | |]; reflexivity.
  - cbn [app chain get]. destruct (nth i0 (attrs_of n) ANone) as [|m|l| | |]; try reflexivity.
    + destruct (j0 =? 0)%nat; [apply IH | reflexivity].
    + destruct (nth_error l j0) as [m|]; [apply IH | reflexivity].
Qed.

Lemma chain_defined q : forall n acc, (exists up, chain n q acc = Some up) <-> (exists m, get n q = Some m).
Proof.
  induction q as [|[i j] r IH]; intros n acc; cbn [chain get].
  - split; eauto.
  - destruct (nth i (attrs_of n) ANone) as [|m|l| | |]; try (split; intros [x Hx]; discriminate).
    + destruct (j =? 0)%nat; [apply IH | split; intros [x Hx]; discriminate].
    + destruct (nth_error l j) as [m|]; [apply IH | split; intros [x Hx]; discriminate].
Qed.

(* every visited node has its chain *)
Lemma doc_items_chain d it : In it (doc_items d) -> exists up, chain d (it_path it) [] = Some up.
Proof. intro H. apply chain_defined. exists (it_node it). apply doc_items_get. exact H. Qed.

(* the location of a directive standing in the `directives` tuple of a node whose kind is not one
   of the three special cases is the table entry of that kind *)
Lemma is_kind_eq k k' : is_kind k k' = true <-> k = k'.
Proof.
  unfold is_kind. rewrite N.eqb_eq. split; [|intros ->; reflexivity].
  destruct k, k'; cbn; intro H; try reflexivity; discriminate H.
Qed.

Theorem directive_location_plain d q i j owner l up :
  get d q = Some owner -> chain d q [] = Some up ->
  nth i (attrs_of owner) ANone = AList l -> (j < length l)%nat ->
  kind_of owner <> KOperationDefinition -> kind_of owner <> KInputValueDefinition ->
  kind_of owner <> KVariableDefinition ->
  exists up', chain d (q ++ [(i, j)]) [] = Some up' /\ loc_of (tl up') = Some (kind_loc (kind_of owner)).
Proof.
  intros Hg Hc Ha Hj H1 H2 H3. rewrite chain_snoc, Hc, Hg, Ha.
  destruct (nth_error l j) as [m|] eqn:Em; [|apply nth_error_None in Em; lia].
  eexists. split; [reflexivity|]. cbn [tl]. unfold uitem_of, loc_of.
  destruct (is_kind (kind_of owner) KOperationDefinition) eqn:E1; [apply is_kind_eq in E1; contradiction|].
  destruct (is_kind (kind_of owner) KInputValueDefinition) eqn:E2; [apply is_kind_eq in E2; contradiction|].
  destruct (is_kind (kind_of owner) KVariableDefinition) eqn:E3; [apply is_kind_eq in E3; contradiction|].
  reflexivity.
Qed.

(* ... of an operation definition: its operation type *)
Theorem directive_location_operation d q i j owner l up o :
  get d q = Some owner -> chain d q [] = Some up ->
  nth i (attrs_of owner) ANone = AList l -> (j < length l)%nat ->
  kind_of owner = KOperationDefinition -> op_code owner = Some o -> o < 3 ->
  exists up', chain d (q ++ [(i, j)]) [] = Some up' /\ loc_of (tl up') = Some (Some o).
Proof.
  intros Hg Hc Ha Hj Hk Ho Hlt. rewrite chain_snoc, Hc, Hg, Ha.
  destruct (nth_error l j) as [m|] eqn:Em; [|apply nth_error_None in Em; lia].
  eexists. split; [reflexivity|]. cbn [tl]. unfold uitem_of, loc_of. rewrite Hk, Ho. cbn [is_kind kind_code N.eqb Pos.eqb].
  apply N.ltb_lt in Hlt. rewrite Hlt. reflexivity.
Qed.

(* ... of a variable definition in the tuple of an operation / of something else *)
Theorem directive_location_variable d q0 i0 j0 i j gp l0 vd l up :
  get d q0 = Some gp -> chain d q0 [] = Some up ->
  nth i0 (attrs_of gp) ANone = AList l0 -> nth_error l0 j0 = Some vd ->
  kind_of vd = KVariableDefinition ->
  nth i (attrs_of vd) ANone = AList l -> (j < length l)%nat ->
  exists up', chain d ((q0 ++ [(i0, j0)]) ++ [(i, j)]) [] = Some up' /\
              loc_of (tl up') = Some (Some (if is_kind (kind_of gp) KOperationDefinition then L_VARDEF else L_FRAGVARDEF)).
Proof.
  intros Hg Hc Ha0 Hj0 Hk Ha Hj.
  assert (Hg1 : get d (q0 ++ [(i0, j0)]) = Some vd).
  { clear Hc. revert d Hg. induction q0 as [|[a b] r IH]; intros d Hg; cbn [app get] in *.
    - inversion Hg; subst. rewrite Ha0, Hj0. reflexivity.
    - destruct (nth a (attrs_of d) ANone) as [|m|lx| | |]; try discriminate.
      + destruct (b =? 0)%nat; [apply IH; exact Hg | discriminate].
      + destruct (nth_error lx b); [apply IH; exact Hg | discriminate]. }
  rewrite chain_snoc, Hg1, chain_snoc, Hc, Hg, Ha0, Hj0, Ha.
  destruct (nth_error l j) as [m|] eqn:Em; [|apply nth_error_None in Em; lia].
  eexists. split; [reflexivity|]. cbn [tl]. unfold uitem_of at 1. unfold loc_of. rewrite Hk.
  cbn [is_kind kind_code N.eqb Pos.eqb nth_error]. reflexivity.
Qed.

(* ---------------------------------------------------------------- 24 KnownDirectives *)
(* the directive named x at path p is not defined, or is used at a location it is not declared for *)
Definition Unknown (lm : list (str * list N)) (x : str) : Prop :=
  lookup x lm = None \/ lookup x lm = Some [].
Definition Misplaced (lm : list (str * list N)) (d : node) (p : path) (x : str) : Prop :=
  exists locs u anc c, lookup x lm = Some locs /\ locs <> [] /\ chain d p [] = Some (u :: anc) /\
                       loc_of anc = Some (Some c) /\ ~ In c locs.

Lemma memN_In c l : memN c l = true <-> In c l.
Proof.
  induction l as [|x r IH]; cbn; [split; [discriminate | tauto]|].
  rewrite orb_true_iff, N.eqb_eq, IH. split; intros [H|H]; auto.
Qed.

Lemma kd_check_spec lm d p x r : kd_check lm (chain d p []) p x = Some r ->
  forall e, In e r <-> (e = VE R_KDIR [p] /\ (Unknown lm x \/ Misplaced lm d p x)).
Proof.
  unfold kd_check, Unknown, Misplaced. intros H e.
  destruct (lookup x lm) as [[|l0 ls]|] eqn:El.
  - inversion H; subst. cbn. split; [intros [<-|[]]; auto | intros [-> _]; auto].
  - destruct (chain d p []) as [[|u anc]|] eqn:Ec; try discriminate.
    destruct (loc_of anc) as [[c|]|] eqn:Eloc; try discriminate.
    + destruct (memN c (l0 :: ls)) eqn:Em; inversion H; subst; cbn [In].
      * split; [tauto|]. intros [_ [[Hx|Hx]|(locs & u' & anc' & c' & H1 & _ & H3 & H4 & H5)]]; try discriminate.
        inversion H1; subst locs. inversion H3; subst. rewrite Eloc in H4. inversion H4; subst c'.
        apply H5. apply memN_In. exact Em.
      * split; [intros [<-|[]]; split; [reflexivity|]; right | intros [-> _]; auto].
        exists (l0 :: ls), u, anc, c. repeat split; try assumption; try discriminate.
        intro Hin. apply memN_In in Hin. congruence.
    + inversion H; subst. cbn [In]. split; [tauto|].
      intros [_ [[Hx|Hx]|(locs & u' & anc' & c' & H1 & _ & H3 & H4 & _)]]; try discriminate.
      inversion H3; subst. rewrite Eloc in H4. discriminate.
  - inversion H; subst. cbn. split; [intros [<-|[]]; auto | intros [-> _]; auto].
Qed.

Theorem known_directives_In ds d lm es e :
  locations_map ds d = Some lm -> rule_known_directives ds d = Some es ->
  (In e es <-> exists it, In it (doc_items d) /\ is_directive (it_node it) = true /\
                          e = VE R_KDIR [it_path it] /\
                          (Unknown lm (dir_name (it_node it)) \/ Misplaced lm d (it_path it) (dir_name (it_node it)))).
Proof.
  intros Hlm H. unfold rule_known_directives in H. rewrite Hlm in H.
  rewrite (opt_concat_In _ _ e H). split.
  - intros (x & Hx & He). apply in_map_iff in Hx as (it & Hf & Hit).
    destruct (is_directive (it_node it)) eqn:Ed; [|inversion Hf; subst; destruct He].
    exists it. split; [exact Hit|]. split; [exact Ed|]. apply (kd_check_spec _ _ _ _ _ Hf). exact He.
  - intros (it & Hit & Hd & -> & Hbad).
    assert (Hsome : exists x, kd_check lm (chain d (it_path it) []) (it_path it) (dir_name (it_node it)) = Some x).
    { clear Hbad. revert es H. induction (doc_items d) as [|a l IH]; intros es H; [destruct Hit|]. cbn [map opt_concat] in H.
      destruct Hit as [->|Hit].
      - rewrite Hd in H. destruct (kd_check lm (chain d (it_path it) []) (it_path it) (dir_name (it_node it))); [eauto | discriminate].
      - destruct (if is_directive (it_node a) then _ else _); [|discriminate].
        destruct (opt_concat (map _ l)) eqn:E; [|discriminate]. eapply IH; eauto. }
    destruct Hsome as [x Hx]. exists x. split.
    + apply in_map_iff. exists it. rewrite Hd. auto.
    + apply (kd_check_spec _ _ _ _ _ Hx). auto.
Qed.

(* ---------------------------------------------------------------- 25 UniqueDirectivesPerLocation *)
Theorem unique_directives_In ds d e :
  In e (rule_unique_directives_per_location ds d) <->
  exists p0 p, Dup (udir_occs ds d) p0 p /\ e = VE R_UDIR [p0; p].
Proof.
  unfold rule_unique_directives_per_location. rewrite in_map_iff. split.
  - intros ([p0 p] & <- & H). apply dup_scan_In in H. eauto.
  - intros (p0 & p & H & ->). exists (p0, p). split; [reflexivity | apply dup_scan_In; exact H].
Qed.

Theorem unique_directives_nil ds d :
  rule_unique_directives_per_location ds d = [] <-> UniqueNames (udir_occs ds d).
Proof.
  unfold rule_unique_directives_per_location. rewrite <- dup_scan_nil.
  split; [apply map_eq_nil | intro H; rewrite H; reflexivity].
Qed.

(* the dictionary keys identify (group, directive name) *)
Lemma flat_path_inj p : forall q, flat_path p = flat_path q -> p = q.
Proof.
  induction p as [|[a b] r IH]; intros [|[a' b'] r'] H; cbn in H; try discriminate; [reflexivity|].
  inversion H as [[H1 H2 H3]]. apply Nat2N.inj in H1, H2. subst. f_equal. apply IH. exact H3.
Qed.

Lemma group_code_inj g g' : group_code g = group_code g' -> g = g'.
Proof.
  destruct g, g'; cbn; intro H; try discriminate; try reflexivity; inversion H; subst; try reflexivity.
  f_equal. apply flat_path_inj. assumption.
Qed.

Lemma app_inv_length {A} (a a' b b' : list A) : length a = length a' -> a ++ b = a' ++ b' -> a = a' /\ b = b'.
Proof.
  revert a'. induction a as [|x a IH]; intros [|x' a'] Hl H; cbn in *; try discriminate; [auto|].
  inversion H; subst. destruct (IH a' (eq_add_S _ _ Hl) H2) as [-> ->]. auto.
Qed.

Theorem dkey_inj g x g' x' : dkey g x = dkey g' x' -> g = g' /\ x = x'.
Proof.
  unfold dkey. intro H. inversion H as [[Hl Hr]]. apply Nat2N.inj in Hl.
  destruct (app_inv_length _ _ _ _ Hl Hr) as [Hg Hx]. split; [apply group_code_inj; exact Hg | exact Hx].
Qed.

(* silent => at every visited node the directives that must be unique have different names *)
Lemma NoDup_app_l {A} (a b : list A) : NoDup (a ++ b) -> NoDup a.
Proof.
  induction a as [|x a IH]; intro H; [constructor|]. cbn in H. inversion H; subst.
  constructor; [intro Hx; apply H2; apply in_app_iff; auto | apply IH; assumption].
Qed.
Lemma NoDup_app_r {A} (a b : list A) : NoDup (a ++ b) -> NoDup b.
Proof. induction a as [|x a IH]; intro H; [exact H|]. cbn in H. inversion H; subst. auto. Qed.

Lemma NoDup_flat_map_each {A B} (f : A -> list B) l a : NoDup (flat_map f l) -> In a l -> NoDup (f a).
Proof.
  induction l as [|x l IH]; intros H Ha; [destruct Ha|]. cbn in H.
  destruct Ha as [->|Ha].
  - exact (NoDup_app_l _ _ H).
  - apply IH; [exact (NoDup_app_r _ _ H) | exact Ha].
Qed.

Theorem unique_directives_per_node ds d it :
  rule_unique_directives_per_location ds d = [] -> In it (doc_items d) ->
  NoDup (map fst (item_dirs (unique_map ds d) it)).
Proof.
  intros H Hit. apply unique_directives_nil in H. unfold UniqueNames, udir_occs in H.
  rewrite flat_map_concat_map, concat_map, map_map, <- flat_map_concat_map in H.
  exact (NoDup_flat_map_each _ _ it H Hit).
Qed.

(* ---------------------------------------------------------------- 26 DeferStreamDirectiveLabel *)
Theorem defer_stream_label_In d e :
  In e (rule_defer_stream_label d) <->
  (exists it p, In it (doc_items d) /\ label_of it = LStatic p /\ e = VE R_LABEL [p]) \/
  (exists p0 p, Dup (labels d) p0 p /\ e = VE R_LABEL [p0; p]).
Proof.
  unfold rule_defer_stream_label. rewrite in_app_iff, !in_map_iff. split.
  - intros [(p & <- & Hp)|([p0 p] & <- & H)].
    + left. unfold label_statics in Hp. apply in_flat_map in Hp as (it & Hit & Hp).
      destruct (label_of it) as [|p'|s p'] eqn:El; try destruct Hp as [<-|[]]; try destruct Hp. eauto.
    + right. apply dup_scan_In in H. eauto.
  - intros [(it & p & Hit & Hl & ->)|(p0 & p & H & ->)].
    + left. exists p. split; [reflexivity|]. unfold label_statics. apply in_flat_map. exists it.
      rewrite Hl. cbn. auto.
    + right. exists (p0, p). split; [reflexivity | apply dup_scan_In; exact H].
Qed.

Theorem defer_stream_label_nil d :
  rule_defer_stream_label d = [] <->
  (forall it p, In it (doc_items d) -> label_of it <> LStatic p) /\ UniqueNames (labels d).
Proof.
  unfold rule_defer_stream_label. split.
  - intro H. apply app_eq_nil in H as [H1 H2]. apply map_eq_nil in H1, H2. split.
    + intros it p Hit Hl. assert (Hin : In p (label_statics d)).
      { unfold label_statics. apply in_flat_map. exists it. rewrite Hl. cbn. auto. }
      rewrite H1 in Hin. destruct Hin.
    + apply dup_scan_nil. exact H2.
  - intros [H1 H2]. apply dup_scan_nil in H2. rewrite H2. cbn. rewrite app_nil_r.
    destruct (label_statics d) as [|p r] eqn:E; [reflexivity|]. exfalso.
    assert (Hin : In p (label_statics d)) by (rewrite E; left; reflexivity).
    unfold label_statics in Hin. apply in_flat_map in Hin as (it & Hit & Hp).
    destruct (label_of it) as [|p'|s p'] eqn:El; try destruct Hp as [Hp|[]]; try destruct Hp.
    exact (H1 it p' Hit El).
Qed.
