(* ValuesOfCorrectType + VariablesInAllowedPosition + NoUndefinedVariables + UniqueInputFieldNames on
   one value  =>  Typing.lit_ok on its translation (Valid/ToExec.val_of). *)
From GV Require Import Base.Prelude Lang.Ast Exec.Value Exec.Schema Exec.Spec Exec.SpecProps Exec.Typing
  Exec.Soundness Valid.Rules Valid.RulesBase Valid.Rules13 Valid.ToExec.

(* no non-null directly under non-null: what the grammar and a built schema guarantee *)
Fixpoint ty_wf (t : ty) : bool :=
  match t with
  | TNonNull (TNonNull _) => false
  | TNonNull t' => ty_wf t'
  | TList t' => ty_wf t'
  | TNamed _ => true
  end.

Definition arg_types_ok (s : schema) (defs : list arg_def) : bool :=
  forallb (fun ad => is_input_type s (a_type ad) && ty_wf (a_type ad)) defs.

(* argument and input field types are input types *)
Definition schema_inputs_ok (s : schema) : bool :=
  forallb (fun e =>
    match snd e with
    | TObject fs _ | TInterface fs => forallb (fun fd => arg_types_ok s (f_args fd)) fs
    | TInput defs _ => arg_types_ok s defs
    | _ => true
    end) (s_types s).

(* what VariablesInAllowedPosition and NoUndefinedVariables establish for a usage *)
Definition usage_ok (vdefs : list var_def) (u : tusage) : Prop :=
  exists vd, find_var (tu_name u) vdefs = Some vd /\
    forall lt, tu_type u = Some lt ->
      allowed_usage (v_type vd) (v_default vd) lt (tu_default u) = true /\
      (tu_oneof u = true -> is_nonnull (v_type vd) = true).

Lemma errs_of_app a b : errs_of (a ++ b) = errs_of a ++ errs_of b.
Proof. unfold errs_of. apply flat_map_app. Qed.
Lemma uses_of_app a b : uses_of (a ++ b) = uses_of a ++ uses_of b.
Proof. unfold uses_of. apply flat_map_app. Qed.

Lemma errs_of_concat ls : errs_of (concat ls) = concat (map errs_of ls).
Proof. induction ls as [|a r IH]; cbn; [reflexivity | rewrite errs_of_app, IH; reflexivity]. Qed.
Lemma uses_of_concat ls : uses_of (concat ls) = concat (map uses_of ls).
Proof. induction ls as [|a r IH]; cbn; [reflexivity | rewrite uses_of_app, IH; reflexivity]. Qed.

Lemma concat_nil_inv {A} (ls : list (list A)) : concat ls = [] -> forall l, In l ls -> l = [].
Proof.
  induction ls as [|a r IH]; cbn; intros H l Hl; [destruct Hl|].
  apply app_eq_nil in H as [H1 H2]. destruct Hl as [<-|Hl]; auto.
Qed.

Lemma all_some_map {A B} (f : A -> option B) l out :
  all_some (map f l) = Some out ->
  length out = length l /\ forall j a, nth_error l j = Some a -> exists b, f a = Some b /\ nth_error out j = Some b.
Proof.
  revert out. induction l as [|a l IH]; intros out H; cbn in H.
  - inversion H; subst. split; [reflexivity|]. intros [|j] a' Hj; discriminate.
  - destruct (f a) as [b|] eqn:Ef; [|discriminate].
    destruct (all_some (map f l)) as [r|] eqn:Er; [|discriminate]. cbn in H. inversion H; subst.
    destruct (IH r eq_refl) as [Hl Hn]. split; [cbn; congruence|].
    intros [|j] a' Hj; cbn in Hj.
    + inversion Hj; subst. exists b. auto.
    + apply Hn. exact Hj.
Qed.

Lemma all_some_In {A B} (f : A -> option B) l out b :
  all_some (map f l) = Some out -> In b out -> exists a, In a l /\ f a = Some b.
Proof.
  revert out. induction l as [|a l IH]; intros out H Hb; cbn in H.
  - inversion H; subst. destruct Hb.
  - destruct (f a) as [b'|] eqn:Ef; [|discriminate].
    destruct (all_some (map f l)) as [r|] eqn:Er; [|discriminate]. cbn in H. inversion H; subst.
    destruct Hb as [<-|Hb]; [exists a; cbn; auto|].
    destruct (IH r eq_refl Hb) as (a' & H1 & H2). exists a'. cbn. auto.
Qed.

Lemma all_some_Forall2 {A B} (f : A -> option B) l out :
  all_some (map f l) = Some out -> Forall2 (fun a b => f a = Some b) l out.
Proof.
  revert out. induction l as [|a l IH]; intros out H; cbn in H.
  - inversion H. constructor.
  - destruct (f a) as [b|] eqn:Ef; [|discriminate].
    destruct (all_some (map f l)) as [r|] eqn:Er; [|discriminate]. cbn in H. inversion H; subst.
    constructor; [exact Ef | apply IH; reflexivity].
Qed.

Section Lit.
  Variable s : schema.
  Variable fl : list N -> Z * N.
  Variable vdefs : list var_def.

  Lemma vlit_unfold n p t :
    vlit s n p t =
    if is_var_node n then [] else
    match t with
    | TNonNull t' => if is_null_node n then [p] else vlit s n p t'
    | TList it =>
      if is_null_node n then [] else
      match n with
      | Nd KListValue (AList items :: _) => concat (mapi (fun j m => vlit s m (p ++ [(O, j)]) it) items)
      | _ => vlit s n p it
      end
    | TNamed nm =>
      if is_null_node n then [] else
      match lookup_type s nm with
      | Some (TInput defs oneof) =>
        match n with
        | Nd KObjectValue (AList flds :: _) =>
          let names := field_names flds in
          flat_map (fun ad => if required_arg ad && negb (Value.mem (a_name ad) names) then [p] else []) defs
          ++ concat (mapi (fun j f =>
               match f with
               | Nd KObjectField (_ :: ANode v :: _) =>
                 match find_arg (arg_name f) defs with
                 | Some ad =>
                   if Value.mem (arg_name f) (field_names (skipn (S j) flds)) then []
                   else vlit s v (p ++ [(O, j); (1, O)]%nat) (a_type ad)
                 | None => [p ++ [(O, j)]]
                 end
               | _ => []
               end) flds)
          ++ (if oneof then
                match filter (fun f => match find_arg (arg_name f) defs with Some _ => true | None => false end) flds with
                | [f] => match objfield_value f with
                         | Some v => if is_null_node v then [p] else []
                         | None => []
                         end
                | _ => [p]
                end
              else [])
        | _ => [p]
        end
      | Some td => if is_leaf_def td then (if leaf_ok td n then [] else [p]) else []
      | None => []
      end
    end.
  Proof. destruct n as [k attrs]. destruct t; reflexivity. Qed.

  (* ---- Typing.lit_ok, unfolded ---- *)
  Lemma lit_ok_list items t ld :
    lit_ok s vdefs [] (VList items) t ld =
    match list_item_type t with
    | Some it => forallb (fun x => lit_ok s vdefs [] x it false) items
    | None => false
    end.
  Proof.
    cbn [lit_ok]. destruct (list_item_type t) as [it|]; [|reflexivity].
    induction items as [|x r IH]; [reflexivity|]. cbn [forallb]. rewrite <- IH. reflexivity.
  Qed.

  Definition fields_lit_ok (defs : list arg_def) (flds : list (str * value)) : bool :=
    forallb (fun kx => match find_arg (fst kx) defs with
                       | Some ad => lit_ok s vdefs [] (snd kx) (a_type ad) (has_default ad)
                       | None => false
                       end) flds.

  Lemma lit_ok_obj flds t ld :
    lit_ok s vdefs [] (VObj flds) t ld =
    match lookup_type s (snd (unwrap_named t)) with
    | Some (TInput defs oneof) =>
      nodup_names (map fst flds) && fields_lit_ok defs flds
      && forallb (fun ad => has_key (a_name ad) flds || negb (required_arg ad)) defs
      && (negb oneof ||
          match flds with
          | [(k, x)] =>
            negb (is_vnull x) &&
            match x with
            | VVar y =>
              match find_arg k defs, find_var y vdefs with
              | Some ad, Some vd =>
                allowed_usage (v_type vd) (v_default vd) (TNonNull (a_type ad)) false && negb (Value.mem y [])
              | _, _ => false
              end
            | _ => true
            end
          | _ => false
          end)
    | _ => false
    end.
  Proof.
    cbn [lit_ok]. destruct (unwrap_named t) as [dp n]. cbn [snd].
    destruct (lookup_type s n) as [[| | | | |defs oneof]|]; try reflexivity.
    f_equal. f_equal. f_equal. unfold fields_lit_ok.
    induction flds as [|[k x] r IH]; [reflexivity|]. cbn [forallb fst snd]. rewrite <- IH. reflexivity.
  Qed.

  Lemma unwrap_named_of t : snd (unwrap_named t) = named_of t.
  Proof.
    induction t as [n|t IH|t IH]; cbn; [reflexivity | | exact IH].
    destruct (unwrap_named t). cbn in *. exact IH.
  Qed.

  Lemma is_input_type_named t : is_input_type s t = is_input_type s (TNamed (named_of t)).
  Proof. reflexivity. Qed.

  (* ---- scalar literals ---- *)
  Definition scalar_node (n : node) : bool :=
    match n with
    | Nd KIntValue _ | Nd KFloatValue _ | Nd KStringValue _ | Nd KBooleanValue _ | Nd KEnumValue _ => true
    | _ => false
    end.

  Lemma scalar_not_special n : scalar_node n = true ->
    is_var_node n = false /\ is_null_node n = false /\
    (forall items r, n <> Nd KListValue (AList items :: r)) /\
    (forall flds r, n <> Nd KObjectValue (AList flds :: r)).
  Proof. destruct n as [k attrs]. destruct k; cbn; try discriminate; intros _; repeat split; discriminate. Qed.

  Lemma scalar_lit n v : scalar_node n = true -> val_of fl n = Some v ->
    forall t p, is_input_type s t = true -> vlit s n p t = [] ->
    exists c, coerce_scalar_lit s v t = Some c.
  Proof.
    intros Hsc Hv. destruct (scalar_not_special n Hsc) as (Hnv & Hnn & Hnl & Hno).
    induction t as [nm|it IH|t' IH]; intros p Hit Hl; rewrite vlit_unfold, Hnv in Hl.
    - rewrite Hnn in Hl. cbn [coerce_scalar_lit]. unfold coerce_leaf_lit.
      unfold is_input_type in Hit. cbn [named_of] in Hit.
      destruct (lookup_type s nm) as [td|]; [|discriminate].
      destruct td as [sc|vals| | | |defs oo]; try discriminate.
      + (* scalar *)
        cbn [is_leaf_def] in Hl. destruct (leaf_ok (TScalar sc) n) eqn:El; [|discriminate].
        destruct n as [k attrs]. destruct k; try discriminate; destruct sc; try discriminate;
          destruct attrs as [|[] attrs]; cbn in Hv, El; try discriminate; inversion Hv; subst; try (eexists; reflexivity).
        * destruct (int_of_text s0) as [z|]; [|discriminate]. cbn in H0. inversion H0; subst. rewrite El. eauto.
        * destruct (int_of_text s0) as [z|]; [|discriminate]. cbn in H0. inversion H0; subst. eauto.
        * destruct (int_of_text s0) as [z|]; [|discriminate]. cbn in H0. inversion H0; subst. eauto.
      + (* enum *)
        cbn [is_leaf_def] in Hl. destruct (leaf_ok (TEnum vals) n) eqn:El; [|discriminate].
        destruct n as [k attrs]. destruct k; try discriminate.
        destruct attrs as [|[] attrs]; cbn in Hv, El; try discriminate. inversion Hv; subst. rewrite El. eauto.
      + (* input object: a scalar is no object *)
        exfalso. destruct n as [k attrs]. destruct k; try discriminate Hsc; discriminate Hl.
    - rewrite Hnn in Hl. cbn [coerce_scalar_lit].
      assert (Hl' : vlit s n p it = []).
      { destruct n as [k attrs]. destruct k; try discriminate Hsc; exact Hl. }
      destruct (IH p Hit Hl') as [c ->]. cbn. eauto.
    - rewrite Hnn in Hl. cbn [coerce_scalar_lit]. apply (IH p Hit Hl).
  Qed.

  (* ---- helpers for the main lemma ---- *)
  Ltac val_cases :=
    repeat match goal with
           | |- context [all_some ?x] => destruct (all_some x)
           | |- context [int_of_text ?x] => destruct (int_of_text x)
           end; cbn; try discriminate.

  Lemma val_of_null n : val_of fl n = Some VNull -> is_null_node n = true.
  Proof.
    destruct n as [k attrs]. destruct k; cbn; try discriminate; try reflexivity;
      destruct attrs as [|[] attrs]; cbn; try discriminate; val_cases.
  Qed.

  Lemma val_of_var n y : val_of fl n = Some (VVar y) ->
    exists nm r, n = Nd KVariable (ANode nm :: r) /\ y = name_str nm.
  Proof.
    destruct n as [k attrs]. destruct k; cbn; try discriminate;
      destruct attrs as [|[] attrs]; cbn; try discriminate; val_cases.
    intro H. inversion H. eauto.
  Qed.

  Lemma in_subtype_strip m at_ : is_nonnull at_ = false ->
    in_subtype (TNonNull m) at_ = true -> in_subtype m at_ = true.
  Proof.
    destruct at_ as [sn|st|]; cbn; try discriminate; intros _.
    - destruct m as [mn|mt|mt]; cbn; try discriminate; auto.
    - destruct m as [mn|mt|mt]; cbn; try discriminate; auto.
  Qed.

  Lemma nodup_names_NoDup l : NoDup l -> nodup_names l = true.
  Proof.
    induction 1 as [|x l Hx Hl IH]; cbn; [reflexivity|]. rewrite IH, andb_true_r.
    apply negb_true_iff. apply SpecProps.mem_not_In. exact Hx.
  Qed.

  Lemma first_named_None nm p i l : first_named nm p i l = None -> ~ In nm (map arg_name l).
  Proof.
    revert i. induction l as [|f r IH]; intros i H; cbn in *; [tauto|].
    destruct (str_eqb (arg_name f) nm) eqn:E; [discriminate|].
    intros [Hx|Hx]; [subst; rewrite str_eqb_refl in E; discriminate | exact (IH _ H Hx)].
  Qed.

  Lemma has_key_mem {A} k (l : list (Value.str * A)) : has_key k l = Value.mem k (map fst l).
  Proof.
    unfold has_key, Value.mem. induction l as [|[k' v] r IH]; cbn; [reflexivity|].
    destruct (str_eqb k k'); [reflexivity | exact IH].
  Qed.

  Hypothesis Hinputs : schema_inputs_ok s = true.
  Hypothesis Hsok : schema_ok s = true.

  Lemma input_fields_ok nm defs oo : lookup_type s nm = Some (TInput defs oo) ->
    arg_types_ok s defs = true.
  Proof.
    intro Hl. unfold lookup_type in Hl. destruct (scalar_of_name nm); [discriminate|].
    apply lookup_In in Hl. unfold schema_inputs_ok in Hinputs. rewrite forallb_forall in Hinputs.
    exact (Hinputs _ Hl).
  Qed.

  Definition lit_goal (n : node) : Prop := forall p t ld oneof v,
    is_input_type s t = true -> ty_wf t = true -> val_of fl n = Some v ->
    vlit s n p t = [] ->
    errs_of (val_evs s n p (Some t) ld oneof) = [] ->
    (forall u, In u (uses_of (val_evs s n p (Some t) ld oneof)) -> usage_ok vdefs u) ->
    lit_ok s vdefs [] v t ld = true.

  Lemma lit_ok_scalar v t ld :
    match v with VInt _ | VFloat _ _ | VStr _ | VBool _ | VEnum _ => True | _ => False end ->
    lit_ok s vdefs [] v t ld = match coerce_scalar_lit s v t with Some _ => true | None => false end.
  Proof. destruct v; cbn; tauto. Qed.

  Lemma scalar_goal n : scalar_node n = true -> lit_goal n.
  Proof.
    intros Hsc p t ld oneof v Hit Hwf Hv Hl _ _.
    destruct (scalar_lit n v Hsc Hv t p Hit Hl) as [c Hc].
    rewrite lit_ok_scalar, Hc; [reflexivity|].
    destruct n as [k attrs]. destruct k; try discriminate Hsc;
      destruct attrs as [|[] attrs]; cbn in Hv; try discriminate; inversion Hv; try exact I.
    destruct (int_of_text s0); [|discriminate]. cbn in H0. inversion H0. exact I.
  Qed.

  (* ---- list literals ---- *)
  Lemma list_type_inv items r p t :
    is_input_type s t = true -> ty_wf t = true ->
    vlit s (Nd KListValue (AList items :: r)) p t = [] ->
    exists it, list_item_type t = Some it /\ nullable_of t = TList it /\
               concat (mapi (fun j m => vlit s m (p ++ [(O, j)]) it) items) = [].
  Proof.
    intros Hit Hwf Hl.
    assert (Hnamed : forall nm, is_input_type s (TNamed nm) = true ->
                     vlit s (Nd KListValue (AList items :: r)) p (TNamed nm) = [] -> False).
    { intros nm Hi H. rewrite vlit_unfold in H. cbn [is_var_node is_null_node] in H.
      unfold is_input_type in Hi. cbn [named_of] in Hi.
      destruct (lookup_type s nm) as [[[]| | | | |]|]; try discriminate; cbn in H; discriminate. }
    destruct t as [nm|it|t'].
    - exfalso. eapply Hnamed; eauto.
    - rewrite vlit_unfold in Hl. cbn [is_var_node is_null_node] in Hl. exists it. auto.
    - rewrite vlit_unfold in Hl. cbn [is_var_node is_null_node] in Hl.
      destruct t' as [nm|it|t''].
      + exfalso. eapply Hnamed; eauto.
      + rewrite vlit_unfold in Hl. cbn [is_var_node is_null_node] in Hl. exists it. auto.
      + discriminate.
  Qed.

  Lemma list_items_goal p it items : Forall lit_goal items ->
    is_input_type s it = true -> ty_wf it = true ->
    forall vs j0,
    Forall2 (fun m x => val_of fl m = Some x) items vs ->
    concat (mapi_from (fun j m => vlit s m (p ++ [(O, j)]) it) j0 items) = [] ->
    errs_of (concat (mapi_from (fun j m => val_evs s m (p ++ [(O, j)]) (Some it) false false) j0 items)) = [] ->
    (forall u, In u (uses_of (concat (mapi_from (fun j m => val_evs s m (p ++ [(O, j)]) (Some it) false false) j0 items))) ->
               usage_ok vdefs u) ->
    forallb (fun x => lit_ok s vdefs [] x it false) vs = true.
  Proof.
    intros HF Hit Hwf. induction HF as [|m items Hm HF IH]; intros vs j0 H2 Hl He Hu; inversion H2; subst; [reflexivity|].
    cbn [mapi_from concat] in Hl, He, Hu. apply app_eq_nil in Hl as [Hl1 Hl2].
    rewrite errs_of_app in He. apply app_eq_nil in He as [He1 He2].
    cbn [forallb]. apply andb_true_iff. split.
    - apply (Hm (p ++ [(O, j0)]) it false false); auto.
      intros u Hin. apply Hu. rewrite uses_of_app. apply in_app_iff. auto.
    - apply (IH _ (S j0)); auto. intros u Hin. apply Hu. rewrite uses_of_app. apply in_app_iff. auto.
  Qed.

  Lemma list_goal items r : Forall lit_goal items -> lit_goal (Nd KListValue (AList items :: r)).
  Proof.
    intros HF p t ld oneof v Hit Hwf Hv Hl He Hu.
    cbn [val_of] in Hv. destruct (all_some (map (val_of fl) items)) as [vs|] eqn:Ea; [|discriminate].
    cbn in Hv. inversion Hv; subst v. clear Hv.
    destruct (list_type_inv _ _ _ _ Hit Hwf Hl) as (it & Eli & Enu & Hc).
    rewrite lit_ok_list, Eli.
    assert (Hit' : is_input_type s it = true).
    { destruct t as [|t0|[|t0|]]; cbn in Eli; inversion Eli; subst; exact Hit. }
    assert (Hwf' : ty_wf it = true).
    { destruct t as [|t0|[|t0|]]; cbn in Eli; inversion Eli; subst; exact Hwf. }
    cbn [val_evs] in He, Hu. rewrite Enu in He, Hu. unfold as_input in He, Hu. rewrite Hit' in He, Hu.
    apply (list_items_goal p it items HF Hit' Hwf' vs O (all_some_Forall2 _ _ _ Ea) Hc He Hu).
  Qed.

  (* ---- input object literals ---- *)
  Lemma Forall2_nth {A B} (R : A -> B -> Prop) l1 l2 : Forall2 R l1 l2 ->
    forall j b, nth_error l2 j = Some b -> exists a, nth_error l1 j = Some a /\ R a b.
  Proof.
    induction 1 as [|a b l1 l2 Hab H IH]; intros [|j] b' Hj; cbn in Hj; try discriminate.
    - inversion Hj; subst. exists a. auto.
    - apply IH. exact Hj.
  Qed.

  Lemma Forall2_nth_l {A B} (R : A -> B -> Prop) l1 l2 : Forall2 R l1 l2 ->
    forall j a, nth_error l1 j = Some a -> exists b, nth_error l2 j = Some b /\ R a b.
  Proof.
    induction 1 as [|a b l1 l2 Hab H IH]; intros [|j] a' Hj; cbn in Hj; try discriminate.
    - inversion Hj; subst. exists b. auto.
    - apply IH. exact Hj.
  Qed.

  Lemma mapi_nth_nil {A B} (g : nat -> A -> list B) l j a :
    concat (mapi g l) = [] -> nth_error l j = Some a -> g j a = [].
  Proof.
    intros H Hj. apply (concat_nil_inv _ H). unfold mapi. apply In_mapi_from. exists j, a. auto.
  Qed.

  Lemma In_concat_intro {A} (x : A) ls l : In l ls -> In x l -> In x (concat ls).
  Proof.
    induction ls as [|a r IH]; cbn; [tauto|]. intros [<-|Hl] Hx; apply in_app_iff; [left; exact Hx | right; auto].
  Qed.

  Lemma mapi_nth_errs {A} (g : nat -> A -> list ev) l j a :
    errs_of (concat (mapi g l)) = [] -> nth_error l j = Some a -> errs_of (g j a) = [].
  Proof.
    intros H Hj. rewrite errs_of_concat in H. apply (concat_nil_inv _ H).
    apply (List.in_map errs_of). unfold mapi. apply In_mapi_from. exists j, a. auto.
  Qed.

  Lemma mapi_nth_uses {A} (g : nat -> A -> list ev) l j a u :
    nth_error l j = Some a -> In u (uses_of (g j a)) -> In u (uses_of (concat (mapi g l))).
  Proof.
    intros Hj Hu. rewrite uses_of_concat. apply In_concat_intro with (uses_of (g j a)); [|exact Hu].
    apply (List.in_map uses_of). unfold mapi. apply In_mapi_from. exists j, a. auto.
  Qed.

  Lemma NoDup_prefix {A} (L : list A) :
    (forall j x, nth_error L j = Some x -> ~ In x (firstn j L)) -> NoDup L.
  Proof.
    induction L as [|x L IH] using rev_ind; intro H; [constructor|].
    apply NoDup_snoc.
    - apply IH. intros j y Hj Hin. assert (Hlt : (j < length L)%nat) by (apply nth_error_Some; congruence).
      apply (H j y).
      + rewrite nth_error_app1 by exact Hlt. exact Hj.
      + rewrite firstn_app. apply in_app_iff. left. exact Hin.
    - intro Hin. apply (H (length L) x).
      + rewrite nth_error_app2 by lia. rewrite Nat.sub_diag. reflexivity.
      + rewrite firstn_app, Nat.sub_diag, firstn_all. cbn. rewrite app_nil_r. exact Hin.
  Qed.

  Lemma forallb_filter_id {A} (f : A -> bool) l : forallb f l = true -> filter f l = l.
  Proof.
    induction l as [|a l IH]; cbn; [reflexivity|]. intro H. apply andb_true_iff in H as [H1 H2].
    rewrite H1, IH; auto.
  Qed.

  Definition field_kv (f : node) : option (Value.str * value) :=
    match f with
    | Nd KObjectField (ANode nm :: ANode v :: _) => option_map (pair (name_str nm)) (val_of fl v)
    | _ => None
    end.

  Lemma field_kv_inv f k x : field_kv f = Some (k, x) ->
    exists nm vn r, f = Nd KObjectField (ANode nm :: ANode vn :: r) /\ k = arg_name f /\ val_of fl vn = Some x.
  Proof.
    destruct f as [kd attrs]. destruct kd; cbn; try discriminate.
    destruct attrs as [|[| nm| | | |] [|[| vn| | | |] r]]; cbn; try discriminate.
    destruct (val_of fl vn) as [x'|] eqn:E; cbn; [|discriminate]. intro H. inversion H; subst.
    exists nm, vn, r. auto.
  Qed.

  Definition fgoal (f : node) : Prop :=
    forall a0 vn r, f = Nd KObjectField (a0 :: ANode vn :: r) -> lit_goal vn.

  Lemma obj_vlit_named flds r p t :
    vlit s (Nd KObjectValue (AList flds :: r)) p t = vlit s (Nd KObjectValue (AList flds :: r)) p (TNamed (named_of t)).
  Proof.
    induction t as [nm|it IH|t' IH]; [reflexivity | |];
      rewrite vlit_unfold; cbn [is_var_node is_null_node named_of]; exact IH.
  Qed.

  Lemma obj_goal flds r : Forall fgoal flds -> lit_goal (Nd KObjectValue (AList flds :: r)).
  Proof.
    intros HF p t ld oneof v Hit Hwf Hv Hl He Hu.
    cbn [val_of] in Hv.
    assert (Hv' : option_map VObj (all_some (map field_kv flds)) = Some v) by exact Hv.
    clear Hv. rename Hv' into Hv.
    destruct (all_some (map field_kv flds)) as [kvs|] eqn:Ea; [|discriminate].
    cbn in Hv. inversion Hv; subst v. clear Hv.
    pose proof (all_some_Forall2 _ _ _ Ea) as H2.
    rewrite obj_vlit_named, vlit_unfold in Hl. cbn [is_var_node is_null_node] in Hl.
    rewrite lit_ok_obj, unwrap_named_of.
    unfold is_input_type in Hit.
    destruct (lookup_type s (named_of t)) as [td|] eqn:Etd; [|discriminate].
    destruct td as [[]|vals| | | |defs oo]; try discriminate; try (cbn in Hl; discriminate).
    (* an input object type *)
    apply app_eq_nil in Hl as [HA Hl]. apply app_eq_nil in Hl as [HB HC].
    pose proof (input_fields_ok _ _ _ Etd) as Hdefs. unfold arg_types_ok in Hdefs. rewrite forallb_forall in Hdefs.
    cbn [val_evs] in He, Hu. cbv zeta in He, Hu. rewrite Etd in He, Hu. cbv beta iota in He, Hu.
    (* names *)
    assert (Hnames : map fst kvs = field_names flds).
    { clear -H2. induction H2 as [|f [k x] l1 l2 Hf H IH]; [reflexivity|]. cbn [map fst field_names].
      apply field_kv_inv in Hf as (nm & vn & r' & -> & -> & _). unfold field_names in IH. rewrite IH. reflexivity. }
    (* no name twice *)
    assert (Hnd : NoDup (field_names flds)).
    { apply NoDup_prefix. intros j nmj Hj Hin. unfold field_names in Hj. rewrite nth_error_map in Hj.
      destruct (nth_error flds j) as [f|] eqn:Ef; [|discriminate]. cbn in Hj. inversion Hj; subst nmj.
      destruct (Forall2_nth_l _ _ _ H2 j f Ef) as ([k x] & _ & Hkv).
      apply field_kv_inv in Hkv as (nm & vn & r' & -> & _ & _).
      pose proof (mapi_nth_errs _ _ _ _ He Ef) as He'. cbv beta iota in He'.
      rewrite errs_of_app in He'. apply app_eq_nil in He' as [He' _].
      destruct (first_named (arg_name (Nd KObjectField (ANode nm :: ANode vn :: r'))) p O (firstn j flds)) eqn:Ef1;
        [discriminate|].
      apply first_named_None in Ef1. apply Ef1. unfold field_names in Hin. rewrite firstn_map in Hin. exact Hin. }
    (* every field is defined and its value is accepted *)
    assert (Hfields : forall j f k x, nth_error flds j = Some f -> field_kv f = Some (k, x) ->
              exists ad, find_arg k defs = Some ad /\
                         lit_ok s vdefs [] x (a_type ad) (has_default ad) = true).
    { intros j f k x Ef Hkv. pose proof Hkv as Hkv0.
      apply field_kv_inv in Hkv as (nm & vn & r' & -> & -> & Hx).
      pose proof (mapi_nth_nil _ _ _ _ HB Ef) as Hb. cbn beta iota in Hb.
      set (f := Nd KObjectField (ANode nm :: ANode vn :: r')) in *.
      destruct (find_arg (arg_name f) defs) as [ad|] eqn:Ead; [|discriminate].
      exists ad. split; [reflexivity|].
      assert (Hlast : Value.mem (arg_name f) (field_names (skipn (S j) flds)) = false).
      { apply SpecProps.mem_not_In. intro Hin.
        assert (Hsplit : flds = firstn j flds ++ f :: skipn (S j) flds).
        { clear -Ef. revert j Ef. induction flds as [|a l IHl]; intros [|j] Ef; cbn in *; try discriminate.
          - inversion Ef. reflexivity.
          - f_equal. apply IHl. exact Ef. }
        unfold field_names in Hnd. rewrite Hsplit, map_app in Hnd. cbn [map] in Hnd.
        apply NoDup_remove_2 in Hnd. apply Hnd. apply in_app_iff. right. exact Hin. }
      rewrite Hlast in Hb.
      pose proof (find_arg_In _ _ _ Ead) as [Hadin _]. specialize (Hdefs _ Hadin).
      apply andb_true_iff in Hdefs as [Hi1 Hi2].
      rewrite Forall_forall in HF. pose proof (HF f (nth_error_In _ _ Ef) (ANode nm) vn r' eq_refl) as Hg.
      unfold f in *. clear f.
      pose proof (mapi_nth_errs _ _ _ _ He Ef) as He'. cbv beta iota in He'.
      rewrite errs_of_app in He'. apply app_eq_nil in He' as [_ He'].
      rewrite Ead in He'. unfold as_input in He'. rewrite Hi1 in He'.
      apply (Hg _ _ _ oo x Hi1 Hi2 Hx Hb He').
      intros u Hin. apply Hu. apply (mapi_nth_uses _ _ _ _ _ Ef). cbv beta iota.
      rewrite uses_of_app. apply in_app_iff. right. rewrite Ead. unfold as_input. rewrite Hi1. exact Hin. }
    repeat (apply andb_true_iff; split).
    - rewrite Hnames. apply nodup_names_NoDup. exact Hnd.
    - unfold fields_lit_ok. apply forallb_forall. intros [k x] Hin. cbn [fst snd].
      apply In_nth_error in Hin as [j Hj]. destruct (Forall2_nth _ _ _ H2 j _ Hj) as (f & Ef & Hkv).
      destruct (Hfields j f k x Ef Hkv) as (ad & -> & Hok). exact Hok.
    - apply forallb_forall. intros ad Had. rewrite has_key_mem, Hnames.
      pose proof (proj1 (flat_map_nil _ _) HA ad Had) as Hr. cbv beta in Hr.
      destruct (required_arg ad); [|apply orb_true_r].
      destruct (Value.mem (a_name ad) (field_names flds)); [reflexivity | discriminate].
    - destruct oo; [|reflexivity]. cbn [negb orb].
      (* OneOf: every field is defined, so the filter keeps them all *)
      assert (Hall : filter (fun f => match find_arg (arg_name f) defs with Some _ => true | None => false end) flds = flds).
      { apply forallb_filter_id. apply forallb_forall. intros f Hf. apply In_nth_error in Hf as [j Ef].
        destruct (Forall2_nth_l _ _ _ H2 j f Ef) as ([k x] & _ & Hkv).
        destruct (Hfields j f k x Ef Hkv) as (ad & Hfa & _).
        apply field_kv_inv in Hkv as (_ & _ & _ & _ & -> & _). rewrite Hfa. reflexivity. }
      rewrite Hall in HC.
      destruct flds as [|f0 [|f1 rest]]; try discriminate HC.
      inversion H2 as [|? [k x] ? l2 Hkv H2' ]; subst. inversion H2'; subst.
      pose proof Hkv as Hkv0. apply field_kv_inv in Hkv as (nm & vn & r' & -> & -> & Hx).
      cbn [objfield_value] in HC.
      assert (Hnn : is_vnull x = false).
      { destruct x; try reflexivity. apply val_of_null in Hx. rewrite Hx in HC. discriminate. }
      rewrite Hnn. cbn [negb andb].
      destruct x as [| | | | | |y| |]; try reflexivity.
      destruct (Hfields O _ _ _ eq_refl Hkv0) as (ad & Hfa & _). rewrite Hfa.
      apply val_of_var in Hx as (vnm & vr & -> & ->).
      pose proof (find_arg_In _ _ _ Hfa) as [Hadin _]. specialize (Hdefs _ Hadin).
      apply andb_true_iff in Hdefs as [Hi1 _].
      assert (Hin : In (TU (name_str vnm) (p ++ [(O, O); (1, O)]%nat) (Some (a_type ad)) (has_default ad) true)
                       (uses_of (concat (mapi (fun j f =>
                          match f with
                          | Nd KObjectField (_ :: ANode v :: _) =>
                            (match first_named (arg_name f) p O (firstn j [Nd KObjectField (ANode nm :: ANode (Nd KVariable (ANode vnm :: vr)) :: r')]) with
                             | Some p0 => [EErr (VE R_UINF [p0; p ++ [(O, j); (O, O)]%nat])]
                             | None => []
                             end) ++
                            match find_arg (arg_name f) defs with
                            | Some ad => val_evs s v (p ++ [(O, j); (1, O)]%nat) (as_input s (a_type ad)) (has_default ad) true
                            | None => val_evs s v (p ++ [(O, j); (1, O)]%nat) None false true
                            end
                          | _ => []
                          end) [Nd KObjectField (ANode nm :: ANode (Nd KVariable (ANode vnm :: vr)) :: r')])))).
      { pose proof Hfa as Hfa'. cbn in Hfa'. cbn. rewrite Hfa'. unfold as_input. rewrite Hi1. cbn. auto. }
      destruct (Hu _ Hin) as (vd & Hfv & Hall'). cbn [tu_name] in Hfv. rewrite Hfv.
      destruct (Hall' (a_type ad) eq_refl) as [Hallow Hnn']. cbn [tu_default tu_oneof] in *.
      specialize (Hnn' eq_refl).
      destruct (schema_input _ _ _ _ Hsok Etd) as (_ & _ & Hone). destruct (Hone eq_refl ad Hadin) as [Hnull _].
      rewrite andb_true_r. unfold allowed_usage in *. rewrite Hnn'.
      destruct (a_type ad) as [an|al|an] eqn:Eat; try discriminate Hnull;
        destruct (v_type vd) as [|?|m]; try discriminate Hnn'; cbn [in_subtype];
        apply in_subtype_strip in Hallow; try reflexivity; exact Hallow.
  Qed.

  (* ---- all literals ---- *)
  Lemma null_goal attrs : lit_goal (Nd KNullValue attrs).
  Proof.
    intros p t ld oneof v _ _ Hv Hl _ _. cbn in Hv. inversion Hv; subst. cbn [lit_ok].
    rewrite vlit_unfold in Hl. cbn [is_var_node is_null_node] in Hl. destruct t; try reflexivity. discriminate.
  Qed.

  Lemma var_goal nm r : lit_goal (Nd KVariable (ANode nm :: r)).
  Proof.
    intros p t ld oneof v _ _ Hv _ _ Hu. cbn in Hv. inversion Hv; subst. cbn [lit_ok].
    destruct (Hu (TU (name_str nm) p (Some t) ld oneof)) as (vd & Hf & Ha); [cbn; auto|].
    cbn [tu_name] in Hf. rewrite Hf. destruct (Ha t eq_refl) as [Hal _]. cbn [tu_default] in Hal.
    rewrite Hal. cbn. rewrite andb_false_r. reflexivity.
  Qed.

  Theorem lit_sound n : lit_goal n.
  Proof.
    enough (H : lit_goal n /\ fgoal n) by apply H.
    induction n as [k attrs IH] using node_ind2. split.
    - destruct k; try (intros p t ld oneof v _ _ Hv; cbn in Hv; discriminate Hv);
        try (apply scalar_goal; reflexivity).
      + (* list *)
        destruct attrs as [|[| |items| | |] r]; try (intros p t ld oneof v _ _ Hv; cbn in Hv; discriminate Hv).
        apply list_goal. inversion IH as [|a l Ha _]; subst. inversion Ha as [| |l' Hl| | |]; subst.
        eapply Forall_impl; [|exact Hl]. intros m Hm. apply Hm.
      + apply null_goal.
      + (* object *)
        destruct attrs as [|[| |flds| | |] r]; try (intros p t ld oneof v _ _ Hv; cbn in Hv; discriminate Hv).
        apply obj_goal. inversion IH as [|a l Ha _]; subst. inversion Ha as [| |l' Hl| | |]; subst.
        eapply Forall_impl; [|exact Hl]. intros m Hm. apply Hm.
      + (* variable *)
        destruct attrs as [|[|nm| | | |] r]; try (intros p t ld oneof v _ _ Hv; cbn in Hv; discriminate Hv).
        apply var_goal.
    - intros a0 vn r Heq. inversion Heq; subst.
      inversion IH as [|a l _ Hr]; subst. inversion Hr as [|a' l' Ha' _]; subst.
      inversion Ha' as [|m Hm| | | |]; subst. apply Hm.
  Qed.
End Lit.
