(* C12 / four further rules of specified_rules that need the schema's directive table or root
   operation types, as functions of the parser's AST (CRULES style, Valid/Rules.v):

     23 KnownOperationTypesRule          rules/known_operation_types.py
     24 KnownDirectivesRule              rules/known_directives.py
     25 UniqueDirectivesPerLocationRule  rules/unique_directives_per_location.py
     26 DeferStreamDirectiveLabel        rules/defer_stream_directive_label.py (schema-independent)

   What the rules read off the schema: which root operation types exist, and per directive of
   schema.directives its name, locations (index in enum DirectiveLocation) and is_repeatable.
   The visited nodes are Rules.doc_items (visit() with the validation keys, in its order); the
   `ancestors` list the visitor hands to KnownDirectives is a function of the document and the
   node's path (chain).  None = the implementation raises (KeyError / IndexError / TypeError /
   AttributeError on ASTs the parser does not produce). *)
From GV Require Import Base.Prelude Lang.Ast Valid.Rules Valid.RulesPaths.

Definition R_KOPT : N := 23.   Definition R_KDIR : N := 24.   Definition R_UDIR : N := 25.

Record dinfo := DI { di_name : str; di_locs : list N; di_rep : bool }.
(* ds_roots: query / mutation / subscription type present *)
Record dschema := DS { ds_roots : list bool; ds_dirs : list dinfo }.

Definition ddefs (d : node) : list node :=
  match d with Nd KDocument (AList l :: _) => l | _ => [] end.

(* ---- 23 KnownOperationTypes: enter_operation_definition, schema.get_root_type(node.operation) ---- *)
Definition has_root (ds : dschema) (o : N) : bool := nth (N.to_nat o) (ds_roots ds) false.

Definition op_code (n : node) : option N :=
  match n with
  | Nd KOperationDefinition (_ :: _ :: _ :: _ :: _ :: AEnum o :: _) => Some o
  | _ => None
  end.

Definition rule_known_operation_types (ds : dschema) (d : node) : list verr :=
  concat (mapi (fun j n => match op_code n with
                           | Some o => if has_root ds o then [] else [VE R_KOPT [[(O, j)]]]
                           | None => []
                           end) (ddefs d)).

(* ---- directive locations: index in enum DirectiveLocation ---- *)
Definition L_QUERY : N := 0.        Definition L_FIELD : N := 3.       Definition L_FRAGDEF : N := 4.
Definition L_SPREAD : N := 5.       Definition L_INLINE : N := 6.      Definition L_VARDEF : N := 7.
Definition L_FRAGVARDEF : N := 8.   Definition L_SCHEMA : N := 9.      Definition L_SCALAR : N := 10.
Definition L_OBJECT : N := 11.      Definition L_FIELDDEF : N := 12.   Definition L_ARGDEF : N := 13.
Definition L_INTERFACE : N := 14.   Definition L_UNION : N := 15.      Definition L_ENUM : N := 16.
Definition L_ENUMVALUE : N := 17.   Definition L_INPUTOBJECT : N := 18. Definition L_INPUTFIELDDEF : N := 19.
Definition L_DIRDEF : N := 20.

(* DirectiveLocation[name]: member names *)
Definition loc_names : list (str * N) :=
  [([81;85;69;82;89], 0);
   ([77;85;84;65;84;73;79;78], 1);
   ([83;85;66;83;67;82;73;80;84;73;79;78], 2);
   ([70;73;69;76;68], 3);
   ([70;82;65;71;77;69;78;84;95;68;69;70;73;78;73;84;73;79;78], 4);
   ([70;82;65;71;77;69;78;84;95;83;80;82;69;65;68], 5);
   ([73;78;76;73;78;69;95;70;82;65;71;77;69;78;84], 6);
   ([86;65;82;73;65;66;76;69;95;68;69;70;73;78;73;84;73;79;78], 7);
   ([70;82;65;71;77;69;78;84;95;86;65;82;73;65;66;76;69;95;68;69;70;73;78;73;84;73;79;78], 8);
   ([83;67;72;69;77;65], 9);
   ([83;67;65;76;65;82], 10);
   ([79;66;74;69;67;84], 11);
   ([70;73;69;76;68;95;68;69;70;73;78;73;84;73;79;78], 12);
   ([65;82;71;85;77;69;78;84;95;68;69;70;73;78;73;84;73;79;78], 13);
   ([73;78;84;69;82;70;65;67;69], 14);
   ([85;78;73;79;78], 15);
   ([69;78;85;77], 16);
   ([69;78;85;77;95;86;65;76;85;69], 17);
   ([73;78;80;85;84;95;79;66;74;69;67;84], 18);
   ([73;78;80;85;84;95;70;73;69;76;68;95;68;69;70;73;78;73;84;73;79;78], 19);
   ([68;73;82;69;67;84;73;86;69;95;68;69;70;73;78;73;84;73;79;78], 20)].

(* known_directives._directive_location *)
Definition kind_loc (k : nkind) : option N :=
  match k with
  | KField => Some L_FIELD | KFragmentSpread => Some L_SPREAD | KInlineFragment => Some L_INLINE
  | KFragmentDefinition => Some L_FRAGDEF
  | KSchemaDefinition | KSchemaExtension => Some L_SCHEMA
  | KScalarTypeDefinition | KScalarTypeExtension => Some L_SCALAR
  | KObjectTypeDefinition | KObjectTypeExtension => Some L_OBJECT
  | KFieldDefinition => Some L_FIELDDEF
  | KInterfaceTypeDefinition | KInterfaceTypeExtension => Some L_INTERFACE
  | KUnionTypeDefinition | KUnionTypeExtension => Some L_UNION
  | KEnumTypeDefinition | KEnumTypeExtension => Some L_ENUM
  | KEnumValueDefinition => Some L_ENUMVALUE
  | KInputObjectTypeDefinition | KInputObjectTypeExtension => Some L_INPUTOBJECT
  | KDirectiveDefinition | KDirectiveExtension => Some L_DIRDEF
  | _ => None
  end.

(* an entry of the visitor's `ancestors`: a node (kind, operation if it is an operation
   definition) or a tuple of nodes *)
Inductive uitem := UNode (k : nkind) (op : option N) | UList.

Definition uitem_of (n : node) : uitem := UNode (kind_of n) (op_code n).

(* the containers on the way from the root to the node at path q, nearest first: for a node in a
   tuple, the tuple and then its owner.  visit() hands `ancestors` = this chain without its head
   (the head is the `parent` argument). *)
Fixpoint chain (n : node) (q : path) (acc : list uitem) : option (list uitem) :=
  match q with
  | [] => Some acc
  | (i, j) :: r =>
    match nth i (attrs_of n) ANone with
    | ANode m => if (j =? 0)%nat then chain m r (uitem_of n :: acc) else None
    | AList l => match nth_error l j with Some m => chain m r (UList :: uitem_of n :: acc) | None => None end
    | _ => None
    end
  end.

Definition is_kind (k k' : nkind) : bool := kind_code k =? kind_code k'.

(* get_directive_location_for_ast_path; anc = ancestors, last first.
   None: raises; Some None: no candidate location *)
Definition loc_of (anc : list uitem) : option (option N) :=
  match anc with
  | UNode k op :: rest =>
    if is_kind k KOperationDefinition then
      match op with Some o => if o <? 3 then Some (Some o) else None | None => None end
    else if is_kind k KInputValueDefinition then
      match nth_error rest 1 with
      | Some (UNode k3 _) => Some (Some (if is_kind k3 KInputObjectTypeDefinition then L_INPUTFIELDDEF else L_ARGDEF))
      | _ => None
      end
    else if is_kind k KVariableDefinition then
      match nth_error rest 1 with
      | Some (UNode k3 _) => Some (Some (if is_kind k3 KOperationDefinition then L_VARDEF else L_FRAGVARDEF))
      | _ => None
      end
    else Some (kind_loc k)
  | _ => None
  end.

Definition dir_name (n : node) : str := match n with Nd _ (ANode m :: _) => name_str m | _ => [] end.

Fixpoint memN (c : N) (l : list N) : bool := match l with [] => false | x :: r => (c =? x) || memN c r end.

(* the DirectiveDefinitionNodes of the document: name, locations / repeatable *)
Definition loc_code (n : node) : option N := lookup (name_str n) loc_names.

Fixpoint opt_all {A} (l : list (option A)) : option (list A) :=
  match l with
  | [] => Some []
  | Some x :: r => match opt_all r with Some y => Some (x :: y) | None => None end
  | None :: _ => None
  end.

Definition doc_dir_locs (d : node) : option (list (str * list N)) :=
  opt_all (flat_map (fun n => match n with
                               | Nd KDirectiveDefinition (ANode nm :: AList ls :: _) =>
                                 [option_map (fun l => (name_str nm, l)) (opt_all (map loc_code ls))]
                               | Nd KDirectiveDefinition _ => [None]
                               | _ => []
                               end) (ddefs d)).

(* a dict filled in this order: the last assignment wins *)
Definition dict_of {V} (l : list (str * V)) : list (str * V) := rev l.

Definition locations_map (ds : dschema) (d : node) : option (list (str * list N)) :=
  option_map (fun de => dict_of (map (fun i => (di_name i, di_locs i)) (ds_dirs ds) ++ de)) (doc_dir_locs d).

(* ---- 24 KnownDirectives: enter_directive ---- *)
Definition kd_check (lm : list (str * list N)) (up : option (list uitem)) (p : path) (name : str)
  : option (list verr) :=
  match lookup name lm with
  | Some (l0 :: ls) =>
    match up with
    | Some (_ :: anc) =>
      match loc_of anc with
      | None => None
      | Some None => Some []
      | Some (Some c) => if memN c (l0 :: ls) then Some [] else Some [VE R_KDIR [p]]
      end
    | _ => None
    end
  | _ => Some [VE R_KDIR [p]]
  end.

Definition is_directive (n : node) : bool := is_kind (kind_of n) KDirective.

Definition rule_known_directives (ds : dschema) (d : node) : option (list verr) :=
  match locations_map ds d with
  | None => None
  | Some lm =>
    opt_concat (map (fun it =>
      if is_directive (it_node it)
      then kd_check lm (chain d (it_path it) []) (it_path it) (dir_name (it_node it))
      else Some []) (doc_items d))
  end.

(* ---- 25 UniqueDirectivesPerLocation: enter (any node) ---- *)
(* the attribute `directives` of the node classes that have one *)
Definition dirs_index (k : nkind) : option nat :=
  match k with
  | KField | KFragmentSpread | KInlineFragment | KSchemaExtension => Some 0
  | KSchemaDefinition | KScalarTypeExtension | KObjectTypeExtension | KInterfaceTypeExtension
  | KUnionTypeExtension | KEnumTypeExtension | KInputObjectTypeExtension | KDirectiveExtension => Some 1
  | KScalarTypeDefinition | KObjectTypeDefinition | KInterfaceTypeDefinition | KUnionTypeDefinition
  | KEnumValueDefinition | KEnumTypeDefinition | KInputObjectTypeDefinition => Some 2
  | KOperationDefinition | KFragmentDefinition | KVariableDefinition | KInputValueDefinition
  | KFieldDefinition | KDirectiveDefinition => Some 4
  | _ => None
  end%nat.

Definition is_type_def_or_ext (k : nkind) : bool :=
  match k with
  | KScalarTypeDefinition | KObjectTypeDefinition | KInterfaceTypeDefinition | KUnionTypeDefinition
  | KEnumTypeDefinition | KInputObjectTypeDefinition
  | KScalarTypeExtension | KObjectTypeExtension | KInterfaceTypeExtension | KUnionTypeExtension
  | KEnumTypeExtension | KInputObjectTypeExtension => true
  | _ => false
  end.

(* which `seen_directives` dictionary a node uses: the schema's, the one of a type name, the one
   of a directive name, or a fresh one (identified by the node's path) *)
Inductive dgroup := GSchema | GType (n : str) | GDirective (n : str) | GFresh (p : path).

Definition group_of (p : path) (n : node) : dgroup :=
  match n with
  | Nd k attrs =>
    match k with
    | KSchemaDefinition | KSchemaExtension => GSchema
    | KDirectiveDefinition | KDirectiveExtension => GDirective (dir_name n)
    | _ => if is_type_def_or_ext k then GType (dir_name n) else GFresh p
    end
  end.

(* a dictionary key for (group, directive name): the group's code, length-prefixed *)
Definition flat_path (p : path) : list N := flat_map (fun s => [N.of_nat (fst s); N.of_nat (snd s)]) p.
Definition group_code (g : dgroup) : list N :=
  match g with
  | GSchema => [0] | GType n => 1 :: n | GDirective n => 2 :: n | GFresh p => 3 :: flat_path p
  end.
Definition dkey (g : dgroup) (name : str) : str := N.of_nat (length (group_code g)) :: group_code g ++ name.

(* unique_directive_map: directive name -> not repeatable *)
Definition doc_dir_reps (d : node) : list (str * bool) :=
  flat_map (fun n => match n with
                     | Nd KDirectiveDefinition (ANode nm :: _ :: _ :: _ :: _ :: ABool r :: _) => [(name_str nm, negb r)]
                     | _ => []
                     end) (ddefs d).
Definition unique_map (ds : dschema) (d : node) : list (str * bool) :=
  dict_of (map (fun i => (di_name i, negb (di_rep i))) (ds_dirs ds) ++ doc_dir_reps d).

Definition must_be_unique (um : list (str * bool)) (name : str) : bool :=
  match lookup name um with Some true => true | _ => false end.

(* the directive occurrences the rule looks at, in visiting order: key, path of the directive *)
Definition item_dirs (um : list (str * bool)) (it : item) : list (str * path) :=
  match it_node it with
  | Nd k attrs =>
    match dirs_index k with
    | Some i =>
      match nth i attrs ANone with
      | AList l =>
        concat (mapi (fun j m => if must_be_unique um (dir_name m)
                                 then [(dkey (group_of (it_path it) (it_node it)) (dir_name m), it_path it ++ [(i, j)])]
                                 else []) l)
      | _ => []
      end
    | None => []
    end
  end.

Definition udir_occs (ds : dschema) (d : node) : list (str * path) :=
  flat_map (item_dirs (unique_map ds d)) (doc_items d).

Definition rule_unique_directives_per_location (ds : dschema) (d : node) : list verr :=
  map (fun pq => VE R_UDIR [fst pq; snd pq]) (dup_scan [] (udir_occs ds d)).

(* ---- 26 DeferStreamDirectiveLabel: enter_directive (rules/defer_stream_directive_label.py) ---- *)
Definition R_LABEL : N := 26.
Definition n_defer : str := [100;101;102;101;114].            (* defer *)
Definition n_stream : str := [115;116;114;101;97;109].         (* stream *)
Definition n_label : str := [108;97;98;101;108].               (* label *)

(* next(arg for arg in node.arguments or () if arg.name.value == "label").value *)
Fixpoint first_label (args : list node) : option node :=
  match args with
  | [] => None
  | a :: r =>
    if streq (arg_name a) n_label
    then match a with Nd _ (_ :: ANode v :: _) => Some v | _ => None end
    else first_label r
  end.

Inductive label_event := LNone | LStatic (p : path) | LLabel (s : str) (p : path).

Definition label_of (it : item) : label_event :=
  match it_node it with
  | Nd KDirective (ANode nm :: a :: _) =>
    if streq (name_str nm) n_defer || streq (name_str nm) n_stream then
      match first_label (match a with AList args => args | _ => [] end) with
      | Some (Nd KNullValue _) => LNone
      | Some (Nd KStringValue (AStr s :: _)) => LLabel s (it_path it)
      | Some _ => LStatic (it_path it)
      | None => LNone
      end
    else LNone
  | _ => LNone
  end.

Definition label_statics (d : node) : list path :=
  flat_map (fun it => match label_of it with LStatic p => [p] | _ => [] end) (doc_items d).
Definition labels (d : node) : list (str * path) :=
  flat_map (fun it => match label_of it with LLabel s p => [(s, p)] | _ => [] end) (doc_items d).

Definition rule_defer_stream_label (d : node) : list verr :=
  map (fun p => VE R_LABEL [p]) (label_statics d) ++
  map (fun pq => VE R_LABEL [fst pq; snd pq]) (dup_scan [] (labels d)).
