(* Consequences of "no selection set of the document has a conflict" (the verdict VNo of the
   field-merge specification function) for pairs of collected fields: two fields with one response
   name that are not on different object types have one field name, and the same holds again for
   every pair of fields their sub-selections contribute. *)
From GV Require Import Base.Prelude Valid.Overlap Valid.OverlapProps Valid.OverlapAdequacy Valid.OverlapEquiv
  Valid.OverlapMemoSound Valid.OverlapCollect.

Lemma unvis_le frags v : (unvis frags v <= length frags)%nat.
Proof. rewrite <- (unvis_nil frags). apply unvis_incl. intros x []. Qed.

Section Total.
  Variable frags : list fragdef.

  Definition total_fn (B : nat) (c : collect_fn) : Prop :=
    forall p ss st, (unvis frags (fst st) <= B)%nat ->
      exists st', c p ss st = Some st' /\ incl (fst st) (fst st').

  Lemma collect_go_total (B : nat) (rec : collect_fn) :
    (forall p ss st, (S (unvis frags (fst st)) <= B)%nat ->
       exists st', rec p ss st = Some st' /\ incl (fst st) (fst st')) ->
    total_fn B (collect_go frags rec).
  Proof.
    intros Hrec p ss. revert p.
    induction ss as [|f sub IHsub rest IHrest|iid tc sub IHsub rest IHrest|n rest IHrest];
      intros p st HB; cbn [collect_go].
    - exists st. split; [reflexivity | apply incl_refl].
    - destruct (IHrest p (fst st, snd st ++ [mkEntry p f sub])) as [st' [H1 H2]]; cbn [fst]; auto.
      exists st'. auto.
    - destruct (IHsub (match tc with Some t => t | None => p end) st) as [st1 [H1 H2]]; auto.
      rewrite H1. destruct (IHrest p st1) as [st2 [K1 K2]].
      { pose proof (unvis_incl frags _ _ H2). lia. }
      exists st2. split; [exact K1 | eapply incl_tran; eauto].
    - destruct (mem n (fst st)) eqn:Em; [apply IHrest; auto|].
      destruct (find_frag frags n) as [fd|] eqn:Ef.
      + apply find_frag_some in Ef as [Hfd Hname]. subst n.
        pose proof (unvis_add frags (fst st) fd Hfd Em) as Hlt.
        destruct (Hrec (fr_type fd) (fr_body fd) (fr_name fd :: fst st, snd st)) as [st1 [H1 H2]]; cbn [fst]; [lia|].
        cbn [fst] in H2. rewrite H1. destruct (IHrest p st1) as [st2 [K1 K2]].
        { pose proof (unvis_incl frags _ _ H2). lia. }
        exists st2. split; [exact K1|]. intros x Hx. apply K2. apply H2. right. exact Hx.
      + destruct (IHrest p (n :: fst st, snd st)) as [st2 [K1 K2]]; cbn [fst].
        { pose proof (unvis_incl frags (fst st) (n :: fst st) (incl_tl _ (incl_refl _))). lia. }
        exists st2. split; [exact K1|]. intros x Hx. apply K2. right. exact Hx.
  Qed.

  Lemma collect_total fuel : total_fn fuel (collect frags fuel).
  Proof.
    induction fuel as [|f IH]; cbn [collect]; apply collect_go_total.
    - intros p ss st H. lia.
    - intros p ss st H. apply IH. lia.
  Qed.
End Total.

Section Good.
  Variable s : schema.
  Variable d : document.
  Notation frags := (d_frags d).
  Notation cf := (length (d_frags d)).

  Definition Good (x y : entry) : Prop := x = y \/ ~ Conf s d false x y \/ ~ Conf s d false y x.

  Lemma Good_sym x y : Good x y -> Good y x.
  Proof. intros [->|[H|H]]; [left; reflexivity | right; right; exact H | right; left; exact H]. Qed.

  Lemma same_rname_sym x y : same_rname x y = same_rname y x.
  Proof. unfold same_rname. apply N.eqb_sym. Qed.

  (* the collected set of a selection set contains all it contributes *)
  Lemma collect_set p ss : exists st, collect frags cf p ss ([], []) = Some st /\
    forall u, Exp frags p ss u -> In u (snd st).
  Proof.
    destruct (collect_total frags cf p ss ([], [])) as [st [H _]]; [apply unvis_le|].
    exists st. split; [exact H|]. apply (collect_complete frags cf p ss ([], []) st (closed_nil frags) H).
  Qed.

  Lemma merged_total x y ta tb : exists l, merged d x y ta tb = Some l /\
    (forall u, Exp frags (named ta) (e_sub x) u -> In u l) /\
    (forall v, Exp frags (named tb) (e_sub y) v -> In v l).
  Proof.
    unfold merged.
    destruct (collect_total frags cf (named ta) (e_sub x) ([], [])) as [st1 [H1 _]]; [apply unvis_le|].
    rewrite H1.
    destruct (collect_complete frags cf _ _ _ _ (closed_nil frags) H1) as (Hc1 & _ & He1).
    destruct (collect_total frags cf (named tb) (e_sub y) st1) as [st2 [H2 _]]; [apply unvis_le|].
    rewrite H2. destruct (collect_complete frags cf _ _ _ _ Hc1 H2) as (_ & Hle & He2).
    exists (snd st2). split; [reflexivity|]. split; [intros u Hu; apply (proj2 Hle); apply He1; exact Hu | exact He2].
  Qed.

  (* the fields of a checked set *)
  Theorem set_good p ss : ~ SetConf s d p ss ->
    forall u v, Exp frags p ss u -> Exp frags p ss v -> same_rname u v = true -> Good u v.
  Proof.
    intros Hno u v Hu Hv Hr. destruct (collect_set p ss) as [st [Hc He]].
    destruct (before_tricho u v (snd st) (He u Hu) (He v Hv)) as [->|[Hb|Hb]]; [left; reflexivity| |].
    - right. left. intro Hconf. apply Hno. exists st, u, v. auto.
    - right. right. intro Hconf. apply Hno. exists st, v, u. rewrite same_rname_sym. auto.
  Qed.

  (* the fields below two mergeable fields *)
  Theorem children_good x y ta tb :
    ~ Conf s d false x y -> ft s x = Some ta -> ft s y = Some tb -> excl_of s false x y = false ->
    forall u v, Exp frags (named ta) (e_sub x) u -> Exp frags (named tb) (e_sub y) v ->
                same_rname u v = true -> Good u v.
  Proof.
    intros Hn Ha Hb He u v Hu Hv Hr.
    destruct (direct s false x y ta tb) eqn:Ed; [exfalso; apply Hn; eapply Conf_direct; eauto|].
    destruct (merged_total x y ta tb) as (l & Hm & H1 & H2).
    destruct (before_tricho u v l (H1 u Hu) (H2 v Hv)) as [->|[Hbf|Hbf]]; [left; reflexivity| |].
    - right. left. intro Hc. apply Hn. eapply Conf_nested; eauto. rewrite He. exact Hc.
    - right. right. intro Hc. apply Hn. eapply Conf_nested; eauto; [rewrite same_rname_sym; exact Hr | rewrite He; exact Hc].
  Qed.

  (* mergeable fields that are not exclusive have one field name *)
  Theorem good_names x y ta tb :
    ~ Conf s d false x y -> ft s x = Some ta -> ft s y = Some tb -> excl_of s false x y = false ->
    f_name (e_fld x) = f_name (e_fld y).
  Proof.
    intros Hn Ha Hb He.
    destruct (direct s false x y ta tb) eqn:Ed; [exfalso; apply Hn; eapply Conf_direct; eauto|].
    unfold direct in Ed. rewrite He in Ed. cbn [negb andb] in Ed.
    apply orb_false_iff in Ed as [Ed _]. apply orb_false_iff in Ed as [Ed _].
    apply negb_false_iff in Ed. apply N.eqb_eq in Ed. exact Ed.
  Qed.
End Good.
