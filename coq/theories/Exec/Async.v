(* Small-step, nondeterministic model of ASYNCHRONOUS completion in the executor
   (executor.py: execute_fields/get_results + gather_with_cancel, execute_field/await_completed,
   complete_awaitable_value, complete_iterable_value/get_completed_results, handle_field_error,
   CollectedErrors, settle_in_background, execute_fields_serially/async_reduce).

   The request is abstracted to a RESPONSE TREE: every position carries the outcome its resolver
   (or list item) will have - raise | null | leaf value | composite value with children - the
   nullability of the position, and an independent flag sync | awaitable.  Children of a position
   exist only when it yields a composite value, and they are started only once that value is known.

   State = tree of positions that are pending (awaitable outstanding), running (children being
   gathered) or done.  A step = the scheduler picks ANY pending position; its awaitable completes
   and the continuation runs to quiescence (the granularity of an event loop in which awaitables
   complete one at a time):
   - the children of the new value are started left to right; a synchronous failure of a child
     at a non-null position stops the loop: later children are never started, earlier unfinished
     children are ABANDONED (settle_in_background): nobody waits for them, they keep running in the
     background below the position that the failure nulls, whatever they report is dropped by
     CollectedErrors (without a running event loop - the synchronous part of execute() called
     outside a loop - they are closed instead and never run);
   - a failure at a non-null position propagates to the parent; a parent that is gathering its
     children CANCELS the other pending children (gather_with_cancel) and fails itself; the first
     nullable position on the way becomes null and records (nulled position, path of the error);
   - a done position keeps the background work below it ([SDone k d bg]); a serial node
     (execute_fields_serially) starts its next field only when the previous one is done AND the
     background work below it has settled.
   Definitions only; proofs are in Exec/AsyncProps.v. *)
From GV Require Import Base.Prelude Exec.ErrorsAlg.

Inductive kind := KObj | KList | KSer.   (* KSer: object whose fields run serially (mutation root) *)

Inductive shape := ORaise | ONull | OLeaf (v : N) | OKids (kd : kind).

(* [ks] is meaningful only under [OKids] *)
Inductive node := Node (key : N) (nonnull async : bool) (o : shape) (ks : list node).

Definition key (n : node) : N := match n with Node k _ _ _ _ => k end.
Definition nonnull (n : node) : bool := match n with Node _ b _ _ _ => b end.
Definition is_async (n : node) : bool := match n with Node _ _ a _ _ => a end.
Definition out (n : node) : shape := match n with Node _ _ _ o _ => o end.
Definition kids (n : node) : list node :=
  match n with Node _ _ _ (OKids _) ks => ks | _ => [] end.

(* response data; [DNull true] = null placed by error handling, [DNull false] = a null value *)
Inductive data := DNull (err : bool) | DLeaf (v : N) | DKids (kd : kind) (fs : list (N * data)).

(* events; positions are relative to the node a function works on: [] is that node itself.
   TCall: resolver at p invoked.  TDone: the awaitable of p completed (a scheduler step).
   TErr: CollectedErrors.add - position p nulled, o = path of the error.
   TCancel: pending awaitable at p cancelled by gather_with_cancel.
   TOrphan: pending awaitable at p abandoned after a synchronous failure of a later sibling.
   bg = true: the event happens in background work (below an already nulled position); a
   background TErr is an error that CollectedErrors drops. *)
Inductive tag := TCall | TDone | TErr | TCancel | TOrphan.
Inductive ev := Ev (t : tag) (bg : bool) (p o : pos).

Definition ECall (p : pos) : ev := Ev TCall false p [].
Definition EDone (p : pos) : ev := Ev TDone false p [].
Definition EErr (a o : pos) : ev := Ev TErr false a o.
Definition ECancel (p : pos) : ev := Ev TCancel false p [].
Definition EOrphan (p : pos) : ev := Ev TOrphan false p [].

Definition ev_shift (k : N) (e : ev) : ev :=
  match e with
  | Ev TErr b p o => Ev TErr b (k :: p) (k :: o)
  | Ev t b p o => Ev t b (k :: p) o
  end.
Definition shift (k : N) (evs : list ev) : list ev := map (ev_shift k) evs.
Definition to_bg (e : ev) : ev := match e with Ev t _ p o => Ev t true p o end.

Inductive st :=
| SPend (n : node)                                                   (* awaitable outstanding *)
| SDone (k : N) (d : data) (bg : list st)                            (* bg: background work below, by child *)
| SRun (k : N) (nn : bool) (kd : kind) (sts : list st) (rest : list node).
  (* children started so far; [rest] = not yet started (non-empty only for KSer) *)

Definition skey (s : st) : N :=
  match s with SPend n => key n | SDone k _ _ => k | SRun k _ _ _ _ => k end.
Definition is_done (s : st) : bool := match s with SDone _ _ _ => true | _ => false end.
Definition all_done (l : list st) : bool := forallb is_done l.
Definition sdata (s : st) : N * data :=
  match s with SDone k d _ => (k, d) | _ => (skey s, DNull false) end.

(* pending awaitables of a state (live and background), relative to the state's own position *)
Fixpoint pend (s : st) : list pos :=
  match s with
  | SPend _ => [[]]
  | SDone _ _ sts | SRun _ _ _ sts _ =>
      (fix go (l : list st) : list pos :=
         match l with
         | [] => []
         | c :: r => map (cons (skey c)) (pend c) ++ go r
         end) sts
  end.
Definition pend_list (l : list st) : list pos :=
  flat_map (fun c => map (cons (skey c)) (pend c)) l.

(* pending awaitables somebody is waiting for *)
Fixpoint live (s : st) : list pos :=
  match s with
  | SPend _ => [[]]
  | SDone _ _ _ => []
  | SRun _ _ _ sts _ =>
      (fix go (l : list st) : list pos :=
         match l with
         | [] => []
         | c :: r => map (cons (skey c)) (live c) ++ go r
         end) sts
  end.
Definition live_list (l : list st) : list pos :=
  flat_map (fun c => map (cons (skey c)) (live c)) l.

(* what remains of a cancelled subtree: the background work below it *)
Fixpoint skel (s : st) : st :=
  match s with
  | SPend n => SDone (key n) (DNull true) []
  | SDone k d bg => SDone k d bg
  | SRun k _ _ sts _ => SDone k (DNull true) (map skel sts)
  end.

(* done, and nothing left below (background work settled) *)
Definition settled (s : st) : bool :=
  is_done s && match pend s with [] => true | _ => false end.

Inductive res := ROk (s : st) | RFail (origin : pos) (zs : list st).
Inductive kres := KOk (sts : list st) (rest : list node) | KFail (origin : pos) (zs : list st).

(* handle_field_error at a position with nullability nn, for an error with path e;
   zs = background work below the position *)
Definition handle (nn : bool) (k : N) (e : pos) (zs : list st) (evs : list ev) : res * list ev :=
  if nn then (RFail e zs, evs) else (ROk (SDone k (DNull true) zs), evs ++ [EErr [] e]).

(* serial fields wait for the previous one and the background work below it *)
Definition blocked (kd : kind) (acc : list st) : bool :=
  match kd with KSer => negb (forallb settled acc) | _ => false end.

Definition pack (k : N) (nn : bool) (kd : kind) (sts : list st) (rest : list node) : st :=
  match rest with
  | [] => if all_done sts then SDone k (DKids kd (map sdata sts)) sts else SRun k nn kd sts []
  | _ => SRun k nn kd sts rest
  end.

Definition finish_kids (nn : bool) (k : N) (kd : kind) (r : kres * list ev) : res * list ev :=
  match r with
  | (KFail e zs, evs) => handle nn k e zs evs
  | (KOk sts rest, evs) => (ROk (pack k nn kd sts rest), evs)
  end.

Definition ghost (k : N) (zs : list st) : st := SDone k (DNull true) zs.

(* children abandoned after a synchronous failure: with a running loop they go on in the
   background, without one they are closed *)
Definition abandon (lp : bool) (acc : list st) (k : N) (zs : list st) : list st :=
  if lp then acc ++ [ghost k zs] else [].

(* [finish lp n]: the outcome of n's resolver is known; complete the value synchronously as far as
   possible (execute_field after resolve_fn returned / complete_awaitable_value after the await);
   lp: an event loop is running *)
Fixpoint finish (lp : bool) (n : node) : res * list ev :=
  match n with
  | Node k nn _ o ks =>
    match o with
    | ORaise => handle nn k [] [] []
    | ONull => if nn then handle nn k [] [] [] else (ROk (SDone k (DNull false) []), [])
    | OLeaf v => (ROk (SDone k (DLeaf v) []), [])
    | OKids kd =>
        finish_kids nn k kd
          ((fix go (acc : list st) (rest : list node) : kres * list ev :=
              match rest with
              | [] => (KOk acc [], [])
              | c :: r =>
                  if blocked kd acc then (KOk acc rest, [])
                  else
                    let '(rc, e1) :=
                      if is_async c then (ROk (SPend c), [])
                      else finish lp c in
                    let e1' := ECall [key c] :: shift (key c) e1 in
                    match rc with
                    | RFail e zs =>
                        (KFail (key c :: e) (abandon lp acc (key c) zs), e1' ++ map EOrphan (live_list acc))
                    | ROk s => let '(r2, e2) := go (acc ++ [s]) r in (r2, e1' ++ e2)
                    end
              end) [] ks)
    end
  end.

(* start a child: invoke the resolver; an awaitable result stays pending *)
Definition start (lp : bool) (c : node) : res * list ev :=
  if is_async c then (ROk (SPend c), []) else finish lp c.

(* the loop of execute_fields / complete_iterable_value / the reducer of execute_fields_serially *)
Fixpoint start_from (lp : bool) (kd : kind) (acc : list st) (rest : list node) : kres * list ev :=
  match rest with
  | [] => (KOk acc [], [])
  | c :: r =>
      if blocked kd acc then (KOk acc rest, [])
      else
        let '(rc, e1) := start lp c in
        let e1' := ECall [key c] :: shift (key c) e1 in
        match rc with
        | RFail e zs => (KFail (key c :: e) (abandon lp acc (key c) zs), e1' ++ map EOrphan (live_list acc))
        | ROk s => let '(r2, e2) := start_from lp kd (acc ++ [s]) r in (r2, e1' ++ e2)
        end
  end.

(* result of completing inside one of the children *)
Inductive cres :=
| CNone                                                   (* the pick does not name a pending awaitable *)
| CSome (pre : list st) (r : res) (post : list st) (evs : list ev).

(* a child that ended (ok or failed), as an entry of the parent's list *)
Definition settle_res (c : N) (r : res) : st :=
  match r with ROk s' => s' | RFail _ zs => ghost c zs end.

(* [complete pi s]: the awaitable pending at pi (relative to s) completes *)
Fixpoint complete (pi : pos) (s : st) {struct s} : option (res * list ev) :=
  match s with
  | SPend n =>
      match pi with
      | [] => let '(r, e) := finish true n in Some (r, EDone [] :: e)
      | _ => None
      end
  | SDone k d bg =>
      (* background work: nobody observes its result; its events are background events *)
      match pi with
      | [] => None
      | c :: pi' =>
          match
            (fix go (l : list st) : cres :=
               match l with
               | [] => CNone
               | x :: r =>
                   match (if skey x =? c then complete pi' x else None) with
                   | Some (rx, e) => CSome [] rx r e
                   | None =>
                       match go r with
                       | CNone => CNone
                       | CSome pre rx post e => CSome (x :: pre) rx post e
                       end
                   end
               end) bg
          with
          | CNone => None
          | CSome pre rx post evs =>
              Some (ROk (SDone k d (pre ++ settle_res c rx :: post)), map to_bg (shift c evs))
          end
      end
  | SRun k nn kd sts rest =>
      match pi with
      | [] => None
      | c :: pi' =>
          match
            (fix go (l : list st) : cres :=
               match l with
               | [] => CNone
               | x :: r =>
                   match (if skey x =? c then complete pi' x else None) with
                   | Some (rx, e) => CSome [] rx r e
                   | None =>
                       match go r with
                       | CNone => CNone
                       | CSome pre rx post e => CSome (x :: pre) rx post e
                       end
                   end
               end) sts
          with
          | CNone => None
          | CSome pre (RFail e zs) post evs =>
              Some (handle nn k (c :: e) (map skel pre ++ ghost c zs :: map skel post)
                      (shift c evs ++ map ECancel (live_list (pre ++ post))))
          | CSome pre (ROk s') post evs =>
              let '(r2, e2) := start_from true kd (pre ++ s' :: post) rest in
              Some (finish_kids nn k kd (r2, shift c evs ++ e2))
          end
      end
  end.

Definition complete_kids (c : N) (pi : pos) : list st -> cres :=
  fix go (l : list st) : cres :=
    match l with
    | [] => CNone
    | x :: r =>
        match (if skey x =? c then complete pi x else None) with
        | Some (rx, e) => CSome [] rx r e
        | None =>
            match go r with
            | CNone => CNone
            | CSome pre rx post e => CSome (x :: pre) rx post e
            end
        end
    end.

(* ------------------------------------------------------------------ runs *)

(* the whole operation: the root is a nullable position (data) whose value is the root object;
   [init lp root] = the synchronous part of execute(), lp: called inside a running event loop *)
Definition init (lp : bool) (root : node) : res * list ev := finish lp root.

(* a valid schedule: every pick names a pending awaitable; events accumulate in time order *)
Inductive Run : st -> list pos -> st -> list ev -> Prop :=
| Run_nil s : Run s [] s []
| Run_cons s pi s1 e1 sched s2 e2 :
    complete pi s = Some (ROk s1, e1) -> Run s1 sched s2 e2 -> Run s (pi :: sched) s2 (e1 ++ e2).

(* a run of the whole operation *)
Definition Exec (lp : bool) (root : node) (sched : list pos) (s : st) (evs : list ev) : Prop :=
  exists s0 e0 e1, init lp root = (ROk s0, e0) /\ Run s0 sched s e1 /\ evs = e0 ++ e1.

(* the response is delivered: the root position is done (background work may remain) *)
Definition final (s : st) : Prop := is_done s = true.

(* executable driver: picks that do not name a pending awaitable are skipped and returned *)
Fixpoint exec (s : st) (sched : list pos) : st * list ev * list pos :=
  match sched with
  | [] => (s, [], [])
  | pi :: r =>
      match complete pi s with
      | Some (ROk s1, e1) => let '(s2, e2, sk) := exec s1 r in (s2, e1 ++ e2, sk)
      | _ => let '(s2, e2, sk) := exec s r in (s2, e2, pi :: sk)
      end
  end.

(* ------------------------------------------------------------------ the synchronous run *)

Fixpoint desync (n : node) : node :=
  match n with Node k nn _ o ks => Node k nn false o (map desync ks) end.

Definition sync_result (root : node) : res * list ev := init false (desync root).

(* ------------------------------------------------------------------ observations *)

Definition errs (evs : list ev) : list (pos * pos) :=
  flat_map (fun e => match e with Ev TErr false a o => [(a, o)] | _ => [] end) evs.
Definition nulled_positions (evs : list ev) : list pos := map fst (errs evs).   (* CollectedErrors._error_positions *)
Definition error_paths (evs : list ev) : list pos := map snd (errs evs).        (* paths of the reported errors *)
Definition cancelled (evs : list ev) : list pos :=
  flat_map (fun e => match e with Ev TCancel false p _ => [p] | _ => [] end) evs.
Definition orphaned (evs : list ev) : list pos :=
  flat_map (fun e => match e with Ev TOrphan false p _ => [p] | _ => [] end) evs.
Definition calls (evs : list ev) : list pos :=
  flat_map (fun e => match e with Ev TCall _ p _ => [p] | _ => [] end) evs.
Definition ev_pos (e : ev) : pos := match e with Ev _ _ p _ => p end.

(* positions that are null in the data because of an error (the visible nulled positions) *)
Fixpoint dnulls (d : data) : list pos :=
  match d with
  | DNull true => [[]]
  | DNull false => []
  | DLeaf _ => []
  | DKids _ fs =>
      (fix go (l : list (N * data)) : list pos :=
         match l with
         | [] => []
         | (k, x) :: r => map (cons k) (dnulls x) ++ go r
         end) fs
  end.

Definition result_data (s : st) : option data :=
  match s with SDone _ d _ => Some d | _ => None end.

(* ------------------------------------------------------------------ the tree's denotation *)

(* what a position evaluates to, independent of flags and schedules: None = it fails
   (the error propagates to the parent) *)
Fixpoint den (n : node) : option data :=
  match n with
  | Node k nn _ o ks =>
    match o with
    | ORaise => if nn then None else Some (DNull true)
    | ONull => if nn then None else Some (DNull false)
    | OLeaf v => Some (DLeaf v)
    | OKids kd =>
        match
          (fix go (l : list node) : option (list (N * data)) :=
             match l with
             | [] => Some []
             | c :: r =>
                 match den c, go r with
                 | Some d, Some fs => Some ((key c, d) :: fs)
                 | _, _ => None
                 end
             end) ks
        with
        | Some fs => Some (DKids kd fs)
        | None => if nn then None else Some (DNull true)
        end
    end
  end.

Definition den_kids : list node -> option (list (N * data)) :=
  fix go (l : list node) : option (list (N * data)) :=
    match l with
    | [] => Some []
    | c :: r =>
        match den c, go r with
        | Some d, Some fs => Some ((key c, d) :: fs)
        | _, _ => None
        end
    end.

(* number of awaitable positions *)
Fixpoint asyncs (n : node) : nat :=
  match n with
  | Node _ _ a o ks =>
      (if a then 1 else 0) +
      match o with
      | OKids _ => (fix go (l : list node) : nat := match l with [] => 0 | c :: r => asyncs c + go r end) ks
      | _ => 0
      end
  end%nat.

(* ------------------------------------------------------------------ exhaustive exploration (tests) *)

(* all maximal schedules: until nothing is pending (background work included) *)
Fixpoint explore (fuel : nat) (s : st) (evs : list ev) : list (st * list ev) :=
  match fuel with
  | O => [(s, evs)]
  | S f =>
      match pend s with
      | [] => [(s, evs)]
      | ps => flat_map (fun pi => match complete pi s with
                                  | Some (ROk s1, e1) => explore f s1 (evs ++ e1)
                                  | _ => [(SPend (Node 999 false false ORaise []), evs)]
                                  end) ps
      end
  end.
