(* Small-step, nondeterministic model of ASYNCHRONOUS completion in the executor
   (executor.py: execute_fields/get_results + gather_with_cancel, execute_field/await_completed,
   complete_awaitable_value, complete_iterable_value/get_completed_results, handle_field_error,
   CollectedErrors, settle_in_background, execute_fields_serially/async_reduce).

   The request is abstracted to a RESPONSE TREE: every position carries the outcome its resolver
   (or list item) will have - raise | null | leaf value | composite value with children - the
   nullability of the position, and an independent flag sync | awaitable.  Children of a position
   exist only when it yields a composite value, and they are started only once that value is known.

   State = tree of positions that are pending (awaitable outstanding), running (children being
   gathered) or done.  A step = the scheduler picks ANY pending position; its awaitable completes
   and the continuation runs to quiescence (this is the granularity of an event loop in which
   awaitables complete one at a time):
   - the children of the new value are started left to right; a synchronous failure of a child
     at a non-null position stops the loop: later children are never started, earlier awaitable
     children are ORPHANED (settle_in_background: nobody waits for them, their outcome is never
     observed in the response);
   - a failure at a non-null position propagates to the parent; a parent that is gathering its
     children CANCELS the other pending children (gather_with_cancel) and fails itself; the first
     nullable position on the way becomes null and records (nulled position, path of the error).
   Definitions only; proofs are in Exec/AsyncProps.v. *)
From GV Require Import Base.Prelude Exec.ErrorsAlg.

Inductive kind := KObj | KList | KSer.   (* KSer: object whose fields run serially (mutation root) *)

Inductive shape := ORaise | ONull | OLeaf (v : N) | OKids (kd : kind).

(* [ks] is meaningful only under [OKids] *)
Inductive node := Node (key : N) (nonnull async : bool) (o : shape) (ks : list node).

Definition key (n : node) : N := match n with Node k _ _ _ _ => k end.
Definition nonnull (n : node) : bool := match n with Node _ b _ _ _ => b end.
Definition is_async (n : node) : bool := match n with Node _ _ a _ _ => a end.
Definition out (n : node) : shape := match n with Node _ _ _ o _ => o end.
Definition kids (n : node) : list node :=
  match n with Node _ _ _ (OKids _) ks => ks | _ => [] end.

(* response data; [DNull true] = null placed by error handling, [DNull false] = a null value *)
Inductive data := DNull (err : bool) | DLeaf (v : N) | DKids (kd : kind) (fs : list (N * data)).

(* positions are relative to the node a function works on: [] is that node itself *)
Inductive ev :=
| ECall (p : pos)                  (* resolver at p invoked *)
| EDone (p : pos)                  (* the awaitable of p completed (a scheduler step) *)
| EErr (at_ : pos) (origin : pos)  (* CollectedErrors.add: position nulled, path of the error *)
| ECancel (p : pos)                (* pending awaitable at p cancelled by gather_with_cancel *)
| EOrphan (p : pos).               (* pending awaitable at p left to settle in the background *)

Definition ev_shift (k : N) (e : ev) : ev :=
  match e with
  | ECall p => ECall (k :: p)
  | EDone p => EDone (k :: p)
  | EErr a o => EErr (k :: a) (k :: o)
  | ECancel p => ECancel (k :: p)
  | EOrphan p => EOrphan (k :: p)
  end.
Definition shift (k : N) (evs : list ev) : list ev := map (ev_shift k) evs.

Inductive st :=
| SPend (n : node)                                                   (* awaitable outstanding *)
| SDone (k : N) (d : data)
| SRun (k : N) (nn : bool) (kd : kind) (sts : list st) (rest : list node).
  (* children started so far; [rest] = not yet started (non-empty only for KSer) *)

Definition skey (s : st) : N :=
  match s with SPend n => key n | SDone k _ => k | SRun k _ _ _ _ => k end.
Definition is_done (s : st) : bool := match s with SDone _ _ => true | _ => false end.
Definition all_done (l : list st) : bool := forallb is_done l.
Definition sdata (s : st) : N * data :=
  match s with SDone k d => (k, d) | _ => (skey s, DNull false) end.

(* pending awaitables of a state, relative to the state's own position *)
Fixpoint pend (s : st) : list pos :=
  match s with
  | SPend _ => [[]]
  | SDone _ _ => []
  | SRun _ _ _ sts _ =>
      (fix go (l : list st) : list pos :=
         match l with
         | [] => []
         | c :: r => map (cons (skey c)) (pend c) ++ go r
         end) sts
  end.
Definition pend_list (l : list st) : list pos :=
  flat_map (fun c => map (cons (skey c)) (pend c)) l.

Inductive res := ROk (s : st) | RFail (origin : pos).
Inductive kres := KOk (sts : list st) (rest : list node) | KFail (origin : pos).

(* handle_field_error at a position with nullability nn, for an error with path e *)
Definition handle (nn : bool) (k : N) (e : pos) (evs : list ev) : res * list ev :=
  if nn then (RFail e, evs) else (ROk (SDone k (DNull true)), evs ++ [EErr [] e]).

(* serial fields wait for the previous one *)
Definition blocked (kd : kind) (acc : list st) : bool :=
  match kd with KSer => negb (all_done acc) | _ => false end.

Definition pack (k : N) (nn : bool) (kd : kind) (sts : list st) (rest : list node) : st :=
  match rest with
  | [] => if all_done sts then SDone k (DKids kd (map sdata sts)) else SRun k nn kd sts []
  | _ => SRun k nn kd sts rest
  end.

Definition finish_kids (nn : bool) (k : N) (kd : kind) (r : kres * list ev) : res * list ev :=
  match r with
  | (KFail e, evs) => handle nn k e evs
  | (KOk sts rest, evs) => (ROk (pack k nn kd sts rest), evs)
  end.

(* [finish n]: the outcome of n's resolver is known; complete the value synchronously as far as
   possible (execute_field after resolve_fn returned / complete_awaitable_value after the await) *)
Fixpoint finish (n : node) : res * list ev :=
  match n with
  | Node k nn _ o ks =>
    match o with
    | ORaise => handle nn k [] []
    | ONull => if nn then handle nn k [] [] else (ROk (SDone k (DNull false)), [])
    | OLeaf v => (ROk (SDone k (DLeaf v)), [])
    | OKids kd =>
        finish_kids nn k kd
          ((fix go (acc : list st) (rest : list node) : kres * list ev :=
              match rest with
              | [] => (KOk acc [], [])
              | c :: r =>
                  if blocked kd acc then (KOk acc rest, [])
                  else
                    let '(rc, e1) :=
                      if is_async c then (ROk (SPend c), [])
                      else finish c in
                    let e1' := ECall [key c] :: shift (key c) e1 in
                    match rc with
                    | RFail e => (KFail (key c :: e), e1' ++ map EOrphan (pend_list acc))
                    | ROk s => let '(r2, e2) := go (acc ++ [s]) r in (r2, e1' ++ e2)
                    end
              end) [] ks)
    end
  end.

(* start a child: invoke the resolver; an awaitable result stays pending *)
Definition start (c : node) : res * list ev :=
  if is_async c then (ROk (SPend c), []) else finish c.

(* the loop of execute_fields / complete_iterable_value / the reducer of execute_fields_serially *)
Fixpoint start_from (kd : kind) (acc : list st) (rest : list node) : kres * list ev :=
  match rest with
  | [] => (KOk acc [], [])
  | c :: r =>
      if blocked kd acc then (KOk acc rest, [])
      else
        let '(rc, e1) := start c in
        let e1' := ECall [key c] :: shift (key c) e1 in
        match rc with
        | RFail e => (KFail (key c :: e), e1' ++ map EOrphan (pend_list acc))
        | ROk s => let '(r2, e2) := start_from kd (acc ++ [s]) r in (r2, e1' ++ e2)
        end
  end.

(* result of completing inside one of the children *)
Inductive cres :=
| CNone                                                   (* the pick does not name a pending awaitable *)
| CSome (pre : list st) (r : res) (post : list st) (evs : list ev).

(* [complete pi s]: the awaitable pending at pi (relative to s) completes *)
Fixpoint complete (pi : pos) (s : st) {struct s} : option (res * list ev) :=
  match s with
  | SPend n =>
      match pi with
      | [] => let '(r, e) := finish n in Some (r, EDone [] :: e)
      | _ => None
      end
  | SDone _ _ => None
  | SRun k nn kd sts rest =>
      match pi with
      | [] => None
      | c :: pi' =>
          match
            (fix go (l : list st) : cres :=
               match l with
               | [] => CNone
               | x :: r =>
                   if skey x =? c then
                     match complete pi' x with
                     | None => CNone
                     | Some (rx, e) => CSome [] rx r e
                     end
                   else
                     match go r with
                     | CNone => CNone
                     | CSome pre rx post e => CSome (x :: pre) rx post e
                     end
               end) sts
          with
          | CNone => None
          | CSome pre (RFail e) post evs =>
              Some (handle nn k (c :: e) (shift c evs ++ map ECancel (pend_list (pre ++ post))))
          | CSome pre (ROk s') post evs =>
              let '(r2, e2) := start_from kd (pre ++ s' :: post) rest in
              Some (finish_kids nn k kd (r2, shift c evs ++ e2))
          end
      end
  end.

Definition complete_kids (c : N) (pi : pos) : list st -> cres :=
  fix go (l : list st) : cres :=
    match l with
    | [] => CNone
    | x :: r =>
        if skey x =? c then
          match complete pi x with
          | None => CNone
          | Some (rx, e) => CSome [] rx r e
          end
        else
          match go r with
          | CNone => CNone
          | CSome pre rx post e => CSome (x :: pre) rx post e
          end
    end.

(* ------------------------------------------------------------------ runs *)

(* the whole operation: the root is a nullable position (data) whose value is the root object;
   [init root] = the synchronous part of execute() *)
Definition init (root : node) : res * list ev := finish root.

(* a valid schedule: every pick names a pending awaitable; events accumulate in time order *)
Inductive Run : st -> list pos -> st -> list ev -> Prop :=
| Run_nil s : Run s [] s []
| Run_cons s pi s1 e1 sched s2 e2 :
    complete pi s = Some (ROk s1, e1) -> Run s1 sched s2 e2 -> Run s (pi :: sched) s2 (e1 ++ e2).

(* a run of the whole operation *)
Definition Exec (root : node) (sched : list pos) (s : st) (evs : list ev) : Prop :=
  exists s0 e0 e1, init root = (ROk s0, e0) /\ Run s0 sched s e1 /\ evs = e0 ++ e1.

Definition final (s : st) : Prop := pend s = [].

(* executable driver: picks that do not name a pending awaitable are skipped and returned *)
Fixpoint exec (s : st) (sched : list pos) : st * list ev * list pos :=
  match sched with
  | [] => (s, [], [])
  | pi :: r =>
      match complete pi s with
      | Some (ROk s1, e1) => let '(s2, e2, sk) := exec s1 r in (s2, e1 ++ e2, sk)
      | _ => let '(s2, e2, sk) := exec s r in (s2, e2, pi :: sk)
      end
  end.

(* ------------------------------------------------------------------ the synchronous run *)

Fixpoint desync (n : node) : node :=
  match n with Node k nn _ o ks => Node k nn false o (map desync ks) end.

Definition sync_result (root : node) : res * list ev := init (desync root).

(* ------------------------------------------------------------------ observations *)

Definition errs (evs : list ev) : list (pos * pos) :=
  flat_map (fun e => match e with EErr a o => [(a, o)] | _ => [] end) evs.
Definition nulled_positions (evs : list ev) : list pos := map fst (errs evs).   (* CollectedErrors._error_positions *)
Definition error_paths (evs : list ev) : list pos := map snd (errs evs).        (* paths of the reported errors *)
Definition cancelled (evs : list ev) : list pos :=
  flat_map (fun e => match e with ECancel p => [p] | _ => [] end) evs.
Definition orphaned (evs : list ev) : list pos :=
  flat_map (fun e => match e with EOrphan p => [p] | _ => [] end) evs.
Definition calls (evs : list ev) : list pos :=
  flat_map (fun e => match e with ECall p => [p] | _ => [] end) evs.
Definition ev_pos (e : ev) : pos :=
  match e with ECall p | EDone p | ECancel p | EOrphan p => p | EErr a _ => a end.

(* positions that are null in the data because of an error (the visible nulled positions) *)
Fixpoint dnulls (d : data) : list pos :=
  match d with
  | DNull true => [[]]
  | DNull false => []
  | DLeaf _ => []
  | DKids _ fs =>
      (fix go (l : list (N * data)) : list pos :=
         match l with
         | [] => []
         | (k, x) :: r => map (cons k) (dnulls x) ++ go r
         end) fs
  end.

Definition result_data (s : st) : option data :=
  match s with SDone _ d => Some d | _ => None end.

(* ------------------------------------------------------------------ the tree's denotation *)

(* what a position evaluates to, independent of flags and schedules: None = it fails
   (the error propagates to the parent) *)
Fixpoint den (n : node) : option data :=
  match n with
  | Node k nn _ o ks =>
    match o with
    | ORaise => if nn then None else Some (DNull true)
    | ONull => if nn then None else Some (DNull false)
    | OLeaf v => Some (DLeaf v)
    | OKids kd =>
        match
          (fix go (l : list node) : option (list (N * data)) :=
             match l with
             | [] => Some []
             | c :: r =>
                 match den c, go r with
                 | Some d, Some fs => Some ((key c, d) :: fs)
                 | _, _ => None
                 end
             end) ks
        with
        | Some fs => Some (DKids kd fs)
        | None => if nn then None else Some (DNull true)
        end
    end
  end.

Definition den_kids : list node -> option (list (N * data)) :=
  fix go (l : list node) : option (list (N * data)) :=
    match l with
    | [] => Some []
    | c :: r =>
        match den c, go r with
        | Some d, Some fs => Some ((key c, d) :: fs)
        | _, _ => None
        end
    end.

(* number of awaitable positions *)
Fixpoint asyncs (n : node) : nat :=
  match n with
  | Node _ _ a o ks =>
      (if a then 1 else 0) +
      match o with
      | OKids _ => (fix go (l : list node) : nat := match l with [] => 0 | c :: r => asyncs c + go r end) ks
      | _ => 0
      end
  end%nat.

(* ------------------------------------------------------------------ exhaustive exploration (tests) *)

Fixpoint explore (fuel : nat) (s : st) (evs : list ev) : list (st * list ev) :=
  match fuel with
  | O => [(s, evs)]
  | S f =>
      match pend s with
      | [] => [(s, evs)]
      | ps => flat_map (fun pi => match complete pi s with
                                  | Some (ROk s1, e1) => explore f s1 (evs ++ e1)
                                  | _ => [(SPend (Node 999 false false ORaise []), evs)]
                                  end) ps
      end
  end.
