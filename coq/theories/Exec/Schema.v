(* Type system and executable-document syntax of the execution model.  Definitions only.

   Fragment: object, interface, union and enum types, the five specified scalars, list and
   non-null wrappers; arguments and variables of leaf/list/non-null/input-object (incl. OneOf)
   types with defaults (no custom scalars); fields with aliases, arguments, directives
   (only @skip/@include are interpreted), fragment spreads and inline fragments. *)
From GV Require Import Base.Prelude Exec.Value.

Inductive ty : Type := TNamed (n : str) | TList (t : ty) | TNonNull (t : ty).

Record arg_def := mkArg { a_name : str; a_type : ty; a_default : option value }.
Record field_def := mkField { f_name : str; f_type : ty; f_args : list arg_def }.

Inductive scalar := SInt | SFloat | SString | SBoolean | SID.

Inductive type_def : Type :=
| TScalar (sc : scalar)                                   (* only the specified scalars *)
| TEnum (vals : list str)
| TObject (fields : list field_def) (ifaces : list str)   (* ifaces: all implemented, transitively *)
| TInterface (fields : list field_def)
| TUnion (members : list str)
| TInput (fields : list arg_def) (one_of : bool).        (* input object (OneOf if [one_of]) *)

Record schema := mkSchema {
  s_types : list (str * type_def);       (* named types other than the specified scalars *)
  s_query : str;
  s_mutation : option str }.

(* well-known names as code points *)
Definition n_Int : str := [73;110;116].
Definition n_Float : str := [70;108;111;97;116].
Definition n_String : str := [83;116;114;105;110;103].
Definition n_Boolean : str := [66;111;111;108;101;97;110].
Definition n_ID : str := [73;68].
Definition n_skip : str := [115;107;105;112].
Definition n_include : str := [105;110;99;108;117;100;101].
Definition n_if : str := [105;102].
Definition n_typename : str := [95;95;116;121;112;101;110;97;109;101].

Definition scalar_of_name (n : str) : option scalar :=
  if str_eqb n n_Int then Some SInt
  else if str_eqb n n_Float then Some SFloat
  else if str_eqb n n_String then Some SString
  else if str_eqb n n_Boolean then Some SBoolean
  else if str_eqb n n_ID then Some SID
  else None.

Definition lookup_type (s : schema) (n : str) : option type_def :=
  match scalar_of_name n with
  | Some sc => Some (TScalar sc)
  | None => lookup n (s_types s)
  end.

Definition is_object (s : schema) (n : str) : bool :=
  match lookup_type s n with Some (TObject _ _) => true | _ => false end.

(* [possible s a o]: object type [o] is a possible runtime type of abstract type [a] *)
Definition possible (s : schema) (a o : str) : bool :=
  match lookup_type s a, lookup_type s o with
  | Some (TInterface _), Some (TObject _ ifs) => mem a ifs
  | Some (TUnion ms), Some (TObject _ _) => mem o ms
  | _, _ => false
  end.

Fixpoint find_field (n : str) (l : list field_def) : option field_def :=
  match l with
  | [] => None
  | f :: r => if str_eqb n (f_name f) then Some f else find_field n r
  end.

(* field definition of an object (or, for typing, interface) type *)
Definition lookup_field (s : schema) (tn fname : str) : option field_def :=
  match lookup_type s tn with
  | Some (TObject fs _) => find_field fname fs
  | Some (TInterface fs) => find_field fname fs
  | _ => None
  end.

Definition is_nonnull (t : ty) : bool := match t with TNonNull _ => true | _ => false end.

Fixpoint named_of (t : ty) : str :=
  match t with TNamed n => n | TList t' => named_of t' | TNonNull t' => named_of t' end.

(* ---- documents ---- *)

Definition directive : Type := (str * list (str * value))%type.

Inductive selection : Type :=
| SField (alias : option str) (name : str) (args : list (str * value))
         (dirs : list directive) (sels : list selection)
| SSpread (name : str) (dirs : list directive)
| SInline (tc : option str) (dirs : list directive) (sels : list selection).

Record var_def := mkVar { v_name : str; v_type : ty; v_default : option value }.
Record fragment := mkFrag { fr_name : str; fr_cond : str; fr_sels : list selection }.

Inductive opkind := OpQuery | OpMutation.

(* the selected operation together with the fragment definitions of its document *)
Record document := mkDoc {
  d_kind : opkind;
  d_vars : list var_def;
  d_sels : list selection;
  d_frags : list fragment }.

Fixpoint find_frag (n : str) (l : list fragment) : option fragment :=
  match l with
  | [] => None
  | f :: r => if str_eqb n (fr_name f) then Some f else find_frag n r
  end.

Definition root_type (s : schema) (k : opkind) : option str :=
  match k with OpQuery => Some (s_query s) | OpMutation => s_mutation s end.
