(* Proofs about the asynchronous completion model Exec/Async.v. *)
From GV Require Import Base.Prelude Exec.ErrorsAlg Exec.ErrorsAlgProps Exec.Async.

(* ------------------------------------------------------------------ induction principles *)

Section NodeInd.
  Variable P : node -> Prop.
  Hypothesis H : forall k nn a o ks, Forall P ks -> P (Node k nn a o ks).
  Fixpoint node_ind' (n : node) : P n :=
    match n with
    | Node k nn a o ks =>
        H k nn a o ks
          ((fix go (l : list node) : Forall P l :=
              match l with
              | [] => Forall_nil P
              | c :: r => Forall_cons c (node_ind' c) (go r)
              end) ks)
    end.
End NodeInd.

Section StInd.
  Variable P : st -> Prop.
  Hypothesis Hp : forall n, P (SPend n).
  Hypothesis Hd : forall k d bg, Forall P bg -> P (SDone k d bg).
  Hypothesis Hr : forall k nn kd sts rest, Forall P sts -> P (SRun k nn kd sts rest).
  Fixpoint st_ind' (s : st) : P s :=
    match s with
    | SPend n => Hp n
    | SDone k d bg =>
        Hd k d bg
          ((fix go (l : list st) : Forall P l :=
              match l with
              | [] => Forall_nil P
              | c :: r => Forall_cons c (st_ind' c) (go r)
              end) bg)
    | SRun k nn kd sts rest =>
        Hr k nn kd sts rest
          ((fix go (l : list st) : Forall P l :=
              match l with
              | [] => Forall_nil P
              | c :: r => Forall_cons c (st_ind' c) (go r)
              end) sts)
    end.
End StInd.

(* ------------------------------------------------------------------ unfolding lemmas *)

Lemma finish_go_eq lp kd : forall rest acc,
  (fix go (acc : list st) (rest : list node) : kres * list ev :=
     match rest with
     | [] => (KOk acc [], [])
     | c :: r =>
         if blocked kd acc then (KOk acc rest, [])
         else
           let '(rc, e1) := if is_async c then (ROk (SPend c), []) else finish lp c in
           let e1' := ECall [key c] :: shift (key c) e1 in
           match rc with
           | RFail e zs => (KFail (key c :: e) (abandon lp acc (key c) zs), e1' ++ map EOrphan (live_list acc))
           | ROk s => let '(r2, e2) := go (acc ++ [s]) r in (r2, e1' ++ e2)
           end
     end) acc rest = start_from lp kd acc rest.
Proof.
  induction rest as [|c r IH]; intros acc; [reflexivity|].
  cbn [start_from]. unfold start. destruct (blocked kd acc); [reflexivity|].
  destruct (if is_async c then _ else _) as [rc e1]. destruct rc; [|reflexivity].
  rewrite IH. reflexivity.
Qed.

Lemma finish_eq lp k nn a kd ks :
  finish lp (Node k nn a (OKids kd) ks) = finish_kids nn k kd (start_from lp kd [] ks).
Proof. cbn [finish]. rewrite finish_go_eq. reflexivity. Qed.

Lemma pend_run k nn kd sts rest : pend (SRun k nn kd sts rest) = pend_list sts.
Proof.
  cbn [pend]. unfold pend_list. induction sts as [|c r IH]; [reflexivity|].
  cbn [flat_map]. rewrite <- IH. reflexivity.
Qed.

Lemma pend_done k d bg : pend (SDone k d bg) = pend_list bg.
Proof.
  cbn [pend]. unfold pend_list. induction bg as [|c r IH]; [reflexivity|].
  cbn [flat_map]. rewrite <- IH. reflexivity.
Qed.

Lemma live_run k nn kd sts rest : live (SRun k nn kd sts rest) = live_list sts.
Proof.
  cbn [live]. unfold live_list. induction sts as [|c r IH]; [reflexivity|].
  cbn [flat_map]. rewrite <- IH. reflexivity.
Qed.

Lemma den_kids_eq k nn a kd ks :
  den (Node k nn a (OKids kd) ks) =
  match den_kids ks with
  | Some fs => Some (DKids kd fs)
  | None => if nn then None else Some (DNull true)
  end.
Proof. reflexivity. Qed.

Lemma complete_run k nn kd sts rest pi :
  complete pi (SRun k nn kd sts rest) =
  match pi with
  | [] => None
  | c :: pi' =>
      match complete_kids c pi' sts with
      | CNone => None
      | CSome pre (RFail e zs) post evs =>
          Some (handle nn k (c :: e) (map skel pre ++ ghost c zs :: map skel post)
                  (shift c evs ++ map ECancel (live_list (pre ++ post))))
      | CSome pre (ROk s') post evs =>
          let '(r2, e2) := start_from true kd (pre ++ s' :: post) rest in
          Some (finish_kids nn k kd (r2, shift c evs ++ e2))
      end
  end.
Proof. destruct pi; reflexivity. Qed.

Lemma complete_done k d bg pi :
  complete pi (SDone k d bg) =
  match pi with
  | [] => None
  | c :: pi' =>
      match complete_kids c pi' bg with
      | CNone => None
      | CSome pre rx post evs =>
          Some (ROk (SDone k d (pre ++ settle_res c rx :: post)), map to_bg (shift c evs))
      end
  end.
Proof. destruct pi; reflexivity. Qed.

Lemma complete_kids_spec c pi : forall sts pre r post evs,
  complete_kids c pi sts = CSome pre r post evs ->
  exists x, sts = pre ++ x :: post /\ skey x = c /\ complete pi x = Some (r, evs).
Proof.
  induction sts as [|x l IH]; intros pre r post evs H; cbn in H; [discriminate|].
  destruct (if skey x =? c then complete pi x else None) as [[rx e]|] eqn:E.
  - inversion H; subst. destruct (skey x =? c) eqn:Ek; [|discriminate].
    apply N.eqb_eq in Ek. exists x. repeat split; auto.
  - fold (complete_kids c pi l) in H.
    destruct (complete_kids c pi l) as [|pre' rx post' e] eqn:El; [discriminate|].
    inversion H; subst. destruct (IH _ _ _ _ eq_refl) as (y & -> & Hk & Hc).
    exists y. repeat split; auto.
Qed.

Lemma complete_kids_some c pi : forall sts x r e,
  In x sts -> skey x = c -> complete pi x = Some (r, e) -> complete_kids c pi sts <> CNone.
Proof.
  induction sts as [|y l IH]; intros x r e Hin Hk Hc; [destruct Hin|]. cbn.
  destruct (if skey y =? c then complete pi y else None) as [[ry ey]|] eqn:E; [discriminate|].
  fold (complete_kids c pi l). destruct Hin as [->|Hin].
  - rewrite Hk, N.eqb_refl, Hc in E. discriminate.
  - specialize (IH x r e Hin Hk Hc). destruct (complete_kids c pi l); [contradiction|discriminate].
Qed.

(* ------------------------------------------------------------------ states represent the tree *)

Inductive Rep : st -> node -> Prop :=
| Rep_pend n : Rep (SPend n) n
| Rep_done n d bg : den n = Some d -> Rep (SDone (key n) d bg) n
| Rep_run k nn a kd ks1 rest sts :
    Forall2 Rep sts ks1 -> all_done sts = false \/ blocked kd sts = true ->
    Rep (SRun k nn kd sts rest) (Node k nn a (OKids kd) (ks1 ++ rest)).

Lemma Rep_done' k d bg n : den n = Some d -> k = key n -> Rep (SDone k d bg) n.
Proof. intros H ->. constructor. exact H. Qed.

Lemma rep_key s n : Rep s n -> skey s = key n.
Proof. destruct 1; reflexivity. Qed.

Lemma rep_keys sts ks : Forall2 Rep sts ks -> map skey sts = map key ks.
Proof. induction 1; cbn; [reflexivity|]. f_equal; [apply rep_key; assumption|assumption]. Qed.

Lemma den_kids_cons c r :
  den_kids (c :: r) = match den c, den_kids r with
                      | Some d, Some fs => Some ((key c, d) :: fs)
                      | _, _ => None
                      end.
Proof. reflexivity. Qed.

Lemma den_kids_app l1 : forall l2,
  den_kids (l1 ++ l2) = match den_kids l1, den_kids l2 with
                        | Some a, Some b => Some (a ++ b)
                        | _, _ => None
                        end.
Proof.
  induction l1 as [|c r IH]; intros l2.
  - cbn [app]. change (den_kids []) with (Some (@nil (N * data))). destruct (den_kids l2); reflexivity.
  - cbn [app]. rewrite !den_kids_cons, IH.
    destruct (den c); [|reflexivity]. destruct (den_kids r); [|reflexivity].
    destruct (den_kids l2); reflexivity.
Qed.

Lemma rep_all_done sts ks :
  Forall2 Rep sts ks -> all_done sts = true -> den_kids ks = Some (map sdata sts).
Proof.
  induction 1 as [|s n sts ks Hs Hr IH]; intros Hd; [reflexivity|].
  cbn in Hd. apply andb_true_iff in Hd as [H1 H2].
  rewrite den_kids_cons, (IH H2). inversion Hs; subst; try discriminate.
  rewrite H. reflexivity.
Qed.

Definition FinishSpec (lp : bool) (c : node) : Prop :=
  match finish lp c with
  | (ROk s, _) => Rep s c
  | (RFail _ _, _) => den c = None
  end.

Lemma start_spec lp c : FinishSpec lp c ->
  match start lp c with
  | (ROk s, _) => Rep s c
  | (RFail _ _, _) => den c = None
  end.
Proof. unfold start, FinishSpec. destruct (is_async c); [constructor|auto]. Qed.

Lemma Forall2_snoc {A B} (R : A -> B -> Prop) l1 l2 a b :
  Forall2 R l1 l2 -> R a b -> Forall2 R (l1 ++ [a]) (l2 ++ [b]).
Proof. intros H1 H2. apply Forall2_app; [assumption|constructor; [assumption|constructor]]. Qed.

Lemma start_from_rep lp kd : forall rest acc ks1,
  Forall (FinishSpec lp) rest -> Forall2 Rep acc ks1 ->
  match start_from lp kd acc rest with
  | (KOk sts rest', _) =>
      exists ks2, rest = ks2 ++ rest' /\ Forall2 Rep sts (ks1 ++ ks2) /\ (rest' <> [] -> blocked kd sts = true)
  | (KFail _ _, _) => den_kids rest = None
  end.
Proof.
  induction rest as [|c r IH]; intros acc ks1 HF HA; cbn [start_from].
  - exists []. split; [reflexivity|]. split; [rewrite app_nil_r; assumption|]. intros H; exfalso; apply H; reflexivity.
  - destruct (blocked kd acc) eqn:Eb.
    + exists []. split; [reflexivity|]. split; [rewrite app_nil_r; assumption|]. intros _. exact Eb.
    + inversion HF as [|? ? Hc Hr]; subst.
      pose proof (start_spec lp c Hc) as Hs. destruct (start lp c) as [rc e1]. destruct rc as [s|e zs].
      * specialize (IH (acc ++ [s]) (ks1 ++ [c]) Hr (Forall2_snoc _ _ _ _ _ HA Hs)).
        destruct (start_from lp kd (acc ++ [s]) r) as [r2 e2]. destruct r2 as [sts rest'|e zs].
        -- destruct IH as (ks2 & -> & H2 & H3). exists (c :: ks2). repeat split; auto.
           rewrite <- app_assoc in H2. exact H2.
        -- rewrite den_kids_cons, IH. destruct (den c); reflexivity.
      * rewrite den_kids_cons, Hs. reflexivity.
Qed.

Lemma pack_rep k nn a kd ks1 sts rest :
  Forall2 Rep sts ks1 -> (rest <> [] -> blocked kd sts = true) ->
  Rep (pack k nn kd sts rest) (Node k nn a (OKids kd) (ks1 ++ rest)).
Proof.
  intros HF Hd. unfold pack. destruct rest as [|x rest].
  - destruct (all_done sts) eqn:E.
    + apply Rep_done'; [|reflexivity]. rewrite den_kids_eq, app_nil_r, (rep_all_done _ _ HF E). reflexivity.
    + constructor; auto.
  - constructor; [assumption|]. right. apply Hd. discriminate.
Qed.

Lemma handle_rep nn k a kd ks e zs evs :
  den_kids ks = None ->
  match handle nn k e zs evs with
  | (ROk s, _) => Rep s (Node k nn a (OKids kd) ks)
  | (RFail _ _, _) => den (Node k nn a (OKids kd) ks) = None
  end.
Proof.
  intros H. unfold handle. destruct nn.
  - rewrite den_kids_eq, H. reflexivity.
  - apply Rep_done'; [|reflexivity]. rewrite den_kids_eq, H. reflexivity.
Qed.

Lemma finish_spec lp : forall n, FinishSpec lp n.
Proof.
  apply node_ind'. intros k nn a o ks IH. unfold FinishSpec. destruct o.
  - cbn. unfold handle. destruct nn; [reflexivity|]. apply Rep_done'; reflexivity.
  - cbn. destruct nn; [reflexivity|]. apply Rep_done'; reflexivity.
  - cbn. apply Rep_done'; reflexivity.
  - rewrite finish_eq.
    pose proof (start_from_rep lp kd ks [] [] IH (Forall2_nil _)) as H.
    destruct (start_from lp kd [] ks) as [r2 e2]. destruct r2 as [sts rest'|e zs]; cbn [finish_kids].
    + destruct H as (ks2 & -> & H2 & H3). cbn [app] in H2. apply pack_rep; assumption.
    + apply handle_rep. exact H.
Qed.

Lemma Forall2_app_inv_l' {A B} (R : A -> B -> Prop) l1 x l2 l' :
  Forall2 R (l1 ++ x :: l2) l' ->
  exists l1' y l2', l' = l1' ++ y :: l2' /\ Forall2 R l1 l1' /\ R x y /\ Forall2 R l2 l2'.
Proof.
  intros H. apply Forall2_app_inv_l in H as (l1' & r & H1 & H2 & ->).
  inversion H2; subst. eauto 10.
Qed.

Lemma complete_rep : forall s n pi, Rep s n ->
  match complete pi s with
  | None => True
  | Some (ROk s', _) => Rep s' n
  | Some (RFail _ _, _) => den n = None
  end.
Proof.
  induction s as [m|k d bg IHb|k nn kd sts rest IH] using st_ind'; intros n pi HR.
  - inversion HR; subst. destruct pi; cbn; [|exact I].
    pose proof (finish_spec true n) as H. unfold FinishSpec in H. destruct (finish true n) as [r e]. exact H.
  - rewrite complete_done. destruct pi as [|c pi']; [exact I|].
    destruct (complete_kids c pi' bg) as [|pre rx post evs]; [exact I|].
    inversion HR; subst. constructor. assumption.
  - rewrite complete_run. destruct pi as [|c pi']; [exact I|].
    destruct (complete_kids c pi' sts) as [|pre rx post evs] eqn:Ek; [exact I|].
    apply complete_kids_spec in Ek as (x & -> & Hk & Hc).
    inversion HR as [| |? ? a ? ks1 ? ? HF Hnd]; subst.
    apply Forall2_app_inv_l' in HF as (l1' & y & l2' & -> & H1 & Hxy & H2).
    rewrite Forall_forall in IH. specialize (IH x (in_elt _ _ _) y pi' Hxy). rewrite Hc in IH.
    destruct rx as [s'|e zs].
    + assert (HF' : Forall2 Rep (pre ++ s' :: post) (l1' ++ y :: l2'))
        by (apply Forall2_app; [assumption|constructor; assumption]).
      pose proof (start_from_rep true kd rest _ _ (proj2 (Forall_forall _ _) (fun c _ => finish_spec true c)) HF') as H.
      destruct (start_from true kd (pre ++ s' :: post) rest) as [r2 e2]. destruct r2 as [sts' rest'|e zs]; cbn [finish_kids].
      * destruct H as (ks2 & -> & H3 & H4). rewrite app_assoc. apply pack_rep; assumption.
      * apply handle_rep. rewrite den_kids_app, H.
        destruct (den_kids (l1' ++ y :: l2')); reflexivity.
    + apply handle_rep. rewrite !den_kids_app, den_kids_cons, IH.
      destruct (den_kids l1'); reflexivity.
Qed.

(* ------------------------------------------------------------------ reachable states *)

Lemma run_rep s sched s' evs n : Run s sched s' evs -> Rep s n -> Rep s' n.
Proof.
  induction 1 as [|s pi s1 e1 sched s2 e2 Hc _ IH]; intros HR; [assumption|].
  apply IH. pose proof (complete_rep s n pi HR) as H. rewrite Hc in H. exact H.
Qed.

Lemma init_rep lp root :
  match init lp root with (ROk s, _) => Rep s root | (RFail _ _, _) => den root = None end.
Proof. exact (finish_spec lp root). Qed.

Lemma den_nullable n : nonnull n = false -> den n <> None.
Proof.
  destruct n as [k nn a o ks]. cbn [nonnull]. intros ->. destruct o; try discriminate.
  rewrite den_kids_eq. destruct (den_kids ks); discriminate.
Qed.

Lemma exec_rep lp root sched s evs : Exec lp root sched s evs -> Rep s root.
Proof.
  intros (s0 & e0 & e1 & Hi & Hr & _). pose proof (init_rep lp root) as H. rewrite Hi in H.
  eapply run_rep; eauto.
Qed.

Lemma pend_list_cons c r : pend_list (c :: r) = map (cons (skey c)) (pend c) ++ pend_list r.
Proof. reflexivity. Qed.

Lemma pend_list_in x l : In x l -> pend x <> [] -> pend_list l <> [].
Proof.
  induction l as [|c r IH]; intros Hin Hp; [destruct Hin|]. rewrite pend_list_cons.
  destruct Hin as [->|Hin].
  - destruct (pend x); [contradiction|discriminate].
  - intros H. apply app_eq_nil in H as [_ H]. exact (IH Hin Hp H).
Qed.

Lemma forallb_false {A} (f : A -> bool) l : forallb f l = false -> exists x, In x l /\ f x = false.
Proof.
  induction l as [|a r IH]; [discriminate|]. cbn. intros H. apply andb_false_iff in H as [H|H].
  - exists a. auto.
  - destruct (IH H) as (x & H1 & H2). exists x. auto.
Qed.

(* a state that is not done has a pending awaitable *)
Lemma rep_pending : forall s n, Rep s n -> is_done s = false -> pend s <> [].
Proof.
  induction s as [m|k d bg _|k nn kd sts rest IH] using st_ind'; intros n HR Hd.
  - discriminate.
  - discriminate.
  - rewrite pend_run. inversion HR as [| |? ? a ? ks1 ? ? HF Hnd]; subst.
    rewrite Forall_forall in IH.
    assert (Hkid : forall x, In x sts -> is_done x = false -> pend x <> []).
    { intros x Hx Hxd. apply in_split in Hx as (pre & post & ->).
      apply Forall2_app_inv_l' in HF as (l1' & y & l2' & _ & _ & Hxy & _).
      exact (IH x (in_elt _ _ _) y Hxy Hxd). }
    destruct Hnd as [Hnd|Hb].
    + apply forallb_false in Hnd as (x & Hx & Hxd). exact (pend_list_in x sts Hx (Hkid x Hx Hxd)).
    + unfold blocked in Hb. destruct kd; try discriminate. apply negb_true_iff in Hb.
      apply forallb_false in Hb as (x & Hx & Hxs). apply (pend_list_in x sts Hx).
      unfold settled in Hxs. destruct (is_done x) eqn:Ed; [|exact (Hkid x Hx Ed)].
      cbn in Hxs. destruct (pend x); [discriminate|discriminate].
Qed.

(* ------------------------------------------------------------------ termination measure *)

Definition asyncs_list (l : list node) : nat := fold_right (fun c acc => asyncs c + acc)%nat 0%nat l.
Definition asyncsK (n : node) : nat :=
  match n with Node _ _ _ (OKids _) ks => asyncs_list ks | _ => 0%nat end.

Lemma asyncs_eq n : asyncs n = ((if is_async n then 1 else 0) + asyncsK n)%nat.
Proof.
  destruct n as [k nn a o ks]. cbn [asyncs is_async asyncsK]. destruct o; reflexivity.
Qed.

Fixpoint weight (s : st) : nat :=
  match s with
  | SPend n => S (asyncsK n)
  | SDone _ _ bg =>
      (fix go (l : list st) : nat := match l with [] => 0 | c :: r => weight c + go r end) bg
  | SRun _ _ _ sts rest =>
      (fix go (l : list st) : nat := match l with [] => 0 | c :: r => weight c + go r end) sts
      + asyncs_list rest
  end%nat.
Definition weight_list (l : list st) : nat := fold_right (fun c acc => weight c + acc)%nat 0%nat l.
Definition weight_res (r : res) : nat :=
  match r with ROk s => weight s | RFail _ zs => weight_list zs end.

Lemma weight_run k nn kd sts rest :
  weight (SRun k nn kd sts rest) = (weight_list sts + asyncs_list rest)%nat.
Proof. reflexivity. Qed.

Lemma weight_done k d bg : weight (SDone k d bg) = weight_list bg.
Proof. reflexivity. Qed.

Lemma weight_list_app l1 l2 : weight_list (l1 ++ l2) = (weight_list l1 + weight_list l2)%nat.
Proof. unfold weight_list. induction l1 as [|c r IH]; cbn [app fold_right]; [reflexivity|]. rewrite IH. lia. Qed.

Lemma weight_list_cons c l : weight_list (c :: l) = (weight c + weight_list l)%nat.
Proof. reflexivity. Qed.

Lemma weight_skel : forall s, (weight (skel s) <= weight s)%nat.
Proof.
  induction s as [m|k d bg _|k nn kd sts rest IH] using st_ind'.
  - cbn. lia.
  - cbn [skel]. lia.
  - cbn [skel]. rewrite weight_done, weight_run.
    assert (weight_list (map skel sts) <= weight_list sts)%nat; [|lia].
    induction IH as [|c r Hc _ IHr]; [cbn; lia|]. cbn [map]. rewrite !weight_list_cons. lia.
Qed.

Lemma weight_map_skel l : (weight_list (map skel l) <= weight_list l)%nat.
Proof.
  induction l as [|c r IH]; [cbn; lia|]. cbn [map]. rewrite !weight_list_cons.
  pose proof (weight_skel c). lia.
Qed.

Lemma weight_abandon lp acc k zs :
  (weight_list (abandon lp acc k zs) <= weight_list acc + weight_list zs)%nat.
Proof.
  unfold abandon. destruct lp; [|cbn; lia]. rewrite weight_list_app, weight_list_cons.
  change (weight (ghost k zs)) with (weight_list zs). cbn [weight_list fold_right]. lia.
Qed.

Definition FinishW (lp : bool) (c : node) : Prop :=
  (weight_res (fst (finish lp c)) <= asyncsK c)%nat.

Lemma start_weight lp c : FinishW lp c -> (weight_res (fst (start lp c)) <= asyncs c)%nat.
Proof.
  unfold start, FinishW. rewrite asyncs_eq. destruct (is_async c); [cbn; lia|lia].
Qed.

Definition weight_kres (r : kres) : nat :=
  match r with KOk sts rest => weight_list sts + asyncs_list rest | KFail _ zs => weight_list zs end%nat.

Lemma start_from_weight lp kd : forall rest acc,
  Forall (FinishW lp) rest ->
  (weight_kres (fst (start_from lp kd acc rest)) <= weight_list acc + asyncs_list rest)%nat.
Proof.
  induction rest as [|c r IH]; intros acc HF; cbn [start_from].
  - cbn. lia.
  - destruct (blocked kd acc); [cbn [fst weight_kres]; lia|].
    inversion HF as [|? ? Hc Hr]; subst. pose proof (start_weight lp c Hc) as Hs.
    destruct (start lp c) as [[s|e zs] e1]; cbn [fst weight_res] in Hs.
    + specialize (IH (acc ++ [s]) Hr). destruct (start_from lp kd (acc ++ [s]) r) as [r2 e2].
      cbn [fst] in *. rewrite weight_list_app in IH. cbn in IH. cbn [asyncs_list fold_right]. fold (asyncs_list r). lia.
    + cbn [fst weight_kres]. pose proof (weight_abandon lp acc (key c) zs).
      cbn [asyncs_list fold_right]. fold (asyncs_list r). lia.
Qed.

Lemma pack_weight k nn kd sts rest :
  (weight (pack k nn kd sts rest) <= weight_list sts + asyncs_list rest)%nat.
Proof.
  unfold pack. destruct rest; [destruct (all_done sts)|]; try rewrite weight_run; try rewrite weight_done; cbn; lia.
Qed.

Lemma handle_weight nn k e zs evs : weight_res (fst (handle nn k e zs evs)) = weight_list zs.
Proof. unfold handle. destruct nn; reflexivity. Qed.

Lemma finish_kids_weight nn k kd r evs :
  (weight_res (fst (finish_kids nn k kd (r, evs))) <= weight_kres r)%nat.
Proof.
  destruct r as [sts rest|e zs]; cbn [finish_kids weight_kres].
  - cbn [fst weight_res]. apply pack_weight.
  - rewrite handle_weight. lia.
Qed.

Lemma finish_weight lp : forall n, FinishW lp n.
Proof.
  apply node_ind'. intros k nn a o ks IH. unfold FinishW. destruct o.
  - cbn [finish]. rewrite handle_weight. cbn. lia.
  - cbn [finish]. destruct nn; [rewrite handle_weight|]; cbn; lia.
  - cbn. lia.
  - rewrite finish_eq. pose proof (start_from_weight lp kd ks [] IH) as H.
    destruct (start_from lp kd [] ks) as [r2 e2]. pose proof (finish_kids_weight nn k kd r2 e2).
    cbn [fst] in H. cbn [asyncsK]. cbn in H. lia.
Qed.

Lemma complete_weight : forall s pi r e,
  complete pi s = Some (r, e) -> (weight_res r < weight s)%nat.
Proof.
  induction s as [m|k d bg IH|k nn kd sts rest IH] using st_ind'; intros pi r e H.
  - destruct pi; cbn in H; [|discriminate].
    pose proof (finish_weight true m) as Hw. unfold FinishW in Hw. destruct (finish true m) as [r0 e0].
    inversion H; subst. cbn [weight fst] in *. lia.
  - rewrite complete_done in H. destruct pi as [|c pi']; [discriminate|].
    destruct (complete_kids c pi' bg) as [|pre rx post evs] eqn:Ek; [discriminate|].
    apply complete_kids_spec in Ek as (x & -> & Hk & Hc).
    rewrite Forall_forall in IH. pose proof (IH x (in_elt _ _ _) _ _ _ Hc) as Hx.
    inversion H; subst. cbn [weight_res]. rewrite !weight_done, !weight_list_app, !weight_list_cons.
    assert (weight (settle_res (skey x) rx) = weight_res rx) by (destruct rx; reflexivity). lia.
  - rewrite complete_run in H. destruct pi as [|c pi']; [discriminate|].
    destruct (complete_kids c pi' sts) as [|pre rx post evs] eqn:Ek; [discriminate|].
    apply complete_kids_spec in Ek as (x & -> & Hk & Hc).
    rewrite Forall_forall in IH. pose proof (IH x (in_elt _ _ _) _ _ _ Hc) as Hx.
    rewrite weight_run, weight_list_app, weight_list_cons.
    destruct rx as [x'|ex zs]; cbn [weight_res] in Hx.
    + pose proof (start_from_weight true kd rest (pre ++ x' :: post)
                    (proj2 (Forall_forall _ _) (fun c _ => finish_weight true c))) as Hs.
      destruct (start_from true kd (pre ++ x' :: post) rest) as [r2 e2]. cbn [fst] in Hs.
      pose proof (finish_kids_weight nn k kd r2 (shift c evs ++ e2)) as Hf.
      assert (H0 : finish_kids nn k kd (r2, shift c evs ++ e2) = (r, e)) by congruence.
      rewrite H0 in Hf. cbn [fst] in Hf.
      rewrite weight_list_app, weight_list_cons in Hs. lia.
    + pose proof (handle_weight nn k (c :: ex) (map skel pre ++ ghost c zs :: map skel post)
                    (shift c evs ++ map ECancel (live_list (pre ++ post)))) as Hh.
      assert (H0 : handle nn k (c :: ex) (map skel pre ++ ghost c zs :: map skel post)
                     (shift c evs ++ map ECancel (live_list (pre ++ post))) = (r, e)) by congruence.
      rewrite H0 in Hh. cbn [fst] in Hh. rewrite Hh, weight_list_app, weight_list_cons.
      pose proof (weight_map_skel pre). pose proof (weight_map_skel post).
      change (weight (ghost c zs)) with (weight_list zs). lia.
Qed.

Lemma run_weight s sched s' evs : Run s sched s' evs -> (length sched + weight s' <= weight s)%nat.
Proof.
  induction 1 as [|s pi s1 e1 sched s2 e2 Hc _ IH]; [cbn; lia|].
  pose proof (complete_weight _ _ _ _ Hc) as H. cbn [weight_res length] in *. lia.
Qed.

Theorem terminates lp root sched s evs :
  Exec lp root sched s evs -> (length sched + weight s <= asyncsK root)%nat.
Proof.
  intros (s0 & e0 & e1 & Hi & Hr & _). apply run_weight in Hr.
  pose proof (finish_weight lp root) as H. unfold FinishW, init in *. rewrite Hi in H. cbn [fst weight_res] in H. lia.
Qed.

Lemma pend_weight : forall s, weight s = 0%nat -> pend s = [].
Proof.
  assert (G : forall l, Forall (fun s => weight s = 0%nat -> pend s = []) l -> weight_list l = 0%nat -> pend_list l = []).
  { induction l as [|c r IHr]; intros HF Hw; [reflexivity|]. inversion HF; subst.
    rewrite weight_list_cons in Hw. rewrite pend_list_cons, H1 by lia. cbn [map app]. apply IHr; [assumption|lia]. }
  induction s as [m|k d bg IH|k nn kd sts rest IH] using st_ind'; intros H.
  - discriminate.
  - rewrite pend_done. apply G; [exact IH|exact H].
  - rewrite pend_run. rewrite weight_run in H. apply G; [exact IH|lia].
Qed.

(* ------------------------------------------------------------------ the synchronous run *)

Lemma desync_key n : key (desync n) = key n.
Proof. destruct n; reflexivity. Qed.

Lemma asyncs_desync : forall n, asyncs (desync n) = 0%nat.
Proof.
  apply node_ind'. intros k nn a o ks IH. rewrite asyncs_eq. cbn [desync is_async asyncsK].
  destruct o; try reflexivity. cbn. induction IH as [|c r Hc _ IHr]; [reflexivity|].
  cbn. rewrite Hc. exact IHr.
Qed.

Lemma den_desync : forall n, den (desync n) = den n.
Proof.
  apply node_ind'. intros k nn a o ks IH. destruct o; try reflexivity.
  cbn [desync]. rewrite !den_kids_eq.
  assert (den_kids (map desync ks) = den_kids ks) as ->; [|reflexivity].
  induction IH as [|c r Hc _ IHr]; [reflexivity|].
  cbn [map]. rewrite !den_kids_cons, Hc, IHr, desync_key. reflexivity.
Qed.

Lemma sync_result_den root d :
  den root = Some d -> exists bg e, sync_result root = (ROk (SDone (key root) d bg), e).
Proof.
  intros Hd. unfold sync_result, init.
  pose proof (finish_spec false (desync root)) as Hs. pose proof (finish_weight false (desync root)) as Hw.
  unfold FinishSpec, FinishW in *. destruct (finish false (desync root)) as [[s|e zs] ev].
  - assert (weight s = 0%nat).
    { pose proof (asyncs_desync root) as Ha. rewrite asyncs_eq in Ha. cbn [fst weight_res] in Hw. lia. }
    destruct (is_done s) eqn:Ed.
    + inversion Hs; subst; try discriminate. rewrite den_desync, Hd in H0. inversion H0; subst.
      rewrite desync_key. eauto.
    + exfalso. exact (rep_pending s _ Hs Ed (pend_weight s H)).
  - rewrite den_desync in Hs. congruence.
Qed.

(* ------------------------------------------------------------------ (b) order independence *)

Theorem order_independent lp root sched s evs :
  nonnull root = false -> Exec lp root sched s evs -> final s ->
  exists d bg bgs esync,
    s = SDone (key root) d bg /\ den root = Some d /\
    sync_result root = (ROk (SDone (key root) d bgs), esync).
Proof.
  intros Hnn He Hf. pose proof (exec_rep _ _ _ _ _ He) as HR. unfold final in Hf.
  inversion HR; subst; try discriminate.
  destruct (sync_result_den root d H) as (bgs & e & Hs). eauto 10.
Qed.

(* ------------------------------------------------------------------ progress *)

Lemma in_pend_list p sts :
  In p (pend_list sts) -> exists x p', In x sts /\ p = skey x :: p' /\ In p' (pend x).
Proof.
  unfold pend_list. intros H. apply in_flat_map in H as (x & Hx & Hp).
  apply in_map_iff in Hp as (p' & <- & Hp'). eauto.
Qed.

(* every pending awaitable can be completed ... *)
Lemma enabled : forall s pi, In pi (pend s) -> exists r e, complete pi s = Some (r, e).
Proof.
  induction s as [m|k d bg IH|k nn kd sts rest IH] using st_ind'; intros pi Hp.
  - destruct Hp as [<-|[]]. cbn. destruct (finish true m) as [r e]. eauto.
  - rewrite pend_done in Hp. apply in_pend_list in Hp as (x & p' & Hx & -> & Hp').
    rewrite Forall_forall in IH. destruct (IH x Hx p' Hp') as (r & e & Hc).
    rewrite complete_done. pose proof (complete_kids_some (skey x) p' bg x r e Hx eq_refl Hc) as Hn.
    destruct (complete_kids (skey x) p' bg); [contradiction|eauto].
  - rewrite pend_run in Hp. apply in_pend_list in Hp as (x & p' & Hx & -> & Hp').
    rewrite Forall_forall in IH. destruct (IH x Hx p' Hp') as (r & e & Hc).
    rewrite complete_run. pose proof (complete_kids_some (skey x) p' sts x r e Hx eq_refl Hc) as Hn.
    destruct (complete_kids (skey x) p' sts) as [|pre rx post evs]; [contradiction|].
    destruct rx as [s'|o zs]; [destruct (start_from true kd (pre ++ s' :: post) rest) as [r2 e2]|];
      (eexists; eexists; apply f_equal; apply surjective_pairing).
Qed.

(* ... and only a pending awaitable can be completed *)
Lemma complete_pending : forall s pi r e, complete pi s = Some (r, e) -> In pi (pend s).
Proof.
  induction s as [m|k d bg IH|k nn kd sts rest IH] using st_ind'; intros pi r e H.
  - destruct pi; cbn in H; [left; reflexivity|discriminate].
  - rewrite complete_done in H. destruct pi as [|c pi']; [discriminate|].
    destruct (complete_kids c pi' bg) as [|pre rx post evs] eqn:Ek; [discriminate|].
    apply complete_kids_spec in Ek as (x & -> & <- & Hc).
    rewrite Forall_forall in IH. rewrite pend_done. unfold pend_list. apply in_flat_map.
    exists x. split; [apply in_elt|]. apply in_map. exact (IH x (in_elt _ _ _) _ _ _ Hc).
  - rewrite complete_run in H. destruct pi as [|c pi']; [discriminate|].
    destruct (complete_kids c pi' sts) as [|pre rx post evs] eqn:Ek; [discriminate|].
    apply complete_kids_spec in Ek as (x & -> & <- & Hc).
    rewrite Forall_forall in IH. rewrite pend_run. unfold pend_list. apply in_flat_map.
    exists x. split; [apply in_elt|]. apply in_map. exact (IH x (in_elt _ _ _) _ _ _ Hc).
Qed.

Theorem progress s n pi :
  Rep s n -> nonnull n = false -> In pi (pend s) ->
  exists s' e, complete pi s = Some (ROk s', e).
Proof.
  intros HR Hnn Hp. destruct (enabled s pi Hp) as (r & e & Hc).
  pose proof (complete_rep s n pi HR) as H. rewrite Hc in H. destruct r as [s'|o zs]; [eauto|].
  exfalso. exact (den_nullable n Hnn H).
Qed.

(* ------------------------------------------------------------------ positions of the tree *)

Inductive At : node -> pos -> node -> Prop :=
| At_here n : At n [] n
| At_kid n c pi m : In c (kids n) -> At c pi m -> At n (key c :: pi) m.

Definition raises (m : node) : Prop := out m = ORaise \/ (out m = ONull /\ nonnull m = true).

(* the error raised at pi (relative to m) propagates up to m: every position on the way,
   m excluded, is non-null *)
Inductive Bad : node -> pos -> Prop :=
| Bad_here m : raises m -> Bad m []
| Bad_kid m c pi : In c (kids m) -> nonnull c = true -> Bad c pi -> Bad m (key c :: pi).

(* a recorded error: position a is nullable and the error raised at o propagates up to it *)
Definition GoodErr (n : node) (a o : pos) : Prop :=
  exists ma pi, At n a ma /\ nonnull ma = false /\ Bad ma pi /\ o = a ++ pi.

Lemma At_trans n a m : At n a m -> forall b m', At m b m' -> At n (a ++ b) m'.
Proof. induction 1; intros b m' H2; cbn; [assumption|]. constructor; auto. Qed.

Lemma Bad_at m pi : Bad m pi -> exists mo, At m pi mo /\ raises mo.
Proof.
  induction 1 as [m H|m c pi Hin Hnn _ (mo & H1 & H2)]; [exists m; split; [constructor|assumption]|].
  exists mo. split; [constructor; assumption|assumption].
Qed.

Lemma den_kids_none ks c : In c ks -> den c = None -> den_kids ks = None.
Proof.
  induction ks as [|x r IH]; intros Hin Hd; [destruct Hin|]. destruct Hin as [->|Hin]; rewrite den_kids_cons.
  - rewrite Hd. reflexivity.
  - rewrite (IH Hin Hd). destruct (den x); reflexivity.
Qed.

Lemma kids_den n c : In c (kids n) -> den c = None ->
  den n = if nonnull n then None else Some (DNull true).
Proof.
  destruct n as [k nn a o ks]. destruct o; cbn [kids]; try contradiction.
  intros Hin Hd. rewrite den_kids_eq, (den_kids_none ks c Hin Hd). reflexivity.
Qed.

Lemma Bad_den m pi : Bad m pi -> den m = if nonnull m then None else Some (DNull true).
Proof.
  induction 1 as [m H|m c pi Hin Hnn _ IH].
  - destruct m as [k nn a o ks]. destruct H as [H|[H1 H2]]; cbn in *; subst; [reflexivity|reflexivity].
  - rewrite Hnn in IH. exact (kids_den m c Hin IH).
Qed.

Definition ev_good (n : node) (e : ev) : Prop :=
  match e with Ev TErr false a o => GoodErr n a o | _ => True end.

Lemma ev_good_shift n c e : In c (kids n) -> ev_good c e -> ev_good n (ev_shift (key c) e).
Proof.
  destruct e as [t b p o]. destruct t, b; cbn; auto. intros Hin (ma & pi & H1 & H2 & H3 & ->).
  exists ma, pi. repeat split; auto. constructor; assumption.
Qed.

Lemma good_shift n c evs : In c (kids n) -> Forall (ev_good c) evs -> Forall (ev_good n) (shift (key c) evs).
Proof.
  intros Hin H. unfold shift. apply Forall_forall. intros e He. apply in_map_iff in He as (e' & <- & He').
  apply ev_good_shift; [assumption|]. rewrite Forall_forall in H. auto.
Qed.

Lemma good_map n {A} (f : A -> ev) l : (forall x, ev_good n (f x)) -> Forall (ev_good n) (map f l).
Proof. intros Hf. apply Forall_forall. intros e He. apply in_map_iff in He as (p & <- & _). apply Hf. Qed.

Lemma good_bg n e : ev_good n (to_bg e).
Proof. destruct e as [t b p o]. destruct t; exact I. Qed.

Definition FinishGood (lp : bool) (c : node) : Prop :=
  Forall (ev_good c) (snd (finish lp c)) /\
  forall e zs, fst (finish lp c) = RFail e zs -> nonnull c = true /\ Bad c e.

Lemma handle_good n k e zs evs :
  Forall (ev_good n) evs -> Bad n e ->
  Forall (ev_good n) (snd (handle (nonnull n) k e zs evs)) /\
  forall e' zs', fst (handle (nonnull n) k e zs evs) = RFail e' zs' -> nonnull n = true /\ Bad n e'.
Proof.
  intros H1 H2. unfold handle. destruct (nonnull n) eqn:E; cbn [fst snd].
  - split; [assumption|]. intros e' zs' [= <- _]. auto.
  - split; [|discriminate]. apply Forall_app. split; [assumption|]. constructor; [|constructor].
    exists n, e. repeat split; auto. constructor.
Qed.

Lemma start_from_good lp n kd : forall rest acc,
  incl rest (kids n) -> Forall (FinishGood lp) rest ->
  Forall (ev_good n) (snd (start_from lp kd acc rest)) /\
  forall e zs, fst (start_from lp kd acc rest) = KFail e zs -> Bad n e.
Proof.
  induction rest as [|c r IH]; intros acc Hi HF; cbn [start_from].
  - split; [constructor|discriminate].
  - destruct (blocked kd acc); [split; [constructor|discriminate]|].
    inversion HF as [|? ? [Hc1 Hc2] Hr]; subst.
    assert (Hin : In c (kids n)) by (apply Hi; left; reflexivity).
    assert (Hs : Forall (ev_good c) (snd (start lp c)) /\
                 forall e zs, fst (start lp c) = RFail e zs -> nonnull c = true /\ Bad c e).
    { unfold start. destruct (is_async c); [split; [constructor|discriminate]|auto]. }
    destruct (start lp c) as [rc e1]. cbn [fst snd] in Hs. destruct Hs as [Hs1 Hs2].
    assert (Hg1 : Forall (ev_good n) (ECall [key c] :: shift (key c) e1))
      by (constructor; [exact I|apply good_shift; assumption]).
    destruct rc as [s|e zs].
    + specialize (IH (acc ++ [s]) (fun x Hx => Hi x (or_intror Hx)) Hr).
      destruct (start_from lp kd (acc ++ [s]) r) as [r2 e2]. cbn [fst snd] in *.
      split; [apply Forall_app; split; [assumption|apply IH]|apply IH].
    + cbn [fst snd]. destruct (Hs2 e zs eq_refl) as [Hnn Hb]. split.
      * apply Forall_app. split; [assumption|]. apply good_map. intros; exact I.
      * intros e' zs' [= <- _]. constructor; assumption.
Qed.

Lemma finish_kids_good n k kd r evs :
  Forall (ev_good n) evs -> (forall e zs, r = KFail e zs -> Bad n e) ->
  Forall (ev_good n) (snd (finish_kids (nonnull n) k kd (r, evs))) /\
  forall e' zs', fst (finish_kids (nonnull n) k kd (r, evs)) = RFail e' zs' -> nonnull n = true /\ Bad n e'.
Proof.
  intros H1 H2. destruct r as [sts rest|e zs]; cbn [finish_kids].
  - split; [assumption|discriminate].
  - apply handle_good; eauto.
Qed.

Lemma finish_good lp : forall n, FinishGood lp n.
Proof.
  apply node_ind'. intros k nn a o ks IH. unfold FinishGood.
  set (n := Node k nn a o ks).
  destruct o.
  - exact (handle_good n k [] [] [] (Forall_nil _) (Bad_here n (or_introl eq_refl))).
  - cbn [finish]. destruct nn eqn:E.
    + exact (handle_good n k [] [] [] (Forall_nil _) (Bad_here n (or_intror (conj eq_refl eq_refl)))).
    + split; [constructor|discriminate].
  - split; [constructor|discriminate].
  - subst n. rewrite finish_eq.
    destruct (start_from_good lp (Node k nn a (OKids kd) ks) kd ks [] (incl_refl _) IH) as [H1 H2].
    destruct (start_from lp kd [] ks) as [r2 e2]. cbn [fst snd] in *.
    exact (finish_kids_good (Node k nn a (OKids kd) ks) k kd r2 e2 H1 H2).
Qed.

Lemma complete_good : forall s n pi r evs, Rep s n -> complete pi s = Some (r, evs) ->
  Forall (ev_good n) evs /\ forall e zs, r = RFail e zs -> nonnull n = true /\ Bad n e.
Proof.
  induction s as [m|k d bg _|k nn kd sts rest IH] using st_ind'; intros n pi r evs HR Hc.
  - inversion HR; subst. destruct pi; cbn in Hc; [|discriminate].
    destruct (finish_good true n) as [H1 H2]. destruct (finish true n) as [r0 e0]. inversion Hc; subst.
    split; [constructor; [exact I|exact H1]|exact H2].
  - rewrite complete_done in Hc. destruct pi as [|c pi']; [discriminate|].
    destruct (complete_kids c pi' bg) as [|pre rx post ex]; [discriminate|]. inversion Hc; subst.
    split; [apply good_map; apply good_bg|discriminate].
  - rewrite complete_run in Hc. destruct pi as [|c pi']; [discriminate|].
    destruct (complete_kids c pi' sts) as [|pre rx post ex] eqn:Ek; [discriminate|].
    apply complete_kids_spec in Ek as (x & -> & Hk & Hcx).
    inversion HR as [| |? ? a ? ks1 ? ? HF Hnd]; subst.
    set (n := Node k nn a (OKids kd) (ks1 ++ rest)) in *.
    apply Forall2_app_inv_l' in HF as (l1' & y & l2' & Hks1 & H1 & Hxy & H2).
    assert (Hin : In y (kids n)) by (cbn [n kids]; rewrite Hks1; apply in_or_app; left; apply in_elt).
    rewrite Forall_forall in IH. destruct (IH x (in_elt _ _ _) y pi' _ _ Hxy Hcx) as [Hg Hf].
    pose proof (rep_key _ _ Hxy) as Hky. rewrite Hky in Hc.
    assert (Hgs : Forall (ev_good n) (shift (key y) ex)) by (apply good_shift; assumption).
    destruct rx as [x'|e zs].
    + destruct (start_from_good true n kd rest (pre ++ x' :: post)) as [G1 G2].
      { cbn [n kids]. apply incl_appr, incl_refl. }
      { apply Forall_forall. intros; apply finish_good. }
      destruct (start_from true kd (pre ++ x' :: post) rest) as [r2 e2]. cbn [fst snd] in *.
      pose proof (finish_kids_good n k kd r2 (shift (key y) ex ++ e2)) as Hfk.
      cbn [n nonnull] in Hfk.
      assert (Hc' : finish_kids nn k kd (r2, shift (key y) ex ++ e2) = (r, evs)) by congruence.
      rewrite Hc' in Hfk. cbn [fst snd] in Hfk.
      destruct Hfk as [F1 F2]; [apply Forall_app; split; assumption|exact G2|].
      split; [exact F1|]. intros e zs ->. eapply F2. reflexivity.
    + destruct (Hf e zs eq_refl) as [Hnn Hb].
      pose proof (handle_good n k (key y :: e) (map skel pre ++ ghost (key y) zs :: map skel post)
                    (shift (key y) ex ++ map ECancel (live_list (pre ++ post)))) as Hh.
      cbn [n nonnull] in Hh.
      assert (Hc' : handle nn k (key y :: e) (map skel pre ++ ghost (key y) zs :: map skel post)
                      (shift (key y) ex ++ map ECancel (live_list (pre ++ post))) = (r, evs)) by congruence.
      rewrite Hc' in Hh. cbn [fst snd] in Hh.
      destruct Hh as [F1 F2].
      * apply Forall_app. split; [assumption|]. apply good_map. intros; exact I.
      * constructor; assumption.
      * split; [exact F1|]. intros e0 zs0 ->. eapply F2. reflexivity.
Qed.

(* ------------------------------------------------------------------ recorded nulled positions *)

Notation NP := nulled_positions.

Lemma errs_app a b : errs (a ++ b) = errs a ++ errs b.
Proof. unfold errs. apply flat_map_app. Qed.

Lemma NP_app a b : NP (a ++ b) = NP a ++ NP b.
Proof. unfold nulled_positions. rewrite errs_app, map_app. reflexivity. Qed.

Lemma errs_shift k evs : errs (shift k evs) = map (fun ao => (k :: fst ao, k :: snd ao)) (errs evs).
Proof.
  induction evs as [|e r IH]; [reflexivity|]. destruct e as [t b p o]. destruct t, b; cbn; try exact IH.
  f_equal. exact IH.
Qed.

Lemma NP_shift k evs : NP (shift k evs) = map (cons k) (NP evs).
Proof. unfold nulled_positions. rewrite errs_shift, !map_map. reflexivity. Qed.

Lemma errs_map_none {A} (f : A -> ev) l :
  (forall x, match f x with Ev TErr false _ _ => False | _ => True end) -> errs (map f l) = [].
Proof.
  intros Hf. induction l as [|p r IH]; [reflexivity|]. cbn [map].
  specialize (Hf p). unfold errs in *. cbn [flat_map]. rewrite IH.
  destruct (f p) as [t b q o]. destruct t, b; try reflexivity. contradiction.
Qed.

Lemma NP_map_none {A} (f : A -> ev) l :
  (forall x, match f x with Ev TErr false _ _ => False | _ => True end) -> NP (map f l) = [].
Proof. intros H. unfold nulled_positions. rewrite errs_map_none by assumption. reflexivity. Qed.

Lemma NP_bg evs : NP (map to_bg evs) = [].
Proof. apply NP_map_none. intros [t b p o]. destruct t; exact I. Qed.

Fixpoint vis (s : st) : list pos :=
  match s with
  | SPend _ => []
  | SDone _ d _ => dnulls d
  | SRun _ _ _ sts _ =>
      (fix go (l : list st) : list pos :=
         match l with
         | [] => []
         | c :: r => map (cons (skey c)) (vis c) ++ go r
         end) sts
  end.
Definition vis_list (l : list st) : list pos := flat_map (fun c => map (cons (skey c)) (vis c)) l.

Lemma vis_run k nn kd sts rest : vis (SRun k nn kd sts rest) = vis_list sts.
Proof. reflexivity. Qed.

Lemma vis_list_app a b : vis_list (a ++ b) = vis_list a ++ vis_list b.
Proof. apply flat_map_app. Qed.

Lemma vis_list_one s : vis_list [s] = map (cons (skey s)) (vis s).
Proof. unfold vis_list. cbn [flat_map]. apply app_nil_r. Qed.

Lemma vis_list_cons s l : vis_list (s :: l) = map (cons (skey s)) (vis s) ++ vis_list l.
Proof. reflexivity. Qed.

Definition dnulls_list (fs : list (N * data)) : list pos :=
  flat_map (fun kx => map (cons (fst kx)) (dnulls (snd kx))) fs.

Lemma dnulls_kids kd fs : dnulls (DKids kd fs) = dnulls_list fs.
Proof.
  cbn [dnulls]. unfold dnulls_list. induction fs as [|[k x] r IH]; [reflexivity|].
  cbn [flat_map fst snd]. rewrite <- IH. reflexivity.
Qed.

Lemma vis_all_done sts : all_done sts = true -> dnulls_list (map sdata sts) = vis_list sts.
Proof.
  induction sts as [|c r IH]; [reflexivity|]. intros H.
  change (is_done c && all_done r = true) in H. apply andb_true_iff in H as [H1 H2].
  destruct c; try discriminate. unfold dnulls_list, vis_list in *. cbn [map flat_map sdata fst snd skey vis].
  rewrite IH by assumption. reflexivity.
Qed.

Lemma pack_vis k nn kd sts rest : vis (pack k nn kd sts rest) = vis_list sts.
Proof.
  unfold pack. destruct rest; [destruct (all_done sts) eqn:E|]; try reflexivity.
  cbn [vis]. rewrite dnulls_kids. apply vis_all_done. exact E.
Qed.

Definition FinishVis (lp : bool) (c : node) : Prop :=
  match finish lp c with (ROk s, evs) => incl (vis s) (NP evs) | _ => True end.

Lemma finish_key lp n s e : finish lp n = (ROk s, e) -> skey s = key n.
Proof.
  intros H. pose proof (finish_spec lp n) as Hs. unfold FinishSpec in Hs. rewrite H in Hs. apply rep_key. exact Hs.
Qed.

Lemma start_key lp c s e : start lp c = (ROk s, e) -> skey s = key c.
Proof. unfold start. destruct (is_async c); [intros [= <- _]; reflexivity|apply finish_key]. Qed.

Lemma start_vis lp c : FinishVis lp c -> match start lp c with (ROk s, evs) => incl (vis s) (NP evs) | _ => True end.
Proof. unfold start, FinishVis. destruct (is_async c); [intros _ p []|auto]. Qed.

Lemma incl_map_cons k (a b : list pos) : incl a b -> incl (map (cons k) a) (map (cons k) b).
Proof. intros H p Hp. apply in_map_iff in Hp as (q & <- & Hq). apply in_map. auto. Qed.

Lemma start_from_vis lp kd : forall rest acc,
  Forall (FinishVis lp) rest ->
  match start_from lp kd acc rest with
  | (KOk sts rest', evs) => incl (vis_list sts) (vis_list acc ++ NP evs)
  | _ => True
  end.
Proof.
  induction rest as [|c r IH]; intros acc HF; cbn [start_from].
  - cbn. rewrite app_nil_r. apply incl_refl.
  - destruct (blocked kd acc); [cbn; rewrite app_nil_r; apply incl_refl|].
    inversion HF as [|? ? Hc Hr]; subst. pose proof (start_vis lp c Hc) as Hs.
    destruct (start lp c) as [[s|e zs] e1] eqn:Es; [|exact I].
    specialize (IH (acc ++ [s]) Hr). destruct (start_from lp kd (acc ++ [s]) r) as [[sts rest'|e zs] e2]; [|exact I].
    rewrite vis_list_app, vis_list_one in IH.
    rewrite (start_key _ _ _ _ Es) in IH.
    change (ECall [key c] :: shift (key c) e1) with ([ECall [key c]] ++ shift (key c) e1).
    rewrite !NP_app, NP_shift. cbn [app]. change (NP [ECall [key c]]) with (@nil pos). cbn [app].
    intros p Hp. apply IH in Hp. rewrite !in_app_iff in *. destruct Hp as [[Hp|Hp]|Hp]; auto.
    right. left. revert Hp. apply incl_map_cons. exact Hs.
Qed.

Lemma handle_vis nn k e zs evs (base : list pos) :
  match handle nn k e zs evs with (ROk s, evs') => incl (vis s) (base ++ NP evs') | _ => True end.
Proof.
  unfold handle. destruct nn; [exact I|]. rewrite NP_app. cbn. intros p [<-|[]].
  rewrite !in_app_iff. right. right. left. reflexivity.
Qed.

Lemma finish_kids_vis nn k kd r evs (base : list pos) :
  match r with KOk sts rest => incl (vis_list sts) (base ++ NP evs) | _ => True end ->
  match finish_kids nn k kd (r, evs) with (ROk s, evs') => incl (vis s) (base ++ NP evs') | _ => True end.
Proof.
  destruct r as [sts rest|e zs]; cbn [finish_kids]; intros H.
  - rewrite pack_vis. exact H.
  - apply handle_vis.
Qed.

Lemma finish_vis lp : forall n, FinishVis lp n.
Proof.
  apply node_ind'. intros k nn a o ks IH. unfold FinishVis. destruct o.
  - exact (handle_vis nn k [] [] [] []).
  - cbn [finish]. destruct nn; [exact (handle_vis true k [] [] [] [])|]. intros p [].
  - intros p [].
  - rewrite finish_eq. pose proof (start_from_vis lp kd ks [] IH) as H.
    destruct (start_from lp kd [] ks) as [r2 e2]. exact (finish_kids_vis nn k kd r2 e2 [] H).
Qed.

Lemma complete_key s n pi s' e : Rep s n -> complete pi s = Some (ROk s', e) -> skey s' = skey s.
Proof.
  intros HR Hc. pose proof (complete_rep s n pi HR) as H. rewrite Hc in H.
  rewrite (rep_key _ _ H), (rep_key _ _ HR). reflexivity.
Qed.

Lemma complete_vis : forall s n pi s' evs, Rep s n -> complete pi s = Some (ROk s', evs) ->
  incl (vis s') (vis s ++ NP evs).
Proof.
  induction s as [m|k d bg _|k nn kd sts rest IH] using st_ind'; intros n pi s' evs HR Hc.
  - destruct pi; cbn in Hc; [|discriminate].
    pose proof (finish_vis true m) as H. unfold FinishVis in H. destruct (finish true m) as [r0 e0].
    inversion Hc; subst. exact H.
  - rewrite complete_done in Hc. destruct pi as [|c pi']; [discriminate|].
    destruct (complete_kids c pi' bg) as [|pre rx post ex]; [discriminate|]. inversion Hc; subst.
    cbn [vis]. apply incl_appl, incl_refl.
  - rewrite complete_run in Hc. destruct pi as [|c pi']; [discriminate|].
    destruct (complete_kids c pi' sts) as [|pre rx post ex] eqn:Ek; [discriminate|].
    apply complete_kids_spec in Ek as (x & -> & Hk & Hcx).
    inversion HR as [| |? ? a ? ks1 ? ? HF Hnd]; subst.
    apply Forall2_app_inv_l' in HF as (l1' & y & l2' & Hks1 & H1 & Hxy & H2).
    rewrite Forall_forall in IH. rewrite vis_run.
    destruct rx as [x'|e zs].
    + pose proof (IH x (in_elt _ _ _) y pi' x' ex Hxy Hcx) as Hv.
      pose proof (complete_key _ _ _ _ _ Hxy Hcx) as Hkk.
      pose proof (start_from_vis true kd rest (pre ++ x' :: post)
                    (proj2 (Forall_forall _ _) (fun c _ => finish_vis true c))) as Hs.
      destruct (start_from true kd (pre ++ x' :: post) rest) as [r2 e2].
      pose proof (finish_kids_vis nn k kd r2 (shift (skey x) ex ++ e2) (vis_list (pre ++ x :: post))) as Hf.
      assert (Hc' : finish_kids nn k kd (r2, shift (skey x) ex ++ e2) = (ROk s', evs)) by congruence.
      rewrite Hc' in Hf. apply Hf. destruct r2 as [sts' rest'|]; [|exact I].
      rewrite NP_app, NP_shift. intros p Hp. apply Hs in Hp.
      rewrite !vis_list_app, !vis_list_cons in *. rewrite Hkk in Hp. rewrite !in_app_iff in *.
      destruct Hp as [[Hp|[Hp|Hp]]|Hp]; auto.
      apply in_map_iff in Hp as (q & <- & Hq). apply Hv in Hq. apply in_app_iff in Hq as [Hq|Hq].
      * left. right. left. apply in_map. exact Hq.
      * right. left. apply in_map. exact Hq.
    + pose proof (handle_vis nn k (skey x :: e) (map skel pre ++ ghost (skey x) zs :: map skel post)
                    (shift (skey x) ex ++ map ECancel (live_list (pre ++ post)))
                    (vis_list (pre ++ x :: post))) as Hh.
      assert (Hc' : handle nn k (skey x :: e) (map skel pre ++ ghost (skey x) zs :: map skel post)
                      (shift (skey x) ex ++ map ECancel (live_list (pre ++ post))) = (ROk s', evs)) by congruence.
      rewrite Hc' in Hh. exact Hh.
Qed.

Lemma run_vis s sched s' evs n : Run s sched s' evs -> Rep s n -> incl (vis s') (vis s ++ NP evs).
Proof.
  induction 1 as [s|s pi s1 e1 sched s2 e2 Hc _ IH]; intros HR.
  - cbn. rewrite app_nil_r. apply incl_refl.
  - pose proof (complete_rep s n pi HR) as H1. rewrite Hc in H1.
    pose proof (complete_vis s n pi s1 e1 HR Hc) as H2. specialize (IH H1).
    rewrite NP_app. intros p Hp. apply IH in Hp. rewrite !in_app_iff in *.
    destruct Hp as [Hp|Hp]; auto. apply H2 in Hp. rewrite in_app_iff in Hp. tauto.
Qed.

Theorem visible_nulls_recorded lp root sched k d bg evs :
  Exec lp root sched (SDone k d bg) evs -> incl (dnulls d) (NP evs).
Proof.
  intros (s0 & e0 & e1 & Hi & Hr & ->).
  pose proof (init_rep lp root) as HR. rewrite Hi in HR.
  pose proof (run_vis _ _ _ _ root Hr HR) as H. cbn [vis] in H.
  pose proof (finish_vis lp root) as H0. unfold FinishVis, init in *. rewrite Hi in H0.
  rewrite NP_app. intros p Hp. apply H in Hp. rewrite !in_app_iff in *. destruct Hp; auto.
Qed.

(* response keys are unique among siblings *)
Fixpoint wfk (n : node) : Prop :=
  match n with
  | Node _ _ _ o ks =>
      match o with
      | OKids _ =>
          NoDup (map key ks) /\
          (fix go (l : list node) : Prop := match l with [] => True | c :: r => wfk c /\ go r end) ks
      | _ => True
      end
  end.

Lemma wfk_kids k nn a kd ks :
  wfk (Node k nn a (OKids kd) ks) <-> NoDup (map key ks) /\ Forall wfk ks.
Proof.
  cbn [wfk]. split; intros [H1 H2]; (split; [exact H1|]).
  - induction ks as [|c r IH]; constructor; [apply H2|]. apply IH; [inversion H1; assumption|apply H2].
  - induction H2 as [|c r Hc _ IH]; [exact I|]. split; [exact Hc|]. apply IH. inversion H1; assumption.
Qed.


(* ------------------------------------------------------------------ cancelled / orphaned awaitables lie below a nulled position *)

Definition dropped (evs : list ev) : list pos := cancelled evs ++ orphaned evs.
Definition covered (evs : list ev) : Prop := forall p, In p (dropped evs) -> nulled (NP evs) p = true.

Lemma dropped_app a b p : In p (dropped (a ++ b)) <-> In p (dropped a) \/ In p (dropped b).
Proof.
  unfold dropped, cancelled, orphaned. rewrite !flat_map_app, !in_app_iff. tauto.
Qed.

Lemma dropped_shift k evs p : In p (dropped (shift k evs)) -> exists q, p = k :: q /\ In q (dropped evs).
Proof.
  unfold dropped, cancelled, orphaned, shift. rewrite !in_app_iff, !in_flat_map.
  intros [(e & He & Hp)|(e & He & Hp)]; apply in_map_iff in He as (e' & <- & He');
    destruct e' as [t b q o]; destruct t, b; cbn in Hp; try contradiction; destruct Hp as [<-|[]];
    eexists; (split; [reflexivity|]); rewrite in_app_iff, !in_flat_map; [left|right]; eexists; (split; [eassumption|left; reflexivity]).
Qed.

Lemma dropped_bg evs : dropped (map to_bg evs) = [].
Proof.
  unfold dropped, cancelled, orphaned. induction evs as [|[t b p o] r IH]; [reflexivity|].
  cbn [map flat_map to_bg]. apply app_eq_nil in IH as [H1 H2]. rewrite H1, H2. destruct t; reflexivity.
Qed.

Lemma nulled_app P Q p : nulled (P ++ Q) p = nulled P p || nulled Q p.
Proof. unfold nulled. apply existsb_app. Qed.

Lemma nulled_shift k P q : nulled (map (cons k) P) (k :: q) = nulled P q.
Proof.
  unfold nulled. induction P as [|a r IH]; [reflexivity|]. cbn [map existsb prefixb].
  rewrite N.eqb_refl, IH. reflexivity.
Qed.

Lemma covered_app a b : covered a -> covered b -> covered (a ++ b).
Proof.
  intros Ha Hb p Hp. apply dropped_app in Hp. rewrite NP_app, nulled_app.
  destruct Hp as [Hp|Hp]; [rewrite (Ha p Hp)|rewrite (Hb p Hp)]; auto using orb_true_r.
Qed.

Lemma covered_shift k evs : covered evs -> covered (shift k evs).
Proof.
  intros H p Hp. apply dropped_shift in Hp as (q & -> & Hq). rewrite NP_shift, nulled_shift. auto.
Qed.

Lemma covered_root evs : In [] (NP evs) -> covered evs.
Proof.
  intros H p _. unfold nulled. apply existsb_exists. exists []. split; [assumption|reflexivity].
Qed.

Lemma covered_nodrop evs : dropped evs = [] -> covered evs.
Proof. intros H p Hp. rewrite H in Hp. destruct Hp. Qed.

Definition FinishCov (lp : bool) (c : node) : Prop :=
  match finish lp c with (ROk s, evs) => covered evs | _ => True end.

Lemma handle_cov nn k e zs evs : match handle nn k e zs evs with (ROk s, evs') => covered evs' | _ => True end.
Proof.
  unfold handle. destruct nn; [exact I|]. apply covered_root. rewrite NP_app, in_app_iff. right. left. reflexivity.
Qed.

Lemma start_from_cov lp kd : forall rest acc,
  Forall (FinishCov lp) rest ->
  match start_from lp kd acc rest with (KOk _ _, evs) => covered evs | _ => True end.
Proof.
  induction rest as [|c r IH]; intros acc HF; cbn [start_from].
  - apply covered_nodrop. reflexivity.
  - destruct (blocked kd acc); [apply covered_nodrop; reflexivity|].
    inversion HF as [|? ? Hc Hr]; subst.
    assert (Hs : match start lp c with (ROk s, evs) => covered evs | _ => True end).
    { unfold start, FinishCov in *. destruct (is_async c); [apply covered_nodrop; reflexivity|exact Hc]. }
    destruct (start lp c) as [[s|e zs] e1]; [|exact I].
    specialize (IH (acc ++ [s]) Hr). destruct (start_from lp kd (acc ++ [s]) r) as [[sts rest'|e zs] e2]; [|exact I].
    change (ECall [key c] :: shift (key c) e1) with ([ECall [key c]] ++ shift (key c) e1).
    apply covered_app; [apply covered_app; [apply covered_nodrop; reflexivity|apply covered_shift; exact Hs]|exact IH].
Qed.

Lemma finish_kids_cov nn k kd r evs :
  match r with KOk _ _ => covered evs | _ => True end ->
  match finish_kids nn k kd (r, evs) with (ROk s, evs') => covered evs' | _ => True end.
Proof. destruct r; cbn [finish_kids]; intros H; [exact H|apply handle_cov]. Qed.

Lemma finish_cov lp : forall n, FinishCov lp n.
Proof.
  apply node_ind'. intros k nn a o ks IH. unfold FinishCov. destruct o.
  - exact (handle_cov nn k [] [] []).
  - cbn [finish]. destruct nn; [exact (handle_cov true k [] [] [])|apply covered_nodrop; reflexivity].
  - apply covered_nodrop; reflexivity.
  - rewrite finish_eq. pose proof (start_from_cov lp kd ks [] IH) as H.
    destruct (start_from lp kd [] ks) as [r2 e2]. exact (finish_kids_cov nn k kd r2 e2 H).
Qed.

Lemma complete_cov : forall s pi s' evs, complete pi s = Some (ROk s', evs) -> covered evs.
Proof.
  induction s as [m|k d bg _|k nn kd sts rest IH] using st_ind'; intros pi s' evs Hc.
  - destruct pi; cbn in Hc; [|discriminate].
    pose proof (finish_cov true m) as H. unfold FinishCov in H. destruct (finish true m) as [r0 e0].
    inversion Hc; subst. change (EDone [] :: e0) with ([EDone []] ++ e0).
    apply covered_app; [apply covered_nodrop; reflexivity|exact H].
  - rewrite complete_done in Hc. destruct pi as [|c pi']; [discriminate|].
    destruct (complete_kids c pi' bg) as [|pre rx post ex]; [discriminate|]. inversion Hc; subst.
    apply covered_nodrop. apply dropped_bg.
  - rewrite complete_run in Hc. destruct pi as [|c pi']; [discriminate|].
    destruct (complete_kids c pi' sts) as [|pre rx post ex] eqn:Ek; [discriminate|].
    apply complete_kids_spec in Ek as (x & -> & Hk & Hcx).
    rewrite Forall_forall in IH. destruct rx as [x'|e zs].
    + pose proof (IH x (in_elt _ _ _) pi' x' ex Hcx) as Hv.
      pose proof (start_from_cov true kd rest (pre ++ x' :: post)
                    (proj2 (Forall_forall _ _) (fun c _ => finish_cov true c))) as Hs.
      destruct (start_from true kd (pre ++ x' :: post) rest) as [r2 e2].
      pose proof (finish_kids_cov nn k kd r2 (shift c ex ++ e2)) as Hf.
      assert (Hc' : finish_kids nn k kd (r2, shift c ex ++ e2) = (ROk s', evs)) by congruence.
      rewrite Hc' in Hf. apply Hf. destruct r2; [|exact I].
      apply covered_app; [apply covered_shift; exact Hv|exact Hs].
    + pose proof (handle_cov nn k (c :: e) (map skel pre ++ ghost c zs :: map skel post)
                    (shift c ex ++ map ECancel (live_list (pre ++ post)))) as Hh.
      assert (Hc' : handle nn k (c :: e) (map skel pre ++ ghost c zs :: map skel post)
                      (shift c ex ++ map ECancel (live_list (pre ++ post))) = (ROk s', evs)) by congruence.
      rewrite Hc' in Hh. exact Hh.
Qed.

Lemma run_cov s sched s' evs : Run s sched s' evs -> covered evs.
Proof.
  induction 1 as [s|s pi s1 e1 sched s2 e2 Hc _ IH]; [apply covered_nodrop; reflexivity|].
  apply covered_app; [exact (complete_cov _ _ _ _ Hc)|exact IH].
Qed.

Theorem dropped_covered lp root sched s evs :
  Exec lp root sched s evs -> forall p, In p (cancelled evs ++ orphaned evs) -> nulled (NP evs) p = true.
Proof.
  intros (s0 & e0 & e1 & Hi & Hr & ->).
  pose proof (finish_cov lp root) as H0. unfold FinishCov, init in *. rewrite Hi in H0.
  exact (covered_app _ _ H0 (run_cov _ _ _ _ Hr)).
Qed.

(* ------------------------------------------------------------------ the tree's denotation and positions *)

Lemma in_dnulls_list p fs :
  In p (dnulls_list fs) <-> exists k x q, In (k, x) fs /\ p = k :: q /\ In q (dnulls x).
Proof.
  unfold dnulls_list. rewrite in_flat_map. split.
  - intros ([k x] & Hin & Hp). apply in_map_iff in Hp as (q & <- & Hq). exists k, x, q. auto.
  - intros (k & x & q & Hin & -> & Hq). exists (k, x). split; [assumption|]. apply in_map. exact Hq.
Qed.

Lemma den_kids_in ks : forall fs c, den_kids ks = Some fs -> In c ks -> exists x, den c = Some x /\ In (key c, x) fs.
Proof.
  induction ks as [|y r IH]; intros fs c H Hin; [destruct Hin|].
  rewrite den_kids_cons in H. destruct (den y) as [dy|] eqn:Ey; [|discriminate].
  destruct (den_kids r) as [fr|] eqn:Er; [|discriminate]. inversion H; subst.
  destruct Hin as [->|Hin]; [exists dy; split; [assumption|left; reflexivity]|].
  destruct (IH fr c eq_refl Hin) as (x & H1 & H2). exists x. split; [assumption|right; assumption].
Qed.

Lemma den_kids_in_inv ks : forall fs k x, den_kids ks = Some fs -> In (k, x) fs ->
  exists c, In c ks /\ key c = k /\ den c = Some x.
Proof.
  induction ks as [|y r IH]; intros fs k x H Hin.
  - inversion H; subst. destruct Hin.
  - rewrite den_kids_cons in H. destruct (den y) as [dy|] eqn:Ey; [|discriminate].
    destruct (den_kids r) as [fr|] eqn:Er; [|discriminate]. inversion H; subst.
    destruct Hin as [[= <- <-]|Hin]; [exists y; auto using in_eq|].
    destruct (IH fr k x eq_refl Hin) as (c & H1 & H2 & H3). exists c. auto using in_cons.
Qed.

Lemma den_kids_keys ks : forall fs, den_kids ks = Some fs -> map fst fs = map key ks.
Proof.
  induction ks as [|y r IH]; intros fs H.
  - inversion H; reflexivity.
  - rewrite den_kids_cons in H. destruct (den y) as [dy|]; [|discriminate].
    destruct (den_kids r) as [fr|] eqn:Er; [|discriminate]. inversion H; subst.
    cbn. f_equal. apply IH. reflexivity.
Qed.

Lemma nulled_root p : nulled [[]] p = true.
Proof. reflexivity. Qed.

Lemma nulled_in P q p : In q P -> prefixb q p = true -> nulled P p = true.
Proof. intros H1 H2. unfold nulled. apply existsb_exists. eauto. Qed.

Lemma nulled_inv P p : nulled P p = true -> exists q, In q P /\ prefixb q p = true.
Proof. unfold nulled. intros H. apply existsb_exists in H. exact H. Qed.

(* a position that fails or is nulled by an error lies at or below a visible null of the data *)
Lemma at_fail_cover n o m : At n o m ->
  (den m = None \/ den m = Some (DNull true)) ->
  forall d, den n = Some d -> nulled (dnulls d) o = true.
Proof.
  induction 1 as [n|n c pi m Hin Hat IH]; intros Hm d Hd.
  - destruct Hm as [Hm|Hm]; rewrite Hm in Hd; [discriminate|]. inversion Hd; subst. reflexivity.
  - destruct n as [k nn a o ks]. destruct o; cbn [kids] in Hin; try contradiction.
    rewrite den_kids_eq in Hd. destruct (den_kids ks) as [fs|] eqn:Ek.
    + inversion Hd; subst. destruct (den_kids_in ks fs c Ek Hin) as (x & Hx & Hfs).
      specialize (IH Hm x Hx). apply nulled_inv in IH as (q & Hq & Hpre).
      rewrite dnulls_kids. apply (nulled_in _ (key c :: q)).
      * apply in_dnulls_list. exists (key c), x, q. auto.
      * cbn. rewrite N.eqb_refl. exact Hpre.
    + destruct nn; [discriminate|]. inversion Hd; subst. reflexivity.
Qed.

Lemma raises_den m : raises m -> den m = None \/ den m = Some (DNull true).
Proof.
  intros H. rewrite (Bad_den m [] (Bad_here m H)). destruct (nonnull m); auto.
Qed.

Theorem raised_below_null root d o m :
  den root = Some d -> At root o m -> raises m -> nulled (dnulls d) o = true.
Proof. intros Hd Hat Hr. exact (at_fail_cover root o m Hat (raises_den m Hr) d Hd). Qed.

Lemma gooderr_below_null root d a o :
  den root = Some d -> GoodErr root a o -> nulled (dnulls d) a = true.
Proof.
  intros Hd (ma & pi & Hat & Hnn & Hb & _).
  apply (at_fail_cover root a ma Hat); [|assumption]. right. rewrite (Bad_den _ _ Hb), Hnn. reflexivity.
Qed.

Lemma prefixb_app a pi : prefixb a (a ++ pi) = true.
Proof. induction a as [|x a IH]; [reflexivity|]. cbn. rewrite N.eqb_refl. exact IH. Qed.

Lemma NoDup_fst_inj {A} (l : list (N * A)) k x y :
  NoDup (map fst l) -> In (k, x) l -> In (k, y) l -> x = y.
Proof.
  induction l as [|[k0 z] r IH]; intros Hn H1 H2; [destruct H1|].
  cbn in Hn. inversion Hn as [|? ? Hnot Hn']; subst.
  destruct H1 as [H1|H1], H2 as [H2|H2].
  - congruence.
  - inversion H1; subst. exfalso. apply Hnot. change k with (fst (k, y)). apply in_map. exact H2.
  - inversion H2; subst. exfalso. apply Hnot. change k with (fst (k, x)). apply in_map. exact H1.
  - auto.
Qed.

Lemma dnulls_antichain : forall n, wfk n -> forall d, den n = Some d ->
  forall p q, In p (dnulls d) -> In q (dnulls d) -> prefixb p q = true -> p = q.
Proof.
  apply (node_ind' (fun n => wfk n -> forall d, den n = Some d ->
    forall p q, In p (dnulls d) -> In q (dnulls d) -> prefixb p q = true -> p = q)).
  intros k nn a o ks IH Hw d Hd p q Hp Hq Hpre.
  assert (Hnull : forall b, d = DNull b -> p = q).
  { intros b ->. destruct b; cbn in Hp, Hq; [|destruct Hp].
    destruct Hp as [<-|[]], Hq as [<-|[]]. reflexivity. }
  destruct o; cbn [den] in Hd.
  - destruct nn; inversion Hd; eauto.
  - destruct nn; inversion Hd; eauto.
  - inversion Hd; subst. destruct Hp.
  - fold (den_kids ks) in Hd. destruct (den_kids ks) as [fs|] eqn:Ek; [|destruct nn; inversion Hd; eauto].
    inversion Hd; subst. rewrite dnulls_kids in Hp, Hq.
    apply in_dnulls_list in Hp as (k1 & x1 & p' & H1 & -> & Hp').
    apply in_dnulls_list in Hq as (k2 & x2 & q' & H2 & -> & Hq').
    cbn in Hpre. apply andb_true_iff in Hpre as [E Hpre]. apply N.eqb_eq in E. subst k2.
    apply wfk_kids in Hw as [Hnd Hwk].
    assert (x1 = x2) as <-.
    { apply (NoDup_fst_inj fs k1); [rewrite (den_kids_keys ks fs Ek)|..]; assumption. }
    destruct (den_kids_in_inv ks fs k1 x1 Ek H1) as (c & Hc & _ & Hdc).
    rewrite Forall_forall in IH, Hwk. f_equal. exact (IH c Hc (Hwk c Hc) x1 Hdc p' q' Hp' Hq' Hpre).
Qed.

(* ------------------------------------------------------------------ (c) errors, (d) well-formedness *)

Theorem errors_characterised lp root sched s evs :
  Exec lp root sched s evs -> forall a o, In (a, o) (errs evs) -> GoodErr root a o.
Proof.
  intros (s0 & e0 & e1 & Hi & Hr & ->) a o Hin.
  assert (H0 : Forall (ev_good root) e0).
  { destruct (finish_good lp root) as [H _]. unfold init in Hi. rewrite Hi in H. exact H. }
  assert (HR : Rep s0 root) by (pose proof (init_rep lp root) as H; rewrite Hi in H; exact H).
  assert (H1 : Forall (ev_good root) e1).
  { clear Hi H0 Hin. induction Hr as [s0|s0 pi s1 e1 sched s2 e2 Hc _ IH]; [constructor|].
    apply Forall_app. split; [exact (proj1 (complete_good _ _ _ _ _ HR Hc))|].
    apply IH. pose proof (complete_rep s0 root pi HR) as H. rewrite Hc in H. exact H. }
  assert (H : Forall (ev_good root) (e0 ++ e1)) by (apply Forall_app; split; assumption).
  rewrite Forall_forall in H. unfold errs in Hin. apply in_flat_map in Hin as (e & He & Hin).
  specialize (H e He). destruct e as [t b p q]. destruct t, b; cbn in Hin; try contradiction.
  destruct Hin as [[= <- <-]|[]]. exact H.
Qed.

Corollary reported_are_raised lp root sched s evs o :
  Exec lp root sched s evs -> In o (error_paths evs) -> exists m, At root o m /\ raises m.
Proof.
  intros He Hin. unfold error_paths in Hin. apply in_map_iff in Hin as ([a o'] & <- & Hin).
  destruct (errors_characterised _ _ _ _ _ He a o' Hin) as (ma & pi & Hat & _ & Hb & ->).
  destruct (Bad_at _ _ Hb) as (mo & H1 & H2). exists mo. split; [|assumption].
  exact (At_trans _ _ _ Hat _ _ H1).
Qed.

Lemma in_NP a evs : In a (NP evs) <-> exists o, In (a, o) (errs evs).
Proof.
  unfold nulled_positions. rewrite in_map_iff. split.
  - intros ([a' o] & <- & H). eauto.
  - intros (o & H). exists (a, o). auto.
Qed.

Theorem outermost_nulled lp root sched s evs :
  wfk root -> nonnull root = false -> Exec lp root sched s evs -> final s ->
  exists d bg, s = SDone (key root) d bg /\ den root = Some d /\
            forall p, outermost (NP evs) p <-> In p (dnulls d).
Proof.
  intros Hw Hnn He Hf.
  destruct (order_independent _ _ _ _ _ Hnn He Hf) as (d & bg & _ & _ & -> & Hd & _).
  exists d, bg. split; [reflexivity|]. split; [assumption|].
  pose proof (visible_nulls_recorded _ _ _ _ _ _ _ He) as Hrec.
  assert (Hcov : forall a, In a (NP evs) -> nulled (dnulls d) a = true).
  { intros a Ha. apply in_NP in Ha as (o & Ha). eapply gooderr_below_null; [eassumption|].
    exact (errors_characterised _ _ _ _ _ He a o Ha). }
  intros p. split.
  - intros [Hin Hmin]. apply Hcov in Hin as Hc. apply nulled_inv in Hc as (q & Hq & Hpre).
    rewrite <- (Hmin q (Hrec q Hq) Hpre). exact Hq.
  - intros Hin. split; [exact (Hrec p Hin)|]. intros q Hq Hpre.
    apply Hcov in Hq as Hc. apply nulled_inv in Hc as (r & Hr & Hrq).
    assert (r = p) as -> by (eapply (dnulls_antichain root Hw d Hd); eauto using prefixb_trans).
    apply prefixb_antisym; assumption.
Qed.

Lemma wfk_desync : forall n, wfk n -> wfk (desync n).
Proof.
  apply (node_ind' (fun n => wfk n -> wfk (desync n))). intros k nn a o ks IH Hw.
  destruct o; try exact I. cbn [desync]. apply wfk_kids in Hw as [H1 H2]. apply wfk_kids. split.
  - rewrite map_map. erewrite map_ext; [exact H1|]. intros c. apply desync_key.
  - rewrite Forall_forall in *. intros c Hc. apply in_map_iff in Hc as (c' & <- & Hc'). auto.
Qed.

Lemma sync_is_exec root s e : sync_result root = (ROk s, e) -> Exec false (desync root) [] s e /\ final s.
Proof.
  intros H. split.
  - exists s, e, []. split; [exact H|]. split; [constructor|]. rewrite app_nil_r. reflexivity.
  - unfold sync_result, init in H. pose proof (finish_weight false (desync root)) as Hw. unfold FinishW in Hw.
    rewrite H in Hw. cbn [fst weight_res] in Hw.
    pose proof (finish_spec false (desync root)) as Hs. unfold FinishSpec in Hs. rewrite H in Hs.
    unfold final. destruct (is_done s) eqn:Ed; [reflexivity|exfalso].
    apply (rep_pending s _ Hs Ed). apply pend_weight.
    pose proof (asyncs_desync root) as Ha. rewrite asyncs_eq in Ha. lia.
Qed.

Theorem outermost_nulled_sync_async lp root sched s evs ssync esync :
  wfk root -> nonnull root = false -> Exec lp root sched s evs -> final s ->
  sync_result root = (ROk ssync, esync) ->
  forall p, outermost (NP evs) p <-> outermost (NP esync) p.
Proof.
  intros Hw Hnn He Hf Hs p.
  destruct (outermost_nulled _ _ _ _ _ Hw Hnn He Hf) as (d & bg & _ & Hd & H1).
  destruct (sync_is_exec _ _ _ Hs) as [He' Hf'].
  assert (Hnn' : nonnull (desync root) = false) by (destruct root; exact Hnn).
  destruct (outermost_nulled _ _ _ _ _ (wfk_desync _ Hw) Hnn' He' Hf') as (d' & bg' & _ & Hd' & H2).
  rewrite den_desync, Hd in Hd'. inversion Hd'; subst. rewrite H1, H2. reflexivity.
Qed.

(* no null at a non-null position; the data has the shape of the tree *)
Fixpoint wfd (n : node) (d : data) : bool :=
  match n with
  | Node _ nn _ o ks =>
      match d with
      | DNull _ => negb nn
      | DLeaf _ => match o with OLeaf _ => true | _ => false end
      | DKids _ fs =>
          match o with
          | OKids _ =>
              (fix go (l : list node) (fs : list (N * data)) : bool :=
                 match l, fs with
                 | [], [] => true
                 | c :: r, (k, x) :: fr => (k =? key c) && wfd c x && go r fr
                 | _, _ => false
                 end) ks fs
          | _ => false
          end
      end
  end.

Lemma den_wfd : forall n d, den n = Some d -> wfd n d = true.
Proof.
  apply (node_ind' (fun n => forall d, den n = Some d -> wfd n d = true)).
  intros k nn a o ks IH d Hd. destruct o; cbn [den] in Hd.
  - destruct nn; inversion Hd; reflexivity.
  - destruct nn; inversion Hd; reflexivity.
  - inversion Hd; reflexivity.
  - fold (den_kids ks) in Hd. destruct (den_kids ks) as [fs|] eqn:Ek; [|destruct nn; inversion Hd; reflexivity].
    inversion Hd; subst. cbn [wfd]. clear Hd. revert fs Ek.
    induction IH as [|c r Hc _ IHr]; intros fs Ek.
    + inversion Ek; reflexivity.
    + rewrite den_kids_cons in Ek. destruct (den c) as [dc|] eqn:Ec; [|discriminate].
      destruct (den_kids r) as [fr|] eqn:Er; [|discriminate]. inversion Ek; subst.
      rewrite N.eqb_refl, (Hc dc eq_refl), (IHr fr eq_refl). reflexivity.
Qed.

Theorem response_wellformed lp root sched s evs :
  nonnull root = false -> Exec lp root sched s evs -> final s ->
  exists d bg, s = SDone (key root) d bg /\
    wfd root d = true /\
    (forall o, In o (error_paths evs) -> nulled (dnulls d) o = true) /\
    (forall p, In p (dnulls d) -> exists o, In (p, o) (errs evs) /\ prefixb p o = true) /\
    (d = DNull true <-> In [] (NP evs)).
Proof.
  intros Hnn He Hf.
  destruct (order_independent _ _ _ _ _ Hnn He Hf) as (d & bg & _ & _ & -> & Hd & _).
  exists d, bg. split; [reflexivity|]. split; [exact (den_wfd _ _ Hd)|].
  pose proof (visible_nulls_recorded _ _ _ _ _ _ _ He) as Hrec.
  split; [|split].
  - intros o Ho. destruct (reported_are_raised _ _ _ _ _ _ He Ho) as (m & H1 & H2).
    exact (raised_below_null root d o m Hd H1 H2).
  - intros p Hp. apply Hrec, in_NP in Hp as (o & Ho). exists o. split; [assumption|].
    destruct (errors_characterised _ _ _ _ _ He p o Ho) as (_ & pi & _ & _ & _ & ->). apply prefixb_app.
  - split.
    + intros ->. apply Hrec. left. reflexivity.
    + intros Hin. apply in_NP in Hin as (o & Ho).
      pose proof (gooderr_below_null root d [] o Hd (errors_characterised _ _ _ _ _ He _ _ Ho)) as Hc.
      apply nulled_inv in Hc as (q & Hq & Hpre). destruct q; [|discriminate].
      destruct d as [[|]| |kd fs]; [reflexivity|destruct Hq|destruct Hq|].
      rewrite dnulls_kids in Hq.
      apply in_dnulls_list in Hq as (? & ? & ? & _ & Hbad & _). discriminate.
Qed.

(* ------------------------------------------------------------------ the executable driver *)

Lemma exec_run : forall sched s s' evs, exec s sched = (s', evs, []) -> Run s sched s' evs.
Proof.
  induction sched as [|pi r IH]; intros s s' evs H; cbn [exec] in H.
  - inversion H; subst. constructor.
  - destruct (complete pi s) as [[[s1|o] e1]|] eqn:Ec.
    + destruct (exec s1 r) as [[s2 e2] sk] eqn:E2. inversion H; subst.
      econstructor; [exact Ec|]. apply IH. exact E2.
    + destruct (exec s r) as [[s2 e2] sk]. inversion H.
    + destruct (exec s r) as [[s2 e2] sk]. inversion H.
Qed.


(* ------------------------------------------------------------------ (e) serial fields *)

(* root field an event belongs to (none for the root position itself) *)
Definition ev_field (e : ev) : list N := match ev_pos e with k :: _ => [k] | [] => [] end.
Definition fields (evs : list ev) : list N := flat_map ev_field evs.

(* l visits the keys K in order: a block of K's first key, then a block of the next one, ... (blocks may be empty) *)
Inductive Ord : list N -> list N -> Prop :=
| Ord_nil K : Ord K []
| Ord_same k K l : Ord (k :: K) l -> Ord (k :: K) (k :: l)
| Ord_next k K l : Ord K l -> Ord (k :: K) l.

Lemma fields_app a b : fields (a ++ b) = fields a ++ fields b.
Proof. apply flat_map_app. Qed.

Lemma fields_shift k evs : fields (shift k evs) = repeat k (length evs).
Proof.
  induction evs as [|e r IH]; [reflexivity|]. cbn [shift map length repeat fields flat_map].
  fold (shift k r). fold (fields (shift k r)). rewrite IH. destruct e as [t b p o]. destruct t; reflexivity.
Qed.

Lemma fields_bg evs : fields (map to_bg evs) = fields evs.
Proof.
  induction evs as [|e r IH]; [reflexivity|]. cbn [map fields flat_map]. fold (fields (map to_bg r)).
  rewrite IH. destruct e; reflexivity.
Qed.

Definition all_settled (l : list st) : bool := forallb settled l.

Lemma settled_pend s : settled s = true -> pend s = [].
Proof. unfold settled. intros H. apply andb_true_iff in H as [_ H]. destruct (pend s); [reflexivity|discriminate]. Qed.

Lemma settled_done s : settled s = true -> is_done s = true.
Proof. unfold settled. intros H. apply andb_true_iff in H as [H _]. exact H. Qed.

Lemma all_settled_pend l : all_settled l = true -> pend_list l = [].
Proof.
  induction l as [|c r IH]; [reflexivity|]. intros H.
  change (settled c && all_settled r = true) in H. apply andb_true_iff in H as [H1 H2].
  rewrite pend_list_cons, (settled_pend _ H1), (IH H2). reflexivity.
Qed.

Lemma all_settled_live l : all_settled l = true -> live_list l = [].
Proof.
  induction l as [|c r IH]; [reflexivity|]. intros H.
  change (settled c && all_settled r = true) in H. apply andb_true_iff in H as [H1 H2].
  unfold live_list in *. cbn [flat_map]. rewrite (IH H2). apply settled_done in H1. destruct c; try discriminate. reflexivity.
Qed.

Lemma all_settled_skel l : all_settled l = true -> map skel l = l.
Proof.
  induction l as [|c r IH]; [reflexivity|]. intros H.
  change (settled c && all_settled r = true) in H. apply andb_true_iff in H as [H1 H2].
  cbn [map]. rewrite (IH H2). apply settled_done in H1. destruct c; try discriminate. reflexivity.
Qed.

Lemma all_settled_app a b : all_settled (a ++ b) = all_settled a && all_settled b.
Proof. apply forallb_app. Qed.

Lemma all_settled_in l x : all_settled l = true -> In x l -> settled x = true.
Proof. unfold all_settled. rewrite forallb_forall. auto. Qed.

Lemma Ord_nil_inv l : Ord [] l -> l = [].
Proof. inversion 1; reflexivity. Qed.

Lemma Ord_weak K1 K2 l : Ord K2 l -> Ord (K1 ++ K2) l.
Proof. intros H. induction K1 as [|k K1 IH]; [exact H|]. cbn. apply Ord_next. exact IH. Qed.

Lemma Ord_app_r K l : Ord K l -> forall K', Ord (K ++ K') l.
Proof. induction 1; intros K'; cbn; [constructor|apply Ord_same; apply IHOrd|apply Ord_next; apply IHOrd]. Qed.

Lemma Ord_repeat c K l n : Ord (c :: K) l -> Ord (c :: K) (repeat c n ++ l).
Proof. intros H. induction n as [|n IH]; [exact H|]. cbn. apply Ord_same. exact IH. Qed.

Lemma Ord_repeat_only c K n : Ord (c :: K) (repeat c n).
Proof. rewrite <- (app_nil_r (repeat c n)). apply Ord_repeat. constructor. Qed.

Lemma Ord_concat X l1 : Ord X l1 -> forall A c K2 l2,
  X = A ++ [c] -> Ord (c :: K2) l2 -> Ord (A ++ c :: K2) (l1 ++ l2).
Proof.
  induction 1 as [K|k K l H IH|k K l H IH]; intros A c K2 l2 HX H2.
  - cbn. apply Ord_weak. exact H2.
  - destruct A as [|a A]; cbn in HX; inversion HX; subst.
    + cbn. apply Ord_same. exact (IH [] c K2 l2 eq_refl H2).
    + cbn. apply Ord_same. exact (IH (a :: A) c K2 l2 eq_refl H2).
  - destruct A as [|a A]; cbn in HX; inversion HX; subst.
    + apply Ord_nil_inv in H. subst. exact H2.
    + cbn. apply Ord_next. exact (IH A c K2 l2 eq_refl H2).
Qed.

(* all pending awaitables lie below the child c *)
Definition under (c : N) (ps : list pos) : Prop := forall q, In q ps -> exists q', q = c :: q'.

Lemma call_fields c e1 : fields (ECall [c] :: shift c e1) = repeat c (S (length e1)).
Proof.
  change (ECall [c] :: shift c e1) with ([ECall [c]] ++ shift c e1).
  rewrite fields_app, fields_shift. reflexivity.
Qed.

Lemma start_from_ser lp : forall rest acc,
  match start_from lp KSer acc rest with
  | (KOk sts rest', evs) =>
      exists ks2 sts2, rest = ks2 ++ rest' /\ sts = acc ++ sts2 /\ map skey sts2 = map key ks2 /\
        Ord (map key ks2) (fields evs) /\
        (all_settled (removelast acc) = true -> all_settled (removelast sts) = true) /\
        (rest' <> [] -> all_settled sts = false)
  | (KFail _ zs, evs) =>
      exists ks2 c r, rest = ks2 ++ c :: r /\ Ord (map key ks2 ++ [key c]) (fields evs) /\ under (key c) (pend_list zs)
  end.
Proof.
  induction rest as [|c r IH]; intros acc; cbn [start_from].
  - exists [], []. cbn [app map]. rewrite app_nil_r. repeat split; auto; [constructor|intros H; exfalso; apply H; reflexivity].
  - unfold blocked. fold (all_settled acc). destruct (all_settled acc) eqn:Ea; cbn [negb].
    + destruct (start lp c) as [[s|e zs] e1] eqn:Es.
      * specialize (IH (acc ++ [s])). destruct (start_from lp KSer (acc ++ [s]) r) as [[sts rest'|e zs] e2].
        -- destruct IH as (ks2 & sts2 & -> & -> & Hk & Ho & Hd & Hne).
           exists (c :: ks2), (s :: sts2). rewrite <- app_assoc. repeat split; auto.
           ++ cbn [map]. rewrite Hk, (start_key _ _ _ _ Es). reflexivity.
           ++ rewrite fields_app, call_fields. cbn [map]. apply Ord_repeat. apply Ord_next. exact Ho.
           ++ intros _. rewrite app_assoc. apply Hd. rewrite removelast_last. exact Ea.
           ++ rewrite app_assoc. exact Hne.
        -- destruct IH as (ks2 & c' & r' & -> & Ho & Hu). exists (c :: ks2), c', r'.
           split; [reflexivity|]. split; [|exact Hu].
           rewrite fields_app, call_fields. cbn [map app]. apply Ord_repeat. apply Ord_next. exact Ho.
      * exists [], c, r. split; [reflexivity|]. split.
        -- rewrite (all_settled_live _ Ea). cbn [map]. rewrite app_nil_r, call_fields. cbn [map app].
           apply Ord_repeat_only.
        -- unfold abandon. destruct lp; [|intros q []]. intros q Hq. unfold pend_list in Hq.
           rewrite flat_map_app, in_app_iff in Hq. fold (pend_list acc) in Hq.
           rewrite (all_settled_pend _ Ea) in Hq. destruct Hq as [[]|Hq]. cbn in Hq. rewrite app_nil_r in Hq.
           apply in_map_iff in Hq as (q' & <- & _). eauto.
    + exists [], []. cbn [app map]. rewrite app_nil_r. repeat split; auto. constructor.
Qed.

Lemma complete_key' s pi s' e : complete pi s = Some (ROk s', e) -> skey s' = skey s.
Proof.
  destruct s as [n|k d bg|k nn kd sts rest]; intros H.
  - destruct pi; cbn in H; [|discriminate]. destruct (finish true n) as [r0 e0] eqn:Ef.
    inversion H; subst. exact (finish_key _ _ _ _ Ef).
  - rewrite complete_done in H. destruct pi as [|c pi']; [discriminate|].
    destruct (complete_kids c pi' bg) as [|pre rx post ex]; [discriminate|]. inversion H; reflexivity.
  - rewrite complete_run in H. destruct pi as [|c pi']; [discriminate|].
    destruct (complete_kids c pi' sts) as [|pre rx post ex]; [discriminate|].
    assert (Hh : forall e0 zs0 evs0, handle nn k e0 zs0 evs0 = (ROk s', e) -> skey s' = k).
    { unfold handle. intros e0 zs0 evs0. destruct nn; intros [= <- _]; reflexivity. }
    destruct rx as [x'|o zs]; [|inversion H; eauto].
    destruct (start_from true kd (pre ++ x' :: post) rest) as [[sts' rest'|o zs] e2]; cbn [finish_kids] in H; [|inversion H; eauto].
    inversion H; subst. unfold pack. destruct rest'; [destruct (all_done sts')|]; reflexivity.
Qed.

Lemma snoc_split {A} (pre : list A) x pre0 x0 post :
  pre ++ [x] = pre0 ++ x0 :: post -> (post = [] /\ pre0 = pre /\ x0 = x) \/ In x0 pre.
Proof.
  destruct post as [|y post'] using rev_ind; intros H.
  - apply app_inj_tail in H as [-> ->]. auto.
  - clear IHpost'. right. rewrite app_comm_cons, app_assoc in H. apply app_inj_tail in H as [-> _].
    apply in_elt.
Qed.

(* a serial node at work: the current (last started) field is c, the fields K2 are not started,
   the earlier fields are done and nothing is pending below them *)
Definition SerInv (c : N) (K2 : list N) (s : st) : Prop :=
  exists k nn pre x rest,
    s = SRun k nn KSer (pre ++ [x]) rest /\ all_settled pre = true /\ skey x = c /\ map key rest = K2.

(* a finished serial node: whatever is still pending (background work) lies below field c *)
Definition DoneInv (c : N) (s : st) : Prop := is_done s = true /\ under c (pend s).

Lemma fields_err_root evs o : fields (evs ++ [EErr [] o]) = fields evs.
Proof. rewrite fields_app. cbn. apply app_nil_r. Qed.

Lemma handle_ok nn k e zs evs s1 e1 :
  handle nn k e zs evs = (ROk s1, e1) -> s1 = SDone k (DNull true) zs /\ fields e1 = fields evs.
Proof.
  unfold handle. destruct nn; [discriminate|]. intros [= <- <-]. split; [reflexivity|apply fields_err_root].
Qed.

Lemma under_app c a b : under c a -> under c b -> under c (a ++ b).
Proof. intros Ha Hb q Hq. apply in_app_iff in Hq as [Hq|Hq]; auto. Qed.

Lemma under_nil c : under c [].
Proof. intros q []. Qed.

Lemma under_map c l : under c (map (cons c) l).
Proof. intros q Hq. apply in_map_iff in Hq as (q' & <- & _). eauto. Qed.

Lemma pend_list_app a b : pend_list (a ++ b) = pend_list a ++ pend_list b.
Proof. apply flat_map_app. Qed.

Lemma pend_list_snoc pre x : all_settled pre = true -> under (skey x) (pend_list (pre ++ [x])).
Proof.
  intros H. rewrite pend_list_app, (all_settled_pend _ H), pend_list_cons. cbn [app pend_list flat_map].
  rewrite app_nil_r. apply under_map.
Qed.

Lemma done_step c s pi s1 e1 :
  DoneInv c s -> complete pi s = Some (ROk s1, e1) ->
  DoneInv c s1 /\ fields e1 = repeat c (length e1).
Proof.
  intros [Hd Hu] Hc. destruct s as [n|k d bg|k nn kd sts rest]; try discriminate.
  pose proof (complete_pending _ _ _ _ Hc) as Hin. destruct (Hu _ Hin) as (pi' & ->).
  rewrite complete_done in Hc.
  destruct (complete_kids c pi' bg) as [|pre rx post ex] eqn:Ek; [discriminate|].
  apply complete_kids_spec in Ek as (x & -> & Hk & Hcx). inversion Hc; subst. clear Hc.
  split; [split; [reflexivity|]|].
  - rewrite pend_done in *. rewrite pend_list_app, pend_list_cons in *.
    intros q Hq. rewrite !in_app_iff in Hq. destruct Hq as [Hq|[Hq|Hq]].
    + apply Hu. rewrite !in_app_iff. auto.
    + assert (Hs : skey (settle_res (skey x) rx) = skey x).
      { destruct rx; [exact (complete_key' _ _ _ _ Hcx)|reflexivity]. }
      rewrite Hs in Hq. apply in_map_iff in Hq as (q' & <- & _). eauto.
    + apply Hu. rewrite !in_app_iff. auto.
  - rewrite fields_bg, fields_shift. unfold shift. rewrite !map_length. reflexivity.
Qed.

Lemma ser_step c K2 s pi s1 e1 :
  SerInv c K2 s -> complete pi s = Some (ROk s1, e1) ->
  exists M c' K2', c :: K2 = M ++ c' :: K2' /\ (SerInv c' K2' s1 \/ DoneInv c' s1) /\ Ord (M ++ [c']) (fields e1).
Proof.
  intros (k & nn & pre & x & rest & -> & Hpre & <- & <-) Hc.
  rewrite complete_run in Hc. destruct pi as [|c0 pi']; [discriminate|].
  destruct (complete_kids c0 pi' (pre ++ [x])) as [|pre0 rx post ex] eqn:Ek; [discriminate|].
  apply complete_kids_spec in Ek as (x0 & Hsplit & <- & Hcx).
  apply snoc_split in Hsplit as [(-> & -> & ->)|Hin].
  2:{ apply (all_settled_in _ _ Hpre) in Hin. apply settled_pend in Hin.
      apply complete_pending in Hcx. rewrite Hin in Hcx. destruct Hcx. }
  destruct rx as [x'|o zs].
  - pose proof (complete_key' _ _ _ _ Hcx) as Hkx.
    pose proof (start_from_ser true rest (pre ++ [x'])) as Hs.
    destruct (start_from true KSer (pre ++ [x']) rest) as [[sts' rest'|o zs] e2]; cbn [finish_kids] in Hc.
    + destruct Hs as (ks2 & sts2 & -> & -> & Hk & Ho & Hd & _).
      assert (Hp : pack k nn KSer ((pre ++ [x']) ++ sts2) rest' = s1) by congruence.
      assert (He : shift (skey x) ex ++ e2 = e1) by congruence. clear Hc. subst e1.
      assert (Hord : Ord (skey x :: map key ks2) (fields (shift (skey x) ex ++ e2))).
      { rewrite fields_app, fields_shift. apply Ord_repeat. apply Ord_next. exact Ho. }
      assert (Hall : all_settled (removelast ((pre ++ [x']) ++ sts2)) = true)
        by (apply Hd; rewrite removelast_last; exact Hpre).
      destruct sts2 as [|z sts2'] using rev_ind.
      * destruct ks2; [|discriminate]. cbn [app map] in *. rewrite app_nil_r in *.
        exists [], (skey x), (map key rest'). split; [reflexivity|]. split; [|exact Hord].
        unfold pack in Hp. destruct rest' as [|r0 rest'].
        -- destruct (all_done (pre ++ [x'])); subst s1.
           ++ right. split; [reflexivity|]. rewrite pend_done, <- Hkx. apply pend_list_snoc. exact Hpre.
           ++ left. exists k, nn, pre, x', []. auto.
        -- subst s1. left. exists k, nn, pre, x', (r0 :: rest'). auto.
      * clear IHsts2'. rewrite map_app in Hk. cbn [map] in Hk.
        destruct ks2 as [|cz ks2'] using rev_ind; [destruct (map skey sts2'); discriminate|]. clear IHks2'.
        rewrite map_app in Hk. cbn [map] in Hk. apply app_inj_tail in Hk as [Hk1 Hk2].
        rewrite app_assoc, removelast_last in Hall.
        exists (skey x :: map key ks2'), (key cz), (map key rest'). split; [|split].
        -- rewrite <- app_assoc, !map_app. cbn [map app]. reflexivity.
        -- unfold pack in Hp. rewrite app_assoc in Hp.
           assert (Hrun : s1 = SRun k nn KSer (((pre ++ [x']) ++ sts2') ++ [z]) rest' -> SerInv (key cz) (map key rest') s1).
           { intros ->. exists k, nn, ((pre ++ [x']) ++ sts2'), z, rest'. auto. }
           destruct rest' as [|r0 rest'].
           ++ destruct (all_done (((pre ++ [x']) ++ sts2') ++ [z])); subst s1; [|left; apply Hrun; reflexivity].
              right. split; [reflexivity|]. rewrite pend_done, <- Hk2. apply pend_list_snoc. exact Hall.
           ++ left. apply Hrun. auto.
        -- rewrite map_app in Hord. cbn [map] in Hord. exact Hord.
    + destruct Hs as (ks2 & c' & r' & -> & Ho & Hu).
      assert (Hc' : handle nn k o zs (shift (skey x) ex ++ e2) = (ROk s1, e1)) by congruence.
      apply handle_ok in Hc' as [-> He'].
      exists (skey x :: map key ks2), (key c'), (map key r'). split; [|split].
      * rewrite map_app. cbn [map]. reflexivity.
      * right. split; [reflexivity|]. rewrite pend_done. exact Hu.
      * rewrite He', fields_app, fields_shift. cbn [app]. apply Ord_repeat. apply Ord_next. exact Ho.
  - assert (Hc' : handle nn k (skey x :: o) (map skel pre ++ ghost (skey x) zs :: map skel [])
                    (shift (skey x) ex ++ map ECancel (live_list (pre ++ []))) = (ROk s1, e1)) by congruence.
    apply handle_ok in Hc' as [-> He'].
    exists [], (skey x), (map key rest). split; [reflexivity|]. split.
    + right. split; [reflexivity|]. rewrite pend_done, (all_settled_skel _ Hpre). cbn [map].
      change (ghost (skey x) zs) with (SDone (skey x) (DNull true) zs).
      exact (pend_list_snoc pre (SDone (skey x) (DNull true) zs) Hpre).
    + rewrite app_nil_r, (all_settled_live _ Hpre) in He'. cbn [map] in He'. rewrite app_nil_r in He'.
      rewrite He', fields_shift. cbn [app]. apply Ord_repeat_only.
Qed.

Lemma run_ser s sched s' evs : Run s sched s' evs -> forall c K2, SerInv c K2 s \/ DoneInv c s ->
  Ord (c :: K2) (fields evs) /\ exists c' K2', SerInv c' K2' s' \/ DoneInv c' s'.
Proof.
  induction 1 as [s|s pi s1 e1 sched s2 e2 Hc Hr IH]; intros c K2 Hi.
  - split; [constructor|]. eauto.
  - rewrite fields_app. destruct Hi as [Hi|Hi].
    + destruct (ser_step _ _ _ _ _ _ Hi Hc) as (M & c' & K2' & HK & Hi' & Ho).
      destruct (IH c' K2' Hi') as [Ho' Hfin]. split; [|exact Hfin].
      rewrite HK. exact (Ord_concat _ _ Ho M c' K2' _ eq_refl Ho').
    + destruct (done_step _ _ _ _ _ Hi Hc) as [Hi' Hf].
      destruct (IH c K2 (or_intror Hi')) as [Ho' Hfin]. split; [|exact Hfin].
      rewrite Hf. apply Ord_repeat. exact Ho'.
Qed.

Lemma run_nostep s sched s' evs : Run s sched s' evs -> pend s = [] -> evs = [] /\ s' = s.
Proof.
  destruct 1 as [s|s pi s1 e1 sched s2 e2 Hc _]; intros H; [auto|].
  apply complete_pending in Hc. rewrite H in Hc. destruct Hc.
Qed.

(* the state a serial root is in after its synchronous part *)
Lemma init_ser lp k nn a ks s0 e0 :
  init lp (Node k nn a (OKids KSer) ks) = (ROk s0, e0) ->
  (pend s0 = [] /\ Ord (map key ks) (fields e0)) \/
  exists M c K2, map key ks = M ++ c :: K2 /\ (SerInv c K2 s0 \/ DoneInv c s0) /\ Ord (M ++ [c]) (fields e0).
Proof.
  unfold init. rewrite finish_eq. intros Hi.
  pose proof (start_from_ser lp ks []) as Hs.
  destruct (start_from lp KSer [] ks) as [[sts rest'|o zs] e2]; cbn [finish_kids] in Hi.
  - destruct Hs as (ks2 & sts2 & -> & -> & Hk & Ho & Hd & Hne). cbn [app] in *. inversion Hi; subst. clear Hi.
    specialize (Hd eq_refl).
    destruct sts2 as [|z sts2'] using rev_ind.
    + left. destruct ks2; [|discriminate]. cbn [app map] in *. unfold pack. destruct rest' as [|r0 rest'].
      * cbn. split; [reflexivity|exact Ho].
      * exfalso. assert (all_settled (@nil st) = false) by (apply Hne; discriminate). discriminate.
    + right. clear IHsts2'. rewrite map_app in Hk. cbn [map] in Hk.
      destruct ks2 as [|cz ks2'] using rev_ind; [destruct (map skey sts2'); discriminate|]. clear IHks2'.
      rewrite map_app in Hk. cbn [map] in Hk. apply app_inj_tail in Hk as [Hk1 Hk2].
      rewrite removelast_last in Hd.
      exists (map key ks2'), (key cz), (map key rest'). split; [|split].
      * rewrite <- app_assoc, !map_app. reflexivity.
      * unfold pack. destruct rest' as [|r0 rest'].
        -- destruct (all_done (sts2' ++ [z])).
           ++ right. split; [reflexivity|]. rewrite pend_done, <- Hk2. apply pend_list_snoc. exact Hd.
           ++ left. exists k, nn, sts2', z, []. auto.
        -- left. exists k, nn, sts2', z, (r0 :: rest'). auto.
      * rewrite map_app in Ho. exact Ho.
  - destruct Hs as (ks2 & c' & r' & -> & Ho & Hu).
    assert (Hh : handle nn k o zs e2 = (ROk s0, e0)) by exact Hi.
    apply handle_ok in Hh as [-> Hf]. right.
    exists (map key ks2), (key c'), (map key r'). split; [|split].
    + rewrite map_app. reflexivity.
    + right. split; [reflexivity|]. rewrite pend_done. exact Hu.
    + rewrite Hf. exact Ho.
Qed.

(* the events of a serial root are grouped by root field, in document order: every event of field i
   (resolver invocations, completions, recorded errors, cancellations, abandoned awaitables and everything the
   background work below the field does) precedes every event of field i+1 *)
Theorem serial_order lp k nn a ks sched s evs :
  Exec lp (Node k nn a (OKids KSer) ks) sched s evs -> Ord (map key ks) (fields evs).
Proof.
  intros (s0 & e0 & e1 & Hi & Hr & ->). rewrite fields_app.
  destruct (init_ser _ _ _ _ _ _ _ Hi) as [[Hp Ho]|(M & c & K2 & -> & Hinv & Ho)].
  - destruct (run_nostep _ _ _ _ Hr Hp) as [-> _]. rewrite app_nil_r. exact Ho.
  - destruct (run_ser _ _ _ _ Hr c K2 Hinv) as [Ho' _].
    exact (Ord_concat _ _ Ho M c K2 _ eq_refl Ho').
Qed.

Definition before (K : list N) (x y : N) : Prop := exists K1 K2 K3, K = K1 ++ x :: K2 ++ y :: K3.

Lemma Ord_in K l : Ord K l -> forall x, In x l -> In x K.
Proof.
  induction 1 as [K|k K l H IH|k K l H IH]; intros x Hx.
  - destruct Hx.
  - destruct Hx as [<-|Hx]; [left; reflexivity|auto].
  - right. auto.
Qed.

Lemma Ord_before K l : Ord K l -> forall l1 x l2 y l3, l = l1 ++ x :: l2 ++ y :: l3 -> x = y \/ before K x y.
Proof.
  induction 1 as [K|k K l H IH|k K l H IH]; intros l1 x l2 y l3 Hl.
  - destruct l1; discriminate.
  - destruct l1 as [|a l1]; cbn in Hl; inversion Hl; subst.
    + assert (Hy : In y (x :: K)) by (apply (Ord_in _ _ H); apply in_or_app; right; left; reflexivity).
      destruct Hy as [->|Hy]; [left; reflexivity|]. right.
      apply in_split in Hy as (K2 & K3 & ->). exists [], K2, K3. reflexivity.
    + eapply IH. reflexivity.
  - destruct (IH _ _ _ _ _ Hl) as [->|(K1 & K2 & K3 & ->)]; [left; reflexivity|].
    right. exists (k :: K1), K2, K3. reflexivity.
Qed.

(* an event of one root field is never followed by an event of a root field that comes earlier in the document
   (for distinct response keys [before] is a strict order) *)
Corollary serial_no_overlap lp k nn a ks sched s evs l1 x l2 y l3 :
  Exec lp (Node k nn a (OKids KSer) ks) sched s evs ->
  fields evs = l1 ++ x :: l2 ++ y :: l3 -> x = y \/ before (map key ks) x y.
Proof. intros He Hf. exact (Ord_before _ _ (serial_order _ _ _ _ _ _ _ _ He) _ _ _ _ _ Hf). Qed.

(* at most one root field is at work: every reachable state of a serial root is done, or consists of fields that are
   done with nothing pending below them, ONE field at work (running, or done with background work still pending below
   it) and fields that have not been started *)
Theorem serial_one_at_a_time lp k nn a ks sched s evs :
  Exec lp (Node k nn a (OKids KSer) ks) sched s evs ->
  is_done s = true \/
  exists pre x rest, s = SRun k nn KSer (pre ++ [x]) rest /\ all_settled pre = true /\
                     exists ks1, ks = ks1 ++ rest /\ map skey (pre ++ [x]) = map key ks1.
Proof.
  intros He. pose proof (exec_rep _ _ _ _ _ He) as HR.
  assert (H : is_done s = true \/ exists c K2, SerInv c K2 s).
  { destruct He as (s0 & e0 & e1 & Hi & Hr & ->).
    destruct (init_ser _ _ _ _ _ _ _ Hi) as [[Hp Ho]|(M & c & K2 & _ & Hinv & _)].
    - destruct (run_nostep _ _ _ _ Hr Hp) as [_ ->].
      pose proof (init_rep lp (Node k nn a (OKids KSer) ks)) as HR0. rewrite Hi in HR0.
      destruct (is_done s0) eqn:Ed; [left; reflexivity|]. exfalso. exact (rep_pending _ _ HR0 Ed Hp).
    - destruct (run_ser _ _ _ _ Hr c K2 Hinv) as [_ (c' & K2' & [Hs|[Hd _]])]; eauto. }
  destruct H as [H|(c & K2 & k' & nn' & pre & x & rest & -> & Hpre & _)]; [left; exact H|right].
  remember (Node k nn a (OKids KSer) ks) as root eqn:Er.
  remember (SRun k' nn' KSer (pre ++ [x]) rest) as s eqn:Es.
  destruct HR as [n|n d bg Hd|k0 nn0 a0 kd0 ks1 rest0 sts HF Hnd]; try discriminate.
  inversion Er; inversion Es; subst.
  exists pre, x, rest. split; [reflexivity|]. split; [exact Hpre|].
  exists ks1. split; [reflexivity|apply rep_keys; exact HF].
Qed.
