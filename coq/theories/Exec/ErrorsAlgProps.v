From GV Require Import Base.Prelude Exec.ErrorsAlg.

Lemma prefixb_refl p : prefixb p p = true.
Proof. induction p as [|x p IH]; cbn; [reflexivity|]. rewrite N.eqb_refl. exact IH. Qed.

Lemma prefixb_trans a b c : prefixb a b = true -> prefixb b c = true -> prefixb a c = true.
Proof.
  revert b c; induction a as [|x a IH]; intros b c H1 H2; [reflexivity|].
  destruct b as [|y b]; [discriminate|]. destruct c as [|z c]; [discriminate|].
  cbn in *. apply andb_true_iff in H1 as [E1 H1]. apply andb_true_iff in H2 as [E2 H2].
  apply N.eqb_eq in E1, E2. subst. rewrite N.eqb_refl. cbn. eapply IH; eauto.
Qed.

Lemma prefixb_antisym a b : prefixb a b = true -> prefixb b a = true -> a = b.
Proof.
  revert b; induction a as [|x a IH]; intros [|y b] H1 H2; cbn in *; try discriminate; [reflexivity|].
  apply andb_true_iff in H1 as [E1 H1]. apply andb_true_iff in H2 as [_ H2].
  apply N.eqb_eq in E1. subst. f_equal. apply IH; assumption.
Qed.

Lemma nulled_mono P a p : nulled P p = true -> nulled (a :: P) p = true.
Proof. unfold nulled. cbn. intros ->. apply orb_true_r. Qed.

Lemma nulled_below P a p : nulled P a = true -> prefixb a p = true -> nulled P p = true.
Proof.
  unfold nulled. intros H Hp. apply existsb_exists in H as (q & Hin & Hq).
  apply existsb_exists. exists q. split; [exact Hin|]. eapply prefixb_trans; eauto.
Qed.

(* invariant of run_from: positions only grow; everything added so far is covered *)
Lemma run_from_covers adds : forall st i p,
  (nulled (fst st) p = true \/ In p adds) -> nulled (fst (run_from st i adds)) p = true.
Proof.
  induction adds as [|a r IH]; intros st i p H; cbn.
  - destruct H as [H|[]]. exact H.
  - apply IH. unfold add. destruct H as [H|[->|H]].
    + left. destruct (nulled (fst st) a); [exact H|apply nulled_mono; exact H].
    + left. destruct (nulled (fst st) p) eqn:E; [exact E|].
      cbn. unfold nulled. cbn. rewrite prefixb_refl. reflexivity.
    + right. exact H.
Qed.

Theorem covered adds p : In p adds -> nulled (kept_positions adds) p = true.
Proof. intros H. apply run_from_covers. right. exact H. Qed.

Lemma run_from_subset adds : forall st i q,
  In q (fst (run_from st i adds)) -> In q (fst st) \/ In q adds.
Proof.
  induction adds as [|a r IH]; intros st i q H; cbn in *; [left; exact H|].
  apply IH in H as [H|H]; [|right; right; exact H].
  unfold add in H. destruct (nulled (fst st) a); [left; exact H|].
  cbn in H. destruct H as [<-|H]; [right; left; reflexivity|left; exact H].
Qed.

Theorem kept_subset adds q : In q (kept_positions adds) -> In q adds.
Proof. intros H. apply run_from_subset in H as [[]|H]. exact H. Qed.

(* outermost (minimal w.r.t. the prefix order) positions *)
Definition outermost (P : list pos) (p : pos) : Prop :=
  In p P /\ forall q, In q P -> prefixb q p = true -> q = p.

Theorem outermost_kept adds p : outermost adds p <-> outermost (kept_positions adds) p.
Proof.
  split; intros [Hin Hmin].
  - split.
    + (* p is covered by some kept q <= p; q is an attempted add, so q = p *)
      pose proof (covered adds p Hin) as Hc. unfold nulled in Hc.
      apply existsb_exists in Hc as (q & Hq & Hpre).
      rewrite (Hmin q (kept_subset adds q Hq) Hpre) in Hq. exact Hq.
    + intros q Hq Hpre. apply Hmin; [apply kept_subset; exact Hq|exact Hpre].
  - split; [apply kept_subset; exact Hin|].
    intros q Hq Hpre.
    pose proof (covered adds q Hq) as Hc. unfold nulled in Hc.
    apply existsb_exists in Hc as (k & Hk & Hkq).
    assert (k = p) as -> by (apply Hmin; [exact Hk|eapply prefixb_trans; eauto]).
    apply prefixb_antisym; assumption.
Qed.

(* the outermost nulled positions do not depend on the order in which errors arrive,
   nor on dropping (cancelling) attempts that lie strictly below another attempt *)
Theorem outermost_order_independent adds adds' p :
  (forall q, In q adds' -> In q adds) ->
  (forall q, outermost adds q -> In q adds') ->
  (outermost (kept_positions adds) p <-> outermost (kept_positions adds') p).
Proof.
  intros Hsub Hkeep. rewrite <- !outermost_kept. split; intros [Hin Hmin].
  - split; [apply Hkeep; split; assumption|]. intros q Hq. apply Hmin. apply Hsub. exact Hq.
  - assert (Hex : exists m, outermost adds m /\ prefixb m p = true).
    { (* a minimal element below p exists among adds: induct on the length of p *)
      assert (G : forall n (x : pos), (length x <= n)%nat -> In x adds ->
                  exists m, outermost adds m /\ prefixb m x = true).
      { induction n as [|n IHn]; intros x Hl Hx.
        - destruct x; [|cbn in Hl; lia]. exists []. split; [split; [exact Hx|]|reflexivity].
          intros q _ Hq. destruct q; [reflexivity|discriminate].
        - destruct (existsb (fun q => prefixb q x && negb (prefixb x q)) adds) eqn:E.
          + apply existsb_exists in E as (q & Hq & Hc). apply andb_true_iff in Hc as [H1 H2].
            apply negb_true_iff in H2.
            assert (length q < length x)%nat.
            { clear -H1 H2. revert x H1 H2. induction q as [|a q IH]; intros [|b x] H1 H2; cbn in *; try discriminate.
              - lia.
              - apply andb_true_iff in H1 as [E H1]. apply N.eqb_eq in E. subst.
                rewrite N.eqb_refl in H2. cbn in H2. specialize (IH x H1 H2). lia. }
            destruct (IHn q ltac:(lia) Hq) as (m & Hm & Hmq).
            exists m. split; [exact Hm|eapply prefixb_trans; eauto].
          + exists x. split; [|apply prefixb_refl]. split; [exact Hx|].
            intros q Hq Hpre. apply prefixb_antisym; [exact Hpre|].
            destruct (prefixb x q) eqn:Exq; [reflexivity|].
            assert (existsb (fun q => prefixb q x && negb (prefixb x q)) adds = true); [|congruence].
            apply existsb_exists. exists q. split; [exact Hq|]. rewrite Hpre, Exq. reflexivity. }
      apply (G (length p) p (le_n _)). apply Hsub. exact Hin. }
    destruct Hex as (m & Hm & Hmp).
    assert (m = p) as -> by (apply Hmin; [apply Hkeep; exact Hm|exact Hmp]).
    exact Hm.
Qed.

Corollary outermost_permutation adds adds' p :
  (forall q, In q adds <-> In q adds') ->
  (outermost (kept_positions adds) p <-> outermost (kept_positions adds') p).
Proof.
  intros H. apply outermost_order_independent.
  - intros q. apply H.
  - intros q [Hq _]. apply H. exact Hq.
Qed.
