(* Wire codec of the execution model (used by Run/RunExec.v only).
   The wire carries a generic tree:  tag, #ints, ints..., #kids, kids...
   Typed readers are total (garbage in, default out); the Python side is harness/gen_exec.py. *)
From GV Require Import Base.Prelude Exec.Value Exec.Schema Exec.Spec.

Inductive wtree := W (tag : N) (ints : list N) (kids : list wtree).

Fixpoint dec_tree (fuel : nat) (l : list N) : option (wtree * list N) :=
  match fuel with
  | O => None
  | S f =>
    match l with
    | tag :: ni :: r =>
      let ints := firstn (N.to_nat ni) r in
      match skipn (N.to_nat ni) r with
      | nk :: r' =>
        match
          (fix dk (cnt : nat) (l : list N) : option (list wtree * list N) :=
             match cnt with
             | O => Some ([], l)
             | S c =>
               match dec_tree f l with
               | Some (t, l') =>
                 match dk c l' with
                 | Some (ts, l'') => Some (t :: ts, l'')
                 | None => None
                 end
               | None => None
               end
             end) (N.to_nat nk) r'
        with
        | Some (ks, rest) => Some (W tag ints ks, rest)
        | None => None
        end
      | [] => None
      end
    | _ => None
    end
  end.

Fixpoint enc_tree (t : wtree) : list N :=
  match t with
  | W tag ints kids =>
    tag :: N.of_nat (length ints) :: ints ++ N.of_nat (length kids) :: flat_map enc_tree kids
  end.

(* ---- readers ---- *)
Definition w_tag (w : wtree) : N := match w with W t _ _ => t end.
Definition w_ints (w : wtree) : list N := match w with W _ i _ => i end.
Definition w_kids (w : wtree) : list wtree := match w with W _ _ k => k end.
Definition w_nil : wtree := W 0 [] [].
Definition kid (i : nat) (w : wtree) : wtree := nth i (w_kids w) w_nil.

Definition to_str (w : wtree) : str := w_ints w.
Definition to_Z (l : list N) : Z :=
  match l with
  | sg :: m :: _ => if sg =? 0 then Z.of_N m else Z.opp (Z.of_N m)
  | _ => 0%Z
  end.
Definition to_opt {A} (f : wtree -> A) (w : wtree) : option A :=
  match w with W 21 _ (x :: _) => Some (f x) | _ => None end.

Fixpoint to_ty (w : wtree) : ty :=
  match w with
  | W 2 _ (t :: _) => TList (to_ty t)
  | W 3 _ (t :: _) => TNonNull (to_ty t)
  | W _ _ (n :: _) => TNamed (to_str n)
  | _ => TNamed []
  end.

Fixpoint to_value (w : wtree) : value :=
  match w with
  | W 11 i _ => VInt (to_Z i)
  | W 12 i _ => VFloat (to_Z i) (nth 2 i 1)
  | W 13 i _ => VStr i
  | W 14 i _ => VBool (negb (nth 0 i 0 =? 0))
  | W 15 i _ => VEnum i
  | W 16 i _ => VVar i
  | W 17 _ ks => VList (map to_value ks)
  | W 18 _ kvs =>
      VObj (map (fun kv => match kv with
                           | W _ _ (k :: x :: _) => (to_str k, to_value x)
                           | _ => ([], VNull)
                           end) kvs)
  | _ => VNull
  end.

Definition to_pair {A} (f : wtree -> A) (w : wtree) : str * A := (to_str (kid 0 w), f (kid 1 w)).
Definition to_args (w : wtree) : list (str * value) := map (to_pair to_value) (w_kids w).

Definition to_argdef (w : wtree) : arg_def :=
  mkArg (to_str (kid 0 w)) (to_ty (kid 1 w)) (to_opt to_value (kid 2 w)).
Definition to_fielddef (w : wtree) : field_def :=
  mkField (to_str (kid 0 w)) (to_ty (kid 1 w)) (map to_argdef (w_kids (kid 2 w))).
Definition to_strs (w : wtree) : list str := map to_str (w_kids w).
Definition to_typedef (w : wtree) : type_def :=
  match w with
  | W 41 _ _ => TEnum (to_strs (kid 0 w))
  | W 42 _ _ => TObject (map to_fielddef (w_kids (kid 0 w))) (to_strs (kid 1 w))
  | W 43 _ _ => TInterface (map to_fielddef (w_kids (kid 0 w)))
  | W 46 i _ => TInput (map to_argdef (w_kids (kid 0 w))) (negb (nth 0 i 0 =? 0))
  | _ => TUnion (to_strs (kid 0 w))
  end.
Definition to_schema (w : wtree) : schema :=
  mkSchema (map (to_pair to_typedef) (w_kids (kid 0 w))) (to_str (kid 1 w)) (to_opt to_str (kid 2 w)).

Definition to_dir (w : wtree) : directive := (to_str (kid 0 w), to_args (kid 1 w)).
Definition to_dirs (w : wtree) : list directive := map to_dir (w_kids w).

Fixpoint to_sel (w : wtree) : selection :=
  match w with
  | W 52 _ (al :: nm :: args :: dirs :: W _ _ subs :: _) =>
      SField (to_opt to_str al) (to_str nm) (to_args args) (to_dirs dirs) (map to_sel subs)
  | W 53 _ (nm :: dirs :: _) => SSpread (to_str nm) (to_dirs dirs)
  | W 54 _ (tc :: dirs :: W _ _ subs :: _) => SInline (to_opt to_str tc) (to_dirs dirs) (map to_sel subs)
  | _ => SSpread [] []
  end.
Definition to_sels (w : wtree) : list selection := map to_sel (w_kids w).

Definition to_vardef (w : wtree) : var_def :=
  mkVar (to_str (kid 0 w)) (to_ty (kid 1 w)) (to_opt to_value (kid 2 w)).
Definition to_frag (w : wtree) : fragment :=
  mkFrag (to_str (kid 0 w)) (to_str (kid 1 w)) (to_sels (kid 2 w)).
Definition to_doc (w : wtree) : document :=
  mkDoc (if nth 0 (w_ints w) 0 =? 0 then OpQuery else OpMutation)
        (map to_vardef (w_kids (kid 0 w))) (to_sels (kid 1 w)) (map to_frag (w_kids (kid 2 w))).

Fixpoint to_data (w : wtree) : data :=
  match w with
  | W 61 i _ => DLeaf (LInt (to_Z i))
  | W 62 i _ => DLeaf (LFloat (to_Z i) (nth 2 i 1))
  | W 63 i _ => DLeaf (LStr i)
  | W 64 i _ => DLeaf (LBool (negb (nth 0 i 0 =? 0)))
  | W 65 _ _ => DLeaf LBad
  | W 66 _ (tn :: W _ _ kvs :: _) =>
      DObj (to_str tn)
           (map (fun kv => match kv with
                           | W _ _ (k :: d :: _) => (to_str k, to_data d)
                           | _ => ([], DNull)
                           end) kvs)
  | W 68 _ ks => DList (map to_data ks)
  | W 69 _ _ => DRaise
  | _ => DNull
  end.

Fixpoint to_json (w : wtree) : json :=
  match w with
  | W 71 i _ => JInt (to_Z i)
  | W 72 i _ => JFloat (to_Z i) (nth 2 i 1)
  | W 73 i _ => JStr i
  | W 74 i _ => JBool (negb (nth 0 i 0 =? 0))
  | W 75 _ ks => JList (map to_json ks)
  | W 76 _ kvs =>
      JObj (map (fun kv => match kv with
                           | W _ _ (k :: d :: _) => (to_str k, to_json d)
                           | _ => ([], JNull)
                           end) kvs)
  | _ => JNull
  end.

(* ---- writers ---- *)
Definition of_str (tag : N) (x : str) : wtree := W tag x [].
Definition of_Z (z : Z) : list N :=
  match z with Z0 => [0; 0] | Zpos p => [0; Npos p] | Zneg p => [1; Npos p] end.

Fixpoint of_value (v : value) : wtree :=
  match v with
  | VNull => W 10 [] []
  | VInt z => W 11 (of_Z z) []
  | VFloat n d => W 12 (of_Z n ++ [d]) []
  | VStr x => W 13 x []
  | VBool b => W 14 [if b then 1 else 0] []
  | VEnum x => W 15 x []
  | VVar x => W 16 x []
  | VList l => W 17 [] (map of_value l)
  | VObj kvs => W 18 [] (map (fun kv => W 51 [] [of_str 0 (fst kv); of_value (snd kv)]) kvs)
  end.

Fixpoint of_json (j : json) : wtree :=
  match j with
  | JNull => W 70 [] []
  | JInt z => W 71 (of_Z z) []
  | JFloat n d => W 72 (of_Z n ++ [d]) []
  | JStr x => W 73 x []
  | JBool b => W 74 [if b then 1 else 0] []
  | JList l => W 75 [] (map of_json l)
  | JObj kvs => W 76 [] (map (fun kv => W 77 [] [of_str 0 (fst kv); of_json (snd kv)]) kvs)
  end.

Definition of_seg (x : pathseg) : wtree :=
  match x with PKey k => W 81 k [] | PIdx i => W 82 [N.of_nat i] [] end.
Definition of_path (p : path) : wtree := W 80 [] (map of_seg p).
Definition of_call (c : call) : wtree :=
  let '(p, f, a) := c in
  W 83 [] [of_path p; of_str 0 f; W 5 [] (map (fun kv => W 51 [] [of_str 0 (fst kv); of_value (snd kv)]) a)].

Definition cause_code (c : cause) : N :=
  match c with
  | CauseArgs => 0 | CauseRaise => 1 | CauseNull => 2 | CauseNonList => 3 | CauseLeaf => 4 | CauseType => 5
  end.
Definition of_err (e : err) : wtree := W 84 [cause_code (snd e)] [of_path (fst e)].

Definition of_response (r : response) : wtree :=
  match r with
  | RequestError => W 90 [] []
  | OutOfFuelR => W 91 [] []
  | Resp j es cs => W 92 [] [of_json j; W 5 [] (map of_err es); W 5 [] (map of_call cs)]
  end.
