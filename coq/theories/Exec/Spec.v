(* The GraphQL specification's execution algorithm (section 6 "Execution") as a pure function.
   Definitions only; properties are in SpecProps.v.

   Entry point:   execute : schema -> document -> variables -> data -> response
   where [document] is the selected operation plus the fragment definitions, [variables] the
   raw variable values supplied with the request and [data] the backing data graph (root value).

     CoerceVariableValues  = coerce_variable_values
     CollectFields         = collect        (visitedFragments, @skip/@include, type conditions)
     ExecuteSelectionSet   = exec_sels      (response keys in first-appearance order)
     ExecuteField          = exec_field     (CoerceArgumentValues = coerce_args, ResolveFieldValue =
                                             lookup in the data object, logged in [calls])
     CompleteValue         = complete       (non-null, list, leaf, object, abstract via type name)
     field errors          = [CErr] results; caught at the nearest nullable field or list item

   No caches and no mutable state: the response is a function of the four inputs.
   Recursion is on explicit fuel (= nesting depth); [OutOfFuelR] is the out-of-fuel answer.

   Choices where the specification leaves freedom (all allowed by it, all as /repo does):
   after a field error has propagated through a selection set or a list, the remaining sibling
   fields / items are not executed; an error path is the position where the error was raised.
   Paths are built relative to the current position and prefixed on the way up. *)
From GV Require Import Base.Prelude Exec.Value Exec.Schema.

(* ------------------------------------------------------------------ input coercion *)

Definition in_int_range (z : Z) : bool :=
  (Z.leb (-2147483648) z && Z.leb z 2147483647)%bool.

(* a non-null, non-list, non-variable literal at a leaf type *)
Definition coerce_leaf_lit (s : schema) (n : str) (v : value) : option value :=
  match lookup_type s n with
  | Some (TScalar SInt) =>
      match v with VInt z => if in_int_range z then Some (VInt z) else None | _ => None end
  | Some (TScalar SFloat) =>
      match v with VInt z => Some (VFloat z 1) | VFloat a b => Some (VFloat a b) | _ => None end
  | Some (TScalar SString) => match v with VStr x => Some (VStr x) | _ => None end
  | Some (TScalar SBoolean) => match v with VBool b => Some (VBool b) | _ => None end
  | Some (TScalar SID) =>
      match v with VStr x => Some (VStr x) | VInt z => Some (VStr (dec_of_Z z)) | _ => None end
  | Some (TEnum vals) =>
      match v with VEnum e => if mem e vals then Some (VEnum e) else None | _ => None end
  | _ => None
  end.

(* a non-null scalar literal at any type: a non-list value at a list type is a list of one *)
Fixpoint coerce_scalar_lit (s : schema) (v : value) (t : ty) {struct t} : option value :=
  match t with
  | TNonNull t' => coerce_scalar_lit s v t'
  | TList it => option_map (fun c => VList [c]) (coerce_scalar_lit s v it)
  | TNamed n => coerce_leaf_lit s n v
  end.

(* a non-null scalar runtime (JSON) value at a leaf type: variable values *)
Definition coerce_leaf_val (s : schema) (n : str) (v : value) : option value :=
  match lookup_type s n with
  | Some (TScalar SInt) =>
      match v with VInt z => if in_int_range z then Some (VInt z) else None | _ => None end
  | Some (TScalar SFloat) =>
      match v with VInt z => Some (VFloat z 1) | VFloat a b => Some (VFloat a b) | _ => None end
  | Some (TScalar SString) => match v with VStr x => Some (VStr x) | _ => None end
  | Some (TScalar SBoolean) => match v with VBool b => Some (VBool b) | _ => None end
  | Some (TScalar SID) =>
      match v with VStr x => Some (VStr x) | VInt z => Some (VStr (dec_of_Z z)) | _ => None end
  | Some (TEnum vals) =>
      match v with VStr e => if mem e vals then Some (VEnum e) else None | _ => None end
  | _ => None
  end.

Fixpoint coerce_scalar_val (s : schema) (v : value) (t : ty) {struct t} : option value :=
  match t with
  | TNonNull t' => coerce_scalar_val s v t'
  | TList it => option_map (fun c => VList [c]) (coerce_scalar_val s v it)
  | TNamed n => coerce_leaf_val s n v
  end.

Definition list_item_type (t : ty) : option ty :=
  match t with
  | TList it => Some it
  | TNonNull (TList it) => Some it
  | _ => None
  end.

Definition required_arg (a : arg_def) : bool :=
  is_nonnull (a_type a) && match a_default a with None => true | Some _ => false end.

(* what a request provides for an argument / input field: nothing (or a variable without a runtime
   value), or a value with the result of its coercion *)
Inductive provided := PAbsent | PValue (c : option value).

(* CoerceArgumentValues / input object coercion over the definitions in order: absent and not
   required => the default if any; absent and required, or a value that does not coerce => None.
   [dflt] coerces a constant default literal at a type. *)
Fixpoint assemble (dflt : ty -> value -> option value) (defs : list arg_def)
  (get : arg_def -> provided) : option (list (str * value)) :=
  match defs with
  | [] => Some []
  | ad :: rest =>
    let here : option (option value) :=      (* None = error; Some None = no entry *)
      match get ad with
      | PAbsent =>
          if required_arg ad then None
          else match a_default ad with
               | Some lit => option_map Some (dflt (a_type ad) lit)
               | None => Some None
               end
      | PValue c => option_map Some c
      end in
    match here, assemble dflt rest get with
    | Some (Some c), Some cr => Some ((a_name ad, c) :: cr)
    | Some None, Some cr => Some cr
    | _, _ => None
    end
  end.

Fixpoint find_arg (n : str) (l : list arg_def) : option arg_def :=
  match l with
  | [] => None
  | a :: r => if str_eqb n (a_name a) then Some a else find_arg n r
  end.

(* a non-list value at a list type is a list of one: the named type under all wrappers, and how
   many list wrappers there are *)
Fixpoint unwrap_named (t : ty) : nat * str :=
  match t with
  | TNamed n => (O, n)
  | TNonNull t' => unwrap_named t'
  | TList it => let '(k, n) := unwrap_named it in (S k, n)
  end.

Fixpoint wrap_list (k : nat) (c : value) : value :=
  match k with O => c | S k' => VList [wrap_list k' c] end.

Definition is_vnull (v : value) : bool := match v with VNull => true | _ => false end.

(* OneOf: exactly one field provided, exactly one entry coerced, neither null *)
Definition one_of_ok (flds out : list (str * value)) : bool :=
  match flds, out with
  | [(_, x)], [(_, c)] => negb (is_vnull x) && negb (is_vnull c)
  | _, _ => false
  end.

(* what an object value provides per field name, given the treatment [co] of a field value at its
   declared type; None = a field the type does not define *)
Section PreFields.
  Variable co : value -> ty -> provided.
  Variable defs : list arg_def.
  Fixpoint pre_fields (flds : list (str * value)) : option (list (str * provided)) :=
    match flds with
    | [] => Some []
    | (k, x) :: r =>
      match find_arg k defs, pre_fields r with
      | Some ad, Some pr => Some ((k, co x (a_type ad)) :: pr)
      | _, _ => None
      end
    end.
End PreFields.

Definition get_pre (pre : list (str * provided)) (ad : arg_def) : provided :=
  match lookup (a_name ad) pre with Some p => p | None => PAbsent end.

Section CoerceValues.
  Variable s : schema.
  Variable dflt : ty -> value -> option value.     (* coercion of constant default literals *)

  Section Lit.
    Variable cv : list (str * value).              (* coerced variable values; absent = no value *)

    Definition missing_var (v : value) : bool :=
      match v with
      | VVar x => match lookup x cv with None => true | Some _ => false end
      | _ => false
      end.

    (* Literal (possibly containing variables) -> coerced value.  [None] = no value: invalid, or
       a variable without a runtime value. *)
    Fixpoint coerce_lit (v : value) (t : ty) {struct v} : option value :=
      match v with
      | VVar x =>
          match lookup x cv with
          | None => None
          | Some VNull => if is_nonnull t then None else Some VNull
          | Some c => Some c
          end
      | VNull => if is_nonnull t then None else Some VNull
      | VList items =>
          match list_item_type t with
          | None => None
          | Some it =>
              option_map VList
                ((fix go (l : list value) : option (list value) :=
                    match l with
                    | [] => Some []
                    | x :: r =>
                      let cx :=
                        match coerce_lit x it with
                        | Some c => Some c
                        | None =>
                          (* a variable without value inside a list is null where the item type allows *)
                          match x with
                          | VVar y =>
                              if is_nonnull it then None
                              else match lookup y cv with None => Some VNull | Some _ => None end
                          | _ => None
                          end
                        end in
                      match cx, go r with
                      | Some c, Some cr => Some (c :: cr)
                      | _, _ => None
                      end
                    end) items)
          end
      | VObj flds =>
          let '(depth, n) := unwrap_named t in
          match lookup_type s n with
          | Some (TInput defs oneof) =>
              match pre_fields (fun x t' => if missing_var x then PAbsent else PValue (coerce_lit x t'))
                               defs flds
              with
              | None => None
              | Some pre =>
                match assemble dflt defs (get_pre pre) with
                | None => None
                | Some out =>
                    if oneof && negb (one_of_ok flds out) then None
                    else Some (wrap_list depth (VObj out))
                end
              end
          | _ => None
          end
      | _ => coerce_scalar_lit s v t
      end.
  End Lit.

  (* runtime (JSON) value -> coerced value ([None] = invalid): variable values *)
  Fixpoint coerce_val (v : value) (t : ty) {struct v} : option value :=
    match v with
    | VNull => if is_nonnull t then None else Some VNull
    | VVar _ | VEnum _ => None
    | VList items =>
        match list_item_type t with
        | None => None
        | Some it =>
            option_map VList
              ((fix go (l : list value) : option (list value) :=
                  match l with
                  | [] => Some []
                  | x :: r =>
                    match coerce_val x it, go r with
                    | Some c, Some cr => Some (c :: cr)
                    | _, _ => None
                    end
                  end) items)
        end
    | VObj flds =>
        let '(depth, n) := unwrap_named t in
        match lookup_type s n with
        | Some (TInput defs oneof) =>
            match pre_fields (fun x t' => PValue (coerce_val x t')) defs flds
            with
            | None => None
            | Some pre =>
              match assemble dflt defs (get_pre pre) with
              | None => None
              | Some out =>
                  if oneof && negb (one_of_ok flds out) then None
                  else Some (wrap_list depth (VObj out))
              end
            end
        | _ => None
        end
    | _ => coerce_scalar_val s v t
    end.
End CoerceValues.

(* default literals are constants; a default of an input object may in turn rely on the defaults of
   its fields: the nesting is bounded by the number of types (a longer chain is a cycle) *)
Fixpoint coerce_default (s : schema) (fuel : nat) (t : ty) (lit : value) : option value :=
  match fuel with
  | O => None
  | S f => coerce_lit s (coerce_default s f) [] lit t
  end.

Definition coerce_const (s : schema) : ty -> value -> option value :=
  coerce_default s (S (length (s_types s))).

(* input types of the fragment: leaf and input object types under list / non-null wrappers *)
Definition is_input_type (s : schema) (t : ty) : bool :=
  match lookup_type s (named_of t) with
  | Some (TScalar _) | Some (TEnum _) | Some (TInput _ _) => true
  | _ => false
  end.

(* CoerceVariableValues.  [None] = request error. *)
Fixpoint coerce_variable_values (s : schema) (defs : list var_def) (given : list (str * value))
  : option (list (str * value)) :=
  match defs with
  | [] => Some []
  | vd :: rest =>
    if negb (is_input_type s (v_type vd)) then None else
    let here : option (option value) :=     (* None = error; Some None = no value *)
      match lookup (v_name vd) given with
      | None =>
          match v_default vd with
          | Some lit => option_map Some (coerce_const s (v_type vd) lit)
          | None => if is_nonnull (v_type vd) then None else Some None
          end
      | Some v => option_map Some (coerce_val s (coerce_const s) v (v_type vd))
      end in
    match here, coerce_variable_values s rest given with
    | Some (Some c), Some cr => Some ((v_name vd, c) :: cr)
    | Some None, Some cr => Some cr
    | _, _ => None
    end
  end.

(* CoerceArgumentValues.  [None] = field error. *)
Definition coerce_args (s : schema) (cv : list (str * value)) (defs : list arg_def)
  (args : list (str * value)) : option (list (str * value)) :=
  assemble (coerce_const s) defs
    (fun ad => match lookup (a_name ad) args with
               | None => PAbsent
               | Some v => if missing_var cv v then PAbsent
                           else PValue (coerce_lit s (coerce_const s) cv v (a_type ad))
               end).

(* ------------------------------------------------------------------ CollectFields *)

(* a selected field as kept in a field group *)
Record fieldsel := mkFS { fs_name : str; fs_args : list (str * value); fs_sels : list selection }.

Definition grouped := list (str * list fieldsel).    (* insertion ordered *)

Fixpoint add_field (k : str) (f : fieldsel) (g : grouped) : grouped :=
  match g with
  | [] => [(k, [f])]
  | (k', fs) :: r =>
    if str_eqb k k' then (k', fs ++ [f]) :: r else (k', fs) :: add_field k f r
  end.

Fixpoint find_dir (n : str) (ds : list directive) : option (list (str * value)) :=
  match ds with
  | [] => None
  | (n', args) :: r => if str_eqb n n' then Some args else find_dir n r
  end.

(* the [if] argument of @skip/@include: a Boolean literal or a variable whose value is a Boolean *)
Definition dir_if (cv : list (str * value)) (args : list (str * value)) : option bool :=
  match lookup n_if args with
  | Some (VBool b) => Some b
  | Some (VVar x) => match lookup x cv with Some (VBool b) => Some b | _ => None end
  | _ => None
  end.

(* "skipDirective's if argument is true" / "includeDirective's if argument is not true" *)
Definition should_include (cv : list (str * value)) (ds : list directive) : bool :=
  let skipped :=
    match find_dir n_skip ds with
    | Some args => match dir_if cv args with Some true => true | _ => false end
    | None => false
    end in
  let excluded :=
    match find_dir n_include ds with
    | Some args => match dir_if cv args with Some true => false | _ => true end
    | None => false
    end in
  negb skipped && negb excluded.

(* DoesFragmentTypeApply for the runtime object type [tn] *)
Definition cond_matches (s : schema) (tc tn : str) : bool :=
  str_eqb tc tn || possible s tc tn.

Definition response_key (alias : option str) (name : str) : str :=
  match alias with Some a => a | None => name end.

Section Collect.
  Variable s : schema.
  Variable frags : list fragment.
  Variable cv : list (str * value).
  Variable tn : str.                       (* runtime object type *)

  (* The walk is generic in what is accumulated: [collect] accumulates the grouped field set as the
     specification does; [collect_flat] the plain sequence of visited fields (used to state
     "first appearance order").  State = visited fragment names x accumulator. *)
  Section Gen.
    Variable A : Type.
    Variable add : str -> fieldsel -> A -> A.

    (* one selection list, given the walk [rec] for nested selection sets; None = out of fuel *)
    Fixpoint collect_list (rec : list selection -> list str * A -> option (list str * A))
      (sels : list selection) (st : list str * A) : option (list str * A) :=
      match sels with
      | [] => Some st
      | sel :: rest =>
        match sel with
        | SField al name args dirs sub =>
            if should_include cv dirs
            then collect_list rec rest (fst st, add (response_key al name) (mkFS name args sub) (snd st))
            else collect_list rec rest st
        | SInline tc dirs sub =>
            if should_include cv dirs
               && match tc with Some c => cond_matches s c tn | None => true end
            then match rec sub st with
                 | None => None
                 | Some st' => collect_list rec rest st'
                 end
            else collect_list rec rest st
        | SSpread name dirs =>
            if negb (should_include cv dirs) then collect_list rec rest st
            else if mem name (fst st) then collect_list rec rest st
            else
              match find_frag name frags with
              | None => collect_list rec rest (name :: fst st, snd st)
              | Some fr =>
                if cond_matches s (fr_cond fr) tn
                then match rec (fr_sels fr) (name :: fst st, snd st) with
                     | None => None
                     | Some st' => collect_list rec rest st'
                     end
                else collect_list rec rest (name :: fst st, snd st)
              end
        end
      end.

    (* fuel bounds the nesting of inline fragments and fragment spreads *)
    Fixpoint collect_gen (fuel : nat) (sels : list selection) (st : list str * A)
      : option (list str * A) :=
      match fuel with
      | O => None
      | S f => collect_list (collect_gen f) sels st
      end.
  End Gen.

  Definition collect := collect_gen grouped add_field.
  Definition collect_flat :=
    collect_gen (list (str * fieldsel)) (fun k f l => l ++ [(k, f)]).
End Collect.

(* grouping a sequence of (response key, field) in order *)
Definition group (fl : list (str * fieldsel)) : grouped :=
  fold_left (fun g kf => add_field (fst kf) (snd kf) g) fl [].

(* the distinct keys of a sequence in order of first appearance *)
Definition first_occ (l : list str) : list str :=
  fold_left (fun acc k => if mem k acc then acc else acc ++ [k]) l [].

(* ------------------------------------------------------------------ execution *)

(* completed value, or a field error travelling upwards *)
Inductive cres := CVal (j : json) | CErr.

(* result, error paths, resolver calls - both relative to the current position *)
(* why a field error was raised.  [CauseArgs]: CoerceArgumentValues failed (validation is meant
   to make this unreachable, up to the run-time-deferred null variable); all others are properties
   of the data graph: the resolver raised, null in a non-null position, a non-list value for a
   list type, a leaf that does not serialise, an abstract position whose value is not an object of
   a possible runtime type (or a position of a type the schema does not define). *)
Inductive cause := CauseArgs | CauseRaise | CauseNull | CauseNonList | CauseLeaf | CauseType.

(* an error: the response path where it was raised (relative to the current position), its cause *)
Definition err : Type := (path * cause)%type.

Definition out : Type := (cres * list err * list call)%type.

Definition raise_here (c : cause) : out := (CErr, [([], c)], []).

Definition pre_errs (seg : pathseg) (es : list err) : list err :=
  map (fun e : err => (seg :: fst e, snd e)) es.
Definition pre_calls (seg : pathseg) (cs : list call) : list call :=
  map (fun c : call => let '(p, f, a) := c in (seg :: p, f, a)) cs.

(* leaf completion: the data leaf must be of the field's leaf type *)
Definition complete_leaf (td : type_def) (l : leaf) : option json :=
  match td, l with
  | TScalar SInt, LInt z => if in_int_range z then Some (JInt z) else None
  | TScalar SFloat, LFloat n d => Some (JFloat n d)
  | TScalar SString, LStr x => Some (JStr x)
  | TScalar SBoolean, LBool b => Some (JBool b)
  | TScalar SID, LStr x => Some (JStr x)
  | TEnum vals, LStr x => if mem x vals then Some (JStr x) else None
  | _, _ => None
  end.

(* a field error is caught where the type is nullable *)
Definition catch (t : ty) (o : out) : out :=
  match o with
  | (CErr, es, cs) => if is_nonnull t then o else (CVal JNull, es, cs)
  | _ => o
  end.

Definition merged_sels (fs : list fieldsel) : list selection := flat_map fs_sels fs.

Inductive fres := FSkip | FRes (o : out).

(* the loop of ExecuteSelectionSet over the grouped field set, given ExecuteField [ef];
   stops at the first field whose error propagates *)
Definition groups_out : Type := (option (list (str * json)) * list err * list call)%type.

Fixpoint exec_groups (ef : list fieldsel -> option fres) (g : grouped) : option groups_out :=
  match g with
  | [] => Some (Some [], [], [])
  | (k, fs) :: rest =>
    match ef fs with
    | None => None
    | Some FSkip => exec_groups ef rest
    | Some (FRes (CErr, es, cs)) => Some (None, pre_errs (PKey k) es, pre_calls (PKey k) cs)
    | Some (FRes (CVal j, es, cs)) =>
      match exec_groups ef rest with
      | None => None
      | Some (r, es', cs') =>
          Some (option_map (cons (k, j)) r,
                pre_errs (PKey k) es ++ es', pre_calls (PKey k) cs ++ cs')
      end
    end
  end.

(* the loop of CompleteValue over list items, given the completion [cf] of one item (with the
   item type's error catching applied); [i] = index of the first item *)
Definition items_out : Type := (option (list json) * list err * list call)%type.

Fixpoint complete_items (cf : data -> option out) (items : list data) (i : nat) : option items_out :=
  match items with
  | [] => Some (Some [], [], [])
  | x :: rest =>
    match cf x with
    | None => None
    | Some (CErr, es, cs) => Some (None, pre_errs (PIdx i) es, pre_calls (PIdx i) cs)
    | Some (CVal j, es, cs) =>
      match complete_items cf rest (S i) with
      | None => None
      | Some (r, es', cs') =>
          Some (option_map (cons j) r,
                pre_errs (PIdx i) es ++ es', pre_calls (PIdx i) cs ++ cs')
      end
    end
  end.

(* the fields a default-like resolver can read off a value: none unless it is an object *)
Definition data_fields (d : data) : list (str * data) :=
  match d with DObj _ flds => flds | _ => [] end.

Section Exec.
  Variable s : schema.
  Variable frags : list fragment.
  Variable cv : list (str * value).

  Fixpoint exec_sels (fuel : nat) (tn : str) (obj : list (str * data)) (sels : list selection)
    : option out :=
    match fuel with
    | O => None
    | S f =>
      match collect s frags cv tn f sels ([], []) with
      | None => None
      | Some (_, g) =>
        match exec_groups (exec_field f tn obj) g with
        | None => None
        | Some (Some kvs, es, cs) => Some (CVal (JObj kvs), es, cs)
        | Some (None, es, cs) => Some (CErr, es, cs)
        end
      end
    end

  with exec_field (fuel : nat) (tn : str) (obj : list (str * data)) (fs : list fieldsel)
    : option fres :=
    match fuel with
    | O => None
    | S f =>
      match fs with
      | [] => Some FSkip
      | f1 :: _ =>
        if str_eqb (fs_name f1) n_typename then Some (FRes (CVal (JStr tn), [], []))
        else
          match lookup_field s tn (fs_name f1) with
          | None => Some FSkip
          | Some fd =>
            match coerce_args s cv (f_args fd) (fs_args f1) with
            | None => Some (FRes (catch (f_type fd) (raise_here CauseArgs)))
            | Some args =>
              let d := match lookup (fs_name f1) obj with Some d => d | None => DNull end in
              match complete f (f_type fd) (merged_sels fs) d with
              | None => None
              | Some (r, es, cs) =>
                  Some (FRes (catch (f_type fd) (r, es, ([], fs_name f1, args) :: cs)))
              end
            end
          end
      end
    end

  with complete (fuel : nat) (t : ty) (sels : list selection) (d : data) : option out :=
    match fuel with
    | O => None
    | S f =>
      match d with
      | DRaise => Some (raise_here CauseRaise)
      | _ =>
        match t with
        | TNonNull t' =>
            match complete f t' sels d with
            | None => None
            | Some (CVal JNull, es, cs) => Some (CErr, es ++ [([], CauseNull)], cs)
            | Some o => Some o
            end
        | TList it =>
            match d with
            | DNull => Some (CVal JNull, [], [])
            | DList items =>
                match complete_items (fun x => option_map (catch it) (complete f it sels x)) items O with
                | None => None
                | Some (Some js, es, cs) => Some (CVal (JList js), es, cs)
                | Some (None, es, cs) => Some (CErr, es, cs)
                end
            | _ => Some (raise_here CauseNonList)
            end
        | TNamed n =>
            match d with
            | DNull => Some (CVal JNull, [], [])
            | _ =>
              match lookup_type s n with
              | Some (TObject _ _) =>
                  (* CompleteValue for an object type does not inspect the value; a value that is
                     not an object has no fields (every resolver returns null) *)
                  exec_sels f n (data_fields d) sels
              | Some (TInterface _) | Some (TUnion _) =>
                  match d with
                  | DObj rt flds =>
                      if is_object s rt && possible s n rt then exec_sels f rt flds sels
                      else Some (raise_here CauseType)
                  | _ => Some (raise_here CauseType)
                  end
              | Some td =>
                  match d with
                  | DLeaf l =>
                      match complete_leaf td l with
                      | Some j => Some (CVal j, [], [])
                      | None => Some (raise_here CauseLeaf)
                      end
                  | _ => Some (raise_here CauseLeaf)
                  end
              | None => Some (raise_here CauseType)
              end
            end
        end
      end
    end.
End Exec.

(* ------------------------------------------------------------------ requests *)

Inductive response :=
| RequestError                                         (* no data entry: variables rejected, no root type *)
| OutOfFuelR
| Resp (data : json) (errors : list err) (calls : list call).

Definition execute_fuel (fuel : nat) (s : schema) (d : document) (vars : list (str * value))
  (root : data) : response :=
  match coerce_variable_values s (d_vars d) vars with
  | None => RequestError
  | Some cv =>
    match root_type s (d_kind d) with
    | None => RequestError
    | Some tn =>
      if negb (is_object s tn) then RequestError else
      let flds := match root with DObj _ f => f | _ => [] end in
      match exec_sels s (d_frags d) cv fuel tn flds (d_sels d) with
      | None => OutOfFuelR
      | Some (CVal j, es, cs) => Resp j es cs
      | Some (CErr, es, cs) => Resp JNull es cs
      end
    end
  end.

(* ---- a fuel that suffices: every recursive call either descends into the data graph, removes a
   type wrapper, or enters a nested selection set / fragment ---- *)

Fixpoint data_depth (d : data) : nat :=
  match d with
  | DObj _ kvs => S (fold_right (fun kv m => Nat.max (data_depth (snd kv)) m) O kvs)
  | DList l => S (fold_right (fun x m => Nat.max (data_depth x) m) O l)
  | _ => 1%nat
  end.

Fixpoint ty_depth (t : ty) : nat :=
  match t with TNamed _ => 1%nat | TList t' => S (ty_depth t') | TNonNull t' => S (ty_depth t') end.

Fixpoint sel_depth (x : selection) : nat :=
  match x with
  | SField _ _ _ _ sub => S (fold_right (fun y m => Nat.max (sel_depth y) m) O sub)
  | SSpread _ _ => 1%nat
  | SInline _ _ sub => S (fold_right (fun y m => Nat.max (sel_depth y) m) O sub)
  end.

Definition sels_depth (l : list selection) : nat :=
  fold_right (fun y m => Nat.max (sel_depth y) m) O l.

Definition max_field_ty_depth (s : schema) : nat :=
  fold_right (fun kt m =>
    match snd kt with
    | TObject fs _ | TInterface fs => fold_right (fun fd m' => Nat.max (ty_depth (f_type fd)) m') m fs
    | _ => m
    end) 1%nat (s_types s).

Definition default_fuel (s : schema) (d : document) (root : data) : nat :=
  let frag_depth := fold_right (fun fr m => (sels_depth (fr_sels fr) + 1 + m)%nat) O (d_frags d) in
  (data_depth root * (max_field_ty_depth s + 3) + sels_depth (d_sels d) + frag_depth + 8)%nat.

(* THE entry point *)
Definition execute (s : schema) (d : document) (vars : list (str * value)) (root : data)
  : response :=
  execute_fuel (default_fuel s d root) s d vars root.

(* ------------------------------------------------------------------ response invariants
   (predicates used to state the theorems of Properties/C02.v and C13.v) *)

(* following path [p] in [j] reaches a null at [p] or at one of its prefixes *)
Fixpoint hits_null (p : path) (j : json) {struct p} : bool :=
  match j with
  | JNull => true
  | _ =>
    match p with
    | [] => false
    | PKey k :: r =>
        match j with
        | JObj kvs => match lookup k kvs with Some j' => hits_null r j' | None => false end
        | _ => false
        end
    | PIdx i :: r =>
        match j with
        | JList js => match nth_error js i with Some j' => hits_null r j' | None => false end
        | _ => false
        end
    end
  end.

(* a serialised leaf of the given leaf type *)
Definition leaf_json (td : type_def) (j : json) : bool :=
  match td, j with
  | TScalar SInt, JInt z => in_int_range z
  | TScalar SFloat, JFloat _ _ => true
  | TScalar SString, JStr _ => true
  | TScalar SID, JStr _ => true
  | TScalar SBoolean, JBool _ => true
  | TEnum vals, JStr x => mem x vals
  | _, _ => false
  end.

(* [rt] is an object type a value of named type [n] can have at run time *)
Definition runtime_of (s : schema) (n rt : str) : Prop :=
  (is_object s n = true /\ rt = n) \/ (is_object s rt = true /\ possible s n rt = true).

Section Shape.
  Variable s : schema.
  Variable frags : list fragment.
  Variable cv : list (str * value).

  (* [shaped t sels j]: [j] has the shape type [t] and the (merged) selection set [sels] prescribe:
     null only where [t] is nullable, lists for list types, leaves of the right kind, and objects
     whose keys are exactly the response keys of CollectFields for some possible runtime type, in
     first-appearance order (fields the runtime type does not define are absent), each value
     shaped by its field's type and merged sub-selections. *)
  Inductive shaped : ty -> list selection -> json -> Prop :=
  | sh_null t sels : is_nonnull t = false -> shaped t sels JNull
  | sh_nonnull t sels j : j <> JNull -> shaped t sels j -> shaped (TNonNull t) sels j
  | sh_list t sels js : Forall (shaped t sels) js -> shaped (TList t) sels (JList js)
  | sh_leaf n td sels j :
      lookup_type s n = Some td -> leaf_json td j = true -> shaped (TNamed n) sels j
  | sh_obj n rt sels kvs :
      runtime_of s n rt -> shaped_obj rt sels kvs -> shaped (TNamed n) sels (JObj kvs)
  with shaped_obj : str -> list selection -> list (str * json) -> Prop :=
  | sho rt sels fuel v g kvs :
      collect s frags cv rt fuel sels ([], []) = Some (v, g) ->
      shaped_fields rt g kvs -> shaped_obj rt sels kvs
  with shaped_fields : str -> grouped -> list (str * json) -> Prop :=
  | shf_nil rt : shaped_fields rt [] []
  | shf_empty rt k g kvs : shaped_fields rt g kvs -> shaped_fields rt ((k, []) :: g) kvs
  | shf_unknown rt k f1 fs g kvs :
      str_eqb (fs_name f1) n_typename = false -> lookup_field s rt (fs_name f1) = None ->
      shaped_fields rt g kvs -> shaped_fields rt ((k, f1 :: fs) :: g) kvs
  | shf_typename rt k f1 fs g kvs :
      str_eqb (fs_name f1) n_typename = true ->
      shaped_fields rt g kvs -> shaped_fields rt ((k, f1 :: fs) :: g) ((k, JStr rt) :: kvs)
  | shf_field rt k f1 fs fd j g kvs :
      str_eqb (fs_name f1) n_typename = false -> lookup_field s rt (fs_name f1) = Some fd ->
      shaped (f_type fd) (merged_sels (f1 :: fs)) j ->
      shaped_fields rt g kvs -> shaped_fields rt ((k, f1 :: fs) :: g) ((k, j) :: kvs).

  (* a logged resolver call carries the coerced arguments of some field selection *)
  Definition call_ok (c : call) : Prop :=
    let '(_, fname, args) := c in
    exists rt fd lits, lookup_field s rt fname = Some fd /\
                       coerce_args s cv (f_args fd) lits = Some args.
End Shape.
