(* Model of executor.CollectedErrors: errors are added at the position that is nulled; an
   error is dropped when its position or an ancestor has already been nulled. *)
From GV Require Import Base.Prelude.

Definition pos := list N.   (* response path from the root; [] is the root (data = null) *)

Fixpoint prefixb (a p : pos) : bool :=
  match a, p with
  | [], _ => true
  | x :: a', y :: p' => (x =? y) && prefixb a' p'
  | _ :: _, [] => false
  end.

(* has_nulled_position *)
Definition nulled (P : list pos) (p : pos) : bool := existsb (fun a => prefixb a p) P.

(* state: nulled positions, indices of the kept errors (newest first) *)
Definition add (st : list pos * list nat) (i : nat) (p : pos) : list pos * list nat :=
  if nulled (fst st) p then st else (p :: fst st, i :: snd st).

Fixpoint run_from (st : list pos * list nat) (i : nat) (adds : list pos) : list pos * list nat :=
  match adds with
  | [] => st
  | p :: r => run_from (add st i p) (S i) r
  end.

Definition run_adds (adds : list pos) : list pos * list nat := run_from ([], []) 0%nat adds.
Definition kept_positions (adds : list pos) : list pos := fst (run_adds adds).
Definition kept_indices (adds : list pos) : list nat := rev (snd (run_adds adds)).
