(* Soundness of the typing judgment w.r.t. the execution model (proofs for C13). *)
From GV Require Import Base.Prelude Exec.Value Exec.Schema Exec.Spec Exec.SpecProps Exec.Typing.

(* ------------------------------------------------------------------ generic helpers *)

Lemma value_ind' (P : value -> Prop) :
  P VNull -> (forall z, P (VInt z)) -> (forall n d, P (VFloat n d)) -> (forall x, P (VStr x)) ->
  (forall b, P (VBool b)) -> (forall x, P (VEnum x)) -> (forall x, P (VVar x)) ->
  (forall l, Forall P l -> P (VList l)) ->
  (forall l, Forall (fun kv => P (snd kv)) l -> P (VObj l)) -> forall v, P v.
Proof.
  intros Hn Hi Hf Hs Hb He Hv Hl Ho. fix IH 1.
  intros [ | z | n d | x | b | x | x | l | l];
    [exact Hn | apply Hi | apply Hf | apply Hs | apply Hb | apply He | apply Hv | | ].
  - apply Hl. induction l as [|x r IHr]; constructor; [apply IH | exact IHr].
  - apply Ho. induction l as [|[k x] r IHr]; constructor; [apply IH | exact IHr].
Qed.

Lemma lookup_In {A} k (l : list (str * A)) v : lookup k l = Some v -> In (k, v) l.
Proof.
  induction l as [|[k' v'] r IH]; cbn; [discriminate|].
  destruct (str_eqb k k') eqn:E.
  - intro H. inversion H; subst. apply str_eqb_eq in E. subst. left. reflexivity.
  - intro H. right. apply IH. exact H.
Qed.

Lemma find_field_In n fs fd : find_field n fs = Some fd -> In fd fs /\ f_name fd = n.
Proof.
  induction fs as [|f r IH]; cbn; [discriminate|].
  destruct (str_eqb n (f_name f)) eqn:E.
  - intro H. inversion H; subst. apply str_eqb_eq in E. split; [left; reflexivity | congruence].
  - intro H. destruct (IH H) as [H1 H2]. split; [right; exact H1 | exact H2].
Qed.

Lemma find_var_In x l vd : find_var x l = Some vd -> In vd l /\ v_name vd = x.
Proof.
  induction l as [|v r IH]; cbn; [discriminate|].
  destruct (str_eqb x (v_name v)) eqn:E.
  - intro H. inversion H; subst. apply str_eqb_eq in E. split; [left; reflexivity | congruence].
  - intro H. destruct (IH H) as [H1 H2]. split; [right; exact H1 | exact H2].
Qed.

Lemma find_arg_In n l ad : find_arg n l = Some ad -> In ad l /\ a_name ad = n.
Proof.
  induction l as [|a r IH]; cbn; [discriminate|].
  destruct (str_eqb n (a_name a)) eqn:E.
  - intro H. inversion H; subst. apply str_eqb_eq in E. split; [left; reflexivity | congruence].
  - intro H. destruct (IH H) as [H1 H2]. split; [right; exact H1 | exact H2].
Qed.

Lemma nodup_names_head x r : nodup_names (x :: r) = true -> ~ In x r /\ nodup_names r = true.
Proof.
  cbn. intro H. apply andb_true_iff in H. destruct H as [H1 H2]. split; [|exact H2].
  apply negb_true_iff in H1. apply mem_not_In. exact H1.
Qed.

(* ------------------------------------------------------------------ coerced values are not null *)

Lemma coerce_leaf_lit_nonnull s n v c : coerce_leaf_lit s n v = Some c -> c <> VNull.
Proof.
  unfold coerce_leaf_lit. destruct (lookup_type s n) as [[[]|vals| | | |]|]; try discriminate;
    destruct v; try discriminate; intro H; try (inversion H; subst; discriminate).
  - destruct (in_int_range z); inversion H; subst; discriminate.
  - destruct (mem s0 vals); inversion H; subst; discriminate.
Qed.

Lemma coerce_scalar_lit_nonnull s v t c : coerce_scalar_lit s v t = Some c -> c <> VNull.
Proof.
  revert c. induction t as [n|it IH|t' IH]; intros c; cbn.
  - apply coerce_leaf_lit_nonnull.
  - destruct (coerce_scalar_lit s v it); cbn; [|discriminate]. intro H; inversion H; discriminate.
  - apply IH.
Qed.

Lemma wrap_list_nonnull k c : c <> VNull -> wrap_list k c <> VNull.
Proof. destruct k; cbn; [auto | discriminate]. Qed.

(* a literal that is neither null nor a variable, or any literal at a non-null type *)
Lemma coerce_lit_nonnull s dflt cv v t c :
  is_nonnull t = true \/ (v <> VNull /\ forall x, v <> VVar x) ->
  coerce_lit s dflt cv v t = Some c -> c <> VNull.
Proof.
  intros Hn. destruct v; cbn [coerce_lit]; try (apply coerce_scalar_lit_nonnull).
  - destruct Hn as [Hn|[Hn _]]; [rewrite Hn; discriminate | congruence].
  - destruct Hn as [Hn|[_ Hn]]; [|exfalso; eapply Hn; reflexivity].
    destruct (lookup x cv) as [[]|]; try rewrite Hn; try discriminate;
      intro H; inversion H; subst; discriminate.
  - destruct (list_item_type t); [|discriminate].
    match goal with |- option_map VList ?g = _ -> _ => destruct g end; cbn; [|discriminate].
    intro H; inversion H; discriminate.
  - destruct (unwrap_named t) as [depth n].
    destruct (lookup_type s n) as [[| | | | |defs oneof]|]; try discriminate.
    destruct (pre_fields _ defs fields) as [pre|]; [|discriminate].
    destruct (assemble dflt defs (get_pre pre)) as [out|]; [|discriminate].
    destruct (oneof && negb (one_of_ok fields out)); [discriminate|].
    intro H; inversion H; subst. apply wrap_list_nonnull. discriminate.
Qed.

Lemma coerce_leaf_val_nonnull s n v c : coerce_leaf_val s n v = Some c -> c <> VNull.
Proof.
  unfold coerce_leaf_val. destruct (lookup_type s n) as [[[]|vals| | | |]|]; try discriminate;
    destruct v; try discriminate; intro H; try (inversion H; subst; discriminate).
  - destruct (in_int_range z); inversion H; subst; discriminate.
  - destruct (mem s0 vals); inversion H; subst; discriminate.
Qed.

Lemma coerce_scalar_val_nonnull s v t c : coerce_scalar_val s v t = Some c -> c <> VNull.
Proof.
  revert c. induction t as [n|it IH|t' IH]; intros c; cbn.
  - apply coerce_leaf_val_nonnull.
  - destruct (coerce_scalar_val s v it); cbn; [|discriminate]. intro H; inversion H; discriminate.
  - apply IH.
Qed.

Lemma coerce_val_nonnull s dflt v t c :
  is_nonnull t = true -> coerce_val s dflt v t = Some c -> c <> VNull.
Proof.
  intros Hn. destruct v; cbn [coerce_val]; try (apply coerce_scalar_val_nonnull); try discriminate.
  - rewrite Hn. discriminate.
  - destruct (list_item_type t); [|discriminate].
    match goal with |- option_map VList ?g = _ -> _ => destruct g end; cbn; [|discriminate].
    intro H; inversion H; discriminate.
  - destruct (unwrap_named t) as [depth n].
    destruct (lookup_type s n) as [[| | | | |defs oneof]|]; try discriminate.
    destruct (pre_fields _ defs fields) as [pre|]; [|discriminate].
    destruct (assemble dflt defs (get_pre pre)) as [out|]; [|discriminate].
    destruct (oneof && negb (one_of_ok fields out)); [discriminate|].
    intro H; inversion H; subst. apply wrap_list_nonnull. discriminate.
Qed.

(* ------------------------------------------------------------------ variable values *)

(* what variable coercion guarantees about the coerced map *)
Definition cv_ok (vdefs : list var_def) (cv : list (str * value)) : Prop :=
  forall vd, In vd vdefs ->
    (is_nonnull (v_type vd) = true -> exists c, lookup (v_name vd) cv = Some c /\ c <> VNull) /\
    (has_nonnull_default (v_default vd) = true -> exists c, lookup (v_name vd) cv = Some c).

Lemma coerce_vars_ok s vdefs given cv :
  nodup_names (map v_name vdefs) = true ->
  coerce_variable_values s vdefs given = Some cv -> cv_ok vdefs cv.
Proof.
  revert cv. induction vdefs as [|vd rest IH]; intros cv Hnd H.
  - intros vd [].
  - cbn [map] in Hnd. apply nodup_names_head in Hnd. destruct Hnd as [Hnotin Hnd].
    cbn [coerce_variable_values] in H.
    destruct (negb (is_input_type s (v_type vd))); [discriminate|].
    destruct (coerce_variable_values s rest given) as [cr|] eqn:Er.
    2:{ destruct (match lookup (v_name vd) given with Some _ => _ | None => _ end) as [[?|]|]; discriminate. }
    specialize (IH cr Hnd eq_refl).
    assert (Htail : forall c0 vd', In vd' rest ->
              lookup (v_name vd') ((v_name vd, c0) :: cr) = lookup (v_name vd') cr).
    { intros c0 vd' Hin. cbn. destruct (str_eqb (v_name vd') (v_name vd)) eqn:E; [|reflexivity].
      apply str_eqb_eq in E. exfalso. apply Hnotin. rewrite <- E. apply in_map. exact Hin. }
    destruct (lookup (v_name vd) given) as [gv|] eqn:Eg.
    + (* provided *)
      destruct (coerce_val s (coerce_const s) gv (v_type vd)) as [c|] eqn:Ec; cbn in H; [|discriminate].
      inversion H; subst; clear H. intros vd' [<-|Hin].
      * split; intros Hx; exists c; cbn; rewrite str_eqb_refl; [split; [reflexivity|] | reflexivity].
        eapply coerce_val_nonnull; [exact Hx | exact Ec].
      * rewrite (Htail c vd' Hin). apply IH. exact Hin.
    + destruct (v_default vd) as [lit|] eqn:Ed.
      * destruct (coerce_const s (v_type vd) lit) as [c|] eqn:Ec; cbn in H; [|discriminate].
        inversion H; subst; clear H. intros vd' [<-|Hin].
        -- split; intros Hx; exists c; cbn; rewrite str_eqb_refl; [split; [reflexivity|] | reflexivity].
           unfold coerce_const in Ec. cbn [coerce_default] in Ec.
           eapply coerce_lit_nonnull; [left; exact Hx | exact Ec].
        -- rewrite (Htail c vd' Hin). apply IH. exact Hin.
      * destruct (is_nonnull (v_type vd)) eqn:En; cbn in H; [discriminate|].
        inversion H; subst; clear H. intros vd' [<-|Hin].
        -- split; intro Hx; [congruence|]. rewrite Ed in Hx. discriminate.
        -- apply IH. exact Hin.
Qed.

(* ------------------------------------------------------------------ schema facts *)

(* argument defaults of a valid schema coerce *)
Lemma schema_defaults s rt name fd :
  schema_ok s = true -> lookup_field s rt name = Some fd -> defaults_ok s (f_args fd) = true.
Proof.
  intros Hs Hl.
  assert (Hfs : exists fs, fields_defaults_ok s fs = true /\ In fd fs).
  { unfold lookup_field, lookup_type in Hl.
    destruct (scalar_of_name rt); [discriminate|].
    destruct (lookup rt (s_types s)) as [td|] eqn:El; [|discriminate].
    apply lookup_In in El. unfold schema_ok in Hs. rewrite forallb_forall in Hs.
    specialize (Hs _ El). cbn in Hs.
    destruct td as [| |fs ifs|fs| |]; try discriminate;
      exists fs; (split; [exact Hs | apply find_field_In in Hl; apply Hl]). }
  destruct Hfs as [fs [Hok Hfd]]. unfold fields_defaults_ok in Hok.
  rewrite forallb_forall in Hok. exact (Hok _ Hfd).
Qed.

(* input object types of a valid schema *)
Lemma schema_input s n defs oneof :
  schema_ok s = true -> lookup_type s n = Some (TInput defs oneof) ->
  nodup_names (map a_name defs) = true /\ defaults_ok s defs = true /\
  (oneof = true ->
   forall ad, In ad defs -> is_nonnull (a_type ad) = false /\ a_default ad = None).
Proof.
  intros Hs Hl. unfold lookup_type in Hl. destruct (scalar_of_name n); [discriminate|].
  apply lookup_In in Hl. unfold schema_ok in Hs. rewrite forallb_forall in Hs.
  specialize (Hs _ Hl). cbn in Hs. apply andb_true_iff in Hs. destruct Hs as [Hs Ho].
  apply andb_true_iff in Hs. destruct Hs as [Hnd Hd].
  split; [exact Hnd|]. split; [exact Hd|]. intros -> ad Hin. cbn in Ho. rewrite forallb_forall in Ho.
  specialize (Ho _ Hin). apply andb_true_iff in Ho. destruct Ho as [H1 H2].
  apply negb_true_iff in H1. split; [exact H1|].
  unfold has_default in H2. destruct (a_default ad); [discriminate | reflexivity].
Qed.

Lemma find_arg_self defs ad :
  nodup_names (map a_name defs) = true -> In ad defs -> find_arg (a_name ad) defs = Some ad.
Proof.
  induction defs as [|a r IH]; intros Hnd Hin; [destruct Hin|].
  cbn [map] in Hnd. apply nodup_names_head in Hnd. destruct Hnd as [Hnot Hnd].
  cbn [find_arg]. destruct Hin as [->|Hin]; [rewrite str_eqb_refl; reflexivity|].
  destruct (str_eqb (a_name ad) (a_name a)) eqn:E; [|apply IH; assumption].
  apply str_eqb_eq in E. exfalso. apply Hnot. rewrite <- E. apply in_map. exact Hin.
Qed.

(* ------------------------------------------------------------------ assembling arguments / input fields *)

Lemma assemble_some dflt defs get :
  (forall ad, In ad defs ->
     match get ad with
     | PAbsent => required_arg ad = false /\
                  (forall lit, a_default ad = Some lit -> dflt (a_type ad) lit <> None)
     | PValue c => c <> None
     end) ->
  exists r, assemble dflt defs get = Some r.
Proof.
  induction defs as [|ad rest IH]; intros H; [eexists; reflexivity|].
  destruct (IH (fun ad' Hin => H ad' (or_intror Hin))) as [cr Hcr].
  cbn [assemble]. rewrite Hcr. specialize (H ad (or_introl eq_refl)).
  destruct (get ad) as [|c].
  - destruct H as [Hr Hd]. rewrite Hr. destruct (a_default ad) as [lit|].
    + destruct (dflt (a_type ad) lit) eqn:E; [eexists; reflexivity|]. exfalso. eapply Hd; [reflexivity|exact E].
    + eexists; reflexivity.
  - destruct c as [c|]; [eexists; reflexivity | congruence].
Qed.

Lemma defaults_ok_In s defs ad lit :
  defaults_ok s defs = true -> In ad defs -> a_default ad = Some lit ->
  coerce_const s (a_type ad) lit <> None.
Proof.
  unfold defaults_ok. rewrite forallb_forall. intros H Hin Hd. specialize (H _ Hin).
  rewrite Hd in H. destruct (coerce_const s (a_type ad) lit); [discriminate | discriminate H].
Qed.

(* a OneOf object with one provided field yields exactly that entry *)
Lemma assemble_oneof dflt defs k c :
  nodup_names (map a_name defs) = true ->
  (forall ad, In ad defs -> is_nonnull (a_type ad) = false /\ a_default ad = None) ->
  assemble dflt defs (get_pre [(k, PValue (Some c))])
  = Some (if mem k (map a_name defs) then [(k, c)] else []).
Proof.
  induction defs as [|ad rest IH]; intros Hnd H; [reflexivity|].
  cbn [map] in Hnd. apply nodup_names_head in Hnd. destruct Hnd as [Hnot Hnd].
  specialize (IH Hnd (fun ad' Hin => H ad' (or_intror Hin))).
  cbn [assemble]. rewrite IH. destruct (H ad (or_introl eq_refl)) as [Hn Hd].
  unfold get_pre at 1. cbn [lookup].
  replace (mem k (map a_name (ad :: rest))) with (str_eqb k (a_name ad) || mem k (map a_name rest))
    by reflexivity.
  destruct (str_eqb (a_name ad) k) eqn:E.
  - apply str_eqb_eq in E. subst k. rewrite str_eqb_refl. apply mem_not_In in Hnot. rewrite Hnot.
    reflexivity.
  - assert (E' : str_eqb k (a_name ad) = false).
    { apply str_eqb_neq. apply str_eqb_neq in E. congruence. }
    rewrite E'. cbn [orb]. unfold required_arg. rewrite Hn, Hd. cbn.
    destruct (mem k (map a_name rest)); reflexivity.
Qed.

Lemma pre_fields_keys co defs flds pre :
  pre_fields co defs flds = Some pre -> forall k, lookup k pre = None <-> lookup k flds = None.
Proof.
  revert pre. induction flds as [|[k0 x] r IH]; intros pre H k.
  - inversion H; subst. split; reflexivity.
  - cbn [pre_fields] in H. destruct (find_arg k0 defs) as [ad|]; [|discriminate].
    destruct (pre_fields co defs r) as [pr|] eqn:Er; [|discriminate]. inversion H; subst.
    cbn [lookup]. destruct (str_eqb k k0); [split; discriminate | apply IH; reflexivity].
Qed.

(* ------------------------------------------------------------------ literals and arguments *)

Section Args.
  Variable s : schema.
  Variable vdefs : list var_def.
  Variable cv : list (str * value).
  Hypothesis Hschema : schema_ok s = true.
  Hypothesis Hcv : cv_ok vdefs cv.
  Let nulls := nulls_of vdefs cv.

  Lemma null_var_in_nulls vd :
    In vd vdefs -> is_nonnull (v_type vd) = false -> lookup (v_name vd) cv = Some VNull ->
    mem (v_name vd) nulls = true.
  Proof.
    intros Hin Ht Hl. apply mem_In. unfold nulls, nulls_of. apply in_flat_map.
    exists vd. split; [exact Hin|]. rewrite Ht, Hl. left. reflexivity.
  Qed.

  (* a variable allowed at a location has a usable value there, or has no value at all where the
     location can do without *)
  Lemma var_usage x vd t dflt :
    find_var x vdefs = Some vd ->
    allowed_usage (v_type vd) (v_default vd) t dflt && negb (is_nonnull t && mem x nulls) = true ->
    match lookup x cv with
    | None => is_nonnull t = false \/ dflt = true
    | Some c => is_nonnull t = true -> c <> VNull
    end.
  Proof.
    intros Hf Ha. apply find_var_In in Hf. destruct Hf as [Hin <-].
    apply andb_true_iff in Ha. destruct Ha as [Ha Hnl].
    destruct (Hcv vd Hin) as [P1 P2].
    destruct t as [n|it|lt]; cbn [is_nonnull].
    1,2: destruct (lookup (v_name vd) cv); [discriminate | left; reflexivity].
    cbn [allowed_usage] in Ha.
    destruct (is_nonnull (v_type vd)) eqn:En.
    - destruct (P1 eq_refl) as [c [-> Hc]]. intros _. exact Hc.
    - apply andb_true_iff in Ha. destruct Ha as [Ha _].
      destruct (lookup (v_name vd) cv) as [c|] eqn:El.
      + intros _ ->. rewrite (null_var_in_nulls vd Hin En El) in Hnl. discriminate.
      + apply orb_true_iff in Ha. destruct Ha as [Ha|Ha]; [|right; exact Ha].
        destruct (P2 Ha) as [c Hc]. congruence.
  Qed.

  Definition lit_result (v : value) (t : ty) (dflt : bool) : Prop :=
    (exists c, coerce_lit s (coerce_const s) cv v t = Some c) \/
    (exists x, v = VVar x /\ lookup x cv = None /\ (is_nonnull t = false \/ dflt = true)).

  (* the fields of an object literal *)
  Lemma pre_fields_sound defs flds :
    Forall (fun kv => forall t dflt, lit_ok s vdefs nulls (snd kv) t dflt = true ->
                                     lit_result (snd kv) t dflt) flds ->
    (fix all (l : list (str * value)) : bool :=
       match l with
       | [] => true
       | (k, x) :: r =>
         match find_arg k defs with
         | Some ad => lit_ok s vdefs nulls x (a_type ad) (has_default ad)
         | None => false
         end && all r
       end) flds = true ->
    exists pre,
      pre_fields (fun x t' => if missing_var cv x then PAbsent
                              else PValue (coerce_lit s (coerce_const s) cv x t')) defs flds = Some pre /\
      forall k p, lookup k pre = Some p ->
        match p with
        | PValue c => c <> None
        | PAbsent => forall ad, find_arg k defs = Some ad -> required_arg ad = false
        end.
  Proof.
    induction flds as [|[k x] r IH]; intros HF H.
    - exists []. split; [reflexivity|]. intros k p Hl. discriminate.
    - inversion HF as [|? ? Hx HF']; subst. cbn [snd] in Hx.
      destruct (find_arg k defs) as [ad|] eqn:Ea; [|discriminate].
      apply andb_true_iff in H. destruct H as [H1 H2].
      destruct (IH HF' H2) as [pre [Hp Hall]]. cbn [pre_fields]. rewrite Ea, Hp.
      eexists. split; [reflexivity|]. intros k' p Hl. cbn [lookup] in Hl.
      destruct (str_eqb k' k) eqn:Ek; [|apply Hall; exact Hl].
      apply str_eqb_eq in Ek. subst k'. inversion Hl; subst; clear Hl.
      destruct (Hx _ _ H1) as [[c Hc]|[y [-> [Hy Hor]]]].
      + destruct (missing_var cv x) eqn:Em.
        * (* a variable without value that nevertheless coerces: impossible *)
          destruct x; try discriminate. cbn in Em, Hc. destruct (lookup x cv); discriminate.
        * rewrite Hc. discriminate.
      + cbn [missing_var]. rewrite Hy. intros ad' Ha'. rewrite Ea in Ha'. inversion Ha'; subst ad'.
        unfold required_arg, has_default in *. destruct Hor as [Hi|Hi]; [rewrite Hi; reflexivity|].
        destruct (a_default ad); [apply andb_false_r | discriminate].
  Qed.

  Lemma lit_sound : forall v t dflt,
    lit_ok s vdefs nulls v t dflt = true -> lit_result v t dflt.
  Proof.
    induction v as [ | z | n d | x | b | x | x | l IHl | l IHl] using value_ind';
      intros t dflt H; cbn [lit_ok] in H; unfold lit_result;
      try (left; cbn [coerce_lit];
           match type of H with match ?c with Some _ => _ | None => _ end = _ =>
             destruct c as [c0|]; [exists c0; reflexivity | discriminate] end).
    - (* null *)
      left. cbn. apply negb_true_iff in H. rewrite H. eexists; reflexivity.
    - (* variable *)
      destruct (find_var x vdefs) as [vd|] eqn:Ef; [|discriminate].
      pose proof (var_usage x vd t dflt Ef H) as Hu. cbn [coerce_lit].
      destruct (lookup x cv) as [c|] eqn:El.
      + left. destruct c; try (eexists; reflexivity).
        destruct (is_nonnull t) eqn:En; [exfalso; apply (Hu eq_refl); reflexivity | eexists; reflexivity].
      + right. exists x. split; [reflexivity | split; [first [reflexivity | exact El] | exact Hu]].
    - (* list *)
      left. cbn [coerce_lit]. destruct (list_item_type t) as [it|]; [|discriminate].
      match goal with |- exists c, option_map VList ?g = Some c =>
        assert (Hg : exists r, g = Some r); [|destruct Hg as [r ->]; eexists; reflexivity] end.
      induction l as [|y r IHr].
      + eexists; reflexivity.
      + inversion IHl as [|? ? Hy Hr]; subst. apply andb_true_iff in H. destruct H as [H1 H2].
        destruct (IHr Hr H2) as [cr ->].
        destruct (Hy it false H1) as [[c ->]|[z [-> [Hz [Hi|Hi]]]]].
        * eexists; reflexivity.
        * cbn [coerce_lit]. rewrite Hz, Hi. eexists; reflexivity.
        * discriminate.
    - (* input object *)
      left. cbn [coerce_lit]. destruct (unwrap_named t) as [depth n].
      destruct (lookup_type s n) as [[| | | | |defs oneof]|] eqn:El; try discriminate.
      apply andb_true_iff in H. destruct H as [H Hone].
      apply andb_true_iff in H. destruct H as [H Hreq].
      apply andb_true_iff in H. destruct H as [_ Hall].
      destruct (schema_input s n defs oneof Hschema El) as [Hnd [Hdef Hoo]].
      destruct (pre_fields_sound defs l IHl Hall) as [pre [Hp Hpre]]. rewrite Hp.
      destruct (assemble_some (coerce_const s) defs (get_pre pre)) as [out Hout].
      { intros ad Hin. unfold get_pre. destruct (lookup (a_name ad) pre) as [p|] eqn:Elp.
        - specialize (Hpre _ _ Elp). destruct p as [|c]; [|exact Hpre].
          split; [|intros lit Hl; eapply defaults_ok_In; eassumption].
          apply Hpre. apply find_arg_self; assumption.
        - split; [|intros lit Hl; eapply defaults_ok_In; eassumption].
          apply (pre_fields_keys _ _ _ _ Hp) in Elp.
          rewrite forallb_forall in Hreq. specialize (Hreq _ Hin). unfold has_key in Hreq.
          rewrite Elp in Hreq. cbn in Hreq. apply negb_true_iff in Hreq. exact Hreq. }
      rewrite Hout.
      destruct oneof; cbn [andb]; [|eexists; reflexivity].
      (* OneOf: exactly one field, whose value is not null *)
      cbn [negb orb] in Hone.
      destruct l as [|[k x] [|? ?]]; try discriminate.
      apply andb_true_iff in Hone. destruct Hone as [Hnx Hvar].
      cbn [pre_fields] in Hp. destruct (find_arg k defs) as [ad|] eqn:Ea; [|discriminate].
      assert (Hc : exists c, missing_var cv x = false /\
                             coerce_lit s (coerce_const s) cv x (a_type ad) = Some c /\ c <> VNull).
      { inversion IHl as [|? ? Hx _]; subst. cbn [snd] in Hx.
        cbn in Hall. apply andb_true_iff in Hall. destruct Hall as [Hlx _].
        destruct x as [ | z | n0 d | x0 | b | x0 | y | l0 | l0];
          try (destruct (Hx _ _ Hlx) as [[c Hc]|[y0 [Hy0 _]]]; [|discriminate Hy0];
               exists c; split; [reflexivity|]; split; [exact Hc|];
               eapply coerce_lit_nonnull; [|exact Hc]; right; split; [discriminate | intros ?; discriminate]).
        all: try (cbn in Hnx; discriminate Hnx).
        (* a variable: a OneOf field is a non-null position *)
        destruct (find_var y vdefs) as [vd|] eqn:Ev; [|discriminate].
        pose proof (var_usage y vd (TNonNull (a_type ad)) false Ev Hvar) as Hu.
        cbn [missing_var coerce_lit]. destruct (lookup y cv) as [c0|] eqn:Ely.
        * specialize (Hu eq_refl). exists c0. split; [reflexivity|]. split; [|exact Hu].
          destruct c0; try reflexivity. congruence.
        * destruct Hu; discriminate. }
      destruct Hc as [c [Hm [Hc Hcn]]]. rewrite Hm, Hc in Hp. inversion Hp; subst pre; clear Hp.
      rewrite (assemble_oneof (coerce_const s) defs k c Hnd (Hoo eq_refl)) in Hout.
      assert (Hk : mem k (map a_name defs) = true).
      { apply mem_In. apply find_arg_In in Ea. destruct Ea as [Hin <-]. apply in_map. exact Hin. }
      rewrite Hk in Hout. inversion Hout; subst out. cbn [one_of_ok].
      rewrite Hnx. destruct c; try (eexists; reflexivity). congruence.
  Qed.

  Lemma args_sound defs args :
    defaults_ok s defs = true ->
    forallb (fun ad =>
       match lookup (a_name ad) args with
       | None => negb (required_arg ad)
       | Some v => lit_ok s vdefs nulls v (a_type ad) (has_default ad)
       end) defs = true ->
    exists r, coerce_args s cv defs args = Some r.
  Proof.
    intros Hd H. unfold coerce_args. apply assemble_some. intros ad Hin.
    rewrite forallb_forall in H. specialize (H _ Hin).
    destruct (lookup (a_name ad) args) as [v|].
    - destruct (lit_sound v _ _ H) as [[c Hc]|[x [-> [Hx Hor]]]].
      + destruct (missing_var cv v) eqn:Em.
        * destruct v; try discriminate. cbn in Em, Hc. destruct (lookup x cv); discriminate.
        * rewrite Hc. discriminate.
      + cbn [missing_var]. rewrite Hx.
        split; [|intros lit Hl; eapply defaults_ok_In; eassumption].
        unfold required_arg, has_default in *. destruct Hor as [Hi|Hi]; [rewrite Hi; reflexivity|].
        destruct (a_default ad); [apply andb_false_r | discriminate].
    - split; [apply negb_true_iff in H; exact H | intros lit Hl; eapply defaults_ok_In; eassumption].
  Qed.
End Args.

(* ------------------------------------------------------------------ reachable fields *)

Section Reach.
  Variable s : schema.
  Variable frags : list fragment.
  Variable rt : str.

  Lemma reach_incl sels sels' k f :
    (forall x, In x sels' -> In x sels) -> reach s frags rt sels' k f -> reach s frags rt sels k f.
  Proof.
    intros Hi H. destruct H.
    - eapply r_field. apply Hi. eassumption.
    - eapply r_inline; [apply Hi; eassumption | assumption | assumption].
    - eapply r_spread; [apply Hi; eassumption | eassumption | assumption | assumption].
  Qed.

  Lemma reach_merged_inv fs k f :
    reach s frags rt (merged_sels fs) k f -> exists f0, In f0 fs /\ reach s frags rt (fs_sels f0) k f.
  Proof.
    unfold merged_sels. intro H.
    inversion H as [sels al name args dirs sub Hin
                   | sels tc dirs sub k0 f1 Hin Hc Hr
                   | sels name dirs fr k0 f1 Hin Hf Hc Hr]; subst.
    - apply in_flat_map in Hin. destruct Hin as [f0 [H0 H1]]. exists f0. split; [exact H0|].
      eapply r_field. exact H1.
    - apply in_flat_map in Hin. destruct Hin as [f0 [H0 H1]]. exists f0. split; [exact H0|].
      eapply r_inline; eassumption.
    - apply in_flat_map in Hin. destruct Hin as [f0 [H0 H1]]. exists f0. split; [exact H0|].
      eapply r_spread; eassumption.
  Qed.

  Lemma reach_merged fs f0 k f :
    In f0 fs -> reach s frags rt (fs_sels f0) k f -> reach s frags rt (merged_sels fs) k f.
  Proof.
    intros Hin. apply reach_incl. intros x Hx. unfold merged_sels. apply in_flat_map.
    exists f0. split; assumption.
  Qed.
End Reach.

Lemma set_typed_mono s frags vdefs nulls rt sels sels' :
  (forall k f, reach s frags rt sels' k f -> reach s frags rt sels k f) ->
  set_typed s frags vdefs nulls rt sels -> set_typed s frags vdefs nulls rt sels'.
Proof.
  intros Hi H. inversion H as [rt0 sels0 H1 H2 H3]; subst. constructor.
  - intros k f Hr. eapply H1. apply Hi. exact Hr.
  - intros k f1 f2 Hr1 Hr2. eapply H2; apply Hi; eassumption.
  - intros k fs f1 fd rt' Hall Hin Hl Hrt. eapply H3; try eassumption.
    intros f Hf. apply Hi. apply Hall. exact Hf.
Qed.

(* ------------------------------------------------------------------ groups *)

Definition in_group (g : grouped) (k : str) (f : fieldsel) : Prop :=
  exists fs, In (k, fs) g /\ In f fs.

Lemma add_field_in_group k f g k' f' :
  in_group (add_field k f g) k' f' <-> in_group g k' f' \/ (k' = k /\ f' = f).
Proof.
  induction g as [|[k0 fs0] r IH]; cbn [add_field].
  - split.
    + intros [fs [[Heq|[]] Hin]]. inversion Heq; subst. destruct Hin as [<-|[]]. right. split; reflexivity.
    + intros [[fs [[] _]]|[-> ->]]. exists [f]. split; left; reflexivity.
  - destruct (str_eqb k k0) eqn:E.
    + apply str_eqb_eq in E. subst k0. split.
      * intros [fs [[Heq|Hin0] Hin]].
        -- inversion Heq; subst. apply in_app_iff in Hin. destruct Hin as [Hin|[<-|[]]].
           ++ left. exists fs0. split; [left; reflexivity | exact Hin].
           ++ right. split; reflexivity.
        -- left. exists fs. split; [right; exact Hin0 | exact Hin].
      * intros [[fs [[Heq|Hin0] Hin]]|[-> ->]].
        -- inversion Heq; subst. exists (fs ++ [f]). split; [left; reflexivity|].
           apply in_app_iff. left. exact Hin.
        -- exists fs. split; [right; exact Hin0 | exact Hin].
        -- exists (fs0 ++ [f]). split; [left; reflexivity|]. apply in_app_iff. right. left. reflexivity.
    + split.
      * intros [fs [[Heq|Hin0] Hin]].
        -- inversion Heq; subst. left. exists fs. split; [left; reflexivity | exact Hin].
        -- assert (Hg : in_group (add_field k f r) k' f') by (exists fs; split; assumption).
           apply IH in Hg. destruct Hg as [[fs' [H1 H2]]|Hg]; [|right; exact Hg].
           left. exists fs'. split; [right; exact H1 | exact H2].
      * intros [[fs [[Heq|Hin0] Hin]]|Hg].
        -- inversion Heq; subst. exists fs. split; [left; reflexivity | exact Hin].
        -- assert (Hg : in_group (add_field k f r) k' f') by (apply IH; left; exists fs; split; assumption).
           destruct Hg as [fs' [H1 H2]]. exists fs'. split; [right; exact H1 | exact H2].
        -- assert (Hg' : in_group (add_field k f r) k' f') by (apply IH; right; exact Hg).
           destruct Hg' as [fs' [H1 H2]]. exists fs'. split; [right; exact H1 | exact H2].
Qed.

Lemma group_in_gen fl : forall g k f,
  in_group (fold_left (fun g kf => add_field (fst kf) (snd kf) g) fl g) k f <->
  in_group g k f \/ In (k, f) fl.
Proof.
  induction fl as [|[k0 f0] r IH]; intros g k f; cbn [fold_left fst snd].
  - split; [intro H; left; exact H | intros [H|[]]; exact H].
  - rewrite IH. rewrite add_field_in_group. split.
    + intros [[H|[-> ->]]|H]; [left; exact H | right; left; reflexivity | right; right; exact H].
    + intros [H|[Heq|H]]; [left; left; exact H | inversion Heq; subst; left; right; split; reflexivity
                           | right; exact H].
Qed.

Lemma group_in fl k f : in_group (group fl) k f <-> In (k, f) fl.
Proof.
  unfold group. rewrite group_in_gen. split; [intros [[fs [[] _]]|H]; exact H | intro H; right; exact H].
Qed.

Lemma nodup_keys_unique (g : grouped) k fs1 fs2 :
  NoDup (keys g) -> In (k, fs1) g -> In (k, fs2) g -> fs1 = fs2.
Proof.
  induction g as [|[k0 fs0] r IH]; intros Hn H1 H2; [destruct H1|].
  cbn [keys map fst] in Hn. inversion Hn as [|? ? Hnot Hn']; subst.
  destruct H1 as [E1|H1], H2 as [E2|H2].
  - congruence.
  - inversion E1; subst. exfalso. apply Hnot. change (In k (keys r)). apply in_map_iff.
    exists (k, fs2). split; [reflexivity | exact H2].
  - inversion E2; subst. exfalso. apply Hnot. apply in_map_iff.
    exists (k, fs1). split; [reflexivity | exact H1].
  - apply IH; assumption.
Qed.

Lemma group_nodup fl : NoDup (keys (group fl)).
Proof.
  unfold group. assert (H : forall g, NoDup (keys g) ->
    NoDup (keys (fold_left (fun g kf => add_field (fst kf) (snd kf) g) fl g))).
  { induction fl as [|[k f] r IH]; intros g Hg; cbn [fold_left]; [exact Hg|].
    apply IH. apply add_field_nodup. exact Hg. }
  apply H. constructor.
Qed.

(* ------------------------------------------------------------------ CollectFields collects reachable fields *)

Section CollectReach.
  Variable s : schema.
  Variable frags : list fragment.
  Variable cv : list (str * value).
  Variable rt : str.
  Variable top : list selection.

  Definition greach (g : grouped) : Prop := forall k f, in_group g k f -> reach s frags rt top k f.

  Definition sub_reach (cur : list selection) : Prop :=
    forall k f, reach s frags rt cur k f -> reach s frags rt top k f.

  Lemma sub_reach_tail x rest : sub_reach (x :: rest) -> sub_reach rest.
  Proof. intros H k f Hr. apply H. eapply reach_incl; [|exact Hr]. intros y Hy. right. exact Hy. Qed.

  Lemma collect_list_reach rec :
    (forall cur v g v' g', sub_reach cur -> greach g -> rec cur (v, g) = Some (v', g') -> greach g') ->
    forall cur v g v' g', sub_reach cur -> greach g ->
      collect_list s frags cv rt grouped add_field rec cur (v, g) = Some (v', g') -> greach g'.
  Proof.
    intros Hrec. induction cur as [|x rest IH]; intros v g v' g' Hsub Hg H.
    - cbn in H. inversion H; subst. exact Hg.
    - pose proof (sub_reach_tail _ _ Hsub) as Hsub'.
      destruct x as [al name args dirs sub | name dirs | tc dirs sub]; cbn [collect_list fst snd] in H.
      + destruct (should_include cv dirs); [|eapply IH; eassumption].
        eapply IH; [exact Hsub' | | exact H].
        intros k f Hin. apply add_field_in_group in Hin. destruct Hin as [Hin|[-> ->]]; [apply Hg; exact Hin|].
        apply Hsub. eapply r_field. left. reflexivity.
      + destruct (negb (should_include cv dirs)); [eapply IH; eassumption|].
        destruct (mem name v); [eapply IH; eassumption|].
        destruct (find_frag name frags) as [fr|] eqn:Ef; [|eapply IH; eassumption].
        destruct (cond_matches s (fr_cond fr) rt) eqn:Ec; [|eapply IH; eassumption].
        destruct (rec (fr_sels fr) (name :: v, g)) as [[v1 g1]|] eqn:Er; [|discriminate].
        eapply IH; [exact Hsub' | | exact H].
        eapply Hrec; [|exact Hg|exact Er].
        intros k f Hr. apply Hsub. eapply r_spread; [left; reflexivity | exact Ef | exact Ec | exact Hr].
      + destruct (should_include cv dirs && match tc with Some c => cond_matches s c rt | None => true end) eqn:Ec;
          [|eapply IH; eassumption].
        apply andb_true_iff in Ec. destruct Ec as [_ Ec].
        destruct (rec sub (v, g)) as [[v1 g1]|] eqn:Er; [|discriminate].
        eapply IH; [exact Hsub' | | exact H].
        eapply Hrec; [|exact Hg|exact Er].
        intros k f Hr. apply Hsub. eapply r_inline; [left; reflexivity | exact Ec | exact Hr].
  Qed.

  Lemma collect_gen_reach fuel : forall cur v g v' g', sub_reach cur -> greach g ->
    collect s frags cv rt fuel cur (v, g) = Some (v', g') -> greach g'.
  Proof.
    induction fuel as [|f IH]; intros cur v g v' g' Hsub Hg H; [discriminate|].
    unfold collect in H. cbn [collect_gen] in H. eapply collect_list_reach; try eassumption.
  Qed.
End CollectReach.

Lemma collect_reach s frags cv rt fuel sels v g :
  collect s frags cv rt fuel sels ([], []) = Some (v, g) ->
  forall k fs f, In (k, fs) g -> In f fs -> reach s frags rt sels k f.
Proof.
  intros H k fs f H1 H2.
  eapply (collect_gen_reach s frags cv rt sels fuel sels [] [] v g); try exact H.
  - intros k0 f0 Hr. exact Hr.
  - intros k0 f0 [fs0 [[] _]].
  - exists fs. split; assumption.
Qed.

(* ------------------------------------------------------------------ conformance, inverted *)

Section Conf.
  Variable s : schema.

  Definition obj_conf (rt : str) (obj : list (str * data)) : Prop :=
    forall name fd, lookup_field s rt name = Some fd ->
      conforms s (match lookup name obj with Some d => d | None => DNull end) (f_type fd) = true.

  Lemma conforms_nonnull_inv d t' :
    d <> DNull -> conforms s d (TNonNull t') = true -> conforms s d t' = true.
  Proof.
    intros Hd H. destruct d; [congruence| | | |discriminate H];
      destruct t'; first [exact H | cbn in H; discriminate H].
  Qed.

  Lemma conforms_list_inv items it :
    conforms s (DList items) (TList it) = true -> Forall (fun x => conforms s x it = true) items.
  Proof. cbn [conforms]. intro H. apply Forall_forall. apply forallb_forall. exact H. Qed.

  Lemma lookup_field_object rt name fd :
    is_object s rt = true -> lookup_field s rt name = Some fd ->
    In fd (fields_of s rt) /\ f_name fd = name.
  Proof.
    unfold is_object, lookup_field, fields_of.
    destruct (lookup_type s rt) as [[| |fs ifs| | |]|]; try discriminate.
    intros _ H. apply find_field_In. exact H.
  Qed.

  Lemma conforms_obj_inv tn flds n :
    conforms s (DObj tn flds) (TNamed n) = true ->
    exists rt, ((is_object s n = true /\ rt = n) \/
                (is_object s n = false /\ is_object s tn = true /\ possible s n tn = true /\ rt = tn)) /\
               is_object s rt = true /\ obj_conf rt flds.
  Proof.
    cbn [conforms].
    set (rto := if is_object s n then Some n
                else if is_object s tn && possible s n tn then Some tn else None).
    destruct rto as [rt|] eqn:Ert; [|discriminate]. intro H.
    apply andb_true_iff in H. destruct H as [H1 H2].
    assert (Hrt : ((is_object s n = true /\ rt = n) \/
                   (is_object s n = false /\ is_object s tn = true /\ possible s n tn = true /\ rt = tn))
                  /\ is_object s rt = true).
    { subst rto. destruct (is_object s n) eqn:E1.
      - inversion Ert; subst. split; [left; split; reflexivity | exact E1].
      - destruct (is_object s tn && possible s n tn) eqn:E2; [|discriminate].
        inversion Ert; subst. apply andb_true_iff in E2. destruct E2 as [E2 E3].
        split; [right; repeat split; assumption | exact E2]. }
    destruct Hrt as [Hrt Hobj]. exists rt. split; [exact Hrt|]. split; [exact Hobj|].
    intros name fd Hl. destruct (lookup name flds) as [d|] eqn:El.
    - apply lookup_In in El. rewrite forallb_forall in H1. specialize (H1 _ El). cbn in H1.
      rewrite Hl in H1. exact H1.
    - destruct (lookup_field_object rt name fd Hobj Hl) as [Hin Hn].
      rewrite forallb_forall in H2. specialize (H2 _ Hin). unfold has_key in H2. rewrite Hn, El in H2.
      cbn in H2. cbn [conforms]. exact H2.
  Qed.

  Lemma complete_leaf_nonnull td l j : complete_leaf td l = Some j -> j <> JNull.
  Proof.
    destruct td as [[]|vals| | | |]; destruct l; cbn; try discriminate;
      intro H; try (inversion H; subst; discriminate).
    - destruct (in_int_range z); inversion H; subst; discriminate.
    - destruct (mem s0 vals); inversion H; subst; discriminate.
  Qed.

End Conf.

(* ------------------------------------------------------------------ well-typed execution over conforming data *)

Section ExecSound.
  Variable s : schema.
  Variable frags : list fragment.
  Variable vdefs : list var_def.
  Variable cv : list (str * value).
  Hypothesis Hschema : schema_ok s = true.
  Hypothesis Hcv : cv_ok vdefs cv.

  Let nulls := nulls_of vdefs cv.
  Let styped := set_typed s frags vdefs nulls.

  (* a value, no errors *)
  Definition clean (P : json -> Prop) (o : out) : Prop :=
    exists j cs, o = (CVal j, [], cs) /\ P j.

  Definition sub_ok (t : ty) (sels : list selection) : Prop :=
    forall rt', runtime_of_b s (named_of t) rt' = true -> styped rt' sels.

  Lemma exec_groups_clean ef : forall g r es cs,
    (forall k fs o, In (k, fs) g -> ef fs = Some (FRes o) -> clean (fun _ => True) o) ->
    exec_groups ef g = Some (r, es, cs) -> (exists kvs, r = Some kvs) /\ es = [].
  Proof.
    induction g as [|[k fs] rest IH]; intros r es cs Hf H; cbn [exec_groups] in H.
    - inversion H; subst. split; [eexists; reflexivity | reflexivity].
    - destruct (ef fs) as [[|o]|] eqn:Ef; [| |discriminate].
      + eapply IH; [|exact H]. intros k' fs' o' Hin. apply (Hf k'). right. exact Hin.
      + destruct (Hf k fs o (or_introl eq_refl) Ef) as [j [cs0 [-> _]]].
        destruct (exec_groups ef rest) as [[[r' es'] cs']|] eqn:Er; [|discriminate].
        destruct (IH r' es' cs' (fun k' fs' o' Hin => Hf k' fs' o' (or_intror Hin)) eq_refl) as [[kvs ->] ->].
        inversion H; subst; clear H.
        split; [eexists; reflexivity | reflexivity].
  Qed.

  Lemma complete_items_clean cf : forall items i r es cs,
    (forall x o, In x items -> cf x = Some o -> clean (fun _ => True) o) ->
    complete_items cf items i = Some (r, es, cs) -> (exists js, r = Some js) /\ es = [].
  Proof.
    induction items as [|x rest IH]; intros i r es cs Hf H; cbn [complete_items] in H.
    - inversion H; subst. split; [eexists; reflexivity | reflexivity].
    - destruct (cf x) as [o|] eqn:Ex; [|discriminate].
      destruct (Hf x o (or_introl eq_refl) Ex) as [j [cs0 [-> _]]].
      destruct (complete_items cf rest (S i)) as [[[r' es'] cs']|] eqn:Er; [|discriminate].
      destruct (IH (S i) r' es' cs' (fun y o' Hin => Hf y o' (or_intror Hin)) Er) as [[js ->] ->].
      inversion H; subst; clear H.
      split; [eexists; reflexivity | reflexivity].
  Qed.

  Lemma runtime_self n : is_object s n = true -> runtime_of_b s n n = true.
  Proof. intro H. unfold runtime_of_b. rewrite H, str_eqb_refl. reflexivity. Qed.

  Theorem exec_sound : forall fuel,
    (forall rt obj sels o, is_object s rt = true -> styped rt sels -> obj_conf s rt obj ->
        exec_sels s frags cv fuel rt obj sels = Some o -> clean (fun j => j <> JNull) o) /\
    (forall rt obj top k fs o, is_object s rt = true -> styped rt top ->
        (forall f, In f fs -> reach s frags rt top k f) -> obj_conf s rt obj ->
        exec_field s frags cv fuel rt obj fs = Some (FRes o) -> clean (fun _ => True) o) /\
    (forall t sels d o, sub_ok t sels -> conforms s d t = true ->
        complete s frags cv fuel t sels d = Some o -> clean (fun j => d <> DNull -> j <> JNull) o).
  Proof.
    induction fuel as [|f [IHs [IHf IHc]]].
    { repeat split; intros; discriminate. }
    repeat split.
    - (* exec_sels *)
      intros rt obj sels o Hobj Hty Hconf H. rewrite exec_sels_S in H.
      destruct (collect s frags cv rt f sels ([], [])) as [[v g]|] eqn:Ec; [|discriminate].
      destruct (exec_groups (exec_field s frags cv f rt obj) g) as [[[r es] cs]|] eqn:Eg; [|discriminate].
      destruct (exec_groups_clean (exec_field s frags cv f rt obj) g r es cs) as [[kvs ->] ->]; [|exact Eg|].
      { intros k fs o' Hin Hf. eapply (IHf rt obj sels k fs o' Hobj Hty); [|exact Hconf|exact Hf].
        intros f0 Hf0. eapply collect_reach; eassumption. }
      inversion H; subst. exists (JObj kvs), cs. split; [reflexivity | discriminate].
    - (* exec_field *)
      intros rt obj top k fs o Hobj Hty Hreach Hconf H. rewrite exec_field_S in H.
      destruct fs as [|f1 fs']; [discriminate|].
      destruct (str_eqb (fs_name f1) n_typename) eqn:Et.
      { inversion H; subst. eexists _, _. split; [reflexivity | exact I]. }
      inversion Hty as [rt0 top0 T1 T2 T3]; subst.
      pose proof (T1 k f1 (Hreach f1 (or_introl eq_refl))) as Hf1. unfold field_ok in Hf1.
      rewrite Et in Hf1.
      destruct (lookup_field s rt (fs_name f1)) as [fd|] eqn:El; [|discriminate].
      apply andb_true_iff in Hf1. destruct Hf1 as [Hargs _].
      unfold args_ok in Hargs. apply andb_true_iff in Hargs. destruct Hargs as [_ Hargs].
      destruct (args_sound s vdefs cv Hschema Hcv (f_args fd) (fs_args f1)
                  (schema_defaults s rt (fs_name f1) fd Hschema El) Hargs) as [args Ha].
      rewrite Ha in H.
      destruct (complete s frags cv f (f_type fd) (merged_sels (f1 :: fs'))
                  match lookup (fs_name f1) obj with Some d => d | None => DNull end)
        as [[[r es] cs]|] eqn:Ecp; [|discriminate].
      assert (Hsub : sub_ok (f_type fd) (merged_sels (f1 :: fs'))).
      { intros rt' Hrt'. eapply (T3 k (f1 :: fs') f1 fd rt'); try eassumption. left. reflexivity. }
      destruct (IHc _ _ _ _ Hsub (Hconf _ _ El) Ecp) as [j [cs0 [Heq _]]].
      inversion Heq; subst. inversion H; subst. cbn [catch]. eexists _, _. split; [reflexivity | exact I].
    - (* complete *)
      intros t sels d o Hsub Hc H. rewrite complete_S in H.
      assert (HN : forall t', t = TNonNull t' -> d <> DNull ->
                match complete s frags cv f t' sels d with
                | None => None
                | Some (CVal JNull, es, cs) => Some (CErr, es ++ [([], CauseNull)], cs)
                | Some o => Some o
                end = Some o -> clean (fun j => d <> DNull -> j <> JNull) o).
      { intros t' -> Hd HH.
        destruct (complete s frags cv f t' sels d) as [o'|] eqn:Ecp; [|discriminate].
        assert (Hsub' : sub_ok t' sels) by exact Hsub.
        destruct (IHc _ _ _ _ Hsub' (conforms_nonnull_inv s d t' Hd Hc) Ecp) as [j [cs0 [-> Hj]]].
        specialize (Hj Hd). destruct j; try congruence; inversion HH; subst;
          eexists _, _; (split; [reflexivity | intros _; discriminate]). }
      destruct d as [|l|tn flds|items|]; [| | | |discriminate Hc].
      + (* DNull *)
        destruct t as [n|it|t']; [| |discriminate Hc];
          inversion H; subst; eexists _, _; (split; [reflexivity | congruence]).
      + (* DLeaf *)
        destruct t as [n|it|t']; [|discriminate Hc | eapply HN; [reflexivity | discriminate | exact H]].
        cbn [conforms] in Hc. destruct (lookup_type s n) as [td|] eqn:El; [|discriminate].
        apply andb_true_iff in Hc. destruct Hc as [Hleaf Hcl].
        destruct (complete_leaf td l) as [j|] eqn:Ecl; [|discriminate].
        destruct td as [sc|vals| | | |]; try discriminate;
          inversion H; subst; eexists _, _;
            (split; [reflexivity | intros _; eapply complete_leaf_nonnull; exact Ecl]).
      + (* DObj *)
        destruct t as [n|it|t']; [|discriminate Hc | eapply HN; [reflexivity | discriminate | exact H]].
        destruct (conforms_obj_inv s tn flds n Hc) as [rt [Hrt [Hobj Hoc]]].
        assert (Hgo : forall o', exec_sels s frags cv f rt flds sels = Some o' ->
                                 clean (fun j => DObj tn flds <> DNull -> j <> JNull) o').
        { intros o' He. assert (Hst : styped rt sels).
          { apply Hsub. cbn [named_of]. destruct Hrt as [[Ho ->]|[Hn [Ho [Hp ->]]]].
            - apply runtime_self. exact Ho.
            - unfold runtime_of_b. rewrite Ho, Hp. apply orb_true_r. }
          destruct (IHs _ _ _ _ Hobj Hst Hoc He) as [j [cs0 [-> Hj]]].
          eexists _, _. split; [reflexivity | intros _; exact Hj]. }
        destruct Hrt as [[Ho ->]|[Hn [Ho [Hp ->]]]].
        * unfold is_object in Ho. destruct (lookup_type s n) as [[| |ofs ifs| | |]|]; try discriminate.
          apply Hgo. exact H.
        * unfold is_object in Hn. unfold possible in Hp.
          destruct (lookup_type s n) as [[| |ofs ifs|ifs|ms|idefs ioo]|] eqn:El; try discriminate.
          -- fold (is_object s tn) in H. unfold possible in H. rewrite El in H.
             rewrite Ho in H. cbn [andb] in H. rewrite Hp in H. apply Hgo. exact H.
          -- fold (is_object s tn) in H. unfold possible in H. rewrite El in H.
             rewrite Ho in H. cbn [andb] in H. rewrite Hp in H. apply Hgo. exact H.
      + (* DList *)
        destruct t as [n|it|t']; [discriminate Hc | | eapply HN; [reflexivity | discriminate | exact H]].
        destruct (complete_items (fun x => option_map (catch it) (complete s frags cv f it sels x)) items O)
          as [[[r es] cs]|] eqn:Ei; [|discriminate].
        destruct (complete_items_clean (fun x => option_map (catch it) (complete s frags cv f it sels x)) items O r es cs) as [[js ->] ->]; [|exact Ei|].
        { intros x o' Hin Hx. destruct (complete s frags cv f it sels x) as [o0|] eqn:E0; [|discriminate].
          cbn in Hx. inversion Hx; subst.
          pose proof (conforms_list_inv s items it Hc) as Hall. rewrite Forall_forall in Hall.
          assert (Hsub' : sub_ok it sels) by exact Hsub.
          destruct (IHc _ _ _ _ Hsub' (Hall x Hin) E0) as [j [cs0 [-> _]]].
          cbn [catch]. eexists _, _. split; [reflexivity | exact I]. }
        inversion H; subst. eexists _, _. split; [reflexivity | intros _; discriminate].
  Qed.
End ExecSound.

(* the arguments of every reachable field of a typed selection set coerce *)
Lemma arguments_reach_coerce s frags vdefs cv :
  schema_ok s = true -> cv_ok vdefs cv -> forall rt top k f,
  set_typed s frags vdefs (nulls_of vdefs cv) rt top ->
  reach s frags rt top k f ->
  str_eqb (fs_name f) n_typename = false ->
  exists fd args, lookup_field s rt (fs_name f) = Some fd /\
                  coerce_args s cv (f_args fd) (fs_args f) = Some args.
Proof.
  intros Hs Hcv rt top k f Hty Hr Hn. inversion Hty as [rt0 top0 T1 _ _]; subst.
  pose proof (T1 k f Hr) as Hf. unfold field_ok in Hf. rewrite Hn in Hf.
  destruct (lookup_field s rt (fs_name f)) as [fd|] eqn:El; [|discriminate].
  apply andb_true_iff in Hf. destruct Hf as [Hargs _].
  unfold args_ok in Hargs. apply andb_true_iff in Hargs. destruct Hargs as [_ Hargs].
  destruct (args_sound s vdefs cv Hs Hcv (f_args fd) (fs_args f)
              (schema_defaults s rt (fs_name f) fd Hs El) Hargs) as [args Ha].
  exists fd, args. split; [reflexivity | exact Ha].
Qed.

(* ------------------------------------------------------------------ arbitrary data: errors are data faults *)

Section Attrib.
  Variable s : schema.
  Variable frags : list fragment.
  Variable vdefs : list var_def.
  Variable cv : list (str * value).
  Hypothesis Hschema : schema_ok s = true.
  Hypothesis Hcv : cv_ok vdefs cv.

  Let nulls := nulls_of vdefs cv.
  Let styped := set_typed s frags vdefs nulls.

  Definition noargs (es : list err) : Prop := Forall (fun e : err => snd e <> CauseArgs) es.

  Lemma noargs_pre seg es : noargs es -> noargs (pre_errs seg es).
  Proof. unfold noargs, pre_errs. intro H. apply Forall_map. eapply Forall_impl; [|exact H]. intros e He. exact He. Qed.

  Lemma noargs_raise c : c <> CauseArgs -> noargs [([], c)].
  Proof. intro H. constructor; [exact H | constructor]. Qed.

  Lemma exec_groups_noargs ef : forall g r es cs,
    (forall k fs r' es' cs', In (k, fs) g -> ef fs = Some (FRes (r', es', cs')) -> noargs es') ->
    exec_groups ef g = Some (r, es, cs) -> noargs es.
  Proof.
    induction g as [|[k fs] rest IH]; intros r es cs Hf H; cbn [exec_groups] in H.
    - inversion H; subst. constructor.
    - destruct (ef fs) as [[|[[rx esx] csx]]|] eqn:Ef; [| |discriminate].
      + eapply IH; [|exact H]. intros k' fs' r' es' cs' Hin. apply (Hf k'). right. exact Hin.
      + pose proof (Hf k fs rx esx csx (or_introl eq_refl) Ef) as Hx.
        destruct rx as [j|].
        * destruct (exec_groups ef rest) as [[[r' es'] cs']|] eqn:Er; [|discriminate].
          pose proof (IH r' es' cs' (fun k' fs' a b c Hin => Hf k' fs' a b c (or_intror Hin)) eq_refl) as Hr.
          inversion H; subst. apply Forall_app. split; [apply noargs_pre; exact Hx | exact Hr].
        * inversion H; subst. apply noargs_pre. exact Hx.
  Qed.

  Lemma complete_items_noargs cf : forall items i r es cs,
    (forall x r' es' cs', In x items -> cf x = Some (r', es', cs') -> noargs es') ->
    complete_items cf items i = Some (r, es, cs) -> noargs es.
  Proof.
    induction items as [|x rest IH]; intros i r es cs Hf H; cbn [complete_items] in H.
    - inversion H; subst. constructor.
    - destruct (cf x) as [[[rx esx] csx]|] eqn:Ex; [|discriminate].
      pose proof (Hf x rx esx csx (or_introl eq_refl) Ex) as Hx.
      destruct rx as [j|].
      + destruct (complete_items cf rest (S i)) as [[[r' es'] cs']|] eqn:Er; [|discriminate].
        pose proof (IH (S i) r' es' cs' (fun y a b c Hin => Hf y a b c (or_intror Hin)) Er) as Hr.
        inversion H; subst. apply Forall_app. split; [apply noargs_pre; exact Hx | exact Hr].
      + inversion H; subst. apply noargs_pre. exact Hx.
  Qed.

  Theorem exec_attrib : forall fuel,
    (forall rt obj sels r es cs, is_object s rt = true -> styped rt sels ->
        exec_sels s frags cv fuel rt obj sels = Some (r, es, cs) -> noargs es) /\
    (forall rt obj top k fs r es cs, is_object s rt = true -> styped rt top ->
        (forall f, In f fs -> reach s frags rt top k f) ->
        exec_field s frags cv fuel rt obj fs = Some (FRes (r, es, cs)) -> noargs es) /\
    (forall t sels d r es cs, sub_ok s frags vdefs cv t sels ->
        complete s frags cv fuel t sels d = Some (r, es, cs) -> noargs es).
  Proof.
    induction fuel as [|f [IHs [IHf IHc]]].
    { repeat split; intros; discriminate. }
    repeat split.
    - intros rt obj sels r es cs Hobj Hty H. rewrite exec_sels_S in H.
      destruct (collect s frags cv rt f sels ([], [])) as [[v g]|] eqn:Ec; [|discriminate].
      destruct (exec_groups (exec_field s frags cv f rt obj) g) as [[[r0 es0] cs0]|] eqn:Eg; [|discriminate].
      assert (Hn : noargs es0).
      { eapply exec_groups_noargs; [|exact Eg]. intros k fs r' es' cs' Hin Hf.
        eapply (IHf rt obj sels k fs); try eassumption.
        intros f0 Hf0. eapply collect_reach; eassumption. }
      destruct r0; inversion H; subst; exact Hn.
    - intros rt obj top k fs r es cs Hobj Hty Hreach H. rewrite exec_field_S in H.
      destruct fs as [|f1 fs']; [discriminate|].
      destruct (str_eqb (fs_name f1) n_typename) eqn:Et.
      { inversion H; subst. constructor. }
      destruct (arguments_reach_coerce s frags vdefs cv Hschema Hcv rt top k f1 Hty
                  (Hreach f1 (or_introl eq_refl)) Et) as [fd [args [El Ha]]].
      rewrite El, Ha in H.
      destruct (complete s frags cv f (f_type fd) (merged_sels (f1 :: fs'))
                  match lookup (fs_name f1) obj with Some d => d | None => DNull end)
        as [[[r0 es0] cs0]|] eqn:Ecp; [|discriminate].
      assert (Hsub : sub_ok s frags vdefs cv (f_type fd) (merged_sels (f1 :: fs'))).
      { inversion Hty as [rt0 top0 _ _ T3]; subst. intros rt' Hrt'.
        eapply (T3 k (f1 :: fs') f1 fd rt'); try eassumption. left. reflexivity. }
      pose proof (IHc _ _ _ _ _ _ Hsub Ecp) as Hn.
      unfold catch in H. destruct r0; [|destruct (is_nonnull (f_type fd))]; inversion H; subst; exact Hn.
    - intros t sels d r es cs Hsub H. rewrite complete_S in H.
      assert (HN : forall t', t = TNonNull t' ->
                match complete s frags cv f t' sels d with
                | None => None
                | Some (CVal JNull, es, cs) => Some (CErr, es ++ [([], CauseNull)], cs)
                | Some o => Some o
                end = Some (r, es, cs) -> noargs es).
      { intros t' -> HH.
        destruct (complete s frags cv f t' sels d) as [[[r0 es0] cs0]|] eqn:Ecp; [|discriminate].
        assert (Hsub' : sub_ok s frags vdefs cv t' sels) by exact Hsub.
        pose proof (IHc _ _ _ _ _ _ Hsub' Ecp) as Hn.
        destruct r0 as [j|]; [destruct j|]; inversion HH; subst; try exact Hn.
        apply Forall_app. split; [exact Hn | apply noargs_raise; discriminate]. }
      assert (HO : forall n rt flds, t = TNamed n -> runtime_of_b s n rt = true -> is_object s rt = true ->
                exec_sels s frags cv f rt flds sels = Some (r, es, cs) -> noargs es).
      { intros n rt flds -> Hrt Hobj HH. eapply IHs; [exact Hobj | | exact HH]. apply Hsub. exact Hrt. }
      assert (HR : forall c, c <> CauseArgs -> Some (raise_here c) = Some (r, es, cs) -> noargs es).
      { intros c Hc HH. inversion HH; subst. apply noargs_raise. exact Hc. }
      destruct d as [|l|tn flds|items|].
      + destruct t as [n|it|t']; [| |eapply HN; [reflexivity|exact H]]; inversion H; subst; constructor.
      + destruct t as [n|it|t']; [|eapply HR; [|exact H]; discriminate|eapply HN; [reflexivity|exact H]].
        destruct (lookup_type s n) as [[sc|vals|ofs ifs|ifs|ms|idefs ioo]|] eqn:El;
          try (eapply HR; [|exact H]; discriminate).
        * destruct (complete_leaf (TScalar sc) l); [inversion H; subst; constructor | eapply HR; [|exact H]; discriminate].
        * destruct (complete_leaf (TEnum vals) l); [inversion H; subst; constructor | eapply HR; [|exact H]; discriminate].
        * assert (Ho : is_object s n = true) by (unfold is_object; rewrite El; reflexivity).
          eapply HO; [reflexivity | apply runtime_self; exact Ho | exact Ho | exact H].
      + destruct t as [n|it|t']; [|eapply HR; [|exact H]; discriminate|eapply HN; [reflexivity|exact H]].
        destruct (lookup_type s n) as [[sc|vals|ofs ifs|ifs|ms|idefs ioo]|] eqn:El;
          try (eapply HR; [|exact H]; discriminate).
        * assert (Ho : is_object s n = true) by (unfold is_object; rewrite El; reflexivity).
          eapply HO; [reflexivity | apply runtime_self; exact Ho | exact Ho | exact H].
        * destruct (is_object s tn && possible s n tn) eqn:Ep; [|eapply HR; [|exact H]; discriminate].
          apply andb_true_iff in Ep. destruct Ep as [Ho Hp].
          eapply HO; [reflexivity | | exact Ho | exact H]. unfold runtime_of_b. rewrite Ho, Hp. apply orb_true_r.
        * destruct (is_object s tn && possible s n tn) eqn:Ep; [|eapply HR; [|exact H]; discriminate].
          apply andb_true_iff in Ep. destruct Ep as [Ho Hp].
          eapply HO; [reflexivity | | exact Ho | exact H]. unfold runtime_of_b. rewrite Ho, Hp. apply orb_true_r.
      + destruct t as [n|it|t']; [| |eapply HN; [reflexivity|exact H]].
        * destruct (lookup_type s n) as [[sc|vals|ofs ifs|ifs|ms|idefs ioo]|] eqn:El;
            try (eapply HR; [|exact H]; discriminate).
          assert (Ho : is_object s n = true) by (unfold is_object; rewrite El; reflexivity).
          eapply HO; [reflexivity | apply runtime_self; exact Ho | exact Ho | exact H].
        * destruct (complete_items (fun x => option_map (catch it) (complete s frags cv f it sels x)) items O)
            as [[[r0 es0] cs0]|] eqn:Ei; [|discriminate].
          assert (Hn : noargs es0).
          { eapply complete_items_noargs; [|exact Ei]. intros x r' es' cs' _ Hx. cbv beta in Hx.
            destruct (complete s frags cv f it sels x) as [[[r1 es1] cs1]|] eqn:E0; [|cbn in Hx; discriminate].
            assert (Hsub' : sub_ok s frags vdefs cv it sels) by exact Hsub.
            pose proof (IHc _ _ _ _ _ _ Hsub' E0) as Hn1. cbn in Hx.
            destruct r1; [|destruct (is_nonnull it)]; inversion Hx; subst; exact Hn1. }
          destruct r0; inversion H; subst; exact Hn.
      + eapply HR; [|exact H]. discriminate.
  Qed.
End Attrib.

(* ------------------------------------------------------------------ the checker decides the judgment *)

Section Checker.
  Variable s : schema.
  Variable frags : list fragment.
  Variable vdefs : list var_def.
  Variable nulls : list str.

  Lemma reach_sels_complete rt rec :
    (forall sub fl, rec sub = Some fl -> forall k f, reach s frags rt sub k f -> In (k, f) fl) ->
    forall sels fl, reach_sels s frags rec rt sels = Some fl ->
                    forall k f, reach s frags rt sels k f -> In (k, f) fl.
  Proof.
    intros Hrec. induction sels as [|x rest IH]; intros fl H k f Hr.
    - inversion Hr; subst; match goal with Hin : In _ [] |- _ => destruct Hin end.
    - cbn [reach_sels] in H.
      match type of H with match ?h with Some _ => _ | None => _ end = _ => destruct h as [a|] eqn:Ea end;
        [|discriminate].
      destruct (reach_sels s frags rec rt rest) as [b|] eqn:Eb; [|discriminate].
      inversion H; subst; clear H. apply in_app_iff.
      inversion Hr as [sels al name args dirs sub Hin
                      | sels tc dirs sub k0 f0 Hin Hc Hr'
                      | sels name dirs fr k0 f0 Hin Hf Hc Hr']; subst.
      + destruct Hin as [->|Hin].
        * left. inversion Ea; subst. left. reflexivity.
        * right. eapply IH; [reflexivity|]. eapply r_field. exact Hin.
      + destruct Hin as [->|Hin].
        * left. rewrite Hc in Ea. eapply Hrec; eassumption.
        * right. eapply IH; [reflexivity|]. eapply r_inline; eassumption.
      + destruct Hin as [->|Hin].
        * left. rewrite Hf, Hc in Ea. eapply Hrec; eassumption.
        * right. eapply IH; [reflexivity|]. eapply r_spread; eassumption.
  Qed.

  Lemma reach_list_complete rt fuel : forall sels fl,
    reach_list s frags fuel rt sels = Some fl ->
    forall k f, reach s frags rt sels k f -> In (k, f) fl.
  Proof.
    induction fuel as [|n IH]; intros sels fl H; [discriminate|].
    cbn [reach_list] in H. eapply reach_sels_complete; [|exact H]. exact IH.
  Qed.

  Lemma runtime_in_objects n rt' : runtime_of_b s n rt' = true -> In rt' (object_names s).
  Proof.
    intro H. assert (Ho : is_object s rt' = true).
    { unfold runtime_of_b in H. apply orb_true_iff in H. destruct H as [H|H];
        apply andb_true_iff in H; destruct H as [H1 H2].
      - apply str_eqb_eq in H2. subst. exact H1.
      - exact H1. }
    unfold is_object, lookup_type in Ho. destruct (scalar_of_name rt'); [discriminate|].
    destruct (lookup rt' (s_types s)) as [td|] eqn:El; [|discriminate].
    destruct td as [| |fs ifs| | |]; try discriminate.
    apply lookup_In in El. unfold object_names. apply in_flat_map.
    exists (rt', TObject fs ifs). split; [exact El | left; reflexivity].
  Qed.

  Theorem check_set_sound : forall fuel rt sels,
    check_set s frags vdefs nulls fuel rt sels = true -> set_typed s frags vdefs nulls rt sels.
  Proof.
    induction fuel as [|n IH]; intros rt sels H; [discriminate|].
    cbn [check_set] in H.
    destruct (reach_list s frags n rt sels) as [fl|] eqn:Er; [|discriminate].
    apply andb_true_iff in H. destruct H as [H1 H2].
    rewrite forallb_forall in H1. rewrite forallb_forall in H2.
    pose proof (reach_list_complete rt n sels fl Er) as Hcomp.
    (* the static group of a reachable field *)
    assert (Hgrp : forall k f, reach s frags rt sels k f ->
              exists f0 fs, In (k, f0 :: fs) (group fl) /\ In f (f0 :: fs) /\
                (forall f', In f' (f0 :: fs) -> fs_name f' = fs_name f0) /\
                (forall fd rt', lookup_field s rt (fs_name f0) = Some fd ->
                                runtime_of_b s (named_of (f_type fd)) rt' = true ->
                                set_typed s frags vdefs nulls rt' (merged_sels (f0 :: fs)))).
    { intros k f Hr. apply Hcomp in Hr. apply group_in in Hr. destruct Hr as [fs [Hin Hf]].
      destruct fs as [|f0 fs]; [destruct Hf|]. exists f0, fs. split; [exact Hin|]. split; [exact Hf|].
      specialize (H2 _ Hin). cbn [snd] in H2. apply andb_true_iff in H2. destruct H2 as [Hn Hrec].
      split.
      - intros f' Hf'. rewrite forallb_forall in Hn. specialize (Hn _ Hf'). apply str_eqb_eq in Hn. exact Hn.
      - intros fd rt' Hl Hrt. rewrite Hl in Hrec. rewrite forallb_forall in Hrec.
        specialize (Hrec rt' (runtime_in_objects _ _ Hrt)). rewrite Hrt in Hrec. cbn in Hrec.
        apply IH. exact Hrec. }
    constructor.
    - intros k f Hr. apply Hcomp in Hr. exact (H1 _ Hr).
    - intros k f1 f2 Hr1 Hr2.
      destruct (Hgrp k f1 Hr1) as [a [fsa [Ha [Hfa [Hna _]]]]].
      destruct (Hgrp k f2 Hr2) as [b [fsb [Hb [Hfb [Hnb _]]]]].
      pose proof (nodup_keys_unique _ _ _ _ (group_nodup fl) Ha Hb) as E. inversion E; subst.
      rewrite (Hna _ Hfa), (Hnb _ Hfb). reflexivity.
    - intros k fs f1 fd rt' Hall Hin Hl Hrt.
      destruct (Hgrp k f1 (Hall f1 Hin)) as [a [fsa [Ha [Hfa [Hna Hrec]]]]].
      rewrite (Hna _ Hfa) in Hl. specialize (Hrec fd rt' Hl Hrt).
      eapply set_typed_mono; [|exact Hrec].
      intros k' f' Hr. apply reach_merged_inv in Hr. destruct Hr as [f0 [Hf0 Hr]].
      eapply reach_merged; [|exact Hr].
      destruct (Hgrp k f0 (Hall f0 Hf0)) as [b [fsb [Hb [Hfb _]]]].
      pose proof (nodup_keys_unique _ _ _ _ (group_nodup fl) Ha Hb) as E. inversion E; subst. exact Hfb.
  Qed.
End Checker.

(* ------------------------------------------------------------------ the theorems *)

Lemma conforms_root_inv s rt root :
  conforms_root s rt root = true ->
  exists tn flds, root = DObj tn flds /\ is_object s rt = true /\ obj_conf s rt flds.
Proof.
  unfold conforms_root. destruct root as [|l|tn flds|items|]; try discriminate.
  intro H. apply andb_true_iff in H. destruct H as [Ho Hc].
  destruct (conforms_obj_inv s tn flds rt Hc) as [rt' [[[_ ->]|[Hn _]] [_ Hoc]]]; [|congruence].
  exists tn, flds. split; [reflexivity|]. split; assumption.
Qed.

Lemma well_typed_with_inv nulls s d :
  well_typed_with nulls s d = true ->
  nodup_names (map v_name (d_vars d)) = true /\
  exists rt, root_type s (d_kind d) = Some rt /\ is_object s rt = true /\
             set_typed s (d_frags d) (d_vars d) nulls rt (d_sels d).
Proof.
  unfold well_typed_with. intro H.
  apply andb_true_iff in H. destruct H as [H Hroot].
  apply andb_true_iff in H. destruct H as [H _].
  apply andb_true_iff in H. destruct H as [Hv _].
  unfold vars_ok in Hv. apply andb_true_iff in Hv. destruct Hv as [Hnd _].
  split; [exact Hnd|].
  destruct (root_type s (d_kind d)) as [rt|]; [|discriminate].
  apply andb_true_iff in Hroot. destruct Hroot as [Ho Hc].
  exists rt. split; [reflexivity|]. split; [exact Ho|]. eapply check_set_sound. exact Hc.
Qed.

(* A well-typed operation over conforming data, on a schema whose argument defaults are valid,
   with accepted variables none of which is a null sitting in a non-null position: no errors, and
   data is not null. *)
Theorem soundness fuel s d vars root cv rt j es cs :
  schema_ok s = true ->
  coerce_variable_values s (d_vars d) vars = Some cv ->
  well_typed_at s d cv = true ->
  root_type s (d_kind d) = Some rt ->
  conforms_root s rt root = true ->
  execute_fuel fuel s d vars root = Resp j es cs ->
  es = [] /\ j <> JNull.
Proof.
  intros Hs Hcv Hwt Hrt Hconf Hex.
  apply well_typed_with_inv in Hwt. destruct Hwt as [Hnd [rt' [Hrt' [Hobj Hty]]]].
  rewrite Hrt in Hrt'. inversion Hrt'; subst rt'.
  apply conforms_root_inv in Hconf. destruct Hconf as [tn [flds [-> [_ Hoc]]]].
  apply execute_fuel_resp in Hex. destruct Hex as [cv' [tn' [r [Hcv' [Hrt'' [_ [He ->]]]]]]].
  rewrite Hcv in Hcv'. inversion Hcv'; subst cv'. rewrite Hrt in Hrt''. inversion Hrt''; subst tn'.
  pose proof (coerce_vars_ok _ _ _ _ Hnd Hcv) as Hok.
  destruct (exec_sound s (d_frags d) (d_vars d) cv Hs Hok fuel) as [Hsels _].
  destruct (Hsels rt flds (d_sels d) _ Hobj Hty Hoc He) as [j' [cs' [Heq Hj]]].
  inversion Heq; subst. split; [reflexivity | exact Hj].
Qed.

(* the static form: a document accepted by the static judgment, when no variable of nullable type
   is null *)
Corollary soundness_static fuel s d vars root cv rt j es cs :
  schema_ok s = true ->
  well_typed s d = true ->
  coerce_variable_values s (d_vars d) vars = Some cv ->
  nulls_of (d_vars d) cv = [] ->
  root_type s (d_kind d) = Some rt ->
  conforms_root s rt root = true ->
  execute_fuel fuel s d vars root = Resp j es cs ->
  es = [] /\ j <> JNull.
Proof.
  intros Hs Hwt Hcv Hn. eapply soundness; try eassumption.
  unfold well_typed_at. rewrite Hn. exact Hwt.
Qed.

(* With ARBITRARY data: the arguments of every field that execution can reach coerce - a field error
   is never due to an argument, a variable or an unknown field of a well-typed operation. *)
Theorem arguments_coerce s frags vdefs cv rt top k f :
  schema_ok s = true -> cv_ok vdefs cv ->
  set_typed s frags vdefs (nulls_of vdefs cv) rt top ->
  reach s frags rt top k f ->
  str_eqb (fs_name f) n_typename = false ->
  exists fd args, lookup_field s rt (fs_name f) = Some fd /\
                  coerce_args s cv (f_args fd) (fs_args f) = Some args.
Proof. intros Hs Hcv Hty Hr Hn. eapply arguments_reach_coerce; eassumption. Qed.

(* ARBITRARY data: no error of a well-typed operation is due to argument coercion; every error
   carries one of the data causes (raising resolver, null in a non-null position, non-list,
   unserialisable leaf, unresolvable runtime type) *)
Theorem errors_attributable fuel s d vars root cv j es cs :
  schema_ok s = true ->
  coerce_variable_values s (d_vars d) vars = Some cv ->
  well_typed_at s d cv = true ->
  execute_fuel fuel s d vars root = Resp j es cs ->
  Forall (fun e : err => snd e <> CauseArgs) es.
Proof.
  intros Hs Hcv Hwt Hex.
  apply well_typed_with_inv in Hwt. destruct Hwt as [Hnd [rt [Hrt [Hobj Hty]]]].
  apply execute_fuel_resp in Hex. destruct Hex as [cv' [tn' [r [Hcv' [Hrt' [_ [He ->]]]]]]].
  rewrite Hcv in Hcv'. inversion Hcv'; subst cv'. rewrite Hrt in Hrt'. inversion Hrt'; subst tn'.
  pose proof (coerce_vars_ok _ _ _ _ Hnd Hcv) as Hok.
  destruct (exec_attrib s (d_frags d) (d_vars d) cv Hs Hok fuel) as [Hsels _].
  eapply Hsels; eassumption.
Qed.

(* ------------------------------------------------------------------ the shape checker decides [shaped] *)

Section ShapeSound.
  Variable s : schema.
  Variable frags : list fragment.
  Variable cv : list (str * value).

  Lemma json_eqb_str_eq j x : json_eqb_str j x = true -> j = JStr x.
  Proof. destruct j; cbn; try discriminate. intro H. apply str_eqb_eq in H. congruence. Qed.

  Lemma fields_shape_ok_sound (chk : ty -> list selection -> json -> bool) rt :
    (forall t sels j, chk t sels j = true -> shaped s frags cv t sels j) ->
    forall g kvs, fields_shape_ok s chk rt g kvs = true -> shaped_fields s frags cv rt g kvs.
  Proof.
    intros Hchk. induction g as [|[k fs] rest IH]; intros kvs H; cbn [fields_shape_ok] in H.
    - destruct kvs; [constructor | discriminate].
    - destruct fs as [|f1 fs'].
      + apply shf_empty. apply IH. exact H.
      + destruct (str_eqb (fs_name f1) n_typename) eqn:Et.
        * destruct kvs as [|[k' j] kvs']; [discriminate|].
          apply andb_true_iff in H. destruct H as [H H3]. apply andb_true_iff in H. destruct H as [H1 H2].
          apply str_eqb_eq in H1. subst k'. apply json_eqb_str_eq in H2. subst j.
          apply shf_typename; [exact Et | apply IH; exact H3].
        * destruct (lookup_field s rt (fs_name f1)) as [fd|] eqn:El.
          -- destruct kvs as [|[k' j] kvs']; [discriminate|].
             apply andb_true_iff in H. destruct H as [H H3]. apply andb_true_iff in H. destruct H as [H1 H2].
             apply str_eqb_eq in H1. subst k'.
             eapply shf_field; [exact Et | exact El | apply Hchk; exact H2 | apply IH; exact H3].
          -- apply shf_unknown; [exact Et | exact El | apply IH; exact H].
  Qed.

  Lemma shape_ok_S f t sels j :
    shape_ok s frags cv (S f) t sels j =
    match j with
    | JNull => negb (is_nonnull t)
    | _ =>
      match t with
      | TNonNull t' => shape_ok s frags cv f t' sels j
      | TList it => match j with JList js => forallb (shape_ok s frags cv f it sels) js | _ => false end
      | TNamed n =>
          match lookup_type s n with
          | Some (TObject _ _) =>
              match j with JObj kvs => obj_shape_ok s frags cv f n sels kvs | _ => false end
          | Some (TInterface _) | Some (TUnion _) =>
              match j with
              | JObj kvs => existsb (fun rt => possible s n rt && obj_shape_ok s frags cv f rt sels kvs)
                                    (object_names s)
              | _ => false
              end
          | Some td => leaf_json td j
          | None => false
          end
      end
    end.
  Proof. reflexivity. Qed.

  Lemma obj_shape_ok_S f rt sels kvs :
    obj_shape_ok s frags cv (S f) rt sels kvs =
    match collect s frags cv rt f sels ([], []) with
    | None => false
    | Some (_, g) => fields_shape_ok s (shape_ok s frags cv f) rt g kvs
    end.
  Proof. reflexivity. Qed.

  Lemma possible_is_object a o : possible s a o = true -> is_object s o = true.
  Proof.
    unfold possible, is_object. destruct (lookup_type s a) as [[| | | | |]|]; try discriminate;
      destruct (lookup_type s o) as [[| | | | |]|]; try discriminate; reflexivity.
  Qed.

  Theorem shape_ok_sound : forall fuel,
    (forall t sels j, shape_ok s frags cv fuel t sels j = true -> shaped s frags cv t sels j) /\
    (forall rt sels kvs, obj_shape_ok s frags cv fuel rt sels kvs = true -> shaped_obj s frags cv rt sels kvs).
  Proof.
    induction fuel as [|f [IHv IHo]]; [split; intros; discriminate|]. split.
    - intros t sels j H. rewrite shape_ok_S in H.
      assert (Hgen : j <> JNull ->
        match t with
        | TNonNull t' => shape_ok s frags cv f t' sels j
        | TList it => match j with JList js => forallb (shape_ok s frags cv f it sels) js | _ => false end
        | TNamed n =>
            match lookup_type s n with
            | Some (TObject _ _) =>
                match j with JObj kvs => obj_shape_ok s frags cv f n sels kvs | _ => false end
            | Some (TInterface _) | Some (TUnion _) =>
                match j with
                | JObj kvs => existsb (fun rt => possible s n rt && obj_shape_ok s frags cv f rt sels kvs)
                                      (object_names s)
                | _ => false
                end
            | Some td => leaf_json td j
            | None => false
            end
        end = true -> shaped s frags cv t sels j).
      { intros Hj HH. destruct t as [n|it|t'].
        - destruct (lookup_type s n) as [td|] eqn:El; [|discriminate].
          assert (Hobj : forall rt kvs, runtime_of s n rt -> j = JObj kvs ->
                          obj_shape_ok s frags cv f rt sels kvs = true -> shaped s frags cv (TNamed n) sels j).
          { intros rt kvs Hrt -> Ho. eapply sh_obj; [exact Hrt | apply IHo; exact Ho]. }
          assert (Habs : forall kvs, (exists fs, td = TInterface fs) \/ (exists ms, td = TUnion ms) ->
                          j = JObj kvs ->
                          existsb (fun rt => possible s n rt && obj_shape_ok s frags cv f rt sels kvs)
                                  (object_names s) = true -> shaped s frags cv (TNamed n) sels j).
          { intros kvs _ Hjk He. apply existsb_exists in He. destruct He as [rt [_ He]].
            apply andb_true_iff in He. destruct He as [Hp Ho].
            eapply Hobj; [|exact Hjk|exact Ho]. right. split; [eapply possible_is_object; exact Hp | exact Hp]. }
          destruct td as [sc|vals|ofs ifs|ifs|ms|idefs ioo].
          + eapply sh_leaf; eassumption.
          + eapply sh_leaf; eassumption.
          + destruct j; try discriminate. eapply Hobj; [|reflexivity|exact HH].
            left. split; [unfold is_object; rewrite El; reflexivity | reflexivity].
          + destruct j; try discriminate. eapply Habs; [left; eexists; reflexivity | reflexivity | exact HH].
          + destruct j; try discriminate. eapply Habs; [right; eexists; reflexivity | reflexivity | exact HH].
          + destruct j; cbn in HH; discriminate HH.
        - destruct j; try discriminate. apply sh_list. apply Forall_forall. intros x Hx.
          rewrite forallb_forall in HH. apply IHv. apply HH. exact Hx.
        - apply sh_nonnull; [exact Hj | apply IHv; exact HH]. }
      destruct j; try (apply Hgen; [discriminate | exact H]).
      apply sh_null. apply negb_true_iff in H. exact H.
    - intros rt sels kvs H. rewrite obj_shape_ok_S in H.
      destruct (collect s frags cv rt f sels ([], [])) as [[v g]|] eqn:Ec; [|discriminate].
      eapply sho; [exact Ec|]. eapply fields_shape_ok_sound; [|exact H]. exact IHv.
  Qed.
End ShapeSound.
