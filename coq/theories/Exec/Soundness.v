(* Soundness of the typing judgment w.r.t. the execution model (proofs for C13). *)
From GV Require Import Base.Prelude Exec.Value Exec.Schema Exec.Spec Exec.SpecProps Exec.Typing.

(* ------------------------------------------------------------------ generic helpers *)

Lemma value_ind' (P : value -> Prop) :
  P VNull -> (forall z, P (VInt z)) -> (forall n d, P (VFloat n d)) -> (forall x, P (VStr x)) ->
  (forall b, P (VBool b)) -> (forall x, P (VEnum x)) -> (forall x, P (VVar x)) ->
  (forall l, Forall P l -> P (VList l)) -> forall v, P v.
Proof.
  intros Hn Hi Hf Hs Hb He Hv Hl. fix IH 1.
  intros [ | z | n d | x | b | x | x | l];
    [exact Hn | apply Hi | apply Hf | apply Hs | apply Hb | apply He | apply Hv | ].
  apply Hl. induction l as [|x r IHr]; constructor; [apply IH | exact IHr].
Qed.

Lemma lookup_In {A} k (l : list (str * A)) v : lookup k l = Some v -> In (k, v) l.
Proof.
  induction l as [|[k' v'] r IH]; cbn; [discriminate|].
  destruct (str_eqb k k') eqn:E.
  - intro H. inversion H; subst. apply str_eqb_eq in E. subst. left. reflexivity.
  - intro H. right. apply IH. exact H.
Qed.

Lemma find_field_In n fs fd : find_field n fs = Some fd -> In fd fs /\ f_name fd = n.
Proof.
  induction fs as [|f r IH]; cbn; [discriminate|].
  destruct (str_eqb n (f_name f)) eqn:E.
  - intro H. inversion H; subst. apply str_eqb_eq in E. split; [left; reflexivity | congruence].
  - intro H. destruct (IH H) as [H1 H2]. split; [right; exact H1 | exact H2].
Qed.

Lemma find_var_In x l vd : find_var x l = Some vd -> In vd l /\ v_name vd = x.
Proof.
  induction l as [|v r IH]; cbn; [discriminate|].
  destruct (str_eqb x (v_name v)) eqn:E.
  - intro H. inversion H; subst. apply str_eqb_eq in E. split; [left; reflexivity | congruence].
  - intro H. destruct (IH H) as [H1 H2]. split; [right; exact H1 | exact H2].
Qed.

(* ------------------------------------------------------------------ variable values *)

(* what variable coercion guarantees about the coerced map *)
Definition cv_ok (vdefs : list var_def) (cv : list (str * value)) : Prop :=
  forall vd, In vd vdefs ->
    (is_nonnull (v_type vd) = true -> exists c, lookup (v_name vd) cv = Some c /\ c <> VNull) /\
    (has_nonnull_default (v_default vd) = true -> exists c, lookup (v_name vd) cv = Some c).

Lemma coerce_leaf_lit_nonnull s n v c : coerce_leaf_lit s n v = Some c -> c <> VNull.
Proof.
  unfold coerce_leaf_lit. destruct (lookup_type s n) as [[[]|vals| | |]|]; try discriminate;
    destruct v; try discriminate; intro H; try (inversion H; subst; discriminate).
  - destruct (in_int_range z); inversion H; subst; discriminate.
  - destruct (mem s0 vals); inversion H; subst; discriminate.
Qed.

Lemma coerce_scalar_lit_nonnull s v t c : coerce_scalar_lit s v t = Some c -> c <> VNull.
Proof.
  revert c. induction t as [n|it IH|t' IH]; intros c; cbn.
  - apply coerce_leaf_lit_nonnull.
  - destruct (coerce_scalar_lit s v it); cbn; [|discriminate]. intro H; inversion H; discriminate.
  - apply IH.
Qed.

Lemma coerce_lit_nonnull s cv v t c :
  is_nonnull t = true -> coerce_lit s cv v t = Some c -> c <> VNull.
Proof.
  intros Hn. destruct v; cbn [coerce_lit]; try (apply coerce_scalar_lit_nonnull).
  - rewrite Hn. discriminate.
  - destruct (lookup x cv) as [[]|]; try rewrite Hn; try discriminate;
      intro H; inversion H; subst; discriminate.
  - destruct (list_item_type t); [|discriminate].
    match goal with |- option_map VList ?g = _ -> _ => destruct g end; cbn; [|discriminate].
    intro H; inversion H; discriminate.
Qed.

Lemma coerce_leaf_val_nonnull s n v c : coerce_leaf_val s n v = Some c -> c <> VNull.
Proof.
  unfold coerce_leaf_val. destruct (lookup_type s n) as [[[]|vals| | |]|]; try discriminate;
    destruct v; try discriminate; intro H; try (inversion H; subst; discriminate).
  - destruct (in_int_range z); inversion H; subst; discriminate.
  - destruct (mem s0 vals); inversion H; subst; discriminate.
Qed.

Lemma coerce_scalar_val_nonnull s v t c : coerce_scalar_val s v t = Some c -> c <> VNull.
Proof.
  revert c. induction t as [n|it IH|t' IH]; intros c; cbn.
  - apply coerce_leaf_val_nonnull.
  - destruct (coerce_scalar_val s v it); cbn; [|discriminate]. intro H; inversion H; discriminate.
  - apply IH.
Qed.

Lemma coerce_val_nonnull s v t c :
  is_nonnull t = true -> coerce_val s v t = Some c -> c <> VNull.
Proof.
  intros Hn. destruct v; cbn [coerce_val]; try (apply coerce_scalar_val_nonnull); try discriminate.
  - rewrite Hn. discriminate.
  - destruct (list_item_type t); [|discriminate].
    match goal with |- option_map VList ?g = _ -> _ => destruct g end; cbn; [|discriminate].
    intro H; inversion H; discriminate.
Qed.

Lemma nodup_names_head x r : nodup_names (x :: r) = true -> ~ In x r /\ nodup_names r = true.
Proof.
  cbn. intro H. apply andb_true_iff in H. destruct H as [H1 H2]. split; [|exact H2].
  apply negb_true_iff in H1. apply mem_not_In. exact H1.
Qed.

Lemma coerce_vars_ok s vdefs given cv :
  nodup_names (map v_name vdefs) = true ->
  coerce_variable_values s vdefs given = Some cv -> cv_ok vdefs cv.
Proof.
  revert cv. induction vdefs as [|vd rest IH]; intros cv Hnd H.
  - intros vd [].
  - cbn [map] in Hnd. apply nodup_names_head in Hnd. destruct Hnd as [Hnotin Hnd].
    cbn [coerce_variable_values] in H.
    destruct (negb (is_input_type s (v_type vd))); [discriminate|].
    destruct (coerce_variable_values s rest given) as [cr|] eqn:Er.
    2:{ destruct (match lookup (v_name vd) given with Some _ => _ | None => _ end) as [[?|]|]; discriminate. }
    specialize (IH cr Hnd eq_refl).
    assert (Htail : forall c0 vd', In vd' rest ->
              lookup (v_name vd') ((v_name vd, c0) :: cr) = lookup (v_name vd') cr).
    { intros c0 vd' Hin. cbn. destruct (str_eqb (v_name vd') (v_name vd)) eqn:E; [|reflexivity].
      apply str_eqb_eq in E. exfalso. apply Hnotin. rewrite <- E. apply in_map. exact Hin. }
    destruct (lookup (v_name vd) given) as [gv|] eqn:Eg.
    + (* provided *)
      destruct (coerce_val s gv (v_type vd)) as [c|] eqn:Ec; cbn in H; [|discriminate].
      inversion H; subst; clear H. intros vd' [<-|Hin].
      * split; intros Hx; exists c; cbn; rewrite str_eqb_refl; [split; [reflexivity|] | reflexivity].
        eapply coerce_val_nonnull; [exact Hx | exact Ec].
      * rewrite (Htail c vd' Hin). apply IH. exact Hin.
    + destruct (v_default vd) as [lit|] eqn:Ed.
      * destruct (coerce_lit s [] lit (v_type vd)) as [c|] eqn:Ec; cbn in H; [|discriminate].
        inversion H; subst; clear H. intros vd' [<-|Hin].
        -- split; intros Hx; exists c; cbn; rewrite str_eqb_refl; [split; [reflexivity|] | reflexivity].
           eapply coerce_lit_nonnull; [exact Hx | exact Ec].
        -- rewrite (Htail c vd' Hin). apply IH. exact Hin.
      * destruct (is_nonnull (v_type vd)) eqn:En; cbn in H; [discriminate|].
        inversion H; subst; clear H. intros vd' [<-|Hin].
        -- split; intro Hx; [congruence|]. rewrite Ed in Hx. discriminate.
        -- apply IH. exact Hin.
Qed.
