(* Properties of the specification model Exec/Spec.v (proofs for C02). *)
From GV Require Import Base.Prelude Exec.Value Exec.Schema Exec.Spec.

(* ------------------------------------------------------------------ strings, lookup *)

Lemma str_eqb_eq a b : str_eqb a b = true <-> a = b.
Proof. exact (nat_list_eqb_eq a b). Qed.

Lemma str_eqb_refl a : str_eqb a a = true.
Proof. apply str_eqb_eq. reflexivity. Qed.

Lemma str_eqb_neq a b : str_eqb a b = false <-> a <> b.
Proof.
  split; intro H.
  - intro E. apply str_eqb_eq in E. congruence.
  - destruct (str_eqb a b) eqn:E; [|reflexivity]. apply str_eqb_eq in E. contradiction.
Qed.

Lemma mem_In k l : mem k l = true <-> In k l.
Proof.
  unfold mem. rewrite existsb_exists. split.
  - intros [x [H1 H2]]. apply str_eqb_eq in H2. subst. exact H1.
  - intro H. exists k. split; [exact H | apply str_eqb_refl].
Qed.

Lemma mem_not_In k l : mem k l = false <-> ~ In k l.
Proof.
  split; intro H.
  - intro HI. apply mem_In in HI. congruence.
  - destruct (mem k l) eqn:E; [|reflexivity]. apply mem_In in E. contradiction.
Qed.

(* ------------------------------------------------------------------ grouping *)

Definition keys {A} (g : list (str * A)) : list str := map fst g.

Lemma add_field_keys k f g :
  keys (add_field k f g) = if mem k (keys g) then keys g else keys g ++ [k].
Proof.
  induction g as [|[k' fs] r IH]; cbn [add_field keys map fst mem existsb app].
  - reflexivity.
  - destruct (str_eqb k k') eqn:E; cbn [orb map fst].
    + reflexivity.
    + fold (keys (add_field k f r)). rewrite IH. fold (keys r). fold (mem k (keys r)).
      destruct (mem k (keys r)); reflexivity.
Qed.

Lemma first_occ_gen l : forall acc,
  fold_left (fun acc k => if mem k acc then acc else acc ++ [k]) l acc
  = fold_left (fun acc k => if mem k acc then acc else acc ++ [k]) l acc.
Proof. reflexivity. Qed.

(* the keys of the grouped field set are the response keys in order of first appearance *)
Lemma group_keys_gen fl : forall g,
  keys (fold_left (fun g kf => add_field (fst kf) (snd kf) g) fl g)
  = fold_left (fun acc k => if mem k acc then acc else acc ++ [k]) (map fst fl) (keys g).
Proof.
  induction fl as [|[k f] r IH]; intro g; cbn [fold_left map fst snd].
  - reflexivity.
  - rewrite IH. rewrite add_field_keys. reflexivity.
Qed.

Lemma group_keys fl : keys (group fl) = first_occ (map fst fl).
Proof. unfold group, first_occ. rewrite group_keys_gen. reflexivity. Qed.

Lemma add_field_nodup k f g : NoDup (keys g) -> NoDup (keys (add_field k f g)).
Proof.
  intro H. rewrite add_field_keys. destruct (mem k (keys g)) eqn:E; [exact H|].
  apply mem_not_In in E.
  apply NoDup_remove_1 with (a := k). rewrite app_nil_r.
  (* NoDup (keys g ++ [k]) *)
  clear f. induction (keys g) as [|x l IH]; cbn.
  - constructor; [intros []|constructor].
  - inversion H; subst. constructor.
    + rewrite in_app_iff. intros [HI|[HE|[]]]; [contradiction|]. subst. apply E. left. reflexivity.
    + apply IH; [assumption|]. intro HI. apply E. right. exact HI.
Qed.
