(* Properties of the specification model Exec/Spec.v (proofs for C02). *)
From GV Require Import Base.Prelude Exec.Value Exec.Schema Exec.Spec.

(* ------------------------------------------------------------------ strings, lookup *)

Lemma str_eqb_eq a b : str_eqb a b = true <-> a = b.
Proof. exact (nat_list_eqb_eq a b). Qed.

Lemma str_eqb_refl a : str_eqb a a = true.
Proof. apply str_eqb_eq. reflexivity. Qed.

Lemma str_eqb_neq a b : str_eqb a b = false <-> a <> b.
Proof.
  split; intro H.
  - intro E. apply str_eqb_eq in E. congruence.
  - destruct (str_eqb a b) eqn:E; [|reflexivity]. apply str_eqb_eq in E. contradiction.
Qed.

Lemma mem_In k l : mem k l = true <-> In k l.
Proof.
  unfold mem. rewrite existsb_exists. split.
  - intros [x [H1 H2]]. apply str_eqb_eq in H2. subst. exact H1.
  - intro H. exists k. split; [exact H | apply str_eqb_refl].
Qed.

Lemma mem_not_In k l : mem k l = false <-> ~ In k l.
Proof.
  split; intro H.
  - intro HI. apply mem_In in HI. congruence.
  - destruct (mem k l) eqn:E; [|reflexivity]. apply mem_In in E. contradiction.
Qed.

(* ------------------------------------------------------------------ grouping *)

Definition keys {A} (g : list (str * A)) : list str := map fst g.

Lemma add_field_keys k f g :
  keys (add_field k f g) = if mem k (keys g) then keys g else keys g ++ [k].
Proof.
  induction g as [|[k' fs] r IH]; cbn [add_field keys map fst mem existsb app].
  - reflexivity.
  - destruct (str_eqb k k') eqn:E; cbn [orb map fst].
    + reflexivity.
    + fold (keys (add_field k f r)). rewrite IH. fold (keys r). fold (mem k (keys r)).
      destruct (mem k (keys r)); reflexivity.
Qed.

(* the keys of the grouped field set are the response keys in order of first appearance *)
Lemma group_keys_gen fl : forall g,
  keys (fold_left (fun g kf => add_field (fst kf) (snd kf) g) fl g)
  = fold_left (fun acc k => if mem k acc then acc else acc ++ [k]) (map fst fl) (keys g).
Proof.
  induction fl as [|[k f] r IH]; intro g; cbn [fold_left map fst snd].
  - reflexivity.
  - rewrite IH. rewrite add_field_keys. reflexivity.
Qed.

Lemma group_keys fl : keys (group fl) = first_occ (map fst fl).
Proof. unfold group, first_occ. rewrite group_keys_gen. reflexivity. Qed.

Lemma nodup_snoc (l : list str) k : NoDup l -> ~ In k l -> NoDup (l ++ [k]).
Proof.
  induction l as [|x l IH]; cbn; intros H E.
  - constructor; [intros []|constructor].
  - inversion H; subst. constructor.
    + rewrite in_app_iff. intros [HI|[HE|[]]]; [contradiction|]. subst. apply E. left. reflexivity.
    + apply IH; [assumption|]. intro HI. apply E. right. exact HI.
Qed.

Lemma add_field_nodup k f g : NoDup (keys g) -> NoDup (keys (add_field k f g)).
Proof.
  intro H. rewrite add_field_keys. destruct (mem k (keys g)) eqn:E; [exact H|].
  apply mem_not_In in E. apply nodup_snoc; assumption.
Qed.

(* ------------------------------------------------------------------ CollectFields *)

Section CollectSim.
  Variable s : schema.
  Variable frags : list fragment.
  Variable cv : list (str * value).
  Variable tn : str.
  Variables A B : Type.
  Variable addA : str -> fieldsel -> A -> A.
  Variable addB : str -> fieldsel -> B -> B.
  Variable R : A -> B -> Prop.
  Hypothesis Radd : forall k f a b, R a b -> R (addA k f a) (addB k f b).

  Definition Rst (x : option (list str * A)) (y : option (list str * B)) : Prop :=
    match x, y with
    | None, None => True
    | Some (v, a), Some (v', b) => v = v' /\ R a b
    | _, _ => False
    end.

  Lemma collect_list_sim recA recB :
    (forall sels v a b, R a b -> Rst (recA sels (v, a)) (recB sels (v, b))) ->
    forall sels v a b, R a b ->
      Rst (collect_list s frags cv tn A addA recA sels (v, a))
          (collect_list s frags cv tn B addB recB sels (v, b)).
  Proof.
    intros Hrec. induction sels as [|sel rest IH]; intros v a b HR.
    - cbn. split; [reflexivity|exact HR].
    - destruct sel as [al name args dirs sub | name dirs | tc dirs sub]; cbn [collect_list fst snd].
      + destruct (should_include cv dirs); [apply IH; apply Radd; exact HR | apply IH; exact HR].
      + destruct (negb (should_include cv dirs)); [apply IH; exact HR|].
        destruct (mem name v); [apply IH; exact HR|].
        destruct (find_frag name frags) as [fr|]; [|apply IH; exact HR].
        destruct (cond_matches s (fr_cond fr) tn); [|apply IH; exact HR].
        specialize (Hrec (fr_sels fr) (name :: v) a b HR).
        destruct (recA (fr_sels fr) (name :: v, a)) as [[v1 a1]|],
                 (recB (fr_sels fr) (name :: v, b)) as [[v2 b1]|]; cbn in Hrec;
          try contradiction; [|exact I].
        destruct Hrec as [-> HR1]. apply IH. exact HR1.
      + destruct (should_include cv dirs && match tc with Some c => cond_matches s c tn | None => true end).
        * specialize (Hrec sub v a b HR).
          destruct (recA sub (v, a)) as [[v1 a1]|], (recB sub (v, b)) as [[v2 b1]|]; cbn in Hrec;
            try contradiction; [|exact I].
          destruct Hrec as [-> HR1]. apply IH. exact HR1.
        * apply IH. exact HR.
  Qed.

  Lemma collect_gen_sim fuel : forall sels v a b, R a b ->
    Rst (collect_gen s frags cv tn A addA fuel sels (v, a))
        (collect_gen s frags cv tn B addB fuel sels (v, b)).
  Proof.
    induction fuel as [|f IH]; intros sels v a b HR; cbn [collect_gen].
    - exact I.
    - apply collect_list_sim; [exact IH | exact HR].
  Qed.
End CollectSim.

Lemma group_snoc fl k f : group (fl ++ [(k, f)]) = add_field k f (group fl).
Proof. unfold group. rewrite fold_left_app. reflexivity. Qed.

(* CollectFields = grouping, in order, of the sequence of fields it visits *)
Lemma collect_is_group_of_flat s frags cv tn fuel sels :
  match collect_flat s frags cv tn fuel sels ([], []) with
  | None => collect s frags cv tn fuel sels ([], []) = None
  | Some (v, fl) => collect s frags cv tn fuel sels ([], []) = Some (v, group fl)
  end.
Proof.
  pose proof (collect_gen_sim s frags cv tn (list (str * fieldsel)) (list (str * list fieldsel))
                (fun k f l => l ++ [(k, f)]) add_field (fun fl g => g = group fl)) as H.
  specialize (H (fun k f a b Hab => eq_trans (f_equal (add_field k f) Hab) (eq_sym (group_snoc a k f)))).
  specialize (H fuel sels [] [] [] eq_refl).
  unfold Rst in H.
  destruct (collect_flat s frags cv tn fuel sels ([], [])) as [[v fl]|] eqn:E1;
    unfold collect_flat in E1; rewrite E1 in H;
    destruct (collect s frags cv tn fuel sels ([], [])) as [[v' g]|] eqn:E2;
    unfold collect, grouped in E2; unfold grouped in H; rewrite E2 in H; try contradiction; [|reflexivity].
  destruct H as [-> ->]. reflexivity.
Qed.

(* the keys of a collected field set are distinct *)
Lemma collect_nodup s frags cv tn fuel sels v g :
  collect s frags cv tn fuel sels ([], []) = Some (v, g) -> NoDup (keys g).
Proof.
  intro H.
  pose proof (collect_gen_sim s frags cv tn (list (str * list fieldsel)) (list (str * list fieldsel))
                add_field add_field (fun a b => a = b /\ NoDup (keys a))) as S.
  assert (Hadd : forall k f (a b : grouped), a = b /\ NoDup (keys a) ->
                 add_field k f a = add_field k f b /\ NoDup (keys (add_field k f a))).
  { intros k f a b [-> Hn]. split; [reflexivity | apply add_field_nodup; exact Hn]. }
  specialize (S Hadd fuel sels [] [] [] (conj eq_refl (NoDup_nil _))).
  unfold collect, grouped in H. unfold grouped in S. rewrite H in S. cbn in S. destruct S as [_ [_ Hn]]. exact Hn.
Qed.

(* ------------------------------------------------------------------ execution invariants *)

Lemma lookup_In_keys {A} k (l : list (str * A)) v : lookup k l = Some v -> In k (keys l).
Proof.
  induction l as [|[k' v'] r IH]; cbn; [discriminate|].
  destruct (str_eqb k k') eqn:E.
  - intros _. left. apply str_eqb_eq in E. congruence.
  - intro H. right. apply IH. exact H.
Qed.

Section Invariants.
  Variable s : schema.
  Variable frags : list fragment.
  Variable cv : list (str * value).

  Definition errs_ok (j : json) (es : list err) : Prop :=
    Forall (fun e : err => hits_null (fst e) j = true) es.

  Definition out_ok (P : json -> Prop) (o : out) : Prop :=
    let '(r, es, cs) := o in
    Forall (call_ok s cv) cs /\
    match r with
    | CVal j => P j /\ errs_ok j es
    | CErr => es <> []
    end.

  Lemma out_ok_weaken (P Q : json -> Prop) o : (forall j, P j -> Q j) -> out_ok P o -> out_ok Q o.
  Proof.
    destruct o as [[r es] cs]. intros H [Hc Hr]. split; [exact Hc|].
    destruct r; [|exact Hr]. destruct Hr as [Hp He]. split; [apply H; exact Hp | exact He].
  Qed.

  Lemma call_ok_pre seg cs : Forall (call_ok s cv) cs -> Forall (call_ok s cv) (pre_calls seg cs).
  Proof.
    unfold pre_calls. intro H. apply Forall_map. eapply Forall_impl; [|exact H].
    intros [[p f] a] Hc. exact Hc.
  Qed.

  Lemma pre_errs_nonempty seg es : es <> [] -> pre_errs seg es <> [].
  Proof. destruct es; cbn; [congruence | discriminate]. Qed.

  (* catching a field error at a nullable position yields a well-shaped null *)
  Lemma catch_ok t sels o :
    out_ok (shaped s frags cv t sels) o -> out_ok (shaped s frags cv t sels) (catch t o).
  Proof.
    destruct o as [[r es] cs]. destruct r as [j|]; cbn [catch]; [trivial|].
    destruct (is_nonnull t) eqn:E; [trivial|].
    intros [Hc _]. split; [exact Hc|]. split.
    - apply sh_null. exact E.
    - apply Forall_forall. intros [p c] _. destruct p; reflexivity.
  Qed.

  (* ---- the loop over list items ---- *)
  Definition hits_from (i : nat) (js : list json) (e : err) : Prop :=
    match fst e with
    | PIdx i' :: r => (i <= i')%nat /\ exists j, nth_error js (i' - i) = Some j /\ hits_null r j = true
    | _ => False
    end.

  Lemma complete_items_ok (P : json -> Prop) cf : forall items i r es cs,
    (forall x o, In x items -> cf x = Some o -> out_ok P o) ->
    complete_items cf items i = Some (r, es, cs) ->
    Forall (call_ok s cv) cs /\
    match r with
    | Some js => Forall P js /\ Forall (hits_from i js) es
    | None => es <> []
    end.
  Proof.
    induction items as [|x rest IH]; intros i r es cs Hcf H; cbn [complete_items] in H.
    - inversion H; subst. repeat split; constructor.
    - destruct (cf x) as [[[rx esx] csx]|] eqn:Ex; [|discriminate].
      pose proof (Hcf x _ (or_introl eq_refl) Ex) as Hx. cbn in Hx. destruct Hx as [Hcx Hrx].
      destruct rx as [j|].
      + destruct (complete_items cf rest (S i)) as [[[r' es'] cs']|] eqn:Er; [|discriminate].
        inversion H; subst; clear H.
        destruct (IH (S i) r' es' cs' (fun y o Hy => Hcf y o (or_intror Hy)) Er) as [Hc' Hr'].
        split; [apply Forall_app; split; [apply call_ok_pre; exact Hcx | exact Hc']|].
        destruct r' as [js|]; cbn [option_map].
        * destruct Hrx as [Hp He]. destruct Hr' as [Hps Hes]. split; [constructor; assumption|].
          apply Forall_app; split.
          -- unfold pre_errs. apply Forall_map. eapply Forall_impl; [|exact He].
             intros e Hn. cbn. split; [lia|]. exists j. rewrite Nat.sub_diag. split; [reflexivity|exact Hn].
          -- eapply Forall_impl; [|exact Hes]. intros e. unfold hits_from.
             destruct e as [[|[k|i'] e'] c]; cbn [fst]; try tauto. intros [Hle [j' [Hn Hh]]].
             split; [lia|]. exists j'. split; [|exact Hh].
             replace (i' - i)%nat with (S (i' - S i)) by lia. exact Hn.
        * intro Hnil. apply app_eq_nil in Hnil. destruct Hnil as [_ Hnil]. apply Hr'. exact Hnil.
      + inversion H; subst; clear H. split; [apply call_ok_pre; exact Hcx|].
        apply pre_errs_nonempty. exact Hrx.
  Qed.

  (* ---- the loop over the grouped field set ---- *)
  Definition field_shape (rt : str) (fs : list fieldsel) (j : json) : Prop :=
    match fs with
    | [] => False
    | f1 :: _ =>
      (str_eqb (fs_name f1) n_typename = true /\ j = JStr rt) \/
      (str_eqb (fs_name f1) n_typename = false /\
       exists fd, lookup_field s rt (fs_name f1) = Some fd /\
                  shaped s frags cv (f_type fd) (merged_sels fs) j)
    end.

  Definition skip_ok (rt : str) (fs : list fieldsel) : Prop :=
    match fs with
    | [] => True
    | f1 :: _ => str_eqb (fs_name f1) n_typename = false /\ lookup_field s rt (fs_name f1) = None
    end.

  Lemma errs_ok_cons_other k j kvs es :
    ~ In k (keys kvs) -> errs_ok (JObj kvs) es -> errs_ok (JObj ((k, j) :: kvs)) es.
  Proof.
    intros Hk. unfold errs_ok. apply Forall_impl. intros e.
    destruct e as [[|[k'|i] r] c]; cbn [fst hits_null]; try discriminate.
    - cbn [lookup]. destruct (lookup k' kvs) as [j'|] eqn:El; [|discriminate].
      destruct (str_eqb k' k) eqn:E.
      + apply str_eqb_eq in E. subst. apply lookup_In_keys in El. contradiction.
      + trivial.
  Qed.

  Lemma exec_groups_ok rt ef : forall g r es cs,
    NoDup (keys g) ->
    (forall fs o, ef fs = Some (FRes o) -> out_ok (field_shape rt fs) o) ->
    (forall fs, ef fs = Some FSkip -> skip_ok rt fs) ->
    exec_groups ef g = Some (r, es, cs) ->
    Forall (call_ok s cv) cs /\
    match r with
    | Some kvs => shaped_fields s frags cv rt g kvs /\ errs_ok (JObj kvs) es /\
                  (forall k, In k (keys kvs) -> In k (keys g))
    | None => es <> []
    end.
  Proof.
    induction g as [|[k fs] rest IH]; intros r es cs Hnd Hres Hskip H; cbn [exec_groups] in H.
    - inversion H; subst. split; [constructor|]. split; [constructor|]. split; [constructor|].
      intros k [].
    - cbn [keys map fst] in Hnd. inversion Hnd as [|? ? Hnotin Hnd']; subst.
      destruct (ef fs) as [[|[[rx esx] csx]]|] eqn:Ef; [| |discriminate].
      + (* skipped field *)
        destruct (IH r es cs Hnd' Hres Hskip H) as [Hc Hr]. split; [exact Hc|].
        destruct r as [kvs|]; [|exact Hr]. destruct Hr as [Hsf [He Hk]].
        split; [|split; [exact He | intros k' Hin; right; apply Hk; exact Hin]].
        pose proof (Hskip fs Ef) as Hs. destruct fs as [|f1 fs']; cbn in Hs.
        * apply shf_empty. exact Hsf.
        * destruct Hs as [Hs1 Hs2]. apply shf_unknown; assumption.
      + pose proof (Hres fs _ Ef) as Hx. cbn in Hx. destruct Hx as [Hcx Hrx].
        destruct rx as [j|].
        * destruct (exec_groups ef rest) as [[[r' es'] cs']|] eqn:Er; [|discriminate].
          inversion H; subst; clear H.
          destruct (IH r' es' cs' Hnd' Hres Hskip eq_refl) as [Hc' Hr'].
          split; [apply Forall_app; split; [apply call_ok_pre; exact Hcx | exact Hc']|].
          destruct r' as [kvs|]; cbn [option_map].
          -- destruct Hrx as [Hp He]. destruct Hr' as [Hsf [Hes Hk]].
             assert (Hnk : ~ In k (keys kvs)) by (intro Hin; apply Hnotin; apply Hk; exact Hin).
             split; [|split].
             ++ destruct fs as [|f1 fs']; [destruct Hp|]. cbn in Hp.
                destruct Hp as [[Ht ->]|[Ht [fd [Hl Hsh]]]].
                ** apply shf_typename; assumption.
                ** eapply shf_field; eassumption.
             ++ apply Forall_app; split.
                ** unfold pre_errs. apply Forall_map. eapply Forall_impl; [|exact He].
                   intros e Hn. cbn [fst hits_null lookup]. rewrite str_eqb_refl. exact Hn.
                ** apply errs_ok_cons_other; assumption.
             ++ intros k' [<-|Hin]; [left; reflexivity | right; apply Hk; exact Hin].
          -- intro Hnil. apply app_eq_nil in Hnil. destruct Hnil as [_ Hnil]. apply Hr'. exact Hnil.
        * inversion H; subst; clear H. split; [apply call_ok_pre; exact Hcx|].
          apply pre_errs_nonempty. exact Hrx.
  Qed.

  Lemma raise_ok P c : out_ok P (raise_here c).
  Proof. cbn. split; [constructor | discriminate]. Qed.

  Lemma null_ok t sels : is_nonnull t = false -> out_ok (shaped s frags cv t sels) (CVal JNull, [], []).
  Proof. intro H. cbn. split; [constructor|]. split; [apply sh_null; exact H | constructor]. Qed.

  Lemma complete_leaf_json td l j : complete_leaf td l = Some j -> leaf_json td j = true.
  Proof.
    destruct td as [sc|vals| | | |]; destruct l; cbn; try discriminate;
      try (destruct sc; cbn; try discriminate).
    all: try (intro H; inversion H; subst; reflexivity).
    - destruct (in_int_range z) eqn:E; [|discriminate]. intro H; inversion H; subst. exact E.
    - destruct (mem s0 vals) eqn:E; [|discriminate]. intro H; inversion H; subst. exact E.
  Qed.

  Definition sels_shape (rt : str) (sels : list selection) (j : json) : Prop :=
    exists kvs, j = JObj kvs /\ shaped_obj s frags cv rt sels kvs.

  Lemma hits_from_zero js es : Forall (hits_from 0 js) es -> errs_ok (JList js) es.
  Proof.
    apply Forall_impl. intros e. unfold hits_from. destruct e as [[|[k|i] r] c]; cbn [fst]; try tauto.
    intros [_ [j [Hn Hh]]]. cbn [hits_null]. rewrite Nat.sub_0_r in Hn. rewrite Hn. exact Hh.
  Qed.

  Lemma is_object_of_lookup n fs ifs : lookup_type s n = Some (TObject fs ifs) -> is_object s n = true.
  Proof. unfold is_object. intros ->. reflexivity. Qed.


  (* unfolding equations of the mutually recursive functions *)
  Lemma exec_sels_S f tn obj sels :
    exec_sels s frags cv (S f) tn obj sels =
    match collect s frags cv tn f sels ([], []) with
    | None => None
    | Some (_, g) =>
      match exec_groups (exec_field s frags cv f tn obj) g with
      | None => None
      | Some (Some kvs, es, cs) => Some (CVal (JObj kvs), es, cs)
      | Some (None, es, cs) => Some (CErr, es, cs)
      end
    end.
  Proof. reflexivity. Qed.

  Lemma exec_field_S f tn obj fs :
    exec_field s frags cv (S f) tn obj fs =
    match fs with
    | [] => Some FSkip
    | f1 :: _ =>
      if str_eqb (fs_name f1) n_typename then Some (FRes (CVal (JStr tn), [], []))
      else
        match lookup_field s tn (fs_name f1) with
        | None => Some FSkip
        | Some fd =>
          match coerce_args s cv (f_args fd) (fs_args f1) with
          | None => Some (FRes (catch (f_type fd) (raise_here CauseArgs)))
          | Some args =>
            match complete s frags cv f (f_type fd) (merged_sels fs)
                    match lookup (fs_name f1) obj with Some d => d | None => DNull end with
            | None => None
            | Some (r, es, cs) =>
                Some (FRes (catch (f_type fd) (r, es, ([], fs_name f1, args) :: cs)))
            end
          end
        end
    end.
  Proof. reflexivity. Qed.

  Lemma complete_S f t sels d :
    complete s frags cv (S f) t sels d =
    match d with
    | DRaise => Some (raise_here CauseRaise)
    | _ =>
      match t with
      | TNonNull t' =>
          match complete s frags cv f t' sels d with
          | None => None
          | Some (CVal JNull, es, cs) => Some (CErr, es ++ [([], CauseNull)], cs)
          | Some o => Some o
          end
      | TList it =>
          match d with
          | DNull => Some (CVal JNull, [], [])
          | DList items =>
              match complete_items (fun x => option_map (catch it) (complete s frags cv f it sels x)) items O with
              | None => None
              | Some (Some js, es, cs) => Some (CVal (JList js), es, cs)
              | Some (None, es, cs) => Some (CErr, es, cs)
              end
          | _ => Some (raise_here CauseNonList)
          end
      | TNamed n =>
          match d with
          | DNull => Some (CVal JNull, [], [])
          | _ =>
            match lookup_type s n with
            | Some (TObject _ _) => exec_sels s frags cv f n (data_fields d) sels
            | Some (TInterface _) | Some (TUnion _) =>
                match d with
                | DObj rt flds =>
                    if is_object s rt && possible s n rt then exec_sels s frags cv f rt flds sels
                    else Some (raise_here CauseType)
                | _ => Some (raise_here CauseType)
                end
            | Some td =>
                match d with
                | DLeaf l =>
                    match complete_leaf td l with
                    | Some j => Some (CVal j, [], [])
                    | None => Some (raise_here CauseLeaf)
                    end
                | _ => Some (raise_here CauseLeaf)
                end
            | None => Some (raise_here CauseType)
            end
          end
      end
    end.
  Proof. reflexivity. Qed.

  Theorem exec_invariants : forall fuel,
    (forall rt obj sels o, exec_sels s frags cv fuel rt obj sels = Some o ->
                           out_ok (sels_shape rt sels) o) /\
    (forall rt obj fs o, exec_field s frags cv fuel rt obj fs = Some (FRes o) ->
                         out_ok (field_shape rt fs) o) /\
    (forall rt obj fs, exec_field s frags cv fuel rt obj fs = Some FSkip -> skip_ok rt fs) /\
    (forall t sels d o, complete s frags cv fuel t sels d = Some o ->
                        out_ok (shaped s frags cv t sels) o).
  Proof.
    induction fuel as [|f [IHs [IHf [IHk IHc]]]].
    { repeat split; intros; discriminate. }
    repeat split.
    - (* exec_sels *)
      intros rt obj sels o H. rewrite exec_sels_S in H.
      destruct (collect s frags cv rt f sels ([], [])) as [[v g]|] eqn:Ec; [|discriminate].
      destruct (exec_groups (exec_field s frags cv f rt obj) g) as [[[r es] cs]|] eqn:Eg; [|discriminate].
      pose proof (exec_groups_ok rt _ g r es cs (collect_nodup _ _ _ _ _ _ _ _ Ec)
                    (fun fs o => IHf rt obj fs o) (fun fs => IHk rt obj fs) Eg) as [Hc Hr].
      destruct r as [kvs|]; inversion H; subst; clear H; cbn; (split; [exact Hc|]).
      + destruct Hr as [Hsf [He _]]. split; [|exact He].
        exists kvs. split; [reflexivity|]. eapply sho; eassumption.
      + exact Hr.
    - (* exec_field, a result *)
      intros rt obj fs o H. rewrite exec_field_S in H.
      destruct fs as [|f1 fs']; [discriminate|].
      destruct (str_eqb (fs_name f1) n_typename) eqn:Et.
      { inversion H; subst. cbn. split; [constructor|]. split; [|constructor].
        left. split; [exact Et | reflexivity]. }
      destruct (lookup_field s rt (fs_name f1)) as [fd|] eqn:El; [|discriminate].
      assert (W : forall o', out_ok (shaped s frags cv (f_type fd) (merged_sels (f1 :: fs'))) o' ->
                             out_ok (field_shape rt (f1 :: fs')) (catch (f_type fd) o')).
      { intros o' Ho. apply catch_ok in Ho. eapply out_ok_weaken; [|exact Ho].
        intros j Hj. cbn. right. split; [exact Et|]. exists fd. split; [exact El | exact Hj]. }
      destruct (coerce_args s cv (f_args fd) (fs_args f1)) as [args|] eqn:Ea.
      + destruct (complete s frags cv f (f_type fd) (merged_sels (f1 :: fs'))
                    match lookup (fs_name f1) obj with Some d => d | None => DNull end)
          as [[[r es] cs]|] eqn:Ecp; [|discriminate].
        assert (Ho : out_ok (shaped s frags cv (f_type fd) (merged_sels (f1 :: fs')))
                            (r, es, ([], fs_name f1, args) :: cs)).
        { pose proof (IHc _ _ _ _ Ecp) as [Hc Hr]. split; [|exact Hr].
          constructor; [|exact Hc]. cbn. exists rt, fd, (fs_args f1). split; assumption. }
        injection H as <-. exact (W _ Ho).
      + injection H as <-. exact (W _ (raise_ok _ _)).
    - (* exec_field, skipped *)
      intros rt obj fs H. rewrite exec_field_S in H.
      destruct fs as [|f1 fs']; [exact I|]. cbn.
      destruct (str_eqb (fs_name f1) n_typename) eqn:Et; [discriminate|].
      destruct (lookup_field s rt (fs_name f1)) as [fd|] eqn:El.
      + destruct (coerce_args s cv (f_args fd) (fs_args f1)); [|discriminate].
        destruct (complete s frags cv f (f_type fd) (merged_sels (f1 :: fs')) _) as [[[r es] cs]|];
          discriminate.
      + split; reflexivity.
    - (* complete *)
      intros t sels d o H. rewrite complete_S in H.
      assert (HN : forall t' , t = TNonNull t' ->
                match complete s frags cv f t' sels d with
                | None => None
                | Some (CVal JNull, es, cs) => Some (CErr, es ++ [([], CauseNull)], cs)
                | Some o => Some o
                end = Some o -> out_ok (shaped s frags cv t sels) o).
      { intros t' -> HH.
        destruct (complete s frags cv f t' sels d) as [[[r es] cs]|] eqn:Ecp; [|discriminate].
        pose proof (IHc _ _ _ _ Ecp) as [Hc Hr].
        destruct r as [j|].
        - destruct Hr as [Hp He].
          destruct j; inversion HH; subst; clear HH;
            try (split; [exact Hc|]; split; [apply sh_nonnull; [discriminate | exact Hp] | exact He]).
          split; [exact Hc|]. intro Hnil. apply app_eq_nil in Hnil. destruct Hnil as [_ Hnil]. discriminate.
        - inversion HH; subst. split; [exact Hc | exact Hr]. }
      assert (HL : forall it items, t = TList it ->
                match complete_items (fun x => option_map (catch it) (complete s frags cv f it sels x)) items O with
                | None => None
                | Some (Some js, es, cs) => Some (CVal (JList js), es, cs)
                | Some (None, es, cs) => Some (CErr, es, cs)
                end = Some o -> out_ok (shaped s frags cv t sels) o).
      { intros it items -> HH.
        destruct (complete_items _ items O) as [[[r es] cs]|] eqn:Ei; [|discriminate].
        pose proof (complete_items_ok (shaped s frags cv it sels)
                      (fun x => option_map (catch it) (complete s frags cv f it sels x)) items O r es cs) as Hi.
        destruct Hi as [Hc Hr]; [|exact Ei|].
        { intros x o' _ Hx. destruct (complete s frags cv f it sels x) as [o0|] eqn:E0; [|discriminate].
          cbn in Hx. inversion Hx; subst. apply catch_ok. eapply IHc. exact E0. }
        destruct r as [js|]; inversion HH; subst; clear HH; (split; [exact Hc|]).
        - destruct Hr as [Hp He]. split; [apply sh_list; exact Hp | apply hits_from_zero; exact He].
        - exact Hr. }
      assert (HO : forall n rt flds, t = TNamed n -> runtime_of s n rt ->
                exec_sels s frags cv f rt flds sels = Some o -> out_ok (shaped s frags cv t sels) o).
      { intros n rt flds -> Hrt HH. apply IHs in HH. eapply out_ok_weaken; [|exact HH].
        intros j [kvs [-> Hso]]. eapply sh_obj; eassumption. }
      destruct d as [|l|rtn flds|items|].
      + (* DNull *)
        destruct t as [n|it|t'].
        * inversion H; subst. apply null_ok. reflexivity.
        * inversion H; subst. apply null_ok. reflexivity.
        * eapply HN; [reflexivity | exact H].
      + (* DLeaf *)
        destruct t as [n|it|t']; [| inversion H; subst; apply raise_ok | eapply HN; [reflexivity | exact H]].
        destruct (lookup_type s n) as [td|] eqn:El; [|inversion H; subst; apply raise_ok].
        destruct td as [sc|vals|ofs ifs|ifs|ms|idefs ioo]; try (inversion H; subst; apply raise_ok).
        * destruct (complete_leaf (TScalar sc) l) as [j|] eqn:Ecl; inversion H; subst; [|apply raise_ok].
          split; [constructor|]. split; [|constructor].
          eapply sh_leaf; [exact El | eapply complete_leaf_json; exact Ecl].
        * destruct (complete_leaf (TEnum vals) l) as [j|] eqn:Ecl; inversion H; subst; [|apply raise_ok].
          split; [constructor|]. split; [|constructor].
          eapply sh_leaf; [exact El | eapply complete_leaf_json; exact Ecl].
        * eapply HO; [reflexivity | | exact H]. left. split; [eapply is_object_of_lookup; exact El | reflexivity].
      + (* DObj *)
        destruct t as [n|it|t']; [| inversion H; subst; apply raise_ok | eapply HN; [reflexivity | exact H]].
        destruct (lookup_type s n) as [td|] eqn:El; [|inversion H; subst; apply raise_ok].
        destruct td as [sc|vals|ofs ifs|ifs|ms|idefs ioo]; try (inversion H; subst; apply raise_ok).
        * eapply HO; [reflexivity | | exact H]. left. split; [eapply is_object_of_lookup; exact El | reflexivity].
        * destruct (is_object s rtn && possible s n rtn) eqn:Ep; [|inversion H; subst; apply raise_ok].
          apply andb_true_iff in Ep. eapply HO; [reflexivity | | exact H]. right. exact Ep.
        * destruct (is_object s rtn && possible s n rtn) eqn:Ep; [|inversion H; subst; apply raise_ok].
          apply andb_true_iff in Ep. eapply HO; [reflexivity | | exact H]. right. exact Ep.
      + (* DList *)
        destruct t as [n|it|t']; [| eapply HL; [reflexivity | exact H] | eapply HN; [reflexivity | exact H]].
        destruct (lookup_type s n) as [td|] eqn:El; [|inversion H; subst; apply raise_ok].
        destruct td as [sc|vals|ofs ifs|ifs|ms|idefs ioo]; try (inversion H; subst; apply raise_ok).
        eapply HO; [reflexivity | | exact H]. left. split; [eapply is_object_of_lookup; exact El | reflexivity].
      + (* DRaise *)
        inversion H; subst. apply raise_ok.
  Qed.
End Invariants.

(* ------------------------------------------------------------------ whole responses *)

Definition field_known (s : schema) (rt : str) (e : str * list fieldsel) : bool :=
  match snd e with
  | [] => false
  | f1 :: _ =>
    str_eqb (fs_name f1) n_typename ||
    match lookup_field s rt (fs_name f1) with Some _ => true | None => false end
  end.

(* the keys of a response object: the collected response keys whose field the runtime type defines *)
Lemma shaped_fields_keys s frags cv rt g kvs :
  shaped_fields s frags cv rt g kvs -> keys kvs = keys (filter (field_known s rt) g).
Proof.
  induction 1; cbn [filter field_known snd keys map fst].
  - reflexivity.
  - exact IHshaped_fields.
  - rewrite H, H0. cbn. exact IHshaped_fields.
  - rewrite H. cbn. f_equal. exact IHshaped_fields.
  - rewrite H, H0. cbn. f_equal. exact IHshaped_fields.
Qed.

Lemma shaped_null_nullable s frags cv t sels :
  shaped s frags cv t sels JNull -> is_nonnull t = false.
Proof.
  intro H. inversion H; subst; try reflexivity; try assumption; congruence.
Qed.

(* what a response is made of *)
Lemma execute_fuel_resp fuel s d vars root j es cs :
  execute_fuel fuel s d vars root = Resp j es cs ->
  exists cv tn r,
    coerce_variable_values s (d_vars d) vars = Some cv /\
    root_type s (d_kind d) = Some tn /\ is_object s tn = true /\
    exec_sels s (d_frags d) cv fuel tn (match root with DObj _ f => f | _ => [] end) (d_sels d)
      = Some (r, es, cs) /\
    j = match r with CVal j' => j' | CErr => JNull end.
Proof.
  unfold execute_fuel.
  destruct (coerce_variable_values s (d_vars d) vars) as [cv|]; [|discriminate].
  destruct (root_type s (d_kind d)) as [tn|]; [|discriminate].
  destruct (is_object s tn) eqn:Eo; cbn [negb]; [|discriminate].
  destruct (exec_sels s (d_frags d) cv fuel tn _ (d_sels d)) as [[[r es'] cs']|] eqn:E; [|discriminate].
  intro H. exists cv, tn, r.
  destruct r; inversion H; subst; repeat split; try reflexivity; assumption.
Qed.

Theorem response_invariants fuel s d vars root j es cs :
  execute_fuel fuel s d vars root = Resp j es cs ->
  exists cv tn,
    coerce_variable_values s (d_vars d) vars = Some cv /\ root_type s (d_kind d) = Some tn /\
    (* shape *)
    (j = JNull \/ exists kvs, j = JObj kvs /\ shaped_obj s (d_frags d) cv tn (d_sels d) kvs) /\
    (* every error path leads to a null *)
    Forall (fun e : err => hits_null (fst e) j = true) es /\
    (* a null response has an error *)
    (j = JNull -> es <> []) /\
    (* resolver arguments *)
    Forall (call_ok s cv) cs.
Proof.
  intro H. apply execute_fuel_resp in H. destruct H as [cv [tn [r [Hcv [Hrt [Ho [He ->]]]]]]].
  exists cv, tn. split; [exact Hcv|]. split; [exact Hrt|].
  destruct (exec_invariants s (d_frags d) cv fuel) as [Hs _].
  specialize (Hs _ _ _ _ He). cbn in Hs. destruct Hs as [Hc Hr].
  destruct r as [j|].
  - destruct Hr as [[kvs [-> Hso]] Hes]. repeat split.
    + right. exists kvs. split; [reflexivity | exact Hso].
    + exact Hes.
    + discriminate.
    + exact Hc.
  - repeat split.
    + left. reflexivity.
    + apply Forall_forall. intros [p c] _. destruct p; reflexivity.
    + intros _. exact Hr.
    + exact Hc.
Qed.

(* data is null exactly when a field error propagated through the root selection set *)
Definition root_propagated (fuel : nat) (s : schema) (d : document) (vars : list (str * value))
  (root : data) : Prop :=
  exists cv tn es cs,
    coerce_variable_values s (d_vars d) vars = Some cv /\ root_type s (d_kind d) = Some tn /\
    exec_sels s (d_frags d) cv fuel tn (match root with DObj _ f => f | _ => [] end) (d_sels d)
      = Some (CErr, es, cs).

Theorem null_iff_propagated fuel s d vars root j es cs :
  execute_fuel fuel s d vars root = Resp j es cs ->
  (j = JNull <-> root_propagated fuel s d vars root).
Proof.
  intro H. apply execute_fuel_resp in H. destruct H as [cv [tn [r [Hcv [Hrt [Ho [He ->]]]]]]].
  split.
  - intro Hn. destruct r as [j|].
    + destruct (exec_invariants s (d_frags d) cv fuel) as [Hs _].
      specialize (Hs _ _ _ _ He). cbn in Hs. destruct Hs as [_ [[kvs [-> _]] _]]. discriminate.
    + exists cv, tn, es, cs. repeat split; assumption.
  - intros [cv' [tn' [es' [cs' [Hcv' [Hrt' He']]]]]].
    rewrite Hcv in Hcv'. inversion Hcv'; subst. rewrite Hrt in Hrt'. inversion Hrt'; subst.
    rewrite He in He'. inversion He'; subst. reflexivity.
Qed.

(* CollectFields: the grouped field set is the in-order grouping of the visited fields; its keys are
   the distinct response keys in order of first appearance *)
Theorem collect_first_appearance s frags cv tn fuel sels v g :
  collect s frags cv tn fuel sels ([], []) = Some (v, g) ->
  exists fl, collect_flat s frags cv tn fuel sels ([], []) = Some (v, fl) /\
             g = group fl /\ keys g = first_occ (map fst fl) /\ NoDup (keys g).
Proof.
  intro H. pose proof (collect_is_group_of_flat s frags cv tn fuel sels) as G.
  destruct (collect_flat s frags cv tn fuel sels ([], [])) as [[v' fl]|].
  - rewrite H in G. inversion G; subst. exists fl. repeat split.
    + apply group_keys.
    + eapply collect_nodup. exact H.
  - rewrite H in G. discriminate.
Qed.

(* ------------------------------------------------------------------ fuel is only fuel *)

Section FuelMono.
  Variable s : schema.
  Variable frags : list fragment.
  Variable cv : list (str * value).

  Lemma collect_list_mono tn A add (rec rec' : list selection -> list str * A -> option (list str * A)) :
    (forall sels st r, rec sels st = Some r -> rec' sels st = Some r) ->
    forall sels st r, collect_list s frags cv tn A add rec sels st = Some r ->
                      collect_list s frags cv tn A add rec' sels st = Some r.
  Proof.
    intros Hrec. induction sels as [|x rest IH]; intros st r H; [exact H|].
    destruct x as [al name args dirs sub | name dirs | tc dirs sub]; cbn [collect_list] in *.
    - destruct (should_include cv dirs); apply IH; exact H.
    - destruct (negb (should_include cv dirs)); [apply IH; exact H|].
      destruct (mem name (fst st)); [apply IH; exact H|].
      destruct (find_frag name frags) as [fr|]; [|apply IH; exact H].
      destruct (cond_matches s (fr_cond fr) tn); [|apply IH; exact H].
      destruct (rec (fr_sels fr) (name :: fst st, snd st)) as [st'|] eqn:Er; [|discriminate].
      rewrite (Hrec _ _ _ Er). apply IH. exact H.
    - destruct (should_include cv dirs && match tc with Some c => cond_matches s c tn | None => true end);
        [|apply IH; exact H].
      destruct (rec sub st) as [st'|] eqn:Er; [|discriminate].
      rewrite (Hrec _ _ _ Er). apply IH. exact H.
  Qed.

  Lemma collect_gen_mono tn A add : forall f f', (f <= f')%nat -> forall sels st r,
    collect_gen s frags cv tn A add f sels st = Some r ->
    collect_gen s frags cv tn A add f' sels st = Some r.
  Proof.
    induction f as [|f IH]; intros f' Hle sels st r H; [discriminate|].
    destruct f' as [|f']; [lia|]. cbn [collect_gen] in *.
    eapply collect_list_mono; [|exact H]. intros sels0 st0 r0. apply IH. lia.
  Qed.

  Lemma exec_groups_mono (ef ef' : list fieldsel -> option fres) :
    (forall fs r, ef fs = Some r -> ef' fs = Some r) ->
    forall g o, exec_groups ef g = Some o -> exec_groups ef' g = Some o.
  Proof.
    intros Hef. induction g as [|[k fs] rest IH]; intros o H; [exact H|].
    cbn [exec_groups] in *. destruct (ef fs) as [r|] eqn:Ef; [|discriminate].
    rewrite (Hef _ _ Ef). destruct r as [|[[[j|] es] cs]].
    - apply IH. exact H.
    - destruct (exec_groups ef rest) as [o'|] eqn:Er; [|discriminate]. rewrite (IH _ eq_refl). exact H.
    - exact H.
  Qed.

  Lemma complete_items_mono (cf cf' : data -> option out) :
    (forall x r, cf x = Some r -> cf' x = Some r) ->
    forall items i o, complete_items cf items i = Some o -> complete_items cf' items i = Some o.
  Proof.
    intros Hcf. induction items as [|x rest IH]; intros i o H; [exact H|].
    cbn [complete_items] in *. destruct (cf x) as [r|] eqn:Ec; [|discriminate].
    rewrite (Hcf _ _ Ec). destruct r as [[[j|] es] cs].
    - destruct (complete_items cf rest (S i)) as [o'|] eqn:Er; [|discriminate].
      rewrite (IH _ _ Er). exact H.
    - exact H.
  Qed.

  Theorem exec_mono : forall f,
    (forall f', (f <= f')%nat -> forall tn obj sels o,
        exec_sels s frags cv f tn obj sels = Some o -> exec_sels s frags cv f' tn obj sels = Some o) /\
    (forall f', (f <= f')%nat -> forall tn obj fs o,
        exec_field s frags cv f tn obj fs = Some o -> exec_field s frags cv f' tn obj fs = Some o) /\
    (forall f', (f <= f')%nat -> forall t sels d o,
        complete s frags cv f t sels d = Some o -> complete s frags cv f' t sels d = Some o).
  Proof.
    induction f as [|f [IHs [IHf IHc]]].
    { repeat split; intros; discriminate. }
    repeat split; intros f' Hle; (destruct f' as [|f']; [lia|]); assert (Hle' : (f <= f')%nat) by lia.
    - intros tn obj sels o H. rewrite exec_sels_S in *.
      destruct (collect s frags cv tn f sels ([], [])) as [[v g]|] eqn:Ec; [|discriminate].
      unfold collect in *. rewrite (collect_gen_mono tn _ _ f f' Hle' _ _ _ Ec).
      destruct (exec_groups (exec_field s frags cv f tn obj) g) as [o'|] eqn:Eg; [|discriminate].
      rewrite (exec_groups_mono _ (exec_field s frags cv f' tn obj) (fun fs r => IHf f' Hle' tn obj fs r) _ _ Eg).
      exact H.
    - intros tn obj fs o H. rewrite exec_field_S in *.
      destruct fs as [|f1 fs']; [exact H|].
      destruct (str_eqb (fs_name f1) n_typename); [exact H|].
      destruct (lookup_field s tn (fs_name f1)) as [fd|]; [|exact H].
      destruct (coerce_args s cv (f_args fd) (fs_args f1)) as [args|]; [|exact H].
      destruct (complete s frags cv f (f_type fd) (merged_sels (f1 :: fs')) _) as [o'|] eqn:Ecp; [|discriminate].
      rewrite (IHc f' Hle' _ _ _ _ Ecp). exact H.
    - intros t sels d o H. rewrite complete_S in *.
      destruct d as [|l|tn flds|items|]; try exact H.
      + destruct t as [n|it|t']; try exact H.
        destruct (complete s frags cv f t' sels DNull) as [o'|] eqn:Ecp; [|discriminate].
        rewrite (IHc f' Hle' _ _ _ _ Ecp). exact H.
      + destruct t as [n|it|t']; try exact H.
        * destruct (lookup_type s n) as [[| |ofs ifs|ifs|ms|idefs ioo]|]; try exact H.
          apply IHs; assumption.
        * destruct (complete s frags cv f t' sels (DLeaf l)) as [o'|] eqn:Ecp; [|discriminate].
          rewrite (IHc f' Hle' _ _ _ _ Ecp). exact H.
      + destruct t as [n|it|t']; try exact H.
        * destruct (lookup_type s n) as [[| |ofs ifs|ifs|ms|idefs ioo]|]; try exact H.
          -- apply IHs; assumption.
          -- destruct (is_object s tn && possible s n tn); [apply IHs; assumption | exact H].
          -- destruct (is_object s tn && possible s n tn); [apply IHs; assumption | exact H].
        * destruct (complete s frags cv f t' sels (DObj tn flds)) as [o'|] eqn:Ecp; [|discriminate].
          rewrite (IHc f' Hle' _ _ _ _ Ecp). exact H.
      + destruct t as [n|it|t']; try exact H.
        * destruct (lookup_type s n) as [[| |ofs ifs|ifs|ms|idefs ioo]|]; try exact H.
          apply IHs; assumption.
        * destruct (complete_items (fun x => option_map (catch it) (complete s frags cv f it sels x)) items O)
            as [o'|] eqn:Ei; [|discriminate].
          assert (Hcf : forall x r,
                    option_map (catch it) (complete s frags cv f it sels x) = Some r ->
                    option_map (catch it) (complete s frags cv f' it sels x) = Some r).
          { intros x r Hx. destruct (complete s frags cv f it sels x) as [o0|] eqn:E0; [|discriminate].
            rewrite (IHc f' Hle' _ _ _ _ E0). exact Hx. }
          rewrite (complete_items_mono _ (fun x => option_map (catch it) (complete s frags cv f' it sels x))
                     Hcf _ _ _ Ei). exact H.
        * destruct (complete s frags cv f t' sels (DList items)) as [o'|] eqn:Ecp; [|discriminate].
          rewrite (IHc f' Hle' _ _ _ _ Ecp). exact H.
  Qed.
End FuelMono.

(* more fuel never changes an answer *)
Theorem execute_fuel_mono f f' s d vars root :
  (f <= f')%nat -> execute_fuel f s d vars root <> OutOfFuelR ->
  execute_fuel f' s d vars root = execute_fuel f s d vars root.
Proof.
  intros Hle. unfold execute_fuel.
  destruct (coerce_variable_values s (d_vars d) vars) as [cv|]; [|reflexivity].
  destruct (root_type s (d_kind d)) as [tn|]; [|reflexivity].
  destruct (negb (is_object s tn)); [reflexivity|].
  destruct (exec_sels s (d_frags d) cv f tn _ (d_sels d)) as [o|] eqn:E; [|congruence].
  intros _. destruct (exec_mono s (d_frags d) cv f) as [Hs _].
  rewrite (Hs f' Hle _ _ _ _ E). reflexivity.
Qed.

(* the response does not depend on the fuel: any two runs that are not out of fuel agree *)
Theorem execute_fuel_independent f1 f2 s d vars root :
  execute_fuel f1 s d vars root <> OutOfFuelR -> execute_fuel f2 s d vars root <> OutOfFuelR ->
  execute_fuel f1 s d vars root = execute_fuel f2 s d vars root.
Proof.
  intros H1 H2.
  rewrite <- (execute_fuel_mono f1 (Nat.max f1 f2) s d vars root (Nat.le_max_l _ _) H1).
  rewrite <- (execute_fuel_mono f2 (Nat.max f1 f2) s d vars root (Nat.le_max_r _ _) H2).
  reflexivity.
Qed.

(* ------------------------------------------------------------------ every null is accounted for *)

(* value completion itself yields null only for a null value (errors are caught by the callers) *)
Lemma complete_null s frags cv fuel t sels d es cs :
  complete s frags cv fuel t sels d = Some (CVal JNull, es, cs) -> d = DNull /\ es = [].
Proof.
  destruct fuel as [|f]; [discriminate|]. rewrite complete_S.
  assert (HS : forall rt flds, exec_sels s frags cv f rt flds sels <> Some (CVal JNull, es, cs)).
  { intros rt flds HH. destruct f as [|f0]; [discriminate|]. rewrite exec_sels_S in HH.
    destruct (collect s frags cv rt f0 sels ([], [])) as [[v g]|]; [|discriminate].
    destruct (exec_groups (exec_field s frags cv f0 rt flds) g) as [[[[kvs|] es0] cs0]|]; discriminate. }
  assert (HN : forall t', match complete s frags cv f t' sels d with
                          | None => None
                          | Some (CVal JNull, es, cs) => Some (CErr, es ++ [([], CauseNull)], cs)
                          | Some o => Some o
                          end <> Some (CVal JNull, es, cs)).
  { intros t' HH. destruct (complete s frags cv f t' sels d) as [[[[j|] es0] cs0]|]; try discriminate.
    destruct j; discriminate || (inversion HH). }
  destruct d as [|l|tn flds|items|]; try discriminate.
  - destruct t as [n|it|t']; intro H; try (inversion H; subst; split; reflexivity).
    exfalso. eapply HN. exact H.
  - destruct t as [n|it|t']; intro H; try discriminate; [|exfalso; eapply HN; exact H].
    exfalso. destruct (lookup_type s n) as [[sc|vals| | | |]|]; try discriminate.
    + destruct (complete_leaf (TScalar sc) l) as [j|] eqn:E; [|discriminate].
      inversion H; subst. destruct sc, l; cbn in E; try discriminate;
        try (destruct (in_int_range z)); discriminate.
    + destruct (complete_leaf (TEnum vals) l) as [j|] eqn:E; [|discriminate].
      inversion H; subst. destruct l; cbn in E; try discriminate. destruct (mem s0 vals); discriminate.
    + eapply HS. exact H.
  - destruct t as [n|it|t']; intro H; try discriminate; [|exfalso; eapply HN; exact H].
    exfalso. destruct (lookup_type s n) as [[| |ofs ifs|ifs|ms|idefs ioo]|]; try discriminate.
    + eapply HS. exact H.
    + destruct (is_object s tn && possible s n tn); [eapply HS; exact H | discriminate].
    + destruct (is_object s tn && possible s n tn); [eapply HS; exact H | discriminate].
  - destruct t as [n|it|t']; intro H; [| |exfalso; eapply HN; exact H].
    + exfalso. destruct (lookup_type s n) as [[| | | | |]|]; try discriminate. eapply HS. exact H.
    + destruct (complete_items _ items O) as [[[[js|] es0] cs0]|]; discriminate.
Qed.

(* a null in a field position: either the resolved value is null and nothing went wrong below, or
   an error at or below this field was recorded *)
Theorem field_null_accounted s frags cv fuel rt obj f1 fs es cs :
  exec_field s frags cv fuel rt obj (f1 :: fs) = Some (FRes (CVal JNull, es, cs)) ->
  (match lookup (fs_name f1) obj with Some d => d | None => DNull end = DNull /\ es = []) \/ es <> [].
Proof.
  destruct fuel as [|f]; [discriminate|]. rewrite exec_field_S.
  destruct (str_eqb (fs_name f1) n_typename); [discriminate|].
  destruct (lookup_field s rt (fs_name f1)) as [fd|]; [|discriminate].
  destruct (coerce_args s cv (f_args fd) (fs_args f1)) as [args|].
  - destruct (complete s frags cv f (f_type fd) (merged_sels (f1 :: fs)) _) as [[[r es0] cs0]|] eqn:Ec;
      [|discriminate].
    destruct r as [j|]; cbn [catch].
    + intro H. inversion H; subst. apply complete_null in Ec. left. exact Ec.
    + destruct (exec_invariants s frags cv f) as [_ [_ [_ Hc]]].
      specialize (Hc _ _ _ _ Ec). cbn in Hc. destruct Hc as [_ Hne].
      destruct (is_nonnull (f_type fd)); [discriminate|]. intro H. inversion H; subst. right. exact Hne.
  - cbn. destruct (is_nonnull (f_type fd)); [discriminate|]. intro H. inversion H; subst. right. discriminate.
Qed.
