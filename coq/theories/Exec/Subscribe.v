(* Model of the subscription pipeline (execute.map_source_to_response_event over
   async_iterables.map_async_iterable): a pull-driven machine that fetches one source item,
   maps it with the per-event execution, yields the response, and only then fetches again. *)
From GV Require Import Base.Prelude.

Section Subscribe.
  Variable E R : Type.
  Variable exec : E -> R.          (* per-event execution with the event as root value *)

  Inductive src_item := Ev (e : E) | Fail.          (* the source yields an event / raises *)
  Inductive output := Resp (r : R) | Raised | Ended.

  (* what the specification prescribes for a whole source *)
  Fixpoint spec_outputs (src : list src_item) : list output :=
    match src with
    | [] => [Ended]
    | Ev e :: r => Resp (exec e) :: spec_outputs r
    | Fail :: _ => [Raised]
    end.

  Inductive stage := Idle | Fetching | Mapping (e : E) | Done.
  Record state := mkSt { src : list src_item; stg : stage }.

  (* events of the environment, in any order the scheduler likes *)
  Inductive step_ev := Pull | SourceReady | CallbackDone.

  Definition step (s : state) (ev : step_ev) : state * list output :=
    match stg s, ev with
    | Idle, Pull => (mkSt (src s) Fetching, [])
    | Fetching, SourceReady =>
      match src s with
      | [] => (mkSt [] Done, [Ended])
      | Ev e :: r => (mkSt r (Mapping e), [])
      | Fail :: r => (mkSt r Done, [Raised])
      end
    | Mapping e, CallbackDone => (mkSt (src s) Idle, [Resp (exec e)])
    | _, _ => (s, [])        (* not enabled: nothing happens *)
    end.

  Fixpoint run_steps (s : state) (evs : list step_ev) : state * list output :=
    match evs with
    | [] => (s, [])
    | ev :: r =>
      let '(s1, o1) := step s ev in
      let '(s2, o2) := run_steps s1 r in (s2, o1 ++ o2)
    end.

  (* what is still to come from a state *)
  Definition remaining (s : state) : list output :=
    match stg s with
    | Idle | Fetching => spec_outputs (src s)
    | Mapping e => Resp (exec e) :: spec_outputs (src s)
    | Done => []
    end.
End Subscribe.
