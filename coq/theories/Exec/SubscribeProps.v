From GV Require Import Base.Prelude Exec.Subscribe.

Section Props.
  Variable E R : Type.
  Variable exec : E -> R.
  Notation state := (state E).
  Notation run := (run_steps E R exec).
  Notation step := (step E R exec).
  Notation remaining := (remaining E R exec).
  Notation spec_outputs := (spec_outputs E R exec).

  Lemma step_inv (s : state) ev :
    let '(s', o) := step s ev in o ++ remaining s' = remaining s.
  Proof.
    destruct s as [sr st]. unfold Subscribe.step, Subscribe.remaining. cbn [stg src].
    destruct st as [| |e|]; destruct ev; cbn; try reflexivity.
    destruct sr as [|[e|] r]; cbn; reflexivity.
  Qed.

  Lemma run_inv evs : forall (s : state),
    let '(s', o) := run s evs in o ++ remaining s' = remaining s.
  Proof.
    induction evs as [|ev r IH]; intros s; cbn.
    - reflexivity.
    - pose proof (step_inv s ev) as H1. destruct (step s ev) as [s1 o1].
      pose proof (IH s1) as H2. destruct (run s1 r) as [s2 o2].
      rewrite <- app_assoc, H2. exact H1.
  Qed.

  (* Under every interleaving of pulls, source readiness and callback completions, what has
     been delivered so far followed by what is still due is exactly the specified stream. *)
  Theorem delivered_is_prefix src0 evs :
    let '(s', o) := run (mkSt E src0 (Idle E)) evs in
    o ++ remaining s' = spec_outputs src0.
  Proof. exact (run_inv evs (mkSt E src0 (Idle E))). Qed.

  (* when the pipeline has finished, the delivered stream is the specified one *)
  Corollary finished_is_spec src0 evs s' o :
    run (mkSt E src0 (Idle E)) evs = (s', o) -> stg E s' = Done E -> o = spec_outputs src0.
  Proof.
    intros H Hd. pose proof (delivered_is_prefix src0 evs) as P. rewrite H in P.
    unfold Subscribe.remaining in P. rewrite Hd in P. rewrite app_nil_r in P. exact P.
  Qed.

  (* shape of the specified stream: one response per event before the first failure, in
     order, then the failure or the end *)
  Fixpoint events_before_fail (src : list (src_item E)) : list E :=
    match src with Ev _ e :: r => e :: events_before_fail r | _ => [] end.
  Fixpoint has_fail (src : list (src_item E)) : bool :=
    match src with [] => false | Ev _ _ :: r => has_fail r | Fail _ :: _ => true end.

  Theorem spec_shape src0 :
    spec_outputs src0 = map (fun e => Resp R (exec e)) (events_before_fail src0)
                        ++ [if has_fail src0 then Raised R else Ended R].
  Proof.
    induction src0 as [|[e|] r IH]; cbn; try reflexivity. rewrite IH. reflexivity.
  Qed.

  (* liveness of the model: a fair schedule (pull, source, callback repeated) finishes *)
  Fixpoint fair (n : nat) : list step_ev :=
    match n with O => [] | S k => Pull :: SourceReady :: CallbackDone :: fair k end.

  Lemma done_stays evs : forall (st0 : state), stg E st0 = Done E -> stg E (fst (run st0 evs)) = Done E.
  Proof.
    induction evs as [|ev evs IHe]; intros st0 Hs; cbn; [exact Hs|].
    destruct st0 as [sr st]. cbn in Hs. subst st.
    assert (Hstep : step (mkSt E sr (Done E)) ev = (mkSt E sr (Done E), [])) by (destruct ev; reflexivity).
    rewrite Hstep. specialize (IHe (mkSt E sr (Done E)) eq_refl).
    destruct (run (mkSt E sr (Done E)) evs). exact IHe.
  Qed.

  Lemma fair_finishes src0 : stg E (fst (run (mkSt E src0 (Idle E)) (fair (S (length src0))))) = Done E.
  Proof.
    induction src0 as [|[e|] r IH]; cbn [length].
    - reflexivity.
    - change (fair (S (S (length r)))) with (Pull :: SourceReady :: CallbackDone :: fair (S (length r))).
      cbn [Subscribe.run_steps Subscribe.step stg src].
      destruct (run (mkSt E r (Idle E)) (fair (S (length r)))) as [s2 o2] eqn:Er.
      cbn [fst] in *. exact IH.
    - change (fair (S (S (length r)))) with (Pull :: SourceReady :: CallbackDone :: fair (S (length r))).
      cbn [Subscribe.run_steps Subscribe.step stg src].
      pose proof (done_stays (CallbackDone :: fair (S (length r))) (mkSt E r (Done E)) eq_refl) as G.
      cbn [Subscribe.run_steps Subscribe.step stg src] in G.
      destruct (run (mkSt E r (Done E)) (fair (S (length r)))) as [s2 o2]. exact G.
  Qed.
End Props.
