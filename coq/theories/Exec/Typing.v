(* Static typing of operations against a schema, and conformance of data graphs (C13).
   Definitions only; proofs in Exec/Soundness.v.

   The typing judgment is directed by RUNTIME OBJECT TYPES: a selection set is checked once for
   every object type a value can have there.  It is therefore at least as permissive as the
   validation rules it stands for (FieldsOnCorrectType, ScalarLeafs, KnownArgumentNames,
   ProvidedRequiredArguments, ValuesOfCorrectType, VariablesAreInputTypes, NoUndefinedVariables,
   VariablesInAllowedPosition, KnownFragmentNames, NoFragmentCycles): on a valid schema a document
   accepted by them is accepted here (checked on every run by harness/c13.py).  With a key map
   ([Some m]) the judgment also demands that a response key names one field document-wide, the
   simple stand-in for OverlappingFieldsCanBeMerged under which soundness is proved. *)
From GV Require Import Base.Prelude Exec.Value Exec.Schema Exec.Spec.

(* ------------------------------------------------------------------ values *)

(* IsTypeSubTypeOf on input types *)
Fixpoint in_subtype (m super : ty) : bool :=
  match super with
  | TNonNull st => match m with TNonNull mt => in_subtype mt st | _ => false end
  | TList st =>
      match m with
      | TNonNull (TList mt) => in_subtype mt st
      | TList mt => in_subtype mt st
      | _ => false
      end
  | TNamed sn =>
      match m with
      | TNonNull (TNamed mn) => str_eqb mn sn
      | TNamed mn => str_eqb mn sn
      | _ => false
      end
  end.

Definition has_nonnull_default (d : option value) : bool :=
  match d with Some VNull => false | Some _ => true | None => false end.

(* allowed_variable_usage *)
Definition allowed_usage (vt : ty) (vdefault : option value) (lt : ty) (loc_default : bool) : bool :=
  match lt with
  | TNonNull lt' =>
      if is_nonnull vt then in_subtype vt lt
      else (has_nonnull_default vdefault || loc_default) && in_subtype vt lt'
  | _ => in_subtype vt lt
  end.

Fixpoint find_var (x : str) (l : list var_def) : option var_def :=
  match l with
  | [] => None
  | v :: r => if str_eqb x (v_name v) then Some v else find_var x r
  end.

Section Values.
  Variable s : schema.
  Variable vdefs : list var_def.

  (* a literal (possibly with variables) at a location of type [t]; [loc_default]: the location
     (an argument) has a default value *)
  Fixpoint lit_ok (v : value) (t : ty) (loc_default : bool) {struct v} : bool :=
    match v with
    | VVar x =>
        match find_var x vdefs with
        | Some vd => allowed_usage (v_type vd) (v_default vd) t loc_default
        | None => false
        end
    | VNull => negb (is_nonnull t)
    | VList items =>
        match list_item_type t with
        | Some it => (fix all (l : list value) : bool :=
                        match l with [] => true | x :: r => lit_ok x it false && all r end) items
        | None => false
        end
    | _ => match coerce_scalar_lit s v t with Some _ => true | None => false end
    end.

  Fixpoint find_arg (n : str) (l : list arg_def) : option arg_def :=
    match l with
    | [] => None
    | a :: r => if str_eqb n (a_name a) then Some a else find_arg n r
    end.

  Definition args_ok (defs : list arg_def) (args : list (str * value)) : bool :=
    forallb (fun kv => match find_arg (fst kv) defs with Some _ => true | None => false end) args
    && forallb (fun ad =>
         match lookup (a_name ad) args with
         | None => negb (required_arg ad)
         | Some v => lit_ok v (a_type ad) (match a_default ad with Some _ => true | None => false end)
         end) defs.

  (* @skip / @include take [if: Boolean!] *)
  Definition dirs_ok (ds : list directive) : bool :=
    forallb (fun d : directive =>
      if str_eqb (fst d) n_skip || str_eqb (fst d) n_include
      then match lookup n_if (snd d) with
           | Some v => lit_ok v (TNonNull (TNamed n_Boolean)) false
           | None => false
           end
      else true) ds.
End Values.

(* every argument default of the schema is a valid constant of the argument's type *)
Definition fields_defaults_ok (s : schema) (fs : list field_def) : bool :=
  forallb (fun fd => forallb (fun ad =>
    match a_default ad with
    | Some lit => match coerce_lit s [] lit (a_type ad) with Some _ => true | None => false end
    | None => true
    end) (f_args fd)) fs.

Definition schema_ok (s : schema) : bool :=
  forallb (fun e => match snd e with
                    | TObject fs _ => fields_defaults_ok s fs
                    | TInterface fs => fields_defaults_ok s fs
                    | _ => true
                    end) (s_types s).

(* ------------------------------------------------------------------ selections *)

Definition keymap := list (str * str).           (* response key -> field name *)

Definition key_ok (U : option keymap) (k n : str) : bool :=
  match U with
  | None => true
  | Some m => match lookup k m with Some n' => str_eqb n' n | None => false end
  end.

Definition is_leaf_def (td : type_def) : bool :=
  match td with TScalar _ | TEnum _ => true | _ => false end.

Definition is_composite_def (td : type_def) : bool :=
  match td with TObject _ _ | TInterface _ | TUnion _ => true | _ => false end.

Definition runtime_of_b (s : schema) (n rt : str) : bool :=
  (is_object s n && str_eqb rt n) || (is_object s rt && possible s n rt).

Section Selections.
  Variable s : schema.
  Variable frags : list fragment.
  Variable vdefs : list var_def.
  Variable U : option keymap.

  Inductive sel_typed : str -> selection -> Prop :=
  | st_typename rt al dirs :
      key_ok U (response_key al n_typename) n_typename = true ->
      dirs_ok s vdefs dirs = true ->
      sel_typed rt (SField al n_typename [] dirs [])
  | st_field rt al name args dirs sub fd :
      str_eqb name n_typename = false ->
      key_ok U (response_key al name) name = true ->
      lookup_field s rt name = Some fd ->
      args_ok s vdefs (f_args fd) args = true ->
      dirs_ok s vdefs dirs = true ->
      sub_typed (f_type fd) sub ->
      sel_typed rt (SField al name args dirs sub)
  | st_inline_other rt c dirs sub :
      cond_matches s c rt = false -> dirs_ok s vdefs dirs = true ->
      sel_typed rt (SInline (Some c) dirs sub)
  | st_inline rt tc dirs sub :
      match tc with Some c => cond_matches s c rt | None => true end = true ->
      dirs_ok s vdefs dirs = true ->
      Forall (sel_typed rt) sub ->
      sel_typed rt (SInline tc dirs sub)
  | st_spread_other rt name dirs fr :
      find_frag name frags = Some fr -> cond_matches s (fr_cond fr) rt = false ->
      dirs_ok s vdefs dirs = true ->
      sel_typed rt (SSpread name dirs)
  | st_spread rt name dirs fr :
      find_frag name frags = Some fr -> cond_matches s (fr_cond fr) rt = true ->
      dirs_ok s vdefs dirs = true ->
      Forall (sel_typed rt) (fr_sels fr) ->
      sel_typed rt (SSpread name dirs)
  (* the sub-selection of a field of type [t] *)
  with sub_typed : ty -> list selection -> Prop :=
  | sub_leaf t td :
      lookup_type s (named_of t) = Some td -> is_leaf_def td = true -> sub_typed t []
  | sub_composite t td sub :
      lookup_type s (named_of t) = Some td -> is_composite_def td = true -> sub <> [] ->
      (forall rt', runtime_of_b s (named_of t) rt' = true -> Forall (sel_typed rt') sub) ->
      sub_typed t sub.

  Definition object_names : list str :=
    flat_map (fun e => match snd e with TObject _ _ => [fst e] | _ => [] end) (s_types s).

  (* the checker; fuel bounds the nesting of selection sets and fragment bodies (a cycle of
     fragment spreads exhausts it) *)
  Fixpoint check_sel (fuel : nat) (rt : str) (x : selection) : bool :=
    match fuel with
    | O => false
    | S f =>
      match x with
      | SField al name args dirs sub =>
          key_ok U (response_key al name) name && dirs_ok s vdefs dirs &&
          if str_eqb name n_typename
          then match args, sub with [], [] => true | _, _ => false end
          else
            match lookup_field s rt name with
            | None => false
            | Some fd =>
              args_ok s vdefs (f_args fd) args &&
              match lookup_type s (named_of (f_type fd)) with
              | None => false
              | Some td =>
                if is_leaf_def td then match sub with [] => true | _ => false end
                else match sub with
                     | [] => false
                     | _ => forallb (fun rt' =>
                              negb (runtime_of_b s (named_of (f_type fd)) rt')
                              || forallb (check_sel f rt') sub) object_names
                     end
              end
            end
      | SInline tc dirs sub =>
          dirs_ok s vdefs dirs &&
          if match tc with Some c => cond_matches s c rt | None => true end
          then forallb (check_sel f rt) sub else true
      | SSpread name dirs =>
          dirs_ok s vdefs dirs &&
          match find_frag name frags with
          | None => false
          | Some fr =>
            if cond_matches s (fr_cond fr) rt then forallb (check_sel f rt) (fr_sels fr) else true
          end
      end
    end.
End Selections.

(* ------------------------------------------------------------------ operations *)

Fixpoint fields_of_sel (x : selection) : keymap :=
  match x with
  | SField al name _ _ sub => (response_key al name, name) :: flat_map fields_of_sel sub
  | SSpread _ _ => []
  | SInline _ _ sub => flat_map fields_of_sel sub
  end.

Definition doc_keymap (d : document) : keymap :=
  flat_map fields_of_sel (d_sels d) ++ flat_map (fun fr => flat_map fields_of_sel (fr_sels fr)) (d_frags d).

Fixpoint nodup_names (l : list str) : bool :=
  match l with [] => true | x :: r => negb (mem x r) && nodup_names r end.

Definition vars_ok (s : schema) (vdefs : list var_def) : bool :=
  nodup_names (map v_name vdefs) &&
  forallb (fun vd =>
    is_input_type s (v_type vd) &&
    match v_default vd with Some lit => lit_ok s [] lit (v_type vd) false | None => true end) vdefs.

Definition check_fuel (d : document) : nat :=
  S (sels_depth (d_sels d) + fold_right (fun fr m => S (sels_depth (fr_sels fr)) + m) O (d_frags d))%nat.

Definition well_typed_with (U : option keymap) (s : schema) (d : document) : bool :=
  vars_ok s (d_vars d) &&
  match root_type s (d_kind d) with
  | None => false
  | Some rt =>
    is_object s rt &&
    forallb (check_sel s (d_frags d) (d_vars d) U (check_fuel d) rt) (d_sels d)
  end.

(* the modelled validation rules *)
Definition well_typed (s : schema) (d : document) : bool := well_typed_with None s d.

(* ... and additionally: one response key, one field, document-wide *)
Definition well_typed_strict (s : schema) (d : document) : bool :=
  well_typed_with (Some (doc_keymap d)) s d.

(* ------------------------------------------------------------------ data *)

Section Conformance.
  Variable s : schema.

  Definition fields_of (rt : str) : list field_def :=
    match lookup_type s rt with
    | Some (TObject fs _) => fs
    | _ => []
    end.

  Definition has_key {A} (k : str) (l : list (str * A)) : bool :=
    match lookup k l with Some _ => true | None => false end.

  (* the data graph below [d] conforms to type [t]: no null in a non-null position, leaves that
     serialise, lists for list types, objects of a possible runtime type whose (present) fields
     conform and whose absent fields are nullable, no raising resolver *)
  Fixpoint conforms (d : data) (t : ty) {struct d} : bool :=
    let t0 := match t with TNonNull t' => t' | _ => t end in
    match d with
    | DNull => negb (is_nonnull t)
    | DRaise => false
    | DLeaf l =>
        match t0 with
        | TNamed n =>
            match lookup_type s n with
            | Some td => is_leaf_def td && match complete_leaf td l with Some _ => true | None => false end
            | None => false
            end
        | _ => false
        end
    | DList items =>
        match t0 with
        | TList it => (fix all (l : list data) : bool :=
                         match l with [] => true | x :: r => conforms x it && all r end) items
        | _ => false
        end
    | DObj tn flds =>
        match t0 with
        | TNamed n =>
            let rt := if is_object s n then Some n
                      else if is_object s tn && possible s n tn then Some tn else None in
            match rt with
            | None => false
            | Some rt =>
              (fix all (l : list (str * data)) : bool :=
                 match l with
                 | [] => true
                 | (k, d') :: r =>
                   match lookup_field s rt k with
                   | Some fd => conforms d' (f_type fd)
                   | None => true
                   end && all r
                 end) flds
              && forallb (fun fd => has_key (f_name fd) flds || negb (is_nonnull (f_type fd)))
                         (fields_of rt)
            end
        | _ => false
        end
    end.

  (* the root value against the root object type *)
  Definition conforms_root (rt : str) (root : data) : bool :=
    match root with
    | DObj _ _ => is_object s rt && conforms root (TNamed rt)
    | _ => false
    end.
End Conformance.

(* no variable declared with a nullable type has the value null (given or by default): the one case
   the specification defers to run time - such a variable may legally sit in a non-null position
   that has a default - is excluded *)
Definition no_null_nullable_vars (vdefs : list var_def) (cv : list (str * value)) : bool :=
  forallb (fun vd =>
    is_nonnull (v_type vd) ||
    match lookup (v_name vd) cv with Some VNull => false | _ => true end) vdefs.

(* ------------------------------------------------------------------ response shape checker *)

Section ShapeCheck.
  Variable s : schema.
  Variable frags : list fragment.
  Variable cv : list (str * value).

  Definition json_eqb_str (j : json) (x : str) : bool :=
    match j with JStr y => str_eqb x y | _ => false end.

  (* decides [shaped] (Spec.v) up to fuel; runtime types of abstract positions are searched *)
  Fixpoint shape_ok (fuel : nat) (t : ty) (sels : list selection) (j : json) : bool :=
    match fuel with
    | O => false
    | S f =>
      match j with
      | JNull => negb (is_nonnull t)
      | _ =>
        match t with
        | TNonNull t' => shape_ok f t' sels j
        | TList it => match j with JList js => forallb (shape_ok f it sels) js | _ => false end
        | TNamed n =>
            match lookup_type s n with
            | Some (TObject _ _) =>
                match j with JObj kvs => obj_shape_ok f n sels kvs | _ => false end
            | Some (TInterface _) | Some (TUnion _) =>
                match j with
                | JObj kvs => existsb (fun rt => possible s n rt && obj_shape_ok f rt sels kvs)
                                      (object_names s)
                | _ => false
                end
            | Some td => leaf_json td j
            | None => false
            end
        end
      end
    end
  with obj_shape_ok (fuel : nat) (rt : str) (sels : list selection) (kvs : list (str * json)) : bool :=
    match fuel with
    | O => false
    | S f =>
      match collect s frags cv rt f sels ([], []) with
      | None => false
      | Some (_, g) =>
        (fix go (g : grouped) (kvs : list (str * json)) : bool :=
           match g with
           | [] => match kvs with [] => true | _ => false end
           | (k, fs) :: rest =>
             match fs with
             | [] => go rest kvs
             | f1 :: _ =>
               if str_eqb (fs_name f1) n_typename then
                 match kvs with
                 | (k', j) :: kvs' => str_eqb k k' && json_eqb_str j rt && go rest kvs'
                 | [] => false
                 end
               else
                 match lookup_field s rt (fs_name f1) with
                 | None => go rest kvs
                 | Some fd =>
                   match kvs with
                   | (k', j) :: kvs' =>
                       str_eqb k k' && shape_ok f (f_type fd) (merged_sels fs) j && go rest kvs'
                   | [] => false
                   end
                 end
             end
           end) g kvs
      end
    end.
End ShapeCheck.
