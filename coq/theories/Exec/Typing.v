(* Static typing of operations against a schema, and conformance of data graphs (C13).
   Definitions only; proofs in Exec/Soundness.v.

   The typing judgment is directed by RUNTIME OBJECT TYPES: a (merged) selection set is judged once
   for every object type a value can have there, on the set of fields it can contribute for that
   type ([reach]: through inline fragments and fragment spreads whose type condition applies,
   whatever @skip/@include say).  It demands of every such field what FieldsOnCorrectType,
   ScalarLeafs, KnownArgumentNames, ProvidedRequiredArguments, ValuesOfCorrectType,
   NoUndefinedVariables and VariablesInAllowedPosition demand, of two such fields with the same
   response key the same field name (the part of OverlappingFieldsCanBeMerged that execution relies
   on: both apply to the same object type), and the same again of every selection set that merging
   the sub-selections of fields with one response key can produce.  On a valid schema a document
   accepted by validate() is accepted here (checked on every run by harness/c13.py); the judgment
   is more permissive than validation (it ignores selections no runtime type can reach). *)
From GV Require Import Base.Prelude Exec.Value Exec.Schema Exec.Spec.

(* ------------------------------------------------------------------ values *)

(* IsTypeSubTypeOf on input types *)
Fixpoint in_subtype (m super : ty) : bool :=
  match super with
  | TNonNull st => match m with TNonNull mt => in_subtype mt st | _ => false end
  | TList st =>
      match m with
      | TNonNull (TList mt) => in_subtype mt st
      | TList mt => in_subtype mt st
      | _ => false
      end
  | TNamed sn =>
      match m with
      | TNonNull (TNamed mn) => str_eqb mn sn
      | TNamed mn => str_eqb mn sn
      | _ => false
      end
  end.

Definition has_nonnull_default (d : option value) : bool :=
  match d with Some VNull => false | Some _ => true | None => false end.

(* allowed_variable_usage *)
Definition allowed_usage (vt : ty) (vdefault : option value) (lt : ty) (loc_default : bool) : bool :=
  match lt with
  | TNonNull lt' =>
      if is_nonnull vt then in_subtype vt lt
      else (has_nonnull_default vdefault || loc_default) && in_subtype vt lt'
  | _ => in_subtype vt lt
  end.

Fixpoint find_var (x : str) (l : list var_def) : option var_def :=
  match l with
  | [] => None
  | v :: r => if str_eqb x (v_name v) then Some v else find_var x r
  end.

Fixpoint nodup_names (l : list str) : bool :=
  match l with [] => true | x :: r => negb (mem x r) && nodup_names r end.

Definition has_key {A} (k : str) (l : list (str * A)) : bool :=
  match lookup k l with Some _ => true | None => false end.

Definition has_default (ad : arg_def) : bool :=
  match a_default ad with Some _ => true | None => false end.

Section Values.
  Variable s : schema.
  Variable vdefs : list var_def.
  (* Names of the variables of nullable type whose runtime value is null.  Static typing takes [];
     with the actual list the judgment also excludes the one case the specification defers to run
     time: such a variable in a non-null position (legal because a default exists). *)
  Variable nulls : list str.

  (* a literal (possibly with variables) at a location of type [t]; [loc_default]: the location
     (an argument) has a default value *)
  Fixpoint lit_ok (v : value) (t : ty) (loc_default : bool) {struct v} : bool :=
    match v with
    | VVar x =>
        match find_var x vdefs with
        | Some vd => allowed_usage (v_type vd) (v_default vd) t loc_default
                     && negb (is_nonnull t && mem x nulls)
        | None => false
        end
    | VNull => negb (is_nonnull t)
    | VList items =>
        match list_item_type t with
        | Some it => (fix all (l : list value) : bool :=
                        match l with [] => true | x :: r => lit_ok x it false && all r end) items
        | None => false
        end
    | VObj flds =>
        (* an object literal at (a list of one of) an input object type: no field twice, every field
           defined and of its type, required fields present; OneOf: exactly one field, not null,
           and if a variable then one allowed in a non-null position *)
        let '(_, n) := unwrap_named t in
        match lookup_type s n with
        | Some (TInput defs oneof) =>
            nodup_names (map fst flds)
            && (fix all (l : list (str * value)) : bool :=
                  match l with
                  | [] => true
                  | (k, x) :: r =>
                    match find_arg k defs with
                    | Some ad => lit_ok x (a_type ad) (has_default ad)
                    | None => false
                    end && all r
                  end) flds
            && forallb (fun ad => has_key (a_name ad) flds || negb (required_arg ad)) defs
            && (negb oneof ||
                match flds with
                | [(k, x)] =>
                    negb (is_vnull x) &&
                    match x with
                    | VVar y =>
                        (* a OneOf field is a non-null position (spec: IsNonNullPosition) *)
                        match find_arg k defs, find_var y vdefs with
                        | Some ad, Some vd =>
                            allowed_usage (v_type vd) (v_default vd) (TNonNull (a_type ad)) false
                            && negb (mem y nulls)
                        | _, _ => false
                        end
                    | _ => true
                    end
                | _ => false
                end)
        | _ => false
        end
    | _ => match coerce_scalar_lit s v t with Some _ => true | None => false end
    end.

  Definition args_ok (defs : list arg_def) (args : list (str * value)) : bool :=
    forallb (fun kv => match find_arg (fst kv) defs with Some _ => true | None => false end) args
    && forallb (fun ad =>
         match lookup (a_name ad) args with
         | None => negb (required_arg ad)
         | Some v => lit_ok v (a_type ad) (has_default ad)
         end) defs.

  (* @skip / @include take [if: Boolean!] *)
  Definition dirs_ok (ds : list directive) : bool :=
    forallb (fun d : directive =>
      if str_eqb (fst d) n_skip || str_eqb (fst d) n_include
      then match lookup n_if (snd d) with
           | Some v => lit_ok v (TNonNull (TNamed n_Boolean)) false
           | None => false
           end
      else true) ds.
End Values.

(* every default (of an argument or an input field) is a valid constant of its type; the fields of
   an input object have distinct names; those of a OneOf input object are nullable and have no
   default *)
Definition defaults_ok (s : schema) (defs : list arg_def) : bool :=
  forallb (fun ad =>
    match a_default ad with
    | Some lit => match coerce_const s (a_type ad) lit with Some _ => true | None => false end
    | None => true
    end) defs.

Definition fields_defaults_ok (s : schema) (fs : list field_def) : bool :=
  forallb (fun fd => defaults_ok s (f_args fd)) fs.

Definition schema_ok (s : schema) : bool :=
  forallb (fun e => match snd e with
                    | TObject fs _ => fields_defaults_ok s fs
                    | TInterface fs => fields_defaults_ok s fs
                    | TInput defs oneof =>
                        nodup_names (map a_name defs) && defaults_ok s defs &&
                        (negb oneof ||
                         forallb (fun ad => negb (is_nonnull (a_type ad)) && negb (has_default ad)) defs)
                    | _ => true
                    end) (s_types s).

(* ------------------------------------------------------------------ selections *)

Definition is_leaf_def (td : type_def) : bool :=
  match td with TScalar _ | TEnum _ => true | _ => false end.

Definition is_composite_def (td : type_def) : bool :=
  match td with TObject _ _ | TInterface _ | TUnion _ => true | _ => false end.

Definition runtime_of_b (s : schema) (n rt : str) : bool :=
  (is_object s n && str_eqb rt n) || (is_object s rt && possible s n rt).

Definition object_names (s : schema) : list str :=
  flat_map (fun e => match snd e with TObject _ _ => [fst e] | _ => [] end) (s_types s).

Section Selections.
  Variable s : schema.
  Variable frags : list fragment.
  Variable vdefs : list var_def.
  Variable nulls : list str.

  (* the fields (with response key) a selection list can contribute for runtime type [rt] *)
  Inductive reach (rt : str) : list selection -> str -> fieldsel -> Prop :=
  | r_field sels al name args dirs sub :
      In (SField al name args dirs sub) sels ->
      reach rt sels (response_key al name) (mkFS name args sub)
  | r_inline sels tc dirs sub k f :
      In (SInline tc dirs sub) sels ->
      match tc with Some c => cond_matches s c rt | None => true end = true ->
      reach rt sub k f -> reach rt sels k f
  | r_spread sels name dirs fr k f :
      In (SSpread name dirs) sels -> find_frag name frags = Some fr ->
      cond_matches s (fr_cond fr) rt = true ->
      reach rt (fr_sels fr) k f -> reach rt sels k f.

  (* one field against the object type [rt] *)
  Definition field_ok (rt : str) (f : fieldsel) : bool :=
    if str_eqb (fs_name f) n_typename
    then match fs_args f, fs_sels f with [], [] => true | _, _ => false end
    else
      match lookup_field s rt (fs_name f) with
      | None => false
      | Some fd =>
        args_ok s vdefs nulls (f_args fd) (fs_args f) &&
        match lookup_type s (named_of (f_type fd)) with
        | None => false
        | Some td =>
          if is_leaf_def td then match fs_sels f with [] => true | _ => false end
          else is_composite_def td && match fs_sels f with [] => false | _ => true end
        end
      end.

  Inductive set_typed : str -> list selection -> Prop :=
  | set_typed_intro rt sels :
      (forall k f, reach rt sels k f -> field_ok rt f = true) ->
      (forall k f1 f2, reach rt sels k f1 -> reach rt sels k f2 -> fs_name f1 = fs_name f2) ->
      (forall k fs f1 fd rt',
          (forall f, In f fs -> reach rt sels k f) -> In f1 fs ->
          lookup_field s rt (fs_name f1) = Some fd ->
          runtime_of_b s (named_of (f_type fd)) rt' = true ->
          set_typed rt' (merged_sels fs)) ->
      set_typed rt sels.

  (* ---- the checker ---- *)

  (* [reach] as a list; fragments are expanded at every spread, fuel bounds the nesting (a cycle of
     spreads, or an unknown fragment, gives None) *)
  Fixpoint reach_sels (rec : list selection -> option (list (str * fieldsel))) (rt : str)
    (sels : list selection) : option (list (str * fieldsel)) :=
    match sels with
    | [] => Some []
    | x :: rest =>
      let here :=
        match x with
        | SField al name args dirs sub => Some [(response_key al name, mkFS name args sub)]
        | SInline tc dirs sub =>
            if match tc with Some c => cond_matches s c rt | None => true end then rec sub else Some []
        | SSpread name dirs =>
            match find_frag name frags with
            | None => None
            | Some fr => if cond_matches s (fr_cond fr) rt then rec (fr_sels fr) else Some []
            end
        end in
      match here, reach_sels rec rt rest with
      | Some a, Some b => Some (a ++ b)
      | _, _ => None
      end
    end.

  Fixpoint reach_list (fuel : nat) (rt : str) (sels : list selection)
    : option (list (str * fieldsel)) :=
    match fuel with
    | O => None
    | S f => reach_sels (reach_list f rt) rt sels
    end.

  Fixpoint check_set (fuel : nat) (rt : str) (sels : list selection) : bool :=
    match fuel with
    | O => false
    | S f =>
      match reach_list f rt sels with
      | None => false
      | Some fl =>
        forallb (fun kf => field_ok rt (snd kf)) fl &&
        forallb (fun g : str * list fieldsel =>
          match snd g with
          | [] => true
          | f1 :: _ =>
            forallb (fun f' => str_eqb (fs_name f') (fs_name f1)) (snd g) &&
            match lookup_field s rt (fs_name f1) with
            | None => true
            | Some fd =>
                forallb (fun rt' => negb (runtime_of_b s (named_of (f_type fd)) rt')
                                    || check_set f rt' (merged_sels (snd g))) (object_names s)
            end
          end) (group fl)
      end
    end.
End Selections.

(* ------------------------------------------------------------------ operations *)

(* @skip/@include conditions, everywhere in the document *)
Fixpoint sel_dirs_ok (s : schema) (vdefs : list var_def) (nulls : list str) (x : selection) : bool :=
  match x with
  | SField _ _ _ dirs sub => dirs_ok s vdefs nulls dirs && forallb (sel_dirs_ok s vdefs nulls) sub
  | SSpread _ dirs => dirs_ok s vdefs nulls dirs
  | SInline _ dirs sub => dirs_ok s vdefs nulls dirs && forallb (sel_dirs_ok s vdefs nulls) sub
  end.

Definition vars_ok (s : schema) (vdefs : list var_def) : bool :=
  nodup_names (map v_name vdefs) &&
  forallb (fun vd =>
    is_input_type s (v_type vd) &&
    match v_default vd with Some lit => lit_ok s [] [] lit (v_type vd) false | None => true end) vdefs.

Definition check_fuel (d : document) : nat :=
  (2 * S (sels_depth (d_sels d) + fold_right (fun fr m => S (sels_depth (fr_sels fr)) + m) O (d_frags d)))%nat.

Definition well_typed_with (nulls : list str) (s : schema) (d : document) : bool :=
  vars_ok s (d_vars d) &&
  forallb (sel_dirs_ok s (d_vars d) nulls) (d_sels d) &&
  forallb (fun fr => forallb (sel_dirs_ok s (d_vars d) nulls) (fr_sels fr)) (d_frags d) &&
  match root_type s (d_kind d) with
  | None => false
  | Some rt =>
    is_object s rt && check_set s (d_frags d) (d_vars d) nulls (check_fuel d) rt (d_sels d)
  end.

(* the modelled validation rules *)
Definition well_typed (s : schema) (d : document) : bool := well_typed_with [] s d.

(* the variables of nullable type whose coerced value is null *)
Definition nulls_of (vdefs : list var_def) (cv : list (str * value)) : list str :=
  flat_map (fun vd =>
    if is_nonnull (v_type vd) then []
    else match lookup (v_name vd) cv with Some VNull => [v_name vd] | _ => [] end) vdefs.

(* ... and none of those variables sits in a non-null position *)
Definition well_typed_at (s : schema) (d : document) (cv : list (str * value)) : bool :=
  well_typed_with (nulls_of (d_vars d) cv) s d.

(* ------------------------------------------------------------------ data *)

Section Conformance.
  Variable s : schema.

  Definition fields_of (rt : str) : list field_def :=
    match lookup_type s rt with
    | Some (TObject fs _) => fs
    | _ => []
    end.

  (* the data graph below [d] conforms to type [t]: no null in a non-null position, leaves that
     serialise, lists for list types, objects of a possible runtime type whose (present) fields
     conform and whose absent fields are nullable, no raising resolver *)
  Fixpoint conforms (d : data) (t : ty) {struct d} : bool :=
    let t0 := match t with TNonNull t' => t' | _ => t end in
    match d with
    | DNull => negb (is_nonnull t)
    | DRaise => false
    | DLeaf l =>
        match t0 with
        | TNamed n =>
            match lookup_type s n with
            | Some td => is_leaf_def td && match complete_leaf td l with Some _ => true | None => false end
            | None => false
            end
        | _ => false
        end
    | DList items =>
        match t0 with
        | TList it => forallb (fun x => conforms x it) items
        | _ => false
        end
    | DObj tn flds =>
        match t0 with
        | TNamed n =>
            let rt := if is_object s n then Some n
                      else if is_object s tn && possible s n tn then Some tn else None in
            match rt with
            | None => false
            | Some rt =>
              forallb (fun kd : str * data =>
                         let (k, d') := kd in
                         match lookup_field s rt k with
                         | Some fd => conforms d' (f_type fd)
                         | None => true
                         end) flds
              && forallb (fun fd => has_key (f_name fd) flds || negb (is_nonnull (f_type fd)))
                         (fields_of rt)
            end
        | _ => false
        end
    end.

  (* the root value against the root object type *)
  Definition conforms_root (rt : str) (root : data) : bool :=
    match root with
    | DObj _ _ => is_object s rt && conforms root (TNamed rt)
    | _ => false
    end.
End Conformance.

(* ------------------------------------------------------------------ response shape checker *)

Definition json_eqb_str (j : json) (x : str) : bool :=
  match j with JStr y => str_eqb x y | _ => false end.

(* the entries of a response object against the grouped field set, given the check [chk] of a value *)
Fixpoint fields_shape_ok (s : schema) (chk : ty -> list selection -> json -> bool) (rt : str)
  (g : grouped) (kvs : list (str * json)) : bool :=
  match g with
  | [] => match kvs with [] => true | _ => false end
  | (k, fs) :: rest =>
    match fs with
    | [] => fields_shape_ok s chk rt rest kvs
    | f1 :: _ =>
      if str_eqb (fs_name f1) n_typename then
        match kvs with
        | (k', j) :: kvs' => str_eqb k k' && json_eqb_str j rt && fields_shape_ok s chk rt rest kvs'
        | [] => false
        end
      else
        match lookup_field s rt (fs_name f1) with
        | None => fields_shape_ok s chk rt rest kvs
        | Some fd =>
          match kvs with
          | (k', j) :: kvs' =>
              str_eqb k k' && chk (f_type fd) (merged_sels fs) j && fields_shape_ok s chk rt rest kvs'
          | [] => false
          end
        end
    end
  end.

Section ShapeCheck.
  Variable s : schema.
  Variable frags : list fragment.
  Variable cv : list (str * value).

  (* decides [shaped] (Spec.v) up to fuel; runtime types of abstract positions are searched *)
  Fixpoint shape_ok (fuel : nat) (t : ty) (sels : list selection) (j : json) : bool :=
    match fuel with
    | O => false
    | S f =>
      match j with
      | JNull => negb (is_nonnull t)
      | _ =>
        match t with
        | TNonNull t' => shape_ok f t' sels j
        | TList it => match j with JList js => forallb (shape_ok f it sels) js | _ => false end
        | TNamed n =>
            match lookup_type s n with
            | Some (TObject _ _) =>
                match j with JObj kvs => obj_shape_ok f n sels kvs | _ => false end
            | Some (TInterface _) | Some (TUnion _) =>
                match j with
                | JObj kvs => existsb (fun rt => possible s n rt && obj_shape_ok f rt sels kvs)
                                      (object_names s)
                | _ => false
                end
            | Some td => leaf_json td j
            | None => false
            end
        end
      end
    end
  with obj_shape_ok (fuel : nat) (rt : str) (sels : list selection) (kvs : list (str * json)) : bool :=
    match fuel with
    | O => false
    | S f =>
      match collect s frags cv rt f sels ([], []) with
      | None => false
      | Some (_, g) => fields_shape_ok s (shape_ok f) rt g kvs
      end
    end.
End ShapeCheck.
