(* Values of the execution model: strings, input values, data-graph values, response JSON.
   Definitions only. *)
From GV Require Import Base.Prelude.

(* strings are code-point lists; only equality is ever used on them *)
Definition str := list N.
Definition str_eqb : str -> str -> bool := nat_list_eqb.

Fixpoint lookup {A : Type} (k : str) (l : list (str * A)) : option A :=
  match l with
  | [] => None
  | (k', v) :: r => if str_eqb k k' then Some v else lookup k r
  end.

Definition mem (k : str) (l : list str) : bool := existsb (str_eqb k) l.

(* Input values.  The same type serves for literals of the document (may contain [VVar] and
   [VEnum]), for the variable values a client provides (JSON: no [VVar]/[VEnum]) and for coerced
   values handed to resolvers (no [VVar]; enum values are [VEnum]).
   A float is an exact ratio n/d (d > 0), as given by Python's float.as_integer_ratio. *)
Inductive value : Type :=
| VNull
| VInt (z : Z)
| VFloat (n : Z) (d : N)
| VStr (s : str)
| VBool (b : bool)
| VEnum (s : str)
| VVar (x : str)
| VList (l : list value)
| VObj (fields : list (str * value)).       (* input object: literal, JSON object, coerced value *)

(* Leaves of the backing data graph are already typed; [LBad] is a value no leaf type accepts. *)
Inductive leaf : Type :=
| LInt (z : Z) | LFloat (n : Z) (d : N) | LStr (s : str) | LBool (b : bool) | LBad.

(* Backing data graph served by default-like synchronous resolvers:
   a resolver for field f on [DObj _ kvs] returns [lookup f kvs] (absent = null), on any other
   value it returns null (the value has no fields);
   [DRaise] = the resolver raises (or, inside a list, the item is an exception instance).
   The type name of [DObj] is what [__typename]-based type resolution sees. *)
Inductive data : Type :=
| DNull
| DLeaf (l : leaf)
| DObj (tn : str) (fields : list (str * data))
| DList (items : list data)
| DRaise.

(* response data: ordered JSON tree *)
Inductive json : Type :=
| JNull
| JInt (z : Z)
| JFloat (n : Z) (d : N)
| JStr (s : str)
| JBool (b : bool)
| JList (l : list json)
| JObj (kvs : list (str * json)).

Inductive pathseg : Type := PKey (k : str) | PIdx (i : nat).
Definition path := list pathseg.      (* root first *)

(* one resolver invocation: response path, field name, coerced argument values *)
Definition call : Type := (path * str * list (str * value))%type.

(* decimal rendering of an integer (ID coercion of Int literals / integer variable values) *)
Fixpoint dec_digits (fuel : nat) (n : N) (acc : list N) : list N :=
  match fuel with
  | O => acc
  | S f =>
    let acc' := (48 + N.modulo n 10) :: acc in
    if N.div n 10 =? 0 then acc' else dec_digits f (N.div n 10) acc'
  end.

Definition dec_of_N (n : N) : str := dec_digits (S (N.to_nat (N.size n))) n [].

Definition dec_of_Z (z : Z) : str :=
  match z with
  | Z0 => [48]
  | Zpos p => dec_of_N (Npos p)
  | Zneg p => 45 :: dec_of_N (Npos p)
  end.
