From GV Require Import Base.Prelude Exec.ErrorsAlg.

Fixpoint dec_adds (cnt : nat) (l : list N) : list pos :=
  match cnt with
  | O => []
  | S c => match l with
           | n :: r => firstn (N.to_nat n) r :: dec_adds c (skipn (N.to_nat n) r)
           | [] => []
           end
  end.

Definition run (inp : list N) : list N :=
  match inp with
  | 1 :: n :: r =>
    let k := kept_indices (dec_adds (N.to_nat n) r) in
    N.of_nat (length k) :: map N.of_nat k
  | _ => [999999]
  end.
