(* Executable entry of the @defer execution model: opcode :: wire tree (schema, document, variables, data). *)
From GV Require Import Base.Prelude Exec.Value Exec.Schema Exec.Spec Exec.Wire Incr.DeferExec.

Definition bad : list N := [999999].

Definition of_node (n : dunode) : wtree :=
  W 95 [dn_id n; N.of_nat (dn_depth n); match dn_label n with Some _ => 1 | None => 0 end]
       [of_str 0 (match dn_label n with Some l => l | None => [] end)].

Definition of_payload (p : payload) : wtree :=
  W 94 [match pl_data p with Some _ => 1 | None => 0 end; if pl_nested p then 1 else 0]
       [of_path (pl_path p); W 5 [] (map (fun c => W 96 [] (map of_node c)) (pl_groups p));
        of_json (JObj (match pl_data p with Some kvs => kvs | None => [] end));
        W 5 [] (map of_err (pl_errs p)); W 5 [] (map of_call (pl_calls p));
        W 5 [] (map (of_str 0) (pl_keys p))].

Definition of_dresponse (r : dresponse) : wtree :=
  match r with
  | DRequestError => W 90 [] []
  | DOutOfFuel => W 91 [] []
  | DResp j es cs pls rv =>
      W 93 [if rv then 1 else 0]
        [of_json j; W 5 [] (map of_err es); W 5 [] (map of_call cs); W 5 [] (map of_payload pls)]
  end.

Definition run (inp : list N) : list N :=
  match inp with
  | op :: payload =>
    match dec_tree 200 payload with
    | None => bad
    | Some (w, _) =>
      let s := to_schema (kid 0 w) in
      let d := to_doc (kid 1 w) in
      let vars := to_args (kid 2 w) in
      let root := to_data (kid 3 w) in
      if op =? 1 then enc_tree (of_dresponse (dexecute s d vars root))
      else if op =? 2 then enc_tree (of_dresponse (dexecute_plain s d vars root))
      else if op =? 3 then enc_tree (of_response (execute s (erase_defer d) vars root))
      else if op =? 4 then
        (* the incremental response reassembled by the merge oracle *)
        match dexecute s d vars root with
        | DResp j _ _ pls _ =>
            match reassemble j pls with
            | Some m => 1 :: enc_tree (of_json m)
            | None => [0]
            end
        | _ => [2]
        end
      else if op =? 5 then enc_tree (of_dresponse (dexecute_np s d vars root))
      else if op =? 6 then enc_tree (of_dresponse (dexecute_raw s d vars root))
      else if op =? 7 then enc_tree (of_dresponse (dexecute_np_incremental s d vars root))
      else if op =? 0 then enc_tree w
      else bad
    end
  | [] => bad
  end.
