(* Executable entry of the schemaops model: opcode :: payload. *)
From GV Require Import Base.Prelude SchemaOps.Schema SchemaOps.SchemaWire SchemaOps.NatOrder
  SchemaOps.Sort SchemaOps.Diff.

Definition enc_change (c : change) : list N :=
  c_kind c :: enc_list enc_text (c_path c).

Definition run (inp : list N) : list N :=
  match inp with
  | 1 :: r =>
      match dec_schema r with
      | Some (s, []) => 1 :: enc_schema (sort natural_leb s)
      | _ => [0]
      end
  | 2 :: r =>
      match (a <- dec_schema ;; b <- dec_schema ;; retd (a, b)) r with
      | Some ((a, b), []) => 1 :: enc_list enc_change (diff natural_leb a b)
      | _ => [0]
      end
  | 3 :: r =>
      match (a <- dec_text ;; b <- dec_text ;; retd (a, b)) r with
      | Some ((a, b), []) => [match natural_cmp a b with Lt => 0 | Eq => 1 | Gt => 2 end]
      | _ => [9]
      end
  | 4 :: r =>   (* echo *)
      match dec_schema r with
      | Some (s, []) => 1 :: enc_schema s
      | _ => [0]
      end
  | _ => [999999]
  end.
