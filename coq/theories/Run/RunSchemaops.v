(* Executable entry of the schemaops model: opcode :: payload. *)
From GV Require Import Base.Prelude SchemaOps.Schema SchemaOps.SchemaWire SchemaOps.NatOrder
  SchemaOps.Sort SchemaOps.Diff SchemaOps.Build SchemaOps.Sdl SchemaOps.Introspect SchemaOps.IntrospectWire SchemaOps.Client SchemaOps.Literals.

Definition enc_change (c : change) : list N :=
  c_kind c :: enc_list enc_text (c_path c).

Definition run (inp : list N) : list N :=
  match inp with
  | 1 :: r =>
      match dec_schema r with
      | Some (s, []) => 1 :: enc_schema (sort natural_leb s)
      | _ => [0]
      end
  | 2 :: r =>
      match (a <- dec_schema ;; b <- dec_schema ;; retd (a, b)) r with
      | Some ((a, b), []) => 1 :: enc_list enc_change (diff natural_leb a b)
      | _ => [0]
      end
  | 3 :: r =>
      match (a <- dec_text ;; b <- dec_text ;; retd (a, b)) r with
      | Some ((a, b), []) => [match natural_cmp a b with Lt => 0 | Eq => 1 | Gt => 2 end]
      | _ => [9]
      end
  | 4 :: r =>   (* echo *)
      match dec_schema r with
      | Some (s, []) => 1 :: enc_schema s
      | _ => [0]
      end
  | 5 :: r =>
      match dec_schema r with
      | Some (s, []) => 1 :: enc_list enc_def (sdl_of s)
      | _ => [0]
      end
  | 6 :: r =>
      match dec_list dec_def r with
      | Some (ds, []) => match build ds with Some s => 1 :: enc_schema s | None => [2] end
      | _ => [0]
      end
  | 7 :: r =>
      match (s <- dec_schema ;; ds <- dec_list dec_def ;; retd (s, ds)) r with
      | Some ((s, ds), []) => 1 :: enc_schema (extend s ds)
      | _ => [0]
      end
  | 8 :: r =>
      match (o <- dec_opts ;; s <- dec_schema ;; retd (o, s)) r with
      | Some ((o, s), []) => 1 :: enc_json (introspect leaf_text s o)
      | _ => [0]
      end
  | 9 :: r =>
      match (o <- dec_opts ;; j <- dec_json 64 ;; retd (o, j)) r with
      | Some ((o, j), []) => 1 :: enc_json (prune o j)
      | _ => [0]
      end
  | 10 :: r =>
      match (o <- dec_opts ;; n <- dec_text ;; s <- dec_schema ;; retd (o, n, s)) r with
      | Some ((o, n, s), []) => 1 :: enc_json (type_lookup leaf_text s o n)
      | _ => [0]
      end
  | 11 :: r =>
      match dec_json 64 r with
      | Some (j, []) =>
          match build_client (fun t => Some (VLeaf 3 t)) j with
          | Some s => 1 :: enc_schema s
          | None => [2]
          end
      | _ => [0]
      end
  | 12 :: r =>   (* print_ast of a default-value literal: Lang/Printer.pp on its const-value node *)
      match dec_value WFUEL r with
      | Some (v, []) => 1 :: enc_text (print_literal v)
      | _ => [0]
      end
  | 13 :: r =>   (* parse_const_value: Lang/Parser.parse_text EConstValue *)
      match dec_text r with
      | Some (t, []) => match parse_literal t with Some v => 1 :: enc_value v | None => [2] end
      | _ => [0]
      end
  | _ => [999999]
  end.
