(* Executable entry of the extracted `blockstring` model: opcode :: payload.
   1 minimize value...              -> print_block_string value minimize
   2 value...                       -> [is_printable_as_block_string value]
   3 raw...                         -> block_value raw: 0 :: value | [1; pos] | [2; w] | [3]
   4 value...                       -> [in_block_range value]
   5 minimize k n1 pad1.. nk padk.. value... -> indent_all pads (print_block_string value minimize)
   6 minimize k n1 pad1.. nk padk.. value... -> re-lexed value of (5) followed by " x":
                                       0 :: len(rest) :: value | [1; pos] | [2; w] | [3]
   7 n indent(n).. value...         -> print_description_text value indent *)
From GV Require Import Base.Prelude Lang.Lexer Lang.BlockString Lang.Description.

Definition enc_out (o : outcome (list N)) : list N :=
  match o with
  | Ok v => 0 :: v
  | SyntaxErr p => [1; N.of_nat p]
  | Crash w => [2; w]
  | OutOfFuel => [3]
  end.

Fixpoint dec_pads (k : nat) (l : list N) : list (list N) * list N :=
  match k with
  | O => ([], l)
  | S k' =>
    match l with
    | [] => ([], [])
    | n :: r =>
      let '(ps, rest) := dec_pads k' (skipn (N.to_nat n) r) in
      (firstn (N.to_nat n) r :: ps, rest)
    end
  end.

Definition relex (text : list N) : list N :=
  match read_token init_cursor (text ++ [32; 120]) with
  | Ok (tk, _, rest) =>
    if tkind tk =? K_BLOCK_STRING then 0 :: N.of_nat (length rest) :: tvalue tk else [4]
  | SyntaxErr p => [1; N.of_nat p]
  | Crash w => [2; w]
  | OutOfFuel => [3]
  end.

Definition run (inp : list N) : list N :=
  match inp with
  | 1 :: m :: v => print_block_string v (negb (m =? 0))
  | 2 :: v => [if is_printable_as_block_string v then 1 else 0]
  | 3 :: raw => enc_out (block_value raw)
  | 4 :: v => [if in_block_range v then 1 else 0]
  | 5 :: m :: k :: r =>
    let '(pads, v) := dec_pads (N.to_nat k) r in
    indent_all pads (print_block_string v (negb (m =? 0)))
  | 6 :: m :: k :: r =>
    let '(pads, v) := dec_pads (N.to_nat k) r in
    relex (indent_all pads (print_block_string v (negb (m =? 0))))
  | 7 :: n :: r => print_description_text (skipn (N.to_nat n) r) (firstn (N.to_nat n) r)
  | _ => [999999]
  end.
