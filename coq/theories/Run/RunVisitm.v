(* Executable entry of the extracted `visitm` model (the explicit-stack machine Lang/VisitMachine.v).
   Same wire format as ops 20/21 of Run.v, except that the first payload field is the machine's
   step budget (loop iterations) instead of the recursive model's nesting fuel:
     20 steps tree nscript script...            -> scripted visitor on the machine
     21 steps tree nscripts (n script...)...    -> ParallelVisitor of scripted visitors on the machine
     22 steps tree nscript script...            -> [1] machine = recursive model (fuel 400), [0] differ,
                                                   [2] recursive model out of fuel
   answer of 20/21:  broke  result  nlog calls...  [nsubs subs...]
     result: [1] the root object | [2;0] REMOVE | 2 :: 1 :: tree | 2 :: 2 :: n :: trees (a tuple)
     or [3] (out of steps) / [4] (the loop raised) alone. *)
From GV Require Import Base.Prelude Lang.Visit Lang.VisitWire Lang.VisitMachine.

Definition enc_mres (r : mres) : list N :=
  match r with
  | MRoot => [1]
  | MVal ERemove => [2; 0]
  | MVal (EVal (VNode t)) => 2 :: 1 :: enc_tree t
  | MVal (EVal (VArr l)) => 2 :: 2 :: N.of_nat (trees_len l) :: enc_trees l
  end.

Definition enc_bool (b : bool) : N := if b then 1 else 0.

Definition run_machine (inp : list N) : list N :=
  match inp with
  | fuel :: r =>
    match dec_tree 1000 r with
    | Some (t, r') =>
      match r' with
      | n :: r'' =>
        match dec_script (N.to_nat n) r'' with
        | Some (sc, _) =>
          match machine_scripted (N.to_nat fuel) t sc with
          | MFuel _ => [3]
          | MRaise _ => [4]
          | MRet _ b mr _ log => enc_bool b :: enc_mres mr ++ [N.of_nat (length log)] ++ flat_map enc_call log
          end
        | None => [999998]
        end
      | [] => [999997]
      end
    | None => [999996]
    end
  | [] => [999995]
  end.

Definition run_machine_parallel (inp : list N) : list N :=
  match inp with
  | fuel :: r =>
    match dec_tree 1000 r with
    | Some (t, r') =>
      match r' with
      | n :: r'' =>
        match dec_scripts (N.to_nat n) r'' with
        | Some (scs, _) =>
          match machine_parallel (N.to_nat fuel) t scs with
          | MFuel _ => [3]
          | MRaise _ => [4]
          | MRet _ b mr ps log =>
            let subs := rev (snd ps) in
            enc_bool b :: enc_mres mr ++ [N.of_nat (length log)] ++ flat_map enc_call log
            ++ [N.of_nat (length subs)] ++ flat_map enc_sub subs
          end
        | None => [999998]
        end
      | [] => [999997]
      end
    | None => [999996]
    end
  | [] => [999995]
  end.

Fixpoint leqb (a b : list N) : bool :=
  match a, b with
  | [], [] => true
  | x :: a', y :: b' => (x =? y) && leqb a' b'
  | _, _ => false
  end.

Definition agrees (r : res) (log : list call) (m : mresult unit) : bool :=
  match m with
  | MRet _ b mr _ log' =>
    leqb (flat_map enc_call log) (flat_map enc_call log') && (length log =? length log')%nat &&
    match r, mr with
    | RBreak, _ => b
    | RKeep, MRoot => negb b
    | REdit None, MVal ERemove => negb b
    | REdit (Some t1), MVal (EVal (VNode t2)) => negb b && leqb (enc_tree t1) (enc_tree t2)
    | _, _ => false
    end
  | _ => false
  end.

Definition run_agree (inp : list N) : list N :=
  match inp with
  | fuel :: r =>
    match dec_tree 1000 r with
    | Some (t, r') =>
      match r' with
      | n :: r'' =>
        match dec_script (N.to_nat n) r'' with
        | Some (sc, _) =>
          let '(res, log) := visit_scripted 400 t sc in
          match res with
          | ROutOfFuel => [2]
          | _ => [enc_bool (agrees res log (machine_scripted (N.to_nat fuel) t sc))]
          end
        | None => [999998]
        end
      | [] => [999997]
      end
    | None => [999996]
    end
  | [] => [999995]
  end.

Definition run (inp : list N) : list N :=
  match inp with
  | 20 :: r => run_machine r
  | 21 :: r => run_machine_parallel r
  | 22 :: r => run_agree r
  | _ => [999999]
  end.
