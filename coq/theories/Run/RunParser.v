(* Executable entry of the extracted `parser` model: opcode :: payload.
   op which has_max max xfa xdd cp*      (which: 0 document 1 value 2 const value 3 type 4 coordinate)
   op 0 -> 0 token_count tree | 1 pos | 2 what | 3          (tree: Ast.enc_node)
   op 1 -> 0 n (kind len cp^len)^n | 1 pos | 2 what | 3     (Unparse.tokens_of of the parsed tree) *)
From GV Require Import Base.Prelude Lang.Lexer Lang.Ast Lang.Parser Lang.Unparse.

Definition entry_of (n : N) : entry :=
  match n with
  | 0 => EDocument | 1 => EValue | 2 => EConstValue | 3 => EType | _ => ECoordinate
  end.

Definition enc_sigtok (t : sigtok) : list N := fst t :: N.of_nat (length (snd t)) :: snd t.

Definition enc_out (op : N) (o : outcome (node * nat)) : list N :=
  match o with
  | Ok (d, c) =>
    if op =? 0 then 0 :: N.of_nat c :: enc_node d
    else let ts := tokens_of d in 0 :: N.of_nat (length ts) :: flat_map enc_sigtok ts
  | SyntaxErr p => [1; N.of_nat p]
  | Crash w => [2; w]
  | OutOfFuel => [3]
  end.

Definition run (inp : list N) : list N :=
  match inp with
  | op :: which :: has_max :: mx :: xfa :: xdd :: body =>
    let o := mkOpts (if has_max =? 0 then None else Some (N.to_nat mx))
                    (negb (xfa =? 0)) (negb (xdd =? 0)) in
    enc_out op (parse_text (entry_of which) o body)
  | _ => [999999]
  end.
