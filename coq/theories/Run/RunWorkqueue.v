(* Executable entry of the `workqueue` model (C05): opcode :: payload -> answer. *)
From GV Require Import Base.Prelude Incr.Protocol Incr.WorkQueue Incr.Publisher Incr.StreamQueue
  Incr.NodeProtocol Incr.Explore Incr.Flat.

Definition nat_of (n : N) : nat := N.to_nat n.
Definition of_nat (n : nat) : N := N.of_nat n.
Definition of_bool (b : bool) : N := if b then 1 else 0.
Definition to_bool (n : N) : bool := negb (n =? 0).

(* ------------------------------------------------------------------ generic decoders *)
Definition dec (A : Type) := list N -> option (A * list N).

Fixpoint rep {A} (d : dec A) (cnt : nat) (l : list N) : option (list A * list N) :=
  match cnt with
  | O => Some ([], l)
  | S c => match d l with
           | Some (a, l') => match rep d c l' with
                             | Some (r, l'') => Some (a :: r, l'')
                             | None => None end
           | None => None end
  end.

Definition dlist {A} (d : dec A) : dec (list A) :=
  fun l => match l with n :: r => rep d (nat_of n) r | [] => None end.

Definition dN : dec N := fun l => match l with n :: r => Some (n, r) | [] => None end.
Definition dnat : dec nat := fun l => match l with n :: r => Some (nat_of n, r) | [] => None end.

Definition dpair {A B} (da : dec A) (db : dec B) : dec (A * B) :=
  fun l => match da l with
           | Some (a, l') => match db l' with Some (b, l'') => Some ((a, b), l'') | None => None end
           | None => None end.

Definition dmap {A B} (f : A -> B) (d : dec A) : dec B :=
  fun l => match d l with Some (a, l') => Some (f a, l') | None => None end.

(* ------------------------------------------------------------------ work / env / events *)
Definition dwork : dec work :=
  dmap (fun x : list N * (list N * list N) => mkWork (fst x) (fst (snd x)) (snd (snd x)))
       (dpair (dlist dN) (dpair (dlist dN) (dlist dN))).

(* env := parents (g p)* ; tasks (t groups work)* ; streams (s works)* *)
Definition denv : dec env :=
  dmap (fun x : list (N * N) * (list (N * (list N * work)) * list (N * list work)) =>
          let '(ps, (ts, ss)) := x in
          mkEnv ps (map (fun e => (fst e, fst (snd e))) ts) (map (fun e => (fst e, snd (snd e))) ts) ss)
       (dpair (dlist (dpair dN dN))
              (dpair (dlist (dpair dN (dpair (dlist dN) dwork)))
                     (dlist (dpair dN (dlist dwork))))).

Definition dgevent : dec gevent :=
  fun l => match l with
           | 0 :: t :: r => Some (TaskOk t, r)
           | 1 :: t :: r => Some (TaskFail t, r)
           | 2 :: s :: n :: st :: r => Some (Items s (nat_of n) (to_bool st), r)
           | 3 :: s :: r => Some (StreamOk s, r)
           | 4 :: s :: r => Some (StreamFail s, r)
           | _ => None
           end.

Definition elist (l : list N) : list N := of_nat (length l) :: l.

Definition enc_wq (e : wqevent) : list N :=
  match e with
  | GroupValues g ts => 0 :: g :: elist ts
  | GroupSuccess g a b => 1 :: g :: elist a ++ elist b
  | GroupFailure g => [2; g]
  | StreamValues s f c a b => 3 :: s :: of_nat f :: of_nat c :: elist a ++ elist b
  | StreamSuccess s => [4; s]
  | StreamFailure s => [5; s]
  | Termination => [6]
  end.

Definition dwqevent : dec wqevent :=
  fun l => match l with
           | 0 :: g :: r => dmap (fun ts => GroupValues g ts) (dlist dN) r
           | 1 :: g :: r => dmap (fun x : list N * list N => GroupSuccess g (fst x) (snd x)) (dpair (dlist dN) (dlist dN)) r
           | 2 :: g :: r => Some (GroupFailure g, r)
           | 3 :: s :: f :: c :: r =>
               dmap (fun x : list N * list N => StreamValues s (nat_of f) (nat_of c) (fst x) (snd x))
                    (dpair (dlist dN) (dlist dN)) r
           | 4 :: s :: r => Some (StreamSuccess s, r)
           | 5 :: s :: r => Some (StreamFailure s, r)
           | 6 :: r => Some (Termination, r)
           | _ => None
           end.

(* ------------------------------------------------------------------ payloads *)
Definition dpend : dec pend :=
  fun l => match l with
           | i :: lab :: st :: nx :: r =>
               dmap (fun path => mkPend i path lab (to_bool st) (nat_of nx)) (dlist dN) r
           | _ => None
           end.

Definition dincr : dec incr :=
  fun l => match l with
           | 0 :: i :: r => Some (IDefer i, r)
           | 1 :: i :: r => dmap (fun items => IStream i items) (dlist dnat) r
           | _ => None
           end.

Definition dpayload : dec payload :=
  fun l => match l with
           | hn :: r =>
               dmap (fun x : list pend * (list incr * list N) =>
                       mkPayload (fst x) (fst (snd x)) (snd (snd x)) (to_bool hn))
                    (dpair (dlist dpend) (dpair (dlist dincr) (dlist dN))) r
           | [] => None
           end.

Definition enc_pend (p : pend) : list N :=
  [p_id p; p_label p; of_bool (p_stream p); of_nat (p_next p)] ++ elist (p_path p).
Definition enc_incr (e : incr) : list N :=
  match e with
  | IDefer i => [0; i]
  | IStream i items => 1 :: i :: elist (map of_nat items)
  end.
Definition enc_payload (p : payload) : list N :=
  of_bool (pl_has_next p)
  :: of_nat (length (pl_pending p)) :: flat_map enc_pend (pl_pending p)
  ++ of_nat (length (pl_incr p)) :: flat_map enc_incr (pl_incr p)
  ++ elist (pl_completed p).
Definition enc_payloads (ps : list payload) : list N :=
  of_nat (length ps) :: flat_map enc_payload ps.

(* ------------------------------------------------------------------ stream queue ops *)
Definition dentry : dec entry :=
  fun l => match l with
           | 0 :: v :: r => Some (EVal v, r)
           | 1 :: k :: r => Some (EFut k, r)
           | 2 :: r => Some (EEnd, r)
           | 3 :: r => Some (EErr, r)
           | _ => None
           end.

Definition dsqop : dec sqop :=
  fun l => match l with
           | 0 :: r => dmap OpPush dentry r
           | 1 :: k :: ok :: r => Some (OpSettle k (to_bool ok), r)
           | 2 :: r => Some (OpPull, r)
           | _ => None
           end.

Definition enc_entry (e : entry) : list N :=
  match e with EVal v => [0; v] | EFut k => [1; k] | EEnd => [2] | EErr => [3] end.

Definition enc_sqout (o : sqout) : list N :=
  match o with
  | OBatch es => 0 :: of_nat (length es) :: flat_map enc_entry es
  | OFinished => [1]
  | ORaised => [2]
  end.

(* ------------------------------------------------------------------ entry *)
Definition run (inp : list N) : list N :=
  match inp with
  (* 1: protocol validator: parents, payloads -> [valid; valid_prefix] *)
  | 1 :: r =>
      match dpair (dlist (dpair dN dN)) (dlist dpayload) r with
      | Some ((parents, ps), _) => [1; of_bool (valid parents ps); of_bool (valid_prefix parents ps)]
      | None => [0]
      end
  (* 2: work queue: env, initial work, batches of graph events ->
        enabled, oof, initial groups, initial streams, flattened events, payload validity, payloads *)
  | 2 :: r =>
      match dpair denv (dpair dwork (dlist (dlist dgevent))) r with
      | Some ((E, (w, bs)), _) =>
          let '(ig, is_, s0) := init E w in
          let '(s1, outs) := run_batches E s0 bs in
          let ps := publish E ig is_ outs in
          [1; of_bool (enabled_batches E s0 bs); of_bool (oof s1); of_bool (stopped s1)]
          ++ elist ig ++ elist is_
          ++ of_nat (length (concat outs)) :: flat_map enc_wq (concat outs)
          ++ [of_bool (valid (e_parent E) ps); of_bool (valid_prefix (e_parent E) ps)]
          ++ enc_payloads ps
      | None => [0]
      end
  (* 3: publisher alone: env, initial groups, initial streams, batches of work-queue events -> payloads *)
  | 3 :: r =>
      match dpair denv (dpair (dlist dN) (dpair (dlist dN) (dlist (dlist dwqevent)))) r with
      | Some ((E, (ig, (is_, bs))), _) => 1 :: enc_payloads (publish E ig is_ bs)
      | None => [0]
      end
  (* 4: stream item queue: capacity, ops -> outputs, then (is_stopped(), outstanding items) after every operation *)
  | 4 :: cap :: r =>
      match dlist dsqop r with
      | Some (ops, _) =>
          let '(b, outs, flags) := b_run (bsq_init (nat_of cap)) ops in
          1 :: of_nat (length outs) :: flat_map enc_sqout outs ++ of_nat (length flags) :: flat_map (fun f : bool * nat => [of_bool (fst f); of_nat (snd f)]) flags
      | None => [0]
      end
  (* 5: exhaustive exploration at model level: depth, env, work ->
        ok, number of explored paths, index of the first failing path *)
  | 5 :: depth :: r =>
      match dpair denv dwork r with
      | Some ((E, w), _) =>
          let ps := paths E (candidates E) (nat_of depth) (snd (init E w)) in
          let bad := filter (fun evs => negb (check_path E w evs)) ps in
          [1; of_bool (match bad with [] => true | _ => false end); of_nat (length ps);
           of_bool (flatb E); of_bool (init_ok E w)]
          ++ match bad with
             | [] => []
             | evs :: _ => of_nat (length evs) :: flat_map (fun e =>
                 match e with
                 | TaskOk t => [0; t]
                 | TaskFail t => [1; t]
                 | Items x n b => [2; x; of_nat n; of_bool b]
                 | StreamOk x => [3; x]
                 | StreamFail x => [4; x]
                 end) evs
             end
      | None => [0]
      end
  | _ => [999999]
  end.
