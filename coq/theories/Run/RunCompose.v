(* Executable entry of the extracted C12 model: opcode :: payload. *)
From GV Require Import Base.Prelude Lang.Visit Lang.VisitWire Valid.Compose.

Definition nat_of (n : N) : nat := N.to_nat n.
Definition of_nat (n : nat) : N := N.of_nat n.

Fixpoint dec_rscript (cnt : nat) (l : list N) : option (rscript * list N) :=
  match cnt with
  | O => Some ([], l)
  | S c =>
    match l with
    | id :: ph :: a :: n :: r =>
      match dec_rscript c r with
      | Some (sc, r') =>
        Some ((id, (if ph =? 0 then Enter else Leave),
               (if a =? 0 then RIdle else if a =? 1 then RSkip else RBreakOff), nat_of n) :: sc, r')
      | None => None
      end
    | _ => None
    end
  end.

Fixpoint dec_rscripts (cnt : nat) (l : list N) : option (list rscript) :=
  match cnt with
  | O => match l with [] => Some [] | _ => None end
  | S c =>
    match l with
    | n :: r => match dec_rscript (nat_of n) r with
                | Some (sc, r') => match dec_rscripts c r' with
                                   | Some scs => Some (sc :: scs)
                                   | None => None end
                | None => None end
    | [] => None
    end
  end.

Definition enc_err (e : verr (N * phase * nat)) : list N :=
  match e with
  | VErr i (id, ph, j) => [of_nat i; id; (match ph with Enter => 0 | Leave => 1 end); of_nat j]
  | Aborted => [9; 0; 0; 0]
  end.

Definition run (inp : list N) : list N :=
  match inp with
  | 1 :: fuel :: limit :: r =>
    match dec_tree 1000 r with
    | Some (t, nr :: r') =>
      match dec_rscripts (nat_of nr) r' with
      | Some scs =>
        let es := validate (map (fun sc => (scripted_rule sc, tt)) scs)
                           (Some (nat_of limit)) (nat_of fuel) t in
        0 :: of_nat (length es) :: flat_map enc_err es
      | None => [8]
      end
    | _ => [8]
    end
  | _ => [999999]
  end.
