(* Executable entry of the extracted C14 model: opcode :: payload. *)
From GV Require Import Base.Prelude Valid.Overlap Valid.PairSet Valid.OverlapWire Valid.OverlapOpt Valid.OverlapOptTerm.

Definition enc_verdict (v : verdict) : N :=
  match v with VNo => 0 | VConflict => 1 | VUntyped => 2 | VFuel => 3 end.

Definition b2n (b : bool) : N := if b then 1 else 0.

Fixpoint dec_order (cnt : nat) (l : list N) : option (list (bool * nat) * list N) :=
  match cnt with
  | O => Some ([], l)
  | S c =>
    match l with
    | isop :: idx :: r =>
      match dec_order c r with
      | Some (o, r') => Some ((negb (isop =? 0), nat_of idx) :: o, r')
      | None => None
      end
    | _ => None
    end
  end.

Definition first_or_zero (t : text) : N := match t with x :: _ => x | [] => 0 end.

Definition enc_ff (s : pairset) : list N :=
  flat_map (fun kv => flat_map (fun kb => [first_or_zero (fst kv); first_or_zero (fst kb); b2n (snd kb)]) (snd kv)) s.
Definition enc_fp (s : opairset) : list N :=
  flat_map (fun kv => flat_map (fun kb => [fst kv; first_or_zero (fst kb); b2n (snd kb)]) (snd kv)) s.

Definition enc_ev (e : ev) : list N :=
  match e with
  | EvStart t a b f => [0; (match t with TFp => 0 | TFf => 1 end); a; b; b2n f]
  | EvSkip t a b f => [1; (match t with TFp => 0 | TFf => 1 end); a; b; b2n f]
  end.

(* #ff numbers, ff triples, #fp numbers, fp triples, #log numbers, log (oldest first) *)
Definition enc_memo (m : memo) : list N :=
  let ff := enc_ff (m_ff m) in
  let fp := enc_fp (m_fp m) in
  let lg := flat_map enc_ev (rev (m_log m)) in
  N.of_nat (length ff) :: ff ++ N.of_nat (length fp) :: fp ++ N.of_nat (length lg) :: lg.

Definition run (inp : list N) : list N :=
  match inp with
  | 1 :: r =>
    (* [verdict; spec_conflicts; #fields; #fragments] ; 9 = field ids not unique ; 8 = undecodable *)
    match dec_case r with
    | Some (s, d) =>
      if nodupb (doc_fids d)
      then [enc_verdict (spec_verdict s d); b2n (spec_conflicts s d);
            N.of_nat (length (doc_fids d)); N.of_nat (length (d_frags d))]
      else [9]
    | None => [8]
    end
  | 4 :: fuel :: no :: r =>
    (* memoised algorithm: [3] out of fuel, or (1 conflict | 0 none) :: memo tables and memo trace *)
    match dec_order (nat_of no) r with
    | Some (order, r') =>
      match dec_case r' with
      | Some (s, d) =>
        if nodupb (doc_all_ids d) then
          (* the fuel proved sufficient (OverlapOptTerm.opt_terminates); the wire value is ignored *)
          match opt_run s d order (opt_fuel d) with
          | RFuel => [3]
          | RConflict m => 1 :: enc_memo m
          | ROk m => 0 :: enc_memo m
          end
        else [9]
      | None => [8]
      end
    | None => [8]
    end
  | 2 :: n :: r =>
    match dec_ps_ops (nat_of n) r with
    | Some ops => 0 :: map b2n (ps_run [] ops)
    | None => [8]
    end
  | 3 :: n :: r =>
    match dec_ops_ops (nat_of n) r with
    | Some ops => 0 :: map b2n (ops_run [] ops)
    | None => [8]
    end
  | _ => [999999]
  end.
