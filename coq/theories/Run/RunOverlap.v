(* Executable entry of the extracted C14 model: opcode :: payload. *)
From GV Require Import Base.Prelude Valid.Overlap Valid.PairSet Valid.OverlapWire.

Definition enc_verdict (v : verdict) : N :=
  match v with VNo => 0 | VConflict => 1 | VUntyped => 2 | VFuel => 3 end.

Definition b2n (b : bool) : N := if b then 1 else 0.

Definition run (inp : list N) : list N :=
  match inp with
  | 1 :: r =>
    (* [verdict; spec_conflicts; #fields; #fragments] ; 9 = field ids not unique ; 8 = undecodable *)
    match dec_case r with
    | Some (s, d) =>
      if nodupb (doc_fids d)
      then [enc_verdict (spec_verdict s d); b2n (spec_conflicts s d);
            N.of_nat (length (doc_fids d)); N.of_nat (length (d_frags d))]
      else [9]
    | None => [8]
    end
  | 2 :: n :: r =>
    match dec_ps_ops (nat_of n) r with
    | Some ops => 0 :: map b2n (ps_run [] ops)
    | None => [8]
    end
  | 3 :: n :: r =>
    match dec_ops_ops (nat_of n) r with
    | Some ops => 0 :: map b2n (ops_run [] ops)
    | None => [8]
    end
  | _ => [999999]
  end.
