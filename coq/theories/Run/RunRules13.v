(* Executable entry of the extracted `rules13` model: opcode :: schema tree, directive table tree
   (both in the execution model's tree wire, Exec/Wire.v), document (Ast.enc_node wire).
   0 -> 0 n (rule npaths (len (attr idx)^len)^npaths)^n | 3 (fuel) | 8 (bad wire): the errors of the
        ten schema-dependent rules of Valid/Rules13.v
   1 -> 0 tree (the execution model's document, Valid/ToExec.to_exec) | 1 (outside its fragment)
   5 -> verdict of the field-merge specification function (Valid/Overlap.spec_verdict) on the translated
        operation (0 none, 1 conflict, 2 untyped, 3 fuel), occurrence numbers distinct? | 6 | 7
   6 -> 0 n (27 1 path)^n: the errors of StreamDirectiveOnListField (Valid/RulesStream.v)
   2 -> rules13 silent?, rules 5 8 9 12 of Valid/Rules.v silent?, to_exec defined?, well_typed?,
        schema_ok?  (0/1 each; 2 = undefined) *)
From GV Require Import Base.Prelude Lang.Ast Exec.Value Exec.Schema Exec.Spec Exec.Typing Exec.Wire
  Valid.StaticTyping Valid.Rules Valid.RulesWire Valid.Rules13 Valid.ToExec Valid.RulesLit Valid.RulesTyping
  Valid.ToOverlap Valid.RulesStream.
From GV Require Valid.Overlap.

Definition to_dirtable (w : wtree) : list (str * list arg_def) :=
  map (fun e => (to_str (kid 0 e), map to_argdef (w_kids (kid 1 e)))) (w_kids w).

Definition with_input (r : list N) (k : vschema -> node -> list N) : list N :=
  match dec_tree (S (length r)) r with
  | Some (ws, r1) =>
    match dec_tree (S (length r1)) r1 with
    | Some (wd, r2) =>
      match dec_node (S (length r2)) r2 with
      | Some (d, []) => k (VS (to_schema ws) (to_dirtable wd)) d
      | _ => [8]
      end
    | None => [8]
    end
  | None => [8]
  end.

Definition no_float (_ : list N) : Z * N := (0%Z, 1).
(* float literals identified by their text (for the field-merge function: same text = same argument) *)
Definition text_float (t : list N) : Z * N := (0%Z, code t + 1).

Definition b2n (b : bool) : N := if b then 1 else 0.
Definition silent (o : option (list verr)) : N :=
  match o with Some [] => 1 | Some _ => 0 | None => 2 end.

(* operation name header: 0 = none, n+1 followed by n code points *)
Definition with_name (r : list N) (k : option str -> list N -> list N) : list N :=
  match r with
  | 0 :: r' => k None r'
  | n :: r' => k (Some (firstn (N.to_nat (n - 1)) r')) (skipn (N.to_nat (n - 1)) r')
  | [] => [8]
  end.

Definition run (inp : list N) : list N :=
  match inp with
  | 0 :: r => with_input r (fun vs d => enc_result (rules13 vs d))
  | 1 :: r0 => with_name r0 (fun sel r => with_input r (fun vs d =>
      match to_exec no_float sel d with Some x => 0 :: enc_tree (of_doc x) | None => [1] end))
  | 2 :: r0 => with_name r0 (fun sel r => with_input r (fun vs d =>
      [silent (rules13 vs d);
       silent (opt_concat [Some (rule_known_fragment_names d); rule_no_fragment_cycles d;
                           Some (rule_unique_fragment_names d); Some (rule_unique_variable_names d);
                           rule_no_undefined_variables d; Some (rule_unique_input_field_names d);
                           Some (rule_unique_argument_names d)]);
       match to_exec no_float sel d with
       | Some x => 1 | None => 0 end;
       match to_exec no_float sel d with
       | Some x => b2n (well_typed (vs_s vs) x) | None => 2 end;
       b2n (schema_ok (vs_s vs));
       (* hypotheses of the typing theorem on the schema; all rules it names silent (document with
          exactly one operation); its conclusion (the clauses that do not concern merging) *)
       b2n (schema_impl_ok (vs_s vs) && schema_inputs_ok (vs_s vs) && dirs_std vs);
       (match to_exec no_float None d, rules13 vs d, rule_no_unused_fragments d with
        | Some _, Some [], Some [] =>
          b2n (is_nil (rule_unique_fragment_names d) && is_nil (rule_unique_variable_names d))
        | _, _, _ => 0
        end);
       (match to_exec no_float None d with
        | Some x =>
          match root_type (vs_s vs) (d_kind x) with
          | Some rt =>
            if is_object (vs_s vs) rt then
              b2n (vars_ok (vs_s vs) (d_vars x) && sstatic_list (vs_s vs) (d_vars x) rt (d_sels x)
                   && forallb (sel_dirs_ok (vs_s vs) (d_vars x) []) (d_sels x)
                   && frags_static (vs_s vs) (d_vars x) (d_frags x)
                   && forallb (fun f => forallb (sel_dirs_ok (vs_s vs) (d_vars x) []) (fr_sels f)) (d_frags x))
            else 2
          | None => 2
          end
        | None => 2
        end);
       (* VariablesInAllowedPosition errors that the specification's location-default rule does not have *)
       match rule_variables_in_allowed_position vs d, rule_varpos_gen true vs d with
       | Some a, Some b => N.of_nat (length a - length b)
       | _, _ => 0
       end]))
  | 5 :: r0 => with_name r0 (fun sel r => with_input r (fun vs d =>
      match to_exec text_float sel d with
      | Some x =>
        match root_type (vs_s vs) (d_kind x) with
        | Some rt =>
          [match overlap_verdict (vs_s vs) rt x with
            | Overlap.VNo => 0 | Overlap.VConflict => 1 | Overlap.VUntyped => 2 | Overlap.VFuel => 3 end;
           b2n (Overlap.nodupb (Overlap.doc_fids (o_doc rt x)))]
        | None => [7]
        end
      | None => [6]
      end))
  | 6 :: r => with_input r (fun vs d => enc_result (Some (rule_stream_on_list_field vs d)))
  | _ => [999999]
  end.
