(* Executable entry of the extracted `strip` model: opcode :: payload.
   1 body... -> strip body: 0 :: stripped text | [1; pos] (syntax error position in body) | [2; w] | [3] *)
From GV Require Import Base.Prelude Lang.Lexer Lang.BlockString Lang.Strip.

Definition enc_text (o : outcome (list N)) : list N :=
  match o with
  | Ok v => 0 :: v
  | SyntaxErr p => [1; N.of_nat p]
  | Crash w => [2; w]
  | OutOfFuel => [3]
  end.

Definition run (inp : list N) : list N :=
  match inp with
  | 1 :: body => enc_text (strip body)
  | _ => [999999]
  end.
