(* Executable entry of the extracted `rules` model: opcode :: payload.
   0 tree          -> 0 n (rule npaths (len (attr idx)^len)^npaths)^n | 3 (out of fuel) | 8 (bad wire)
                      the errors of the twelve modelled rules, rule by rule (Valid/Rules.all_rules)
   1 xfa cp*       -> the same for the tree the parser model returns for the text | 1 pos (syntax error)
   2               -> the visitor key table and description indices of Valid/Rules.v
   3 tree          -> the context functions (spreads, usages, referenced fragments) per definition
   4 tree          -> as 0 for erase_descriptions tree *)
From GV Require Import Base.Prelude Lang.Lexer Lang.Ast Lang.Parser Valid.Rules Valid.RulesWire.

Definition with_tree (r : list N) (k : node -> list N) : list N :=
  match dec_node (S (length r)) r with
  | Some (d, []) => k d
  | _ => [8]
  end.

Definition run (inp : list N) : list N :=
  match inp with
  | 0 :: r => with_tree r (fun d => enc_result (all_rules d))
  | 1 :: xfa :: body =>
    match parse_text EDocument (mkOpts None (negb (xfa =? 0)) false) body with
    | Ok (d, _) => enc_result (all_rules d)
    | SyntaxErr p => [1; N.of_nat p]
    | _ => [9]
    end
  | [2] => enc_tables
  | 3 :: r => with_tree r (fun d => 0 :: enc_context d)
  | 4 :: r => with_tree r (fun d => enc_result (all_rules (erase_descriptions d)))
  | _ => [999999]
  end.
