(* Executable entry of the extracted `rules` model: opcode :: payload.
   0 tree          -> 0 n (rule npaths (len (attr idx)^len)^npaths)^n | 3 (out of fuel) | 8 (bad wire)
                      the errors of the twelve modelled rules, rule by rule (Valid/Rules.all_rules)
   1 xfa cp*       -> the same for the tree the parser model returns for the text | 1 pos (syntax error)
   2               -> the visitor key table and description indices of Valid/Rules.v
   3 tree          -> the context functions (spreads, usages, referenced fragments) per definition
   4 tree          -> as 0 for erase_descriptions tree
   5 q m s n (len cp* nlocs loc* rep)^n tree
                   -> as 0 for rules 23 24 25 26 of Valid/RulesDir.v (root types present, the schema's
                      directives: name, location indices, repeatable) *)
From GV Require Import Base.Prelude Lang.Lexer Lang.Ast Lang.Parser Valid.Rules Valid.RulesWire Valid.RulesDir Valid.RulesRoot Valid.RulesValidOps.

Definition with_tree (r : list N) (k : node -> list N) : list N :=
  match dec_node (S (length r)) r with
  | Some (d, []) => k d
  | _ => [8]
  end.

Definition take (r : list N) : option (list N * list N) :=
  match r with
  | n :: r' => if (N.to_nat n <=? length r')%nat then Some (firstn (N.to_nat n) r', skipn (N.to_nat n) r') else None
  | [] => None
  end.

Fixpoint dec_dirs (n : nat) (r : list N) : option (list dinfo * list N) :=
  match n with
  | O => Some ([], r)
  | S n' =>
    match take r with
    | Some (nm, r1) =>
      match take r1 with
      | Some (locs, rep :: r2) =>
        match dec_dirs n' r2 with
        | Some (ds, r3) => Some (DI nm locs (negb (rep =? 0)) :: ds, r3)
        | None => None
        end
      | _ => None
      end
    | None => None
    end
  end.

Definition rules_dir (ds : dschema) (d : node) : option (list verr) :=
  opt_concat [Some (rule_known_operation_types ds d); rule_known_directives ds d;
              Some (rule_unique_directives_per_location ds d); Some (rule_defer_stream_label d);
              rule_root_field ds d; rule_valid_operations d].

Definition run (inp : list N) : list N :=
  match inp with
  | 0 :: r => with_tree r (fun d => enc_result (all_rules d))
  | 1 :: xfa :: body =>
    match parse_text EDocument (mkOpts None (negb (xfa =? 0)) false) body with
    | Ok (d, _) => enc_result (all_rules d)
    | SyntaxErr p => [1; N.of_nat p]
    | _ => [9]
    end
  | [2] => enc_tables
  | 3 :: r => with_tree r (fun d => 0 :: enc_context d)
  | 4 :: r => with_tree r (fun d => enc_result (all_rules (erase_descriptions d)))
  | 5 :: q :: m :: sb :: n :: r =>
    match dec_dirs (N.to_nat n) r with
    | Some (dl, r') =>
      with_tree r' (fun d => enc_result (rules_dir (DS [negb (q =? 0); negb (m =? 0); negb (sb =? 0)] dl) d))
    | None => [8]
    end
  | _ => [999999]
  end.
