(* Executable entry of the subscription pipeline machine (events are numbers, exec = id). *)
From GV Require Import Base.Prelude Exec.Subscribe.

Definition dec_src (l : list N) : list (src_item N) :=
  map (fun x => if x =? 0 then Fail N else Ev N (x - 1)) l.
Definition dec_ev (x : N) : step_ev := if x =? 0 then Pull else if x =? 1 then SourceReady else CallbackDone.
Definition enc_out (o : output N) : N := match o with Resp _ r => r + 2 | Raised _ => 0 | Ended _ => 1 end.

(* input: 1 :: nsrc :: src items :: events *)
Definition run (inp : list N) : list N :=
  match inp with
  | 1 :: n :: r =>
    let src := dec_src (firstn (N.to_nat n) r) in
    let evs := map dec_ev (skipn (N.to_nat n) r) in
    let '(s, o) := Subscribe.run_steps N N (fun x => x) (mkSt N src (Idle N)) evs in
    (match stg N s with Done _ => 1 | _ => 0 end) :: map enc_out o
  | _ => [999999]
  end.
