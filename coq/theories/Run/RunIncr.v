(* Executable entry for C04: build_execution_plan model and the merge oracle. *)
From GV Require Import Base.Prelude Exec.Value Exec.Wire Incr.Plan Incr.Merge.

(* ---- op 1: plan.  wire (flat): nparent parent... nkeys (key nfields (0 | 1 id nanc anc...)...)... *)
Fixpoint take_list (n : nat) (l : list N) : list N * list N := (firstn n l, skipn n l).

Fixpoint dec_details (cnt : nat) (l : list N) : details * list N :=
  match cnt with
  | O => ([], l)
  | S c =>
    match l with
    | 0 :: r => let '(ds, r') := dec_details c r in (None :: ds, r')
    | _ :: id :: na :: r =>
      let anc := firstn (N.to_nat na) r in
      let '(ds, r') := dec_details c (skipn (N.to_nat na) r) in
      (Some (mkDu id anc) :: ds, r')
    | _ => ([], [])
    end
  end.

Fixpoint dec_gfs (cnt : nat) (l : list N) : gfs :=
  match cnt with
  | O => []
  | S c =>
    match l with
    | k :: nf :: r => let '(ds, r') := dec_details (N.to_nat nf) r in (k, ds) :: dec_gfs c r'
    | _ => []
    end
  end.

Definition enc_group (g : list du * gfs) : list N :=
  N.of_nat (length (fst g)) :: map du_id (fst g) ++ N.of_nat (length (snd g)) :: map fst (snd g).

(* ---- op 2: reassemble.  wtree: [d0; W 5 pendings; W 5 payloads] ---- *)
Definition to_seg (w : wtree) : pathseg :=
  match w with
  | W 81 ints _ => PKey ints
  | W _ (i :: _) _ => PIdx (N.to_nat i)
  | _ => PIdx 0
  end.
Definition to_path (w : wtree) : path := map to_seg (w_kids w).
Definition to_pending (w : wtree) : N * path := (hd 0 (w_ints w), to_path (kid 0 w)).
Definition to_incr (w : wtree) : incr :=
  match w with
  | W 203 (id :: _) (p :: d :: _) => IDefer id (to_path p) (to_json d)
  | W _ (id :: _) (items :: _) => IStream id (map to_json (w_kids items))
  | _ => IStream 0 []
  end.
Definition to_payload (w : wtree) : payload :=
  mkPayload (map to_pending (w_kids (kid 0 w))) (map to_incr (w_kids (kid 1 w))) (w_ints (kid 2 w)).

Definition run (inp : list N) : list N :=
  match inp with
  | 1 :: np :: r =>
    let parent := firstn (N.to_nat np) r in
    match skipn (N.to_nat np) r with
    | nk :: r' =>
      let '(init, groups) := build_execution_plan (dec_gfs (N.to_nat nk) r') parent in
      N.of_nat (length init) :: map fst init ++ N.of_nat (length groups) :: flat_map enc_group groups
    | [] => [999998]
    end
  | 2 :: r =>
    match dec_tree 300 r with
    | Some (w, _) =>
      match reassemble (to_json (kid 0 w)) (map to_pending (w_kids (kid 1 w))) (map to_payload (w_kids (kid 2 w))) with
      | Some d => 1 :: enc_tree (of_json d)
      | None => [0]
      end
    | None => [999997]
    end
  | _ => [999999]
  end.
