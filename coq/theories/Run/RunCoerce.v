(* Executable entry of the extracted `coerce` model.
   Every case:  op fuel maxd parse_tbl str_tbl schema payload
   op 10  type value            -> block(coerce_val) block(validate_val) block(to_literal)
   op 11  env type lit          -> block(coerce_lit env) block(validate_lit runtime env)
                                   block(validate_lit static) block(coerce_lit no variables)
   op 12  vardefs inputs        -> coerce_variables
   op 0   type lit              -> echo *)
From GV Require Import Base.Prelude Types.Scalars Types.ScalarsWire Types.Coerce Types.CoerceWire.

Definition with_header (l : list N)
    (k : nat -> (text -> option pyfloat) -> (pyfloat -> text) -> N -> schema -> list N -> list N)
    : list N :=
  match l with
  | fuel :: maxd :: r =>
      match dec_parse_tbl r with
      | Some (pt, r1) =>
          match dec_str_tbl r1 with
          | Some (st, r2) =>
              match dec_schema r2 with
              | Some (s, r3) => k (N.to_nat fuel) (tbl_parse pt) (tbl_str st) maxd s r3
              | None => [993]
              end
          | None => [992]
          end
      | None => [991]
      end
  | _ => [990]
  end.

Definition run (inp : list N) : list N :=
  match inp with
  | 0 :: r =>
      match dec_ityp WIRE_FUEL r with
      | Some (t, r1) =>
          match dec_lit WIRE_FUEL r1 with
          | Some (l, _) => enc_ityp t ++ enc_lit l
          | None => [998]
          end
      | None => [999]
      end
  | 10 :: r =>
      with_header r (fun fuel pf fs maxd s r' =>
        match dec_ityp WIRE_FUEL r' with
        | Some (t, r1) =>
            match dec_val WIRE_FUEL r1 with
            | Some (v, _) =>
                block (enc_result enc_val (coerce_val pf maxd s fuel t v))
                ++ block (enc_paths (validate_val maxd s fuel t v []))
                ++ block (enc_result enc_lit (to_literal fs maxd s fuel t v))
            | None => [995]
            end
        | None => [994]
        end)
  | 11 :: r =>
      with_header r (fun fuel pf fs maxd s r' =>
        match dec_env r' with
        | Some (vars, r0) =>
            match dec_ityp WIRE_FUEL r0 with
            | Some (t, r1) =>
                match dec_lit WIRE_FUEL r1 with
                | Some (l, _) =>
                    block (enc_result enc_val (coerce_lit pf s fuel vars t l))
                    ++ block (enc_paths (validate_lit pf s fuel false vars t l []))
                    ++ block (enc_paths (validate_lit pf s fuel true [] t l []))
                    ++ block (enc_result enc_val (coerce_lit pf s fuel [] t l))
                | None => [995]
                end
            | None => [994]
            end
        | None => [996]
        end)
  | 12 :: r =>
      with_header r (fun fuel pf fs maxd s r' =>
        match dec_list dec_vardef r' with
        | Some (defs, r1) =>
            match dec_env r1 with
            | Some (inputs, _) => enc_vars_result (coerce_variables pf maxd s fuel defs inputs)
            | None => [995]
            end
        | None => [994]
        end)
  | _ => [999999]
  end.
