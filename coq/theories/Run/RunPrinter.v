(* Executable entry of the extracted `printer` model: opcode :: payload.
   1 which xfa xdd cp*   -> pp of the tree the parser model returns for the text (which: 0 document
                            1 value 2 const value 3 type 4 coordinate): 0 :: text | [1; pos] | [2; w] | [3]
   2 tree (Ast.enc_node) -> 0 :: pp tree | [9] (wire does not decode) *)
From GV Require Import Base.Prelude Lang.Lexer Lang.Ast Lang.Parser Lang.Printer.

Definition all_kinds : list nkind :=
  [KArgument; KArgumentCoordinate; KBooleanValue; KDirective; KDirectiveArgumentCoordinate;
   KDirectiveCoordinate; KDirectiveDefinition; KDirectiveExtension; KDocument; KEnumTypeDefinition;
   KEnumTypeExtension; KEnumValue; KEnumValueDefinition; KField; KFieldDefinition; KFloatValue;
   KFragmentArgument; KFragmentDefinition; KFragmentSpread; KInlineFragment;
   KInputObjectTypeDefinition; KInputObjectTypeExtension; KInputValueDefinition; KIntValue;
   KInterfaceTypeDefinition; KInterfaceTypeExtension; KListType; KListValue; KMemberCoordinate; KName;
   KNamedType; KNonNullType; KNullValue; KObjectField; KObjectTypeDefinition; KObjectTypeExtension;
   KObjectValue; KOperationDefinition; KOperationTypeDefinition; KScalarTypeDefinition;
   KScalarTypeExtension; KSchemaDefinition; KSchemaExtension; KSelectionSet; KStringValue;
   KTypeCoordinate; KUnionTypeDefinition; KUnionTypeExtension; KVariable; KVariableDefinition].

Definition kind_of (c : N) : option nkind := find (fun k => kind_code k =? c) all_kinds.

(* inverse of Ast.enc_node, on fuel *)
Fixpoint dec_node (fuel : nat) (w : list N) : option (node * list N) :=
  match fuel with
  | O => None
  | S f =>
    match w with
    | k :: n :: r =>
      match kind_of k with
      | Some kd =>
        match dec_attrs f (N.to_nat n) r with
        | Some (attrs, r') => Some (Nd kd attrs, r')
        | None => None
        end
      | None => None
      end
    | _ => None
    end
  end
with dec_attrs (fuel : nat) (n : nat) (w : list N) : option (list attr * list N) :=
  match n with
  | O => Some ([], w)
  | S n' =>
    match fuel with
    | O => None
    | S f =>
      let more (a : attr) (r : list N) :=
          match dec_attrs f n' r with Some (l, r') => Some (a :: l, r') | None => None end in
      match w with
      | 0 :: r => more ANone r
      | 1 :: r => match dec_node f r with Some (m, r') => more (ANode m) r' | None => None end
      | 2 :: c :: r =>
        match dec_nodes f (N.to_nat c) r with Some (l, r') => more (AList l) r' | None => None end
      | 3 :: c :: r => more (AStr (firstn (N.to_nat c) r)) (skipn (N.to_nat c) r)
      | 4 :: b :: r => more (ABool (negb (b =? 0))) r
      | 5 :: c :: r => more (AEnum c) r
      | _ => None
      end
    end
  end
with dec_nodes (fuel : nat) (n : nat) (w : list N) : option (list node * list N) :=
  match n with
  | O => Some ([], w)
  | S n' =>
    match fuel with
    | O => None
    | S f =>
      match dec_node f w with
      | Some (m, r) =>
        match dec_nodes f n' r with Some (l, r') => Some (m :: l, r') | None => None end
      | None => None
      end
    end
  end.

Definition entry_of (n : N) : entry :=
  match n with
  | 0 => EDocument | 1 => EValue | 2 => EConstValue | 3 => EType | _ => ECoordinate
  end.

Definition run (inp : list N) : list N :=
  match inp with
  | 1 :: which :: xfa :: xdd :: body =>
    match parse_text (entry_of which) (mkOpts None (negb (xfa =? 0)) (negb (xdd =? 0))) body with
    | Ok (d, _) => 0 :: pp d
    | SyntaxErr p => [1; N.of_nat p]
    | Crash w => [2; w]
    | OutOfFuel => [3]
    end
  | 2 :: w =>
    match dec_node (S (length w)) w with
    | Some (d, []) => 0 :: pp d
    | _ => [9]
    end
  | _ => [999999]
  end.
