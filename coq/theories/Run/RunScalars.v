(* Executable entry of the extracted `scalars` model: opcode :: payload.
   0 value                                   -> echo (decode, re-encode)
   1 scalar leaf maxd oint ofloat fstr value -> serialize (leaf=1: through complete_leaf)
   2 scalar maxd oint ofloat fstr value      -> input coercion
   3 leaf n (name value)^n value             -> enum coerce_output_value
   4 n (name value)^n value                  -> enum coerce_input_value
   5 a b                                     -> [a == b; hashable a] *)
From GV Require Import Base.Prelude Types.Scalars Types.ScalarsWire.

Definition dec_scalar (n : N) : option scalar :=
  match n with
  | 0 => Some SInt | 1 => Some SFloat | 2 => Some SString | 3 => Some SBoolean | 4 => Some SID
  | _ => None
  end.

Fixpoint dec_enum (cnt : nat) (l : list N) : option (enum * list N) :=
  match cnt with
  | O => Some ([], l)
  | S c =>
      match dec_text l with
      | Some (name, l1) =>
          match dec_val WIRE_FUEL l1 with
          | Some (v, l2) =>
              match dec_enum c l2 with
              | Some (e, l3) => Some ((name, v) :: e, l3)
              | None => None
              end
          | None => None
          end
      | None => None
      end
  end.

(* oracle block: maxd, int(s), float(s), str(x), then the value *)
Definition with_oracles (l : list N)
    (k : N -> (text -> option Z) -> (text -> option pyfloat) -> (pyfloat -> text) -> pyval -> list N)
    : list N :=
  match l with
  | maxd :: r =>
      match dec_opt dec_Z r with
      | Some (oi, r1) =>
          match dec_opt dec_float r1 with
          | Some (of_, r2) =>
              match dec_text r2 with
              | Some (fs, r3) =>
                  match dec_val WIRE_FUEL r3 with
                  | Some (v, _) => k maxd (fun _ => oi) (fun _ => of_) (fun _ => fs) v
                  | None => [994]
                  end
              | None => [993]
              end
          | None => [992]
          end
      | None => [991]
      end
  | [] => [990]
  end.

Definition run (inp : list N) : list N :=
  match inp with
  | 0 :: r =>
      match dec_val WIRE_FUEL r with
      | Some (v, _) => enc_val v
      | None => [999]
      end
  | 1 :: sc :: leaf :: r =>
      match dec_scalar sc with
      | Some s =>
          with_oracles r (fun maxd pi pf fs v =>
            let ser := serialize pi pf fs maxd s in
            enc_cres (if leaf =? 0 then ser v else complete_leaf ser v))
      | None => [998]
      end
  | 2 :: sc :: r =>
      match dec_scalar sc with
      | Some s =>
          with_oracles r (fun maxd pi pf fs v => enc_cres (coerce_input maxd s v))
      | None => [998]
      end
  | 3 :: leaf :: n :: r =>
      match dec_enum (N.to_nat n) r with
      | Some (e, r') =>
          match dec_val WIRE_FUEL r' with
          | Some (v, _) =>
              enc_cres (if leaf =? 0 then enum_output e v else complete_leaf (enum_output e) v)
          | None => [997]
          end
      | None => [996]
      end
  | 4 :: n :: r =>
      match dec_enum (N.to_nat n) r with
      | Some (e, r') =>
          match dec_val WIRE_FUEL r' with
          | Some (v, _) => enc_cres (enum_input e v)
          | None => [997]
          end
      | None => [996]
      end
  | 5 :: r =>
      match dec_val WIRE_FUEL r with
      | Some (a, r') =>
          match dec_val WIRE_FUEL r' with
          | Some (b, _) => [enc_bool (pyeq a b); enc_bool (hashable a)]
          | None => [995]
          end
      | None => [995]
      end
  | _ => [999999]
  end.
