(* Executable entry of the execution model: opcode :: wire tree. *)
From GV Require Import Base.Prelude Exec.Value Exec.Schema Exec.Spec Exec.Wire.

Definition bad : list N := [999999].

Definition run (inp : list N) : list N :=
  match inp with
  | op :: payload =>
    match dec_tree 200 payload with
    | None => bad
    | Some (w, _) =>
      if op =? 1 then
        (* execute: kids = schema, document, variables, data *)
        enc_tree (of_response (execute (to_schema (kid 0 w)) (to_doc (kid 1 w))
                                       (to_args (kid 2 w)) (to_data (kid 3 w))))
      else if op =? 0 then enc_tree w      (* echo *)
      else bad
    end
  | [] => bad
  end.
