(* Executable entry of the execution model: opcode :: wire tree. *)
From GV Require Import Base.Prelude Exec.Value Exec.Schema Exec.Spec Exec.Typing Exec.Wire.

Definition bad : list N := [999999].
Definition b2n (b : bool) : N := if b then 1 else 0.

Definition run (inp : list N) : list N :=
  match inp with
  | op :: payload =>
    match dec_tree 200 payload with
    | None => bad
    | Some (w, _) =>
      let s := to_schema (kid 0 w) in
      let d := to_doc (kid 1 w) in
      let vars := to_args (kid 2 w) in
      if op =? 1 then
        (* execute: kids = schema, document, variables, data *)
        enc_tree (of_response (execute s d vars (to_data (kid 3 w))))
      else if op =? 2 then
        (* static and data checks: well_typed; well_typed_at the coerced variables (2 = variables
           rejected); schema_ok; variables coerce; conforming data *)
        let root := to_data (kid 3 w) in
        let cvo := coerce_variable_values s (d_vars d) vars in
        [b2n (well_typed s d);
         match cvo with Some cv => b2n (well_typed_at s d cv) | None => 2 end;
         b2n (schema_ok s);
         b2n (match cvo with Some _ => true | None => false end);
         b2n (match root_type s (d_kind d) with Some rt => conforms_root s rt root | None => false end)]
      else if op =? 4 then
        (* shape of a given response data (kid 3 = json) *)
        match coerce_variable_values s (d_vars d) vars, root_type s (d_kind d) with
        | Some cv, Some rt =>
            let j := to_json (kid 3 w) in
            [b2n (shape_ok s (d_frags d) cv (default_fuel s d DNull + 40 * (1 + sels_depth (d_sels d))) (TNamed rt) (d_sels d) j)]
        | _, _ => [2]
        end
      else if op =? 0 then enc_tree w      (* echo *)
      else bad
    end
  | [] => bad
  end.
