(* Executable entry of the C06 machines: opcode :: payload (flat lists of N). *)
From GV Require Import Base.Prelude Incr.Computation Incr.Lifecycle.

Definition of_nat (n : nat) : N := N.of_nat n.
Definition nb (n : N) : bool := negb (n =? 0).
Definition bn (b : bool) : N := if b then 1 else 0.

(* ---- 1: Computation *)
Definition dec_cevent (n : N) : option cevent :=
  match n with
  | 1 => Some (EPrime FnValue) | 2 => Some (EPrime FnAwaitable) | 3 => Some (EPrime FnRaise)
  | 4 => Some (EResult FnValue) | 5 => Some (EResult FnAwaitable) | 6 => Some (EResult FnRaise)
  | 7 => Some EAbort
  | 8 => Some (ESettle SOk) | 9 => Some (ESettle SErr) | 10 => Some (ESettle SCancelled)
  | 11 => Some ECallback
  | _ => None
  end.

Definition enc_status (s : cstatus) : N :=
  match s with CNone => 0 | CPending => 1 | CFulfilled => 2 | CRejected => 3 end.
Definition enc_ret (r : cret) : N :=
  match r with RNone => 0 | RValue => 1 | RRaise => 2 | RFuture => 3 | RAwaitable => 4 end.

Fixpoint run_comp (c : cconf) (s : cstate) (es : list N) : list N :=
  match es with
  | [] => [of_nat (runs s); of_nat (on_abort_calls s)]
  | n :: r =>
      match dec_cevent n with
      | None => [999999]
      | Some e => let '(s', ret) := cstep c s e in enc_status (status s') :: enc_ret ret :: run_comp c s' r
      end
  end.

(* ---- 2: StreamItemQueue control machine *)
Definition dec_qevent (n : N) : option qevent :=
  match n with
  | 1 => Some QStart | 2 => Some QPushFut | 3 => Some QPush | 4 => Some QItemSettle
  | 5 => Some QFinish | 6 => Some QFail | 7 => Some QAbort | 8 => Some QTick | 9 => Some QFailCancelled
  | 10 => Some QDrain
  | _ => None
  end.

Definition enc_q (s : qstate) : list N :=
  [bn (q_aborted s); bn (q_finished s);
   match q_prod s with PNone => 0 | PDone => 2 | _ => 1 end;
   of_nat (q_pending s); of_nat (q_cb_calls s);
   match q_prod s with PNone => 0 | PRun => 1 | PBlocked => 2 | PFailWait => 3 | PParked => 4 | PDone => 5 end;
   bn (q_consuming s); of_nat (q_entries s)].

Fixpoint run_queue (c : qconf) (s : qstate) (es : list N) : list N :=
  match es with
  | [] => let s' := settle c s in bn (quiescent s') :: enc_q s'
  | n :: r =>
      match dec_qevent n with
      | None => [999999]
      | Some e =>
          let '(s', ret) := qstep c s e in
          bn (applicable s e) :: bn ret :: enc_q s' ++ run_queue c s' r
      end
  end.

(* ---- 6: acceptance of a recorded queue trace (the loop may have settled before any event):
   number of possible states after every event, then the settled final states *)
Fixpoint run_queue_nd (c : qconf) (ss : list qstate) (es : list N) : list N :=
  match es with
  | [] => flat_map (fun s => let s' := settle c s in bn (quiescent s') :: enc_q s') ss
  | n :: r =>
      match dec_qevent n with
      | None => [999999]
      | Some e => let ss' := qnext c ss e in of_nat (length ss') :: run_queue_nd c ss' r
      end
  end.

(* ---- 3: acceptance of a recorded hook bookkeeping trace
   1 add background, 2 background settled, 3 run_async_work_finished_hook called, 5 hook observed *)
Fixpoint haccept (s : hstate) (seen : nat) (es : list N) : list N :=
  match es with
  | [] => [bn (Nat.eqb seen (h_fired s)); of_nat (h_fired s); of_nat (h_waiting s); of_nat (h_bg s)]
  | 1 :: r => haccept (hstep s HAdd) seen r
  | 2 :: r => match h_bg s with
              | O => [0; 2]                                  (* settle without background work *)
              | _ => haccept (hstep s HSettle) seen r
              end
  | 3 :: r => haccept (hstep s HRunHook) seen r
  | 5 :: r =>
      if Nat.ltb seen (h_fired s) then haccept s (S seen) r     (* fired synchronously in run_hook *)
      else let s' := hstep s HWake in
           if Nat.eqb (h_fired s') (S (h_fired s)) then haccept s' (S seen) r
           else [0; 5; of_nat (h_bg s); of_nat (h_waiting s)]    (* hook observed, machine cannot fire *)
  | _ => [999999]
  end.

(* ---- 4: aclosing *)
Definition dec_aevent (n : N) : option aevent :=
  match n with 1 => Some ANextItem | 2 => Some ANextEnd | 3 => Some ANextRaise | 4 => Some AClose | _ => None end.

Fixpoint run_aclosing (s : astate) (es : list N) : list N :=
  match es with
  | [] => []
  | n :: r =>
      match dec_aevent n with
      | None => [999999]
      | Some e => let s' := astep s e in
                  match a_gen s' with GCreated => 0 | GSuspended => 1 | GClosed => 2 end
                  :: of_nat (a_close_calls s') :: run_aclosing s' r
      end
  end.

(* ---- 5: cancel over a table of computations: has_cb :: n :: n statuses (0 none / 1 pending / 2 done) :: ids *)
Definition mk_cstate (n : N) : cstate :=
  match n with
  | 0 => cinit
  | 1 => {| status := CPending; fut := FLive; runs := 1; on_abort_calls := 0 |}
  | _ => {| status := CFulfilled; fut := FFinal; runs := 1; on_abort_calls := 0 |}
  end.

Definition run_cancel (hascb : N) (n : N) (rest : list N) : list N :=
  let k := N.to_nat n in
  let tbl := map mk_cstate (firstn k rest) in
  let ids := map N.to_nat (skipn k rest) in
  let c := {| has_on_abort := nb hascb; on_abort_async := false |} in
  flat_map (fun s => [enc_status (status s); of_nat (runs s); of_nat (on_abort_calls s)])
           (cancel_tasks c ids tbl).

Definition run (inp : list N) : list N :=
  match inp with
  | 1 :: hascb :: cbasync :: es =>
      run_comp {| has_on_abort := nb hascb; on_abort_async := nb cbasync |} cinit es
  | 2 :: eager :: hascb :: cbasync :: cap :: es =>
      let c := {| q_eager := nb eager; q_has_cb := nb hascb; q_cb_async := nb cbasync; q_cap := N.to_nat cap |} in
      run_queue c (qinit c) es
  | 6 :: eager :: hascb :: cbasync :: cap :: es =>
      let c := {| q_eager := nb eager; q_has_cb := nb hascb; q_cb_async := nb cbasync; q_cap := N.to_nat cap |} in
      run_queue_nd c [qinit c] es
  | 3 :: es => haccept hinit 0 es
  | 4 :: es => run_aclosing ainit es
  | 5 :: hascb :: n :: rest => run_cancel hascb n rest
  | _ => [999999]
  end.
