(* Executable entry of the extracted `async` model (Exec/Async.v).
   wire:  node  = key nonnull async tag ...   tag 0 raise | 1 null | 2 leaf v | 3 kids kind count node*
          kind  = 0 object | 1 list | 2 serial object
          path  = len elem*
   ops:   1 node nsched path*   -> run the schedule from init:   answer
          2 node                -> the synchronous run (all flags cleared): answer
          3 node                -> [1] data of den | [0] (den = fails)
          4 node fuel           -> number of complete schedules explored and how many give the data/visible
                                   nulls of the synchronous run:  total agree
   answer: final(1/0) data nskipped path* nevents event*
          data  = 0 (error null) | 1 (null value) | 2 v | 3 kind count (key data)*
          event = 0 path (call) | 1 path (awaitable completed) | 2 path path (nulled position, error path)
                  | 3 path (cancelled) | 4 path (orphaned)
   [999990+] = malformed input. *)
From GV Require Import Base.Prelude Exec.ErrorsAlg Exec.Async.

Definition kind_of (n : N) : kind := match n with 0 => KObj | 1 => KList | _ => KSer end.
Definition enc_kind (k : kind) : N := match k with KObj => 0 | KList => 1 | KSer => 2 end.

Fixpoint dec_node (fuel : nat) (l : list N) : option (node * list N) :=
  match fuel with
  | O => None
  | S f =>
    match l with
    | k :: nn :: a :: tag :: r =>
      let mk o ks := Node k (nn =? 1) (a =? 1) o ks in
      match tag with
      | 0 => Some (mk ORaise [], r)
      | 1 => Some (mk ONull [], r)
      | 2 => match r with v :: r' => Some (mk (OLeaf v) [], r') | [] => None end
      | 3 => match r with
             | kd :: cnt :: r' =>
               match dec_nodes f (N.to_nat cnt) r' with
               | Some (ks, r'') => Some (mk (OKids (kind_of kd)) ks, r'')
               | None => None
               end
             | _ => None
             end
      | _ => None
      end
    | _ => None
    end
  end
with dec_nodes (fuel : nat) (cnt : nat) (l : list N) : option (list node * list N) :=
  match fuel with
  | O => None
  | S f =>
    match cnt with
    | O => Some ([], l)
    | S c =>
      match dec_node f l with
      | Some (n, r) =>
        match dec_nodes f c r with
        | Some (ns, r') => Some (n :: ns, r')
        | None => None
        end
      | None => None
      end
    end
  end.

Fixpoint dec_paths (cnt : nat) (l : list N) : list pos :=
  match cnt with
  | O => []
  | S c => match l with
           | n :: r => firstn (N.to_nat n) r :: dec_paths c (skipn (N.to_nat n) r)
           | [] => []
           end
  end.

Definition enc_path (p : pos) : list N := N.of_nat (length p) :: p.

Fixpoint enc_data (d : data) : list N :=
  match d with
  | DNull true => [0]
  | DNull false => [1]
  | DLeaf v => [2; v]
  | DKids kd fs =>
      3 :: enc_kind kd :: N.of_nat (length fs) ::
      (fix go (l : list (N * data)) : list N :=
         match l with
         | [] => []
         | (k, x) :: r => k :: enc_data x ++ go r
         end) fs
  end.

Definition enc_ev (e : ev) : list N :=
  match e with
  | ECall p => 0 :: enc_path p
  | EDone p => 1 :: enc_path p
  | EErr a o => 2 :: enc_path a ++ enc_path o
  | ECancel p => 3 :: enc_path p
  | EOrphan p => 4 :: enc_path p
  end.

Definition enc_answer (s : st) (evs : list ev) (skipped : list pos) : list N :=
  match s with
  | SDone _ d => 1 :: enc_data d
  | _ => [0; 1]
  end ++ N.of_nat (length skipped) :: flat_map enc_path skipped
      ++ N.of_nat (length evs) :: flat_map enc_ev evs.

Definition run_init (root : node) (sched : list pos) : list N :=
  match init root with
  | (ROk s0, e0) => let '(s, e1, sk) := exec s0 sched in enc_answer s (e0 ++ e1) sk
  | (RFail _, _) => [999993]
  end.

Definition data_eqb (a b : data) : bool := nat_list_eqb (enc_data a) (enc_data b).

(* statement checks evaluated on explored runs: data, outermost nulled positions = visible nulls,
   every error path and every cancelled/orphaned awaitable at or below a nulled position *)
Definition outermostb (P : list pos) (p : pos) : bool :=
  forallb (fun q => negb (prefixb q p) || nat_list_eqb q p) P.
Definition mem (p : pos) (l : list pos) : bool := existsb (nat_list_eqb p) l.
Definition subset (a b : list pos) : bool := forallb (fun p => mem p b) a.

Definition agree (ref : option data) (x : st * list ev) : bool :=
  match ref, result_data (fst x) with
  | Some a, Some b =>
      let np := nulled_positions (snd x) in
      data_eqb a b
      && subset (filter (outermostb np) np) (dnulls b) && subset (dnulls b) (filter (outermostb np) np)
      && forallb (fun o => nulled (dnulls b) o) (error_paths (snd x))
      && forallb (fun p => nulled np p) (cancelled (snd x) ++ orphaned (snd x))
  | _, _ => false
  end.

Definition run (inp : list N) : list N :=
  match inp with
  | op :: r =>
    match dec_node (S (length r)) r with
    | Some (root, r') =>
      match op with
      | 1 => match r' with
             | n :: r'' => run_init root (dec_paths (N.to_nat n) r'')
             | [] => [999992]
             end
      | 2 => run_init (desync root) []
      | 3 => match den root with Some d => 1 :: enc_data d | None => [0] end
      | 4 => match r', init root, sync_result root with
             | fuel :: _, (ROk s0, e0), (ROk sr, _) =>
                 let rs := explore (N.to_nat fuel) s0 e0 in
                 [N.of_nat (length rs); N.of_nat (length (filter (agree (result_data sr)) rs))]
             | _, _, _ => [999994]
             end
      | _ => [999991]
      end
    | None => [999990]
    end
  | [] => [999990]
  end.
