(* Executable entry of the extracted `async` model (Exec/Async.v).
   wire:  node  = key nonnull async tag ...   tag 0 raise | 1 null | 2 leaf v | 3 kids kind count node*
          kind  = 0 object | 1 list | 2 serial object
          path  = len elem*
   ops:   1 lp node nsched path*   -> run the schedule from init (lp = 1: execute() called inside a running loop): answer
          2 lp node                -> the synchronous run (all flags cleared): answer
          3 lp node                -> [1] data of den | [0] (den = fails)
          4 lp node fuel           -> all maximal schedules explored (background work included):  total agree
                                      agree = the statement checks of [agree] below hold
   answer: final(1/0) data nskipped path* npending path* nevents event*
          data  = 0 (error null) | 1 (null value) | 2 v | 3 kind count (key data)*
          event = tag bg path [path]   tag 0 call | 1 awaitable completed | 2 nulled position + error path
                                       | 3 cancelled | 4 abandoned;  bg = 1: background work (an error is dropped)
   [999990+] = malformed input. *)
From GV Require Import Base.Prelude Exec.ErrorsAlg Exec.Async.

Definition kind_of (n : N) : kind := match n with 0 => KObj | 1 => KList | _ => KSer end.
Definition enc_kind (k : kind) : N := match k with KObj => 0 | KList => 1 | KSer => 2 end.

Fixpoint dec_node (fuel : nat) (l : list N) : option (node * list N) :=
  match fuel with
  | O => None
  | S f =>
    match l with
    | k :: nn :: a :: tag :: r =>
      let mk o ks := Node k (nn =? 1) (a =? 1) o ks in
      match tag with
      | 0 => Some (mk ORaise [], r)
      | 1 => Some (mk ONull [], r)
      | 2 => match r with v :: r' => Some (mk (OLeaf v) [], r') | [] => None end
      | 3 => match r with
             | kd :: cnt :: r' =>
               match dec_nodes f (N.to_nat cnt) r' with
               | Some (ks, r'') => Some (mk (OKids (kind_of kd)) ks, r'')
               | None => None
               end
             | _ => None
             end
      | _ => None
      end
    | _ => None
    end
  end
with dec_nodes (fuel : nat) (cnt : nat) (l : list N) : option (list node * list N) :=
  match fuel with
  | O => None
  | S f =>
    match cnt with
    | O => Some ([], l)
    | S c =>
      match dec_node f l with
      | Some (n, r) =>
        match dec_nodes f c r with
        | Some (ns, r') => Some (n :: ns, r')
        | None => None
        end
      | None => None
      end
    end
  end.

Fixpoint dec_paths (cnt : nat) (l : list N) : list pos :=
  match cnt with
  | O => []
  | S c => match l with
           | n :: r => firstn (N.to_nat n) r :: dec_paths c (skipn (N.to_nat n) r)
           | [] => []
           end
  end.

Definition enc_path (p : pos) : list N := N.of_nat (length p) :: p.

Fixpoint enc_data (d : data) : list N :=
  match d with
  | DNull true => [0]
  | DNull false => [1]
  | DLeaf v => [2; v]
  | DKids kd fs =>
      3 :: enc_kind kd :: N.of_nat (length fs) ::
      (fix go (l : list (N * data)) : list N :=
         match l with
         | [] => []
         | (k, x) :: r => k :: enc_data x ++ go r
         end) fs
  end.

Definition enc_tag (t : tag) : N :=
  match t with TCall => 0 | TDone => 1 | TErr => 2 | TCancel => 3 | TOrphan => 4 end.
Definition enc_bool (b : bool) : N := if b then 1 else 0.
Definition enc_ev (e : ev) : list N :=
  match e with
  | Ev TErr b a o => 2 :: enc_bool b :: enc_path a ++ enc_path o
  | Ev t b p _ => enc_tag t :: enc_bool b :: enc_path p
  end.

Definition enc_answer (s : st) (evs : list ev) (skipped : list pos) : list N :=
  match s with
  | SDone _ d _ => 1 :: enc_data d
  | _ => [0; 1]
  end ++ N.of_nat (length skipped) :: flat_map enc_path skipped
      ++ N.of_nat (length (pend s)) :: flat_map enc_path (pend s)
      ++ N.of_nat (length evs) :: flat_map enc_ev evs.

Definition run_init (lp : bool) (root : node) (sched : list pos) : list N :=
  match init lp root with
  | (ROk s0, e0) => let '(s, e1, sk) := exec s0 sched in enc_answer s (e0 ++ e1) sk
  | (RFail _ _, _) => [999993]
  end.

Definition data_eqb (a b : data) : bool := nat_list_eqb (enc_data a) (enc_data b).

(* statement checks evaluated on explored runs: data, outermost nulled positions = visible nulls,
   every error path and every cancelled/orphaned awaitable at or below a nulled position *)
Definition outermostb (P : list pos) (p : pos) : bool :=
  forallb (fun q => negb (prefixb q p) || nat_list_eqb q p) P.
Definition mem (p : pos) (l : list pos) : bool := existsb (nat_list_eqb p) l.
Definition subset (a b : list pos) : bool := forallb (fun p => mem p b) a.

Fixpoint ordb (K : list N) : list N -> bool :=
  fix inner (l : list N) : bool :=
    match l with
    | [] => true
    | x :: l' =>
        match K with
        | [] => false
        | k :: K' => if x =? k then inner l' else ordb K' l
        end
    end.
Definition fields (evs : list ev) : list N :=
  flat_map (fun e => match ev_pos e with k :: _ => [k] | [] => [] end) evs.
Definition serial_ok (root : node) (evs : list ev) : bool :=
  match root with
  | Node _ _ _ (OKids KSer) ks => ordb (map key ks) (fields evs)
  | _ => true
  end.

Definition agree (root : node) (ref : option data) (x : st * list ev) : bool :=
  match ref, result_data (fst x) with
  | Some a, Some b =>
      let np := nulled_positions (snd x) in
      data_eqb a b && serial_ok root (snd x)
      && subset (filter (outermostb np) np) (dnulls b) && subset (dnulls b) (filter (outermostb np) np)
      && forallb (fun o => nulled (dnulls b) o) (error_paths (snd x))
      && forallb (fun p => nulled np p) (cancelled (snd x) ++ orphaned (snd x))
  | _, _ => false
  end.

Definition run (inp : list N) : list N :=
  match inp with
  | op :: lpn :: r =>
    let lp := lpn =? 1 in
    match dec_node (S (length r)) r with
    | Some (root, r') =>
      match op with
      | 1 => match r' with
             | n :: r'' => run_init lp root (dec_paths (N.to_nat n) r'')
             | [] => [999992]
             end
      | 2 => run_init false (desync root) []
      | 3 => match den root with Some d => 1 :: enc_data d | None => [0] end
      | 4 => match r', init lp root, sync_result root with
             | fuel :: _, (ROk s0, e0), (ROk sr, _) =>
                 let rs := explore (N.to_nat fuel) s0 e0 in
                 [N.of_nat (length rs); N.of_nat (length (filter (agree root (result_data sr)) rs))]
             | _, _, _ => [999994]
             end
      | _ => [999991]
      end
    | None => [999990]
    end
  | _ => [999990]
  end.
