(* Executable entry of the extracted C20 model: opcode :: payload.
   opcode 1: payload = encoded raw schema; answer = 0 :: codes of the violated rule kinds
             (kind_code, with repetitions), or [1] when the payload does not decode.
   opcode 2: same payload; answer = 0 :: number of non-null cycle reports :: number of
             default-value cycle reports (or [2] when a detector ran out of fuel).
   Wire format (all non-negative ints):
     schema    := ntypes type* root root root ndirs directive*
     root      := 0 | name+1
     type      := name tag ...   tag 0: sort | 1,2: nfields field* nifaces name*
                                 | 3: n name* | 4: n name* | 5: oneof nfields inval* | 6: (not a type)
     field     := name tref dep nargs inval*
     inval     := name tref dep dflt
     tref      := 0 name | 1 tref | 2 tref
     dflt      := 0 | 1 | 2 lit
     lit       := 0 | 1 neg mag | 2 | 3 | 4 b | 5 name | 6 n lit* | 7 n (name lit)*
     directive := name isdirective haslocs nargs inval*                                          *)
From GV Require Import Base.Prelude Types.SchemaValidate.

Definition dec (A : Type) : Type := list N -> option (A * list N).

Fixpoint dec_many {A} (d : dec A) (n : nat) (l : list N) : option (list A * list N) :=
  match n with
  | O => Some ([], l)
  | S n' =>
      match d l with
      | None => None
      | Some (a, r) =>
          match dec_many d n' r with
          | None => None
          | Some (xs, r') => Some (a :: xs, r')
          end
      end
  end.

Definition dec_counted {A} (d : dec A) : dec (list A) :=
  fun l => match l with
           | n :: r => if (N.to_nat n <=? length r)%nat then dec_many d (N.to_nat n) r else None
           | [] => None
           end.

Definition dec_n : dec N :=
  fun l => match l with n :: r => Some (n, r) | [] => None end.

Definition dec_b : dec bool :=
  fun l => match l with n :: r => Some (negb (n =? 0), r) | [] => None end.

Fixpoint dec_tref (fuel : nat) (l : list N) : option (tref * list N) :=
  match fuel with
  | O => None
  | S f =>
      match l with
      | 0 :: n :: r => Some (TNamed n, r)
      | 1 :: r => match dec_tref f r with Some (t, r') => Some (TList t, r') | None => None end
      | 2 :: r => match dec_tref f r with Some (t, r') => Some (TNonNull t, r') | None => None end
      | _ => None
      end
  end.

Fixpoint dec_lit (fuel : nat) (l : list N) : option (lit * list N) :=
  match fuel with
  | O => None
  | S f =>
      match l with
      | 0 :: r => Some (LNull, r)
      | 1 :: neg :: mag :: r => Some (LInt (negb (neg =? 0)) mag, r)
      | 2 :: r => Some (LFloat, r)
      | 3 :: r => Some (LStr, r)
      | 4 :: b :: r => Some (LBool (negb (b =? 0)), r)
      | 5 :: n :: r => Some (LEnum n, r)
      | 6 :: r =>
          match dec_counted (dec_lit f) r with
          | Some (vs, r') => Some (LList vs, r')
          | None => None
          end
      | 7 :: r =>
          match dec_counted (fun l' => match l' with
                                       | k :: r1 => match dec_lit f r1 with
                                                    | Some (v, r2) => Some ((k, v), r2)
                                                    | None => None
                                                    end
                                       | [] => None
                                       end) r with
          | Some (kvs, r') => Some (LObj kvs, r')
          | None => None
          end
      | _ => None
      end
  end.

Definition dec_dflt (fuel : nat) : dec dflt :=
  fun l => match l with
           | 0 :: r => Some (DNone, r)
           | 1 :: r => Some (DInternal, r)
           | 2 :: r => match dec_lit fuel r with Some (v, r') => Some (DLit v, r') | None => None end
           | _ => None
           end.

Definition dec_inval (fuel : nat) : dec inval :=
  fun l =>
    match dec_n l with None => None | Some (n, r1) =>
    match dec_tref fuel r1 with None => None | Some (t, r2) =>
    match dec_b r2 with None => None | Some (dep, r3) =>
    match dec_dflt fuel r3 with None => None | Some (d, r4) =>
    Some (mkInval n t dep d, r4) end end end end.

Definition dec_field (fuel : nat) : dec field :=
  fun l =>
    match dec_n l with None => None | Some (n, r1) =>
    match dec_tref fuel r1 with None => None | Some (t, r2) =>
    match dec_b r2 with None => None | Some (dep, r3) =>
    match dec_counted (dec_inval fuel) r3 with None => None | Some (args, r4) =>
    Some (mkField n t dep args, r4) end end end end.

Definition dec_sort (n : N) : ssort :=
  match n with
  | 0 => SInt | 1 => SFloat | 2 => SString | 3 => SBoolean | 4 => SID | _ => SCustom
  end.

Definition dec_fields_ifaces (fuel : nat) : dec (list field * list N) :=
  fun l =>
    match dec_counted (dec_field fuel) l with None => None | Some (fs, r1) =>
    match dec_counted dec_n r1 with None => None | Some (ifs, r2) =>
    Some ((fs, ifs), r2) end end.

Definition dec_type (fuel : nat) : dec (N * tdef) :=
  fun l =>
    match l with
    | n :: 0 :: s :: r => Some ((n, DScalar (dec_sort s)), r)
    | n :: 1 :: r =>
        match dec_fields_ifaces fuel r with
        | Some ((fs, ifs), r') => Some ((n, DObject fs ifs), r') | None => None end
    | n :: 2 :: r =>
        match dec_fields_ifaces fuel r with
        | Some ((fs, ifs), r') => Some ((n, DInterface fs ifs), r') | None => None end
    | n :: 3 :: r =>
        match dec_counted dec_n r with Some (ms, r') => Some ((n, DUnion ms), r') | None => None end
    | n :: 4 :: r =>
        match dec_counted dec_n r with Some (vs, r') => Some ((n, DEnum vs), r') | None => None end
    | n :: 5 :: o :: r =>
        match dec_counted (dec_inval fuel) r with
        | Some (fs, r') => Some ((n, DInput (negb (o =? 0)) fs), r') | None => None end
    | n :: 6 :: r => Some ((n, DBogus), r)
    | _ => None
    end.

Definition dec_root : dec (option N) :=
  fun l => match l with
           | 0 :: r => Some (None, r)
           | n :: r => Some (Some (n - 1), r)
           | [] => None
           end.

Definition dec_directive (fuel : nat) : dec directive :=
  fun l =>
    match dec_n l with None => None | Some (n, r0) =>
    match dec_b r0 with None => None | Some (isd, r1) =>
    match dec_b r1 with None => None | Some (hl, r2) =>
    match dec_counted (dec_inval fuel) r2 with None => None | Some (args, r3) =>
    Some (mkDir n isd hl args, r3) end end end end.

Definition dec_schema (l : list N) : option raw_schema :=
  let fuel := length l in
  match dec_counted (dec_type fuel) l with None => None | Some (ts, r1) =>
  match dec_root r1 with None => None | Some (q, r2) =>
  match dec_root r2 with None => None | Some (m, r3) =>
  match dec_root r3 with None => None | Some (s, r4) =>
  match dec_counted (dec_directive fuel) r4 with None => None | Some (ds, r5) =>
  match r5 with [] => Some (mkSchema ts q m s ds) | _ => None end
  end end end end end.

Definition of_nat (n : nat) : N := N.of_nat n.

Definition run (inp : list N) : list N :=
  match inp with
  | 1 :: payload =>
      match dec_schema payload with
      | Some rs => 0 :: map kind_code (validate rs)
      | None => [1]
      end
  | 2 :: payload =>
      match dec_schema payload with
      | Some rs =>
          match nn_detect rs, dv_detect rs with
          | Some a, Some b => [0; of_nat (length (d_reports a)); of_nat (length (d_reports b))]
          | _, _ => [2]
          end
      | None => [1]
      end
  | _ => [999999]
  end.
