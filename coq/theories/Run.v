(* Single executable entry point of the extracted model: opcode :: payload. *)
From GV Require Import Base.Prelude Lang.Location Lang.Render Lang.Lexer Lang.Visit Lang.VisitWire Lang.PrintString.

Definition nat_of (n : N) : nat := N.to_nat n.
Definition of_nat (n : nat) : N := N.of_nat n.

Definition enc_token (t : token) : list N :=
  [tkind t; of_nat (tstart t); of_nat (tend t); of_nat (tline t); of_nat (tcol t);
   (if thasval t then 1 else 0); of_nat (length (tvalue t))] ++ tvalue t.

Definition enc_lex (o : outcome (list token)) : list N :=
  match o with
  | Ok ts => 0 :: of_nat (length ts) :: flat_map enc_token ts
  | SyntaxErr p => [1; of_nat p]
  | Crash w => [2; w]
  | OutOfFuel => [3]
  end.

Definition run (inp : list N) : list N :=
  match inp with
  | 1 :: pos :: body =>
      let '(l, c) := get_location body (nat_of pos) in [of_nat l; of_nat c]
  | 2 :: pad :: line :: body =>
      match render_line (nat_of pad) body (nat_of line) with
      | None => [0]
      | Some l => 1 :: l
      end
  | 3 :: line :: ls :: pos :: s =>
      let '(l, c) := scan_lines (nat_of line) (nat_of ls) (nat_of pos) s in [of_nat l; of_nat c]
  | 4 :: pad :: lineoff :: line :: column :: namelen :: rest =>
      let n := nat_of namelen in
      match print_source_location (firstn n rest) (nat_of pad) (nat_of lineoff) (nat_of line)
                                  (nat_of column) (skipn n rest) with
      | None => [0]
      | Some t => 1 :: t
      end
  | 10 :: body => enc_lex (lex body)
  | 11 :: body => enc_lex (coord_lex body)
  | 12 :: body => print_string body
  | 20 :: r => run_visit r
  | 21 :: r => run_parallel r
  | _ => [999999]
  end.
