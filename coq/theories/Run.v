(* Single executable entry point of the extracted model: opcode :: payload. *)
From GV Require Import Base.Prelude Lang.Location.

Definition nat_of (n : N) : nat := N.to_nat n.
Definition of_nat (n : nat) : N := N.of_nat n.

Definition run (inp : list N) : list N :=
  match inp with
  | 1 :: pos :: body =>
      let '(l, c) := get_location body (nat_of pos) in [of_nat l; of_nat c]
  | 2 :: pad :: line :: body =>
      match render_line (nat_of pad) body (nat_of line) with
      | None => [0]
      | Some l => 1 :: l
      end
  | 3 :: line :: ls :: pos :: s =>
      let '(l, c) := scan_lines (nat_of line) (nat_of ls) (nat_of pos) s in [of_nat l; of_nat c]
  | _ => [999999]
  end.
