(* Executable model of src/graphql/language/block_string.py (print_block_string,
   is_printable_as_block_string) and of the printer's line-by-line re-indentation
   (printer.py indent/block: LF -> LF ++ pad).  Definitions only; proofs in
   BlockStringProps.v.  The lexer side (read_block_loop, dedent, join_lf) lives in Lexer.v. *)
From GV Require Import Base.Prelude Lang.Location Lang.Lexer.

(* value.replace(triple quote, backslash + triple quote): leftmost, non-overlapping occurrences *)
Fixpoint escape_tq (s : list N) : list N :=
  match s with
  | [] => []
  | c :: t =>
    match t with
    | d :: e :: t3 =>
      if (c =? 34) && (d =? 34) && (e =? 34) then 92 :: 34 :: 34 :: 34 :: escape_tq t3
      else c :: escape_tq t
    | _ => c :: escape_tq t
    end
  end.

(* str.endswith *)
Fixpoint ends_with (suf s : list N) : bool :=
  nat_list_eqb suf s || match s with [] => false | _ :: t => ends_with suf t end.

(* `not line or line[0] in SPACE TAB` *)
Definition empty_or_blank_start (l : list N) : bool :=
  match l with [] => true | c :: _ => is_blank_char c end.

(* `value and value[0] in SPACE TAB` *)
Definition starts_blank (l : list N) : bool :=
  match l with [] => false | c :: _ => is_blank_char c end.

Definition TQ : list N := [34; 34; 34].

Definition print_block_string (value : list N) (minimize : bool) : list N :=
  let escaped := escape_tq value in
  let lines := split_lines escaped in
  let num_lines := length lines in
  let is_single_line := Nat.eqb num_lines 1 in
  let force_leading_new_line :=
      Nat.ltb 1 num_lines && forallb empty_or_blank_start (tl lines) in
  let has_trailing_triple_quotes := ends_with [92; 34; 34; 34] escaped in
  let has_trailing_quote := ends_with [34] value && negb has_trailing_triple_quotes in
  let has_trailing_slash := ends_with [92] value in
  let force_trailing_new_line := has_trailing_quote || has_trailing_slash in
  let print_as_multiple_lines :=
      negb minimize &&
      (negb is_single_line || Nat.ltb 70 (length value) || force_trailing_new_line
       || force_leading_new_line || has_trailing_triple_quotes) in
  let skip_leading_new_line := is_single_line && starts_blank value in
  let before :=
      if (print_as_multiple_lines && negb skip_leading_new_line) || force_leading_new_line
      then [LF] else [] in
  let after := if print_as_multiple_lines || force_trailing_new_line then [LF] else [] in
  TQ ++ before ++ escaped ++ after ++ TQ.

(* is_printable_as_block_string: the loop state is
   (is_empty_line, has_indent, has_common_indent, seen_non_empty_line) *)
Fixpoint printable_loop (ie hi hci seen : bool) (s : list N) : bool :=
  match s with
  | [] => negb ie && negb (hci && seen)
  | c :: t =>
    if c =? LF then
      if ie && negb seen then false else printable_loop true false hci true t
    else if is_blank_char c then printable_loop ie (hi || ie) hci seen t
    else if c <=? 15 then false
    else printable_loop false hi (hci && hi) seen t
  end.

Definition is_printable_as_block_string (value : list N) : bool :=
  match value with
  | [] => true
  | _ => printable_loop true false true false value
  end.

(* printer.py indent: string.replace(LF, LF + pad) *)
Fixpoint indent_by (pad : list N) (s : list N) : list N :=
  match s with
  | [] => []
  | c :: t => if c =? LF then LF :: pad ++ indent_by pad t else c :: indent_by pad t
  end.

(* a stack of indentations, innermost first: indent_all [p1; p2] s = indent_by p2 (indent_by p1 s) *)
Fixpoint indent_all (pads : list (list N)) (s : list N) : list N :=
  match pads with
  | [] => s
  | p :: r => indent_all r (indent_by p s)
  end.

(* ---- the lexer's denotation of block-string contents ---- *)
(* value of the token that the lexer reads from  TQ raw TQ  (TQ = the triple quote) *)
Definition block_value (raw : list N) : outcome (list N) :=
  match read_token init_cursor (TQ ++ raw ++ TQ) with
  | Ok (tk, _, _) => Ok (tvalue tk)
  | SyntaxErr p => SyntaxErr p
  | Crash w => Crash w
  | OutOfFuel => OutOfFuel
  end.

(* ---- decidable characterisation of the range of that denotation ---- *)
Definition has_cr (v : list N) : bool := existsb (N.eqb CR) v.

Definition zero_indent_line (l : list N) : bool :=
  negb (line_blank l) && Nat.eqb (leading_ws l) 0.

Definition in_block_range (v : list N) : bool :=
  negb (has_cr v) &&
  match v with
  | [] => true
  | _ =>
    let ls := split_lines v in
    negb (line_blank (hd [] ls)) && negb (line_blank (last ls [])) &&
    (Nat.eqb (length ls) 1 || existsb zero_indent_line (tl ls) || Nat.eqb (leading_ws (hd [] ls)) 0)
  end.
