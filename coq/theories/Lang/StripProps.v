(* Proofs about the model of strip_ignored_characters (Lang/Strip.v). *)
From GV Require Import Base.Prelude Lang.Lexer Lang.LexerProps Lang.BlockString Lang.BlockStringProps Lang.Strip.

(* ---- rejected sources stay rejected, at the same position; accepted sources are stripped ---- *)
Lemma strip_loop_lex fuel : forall body cu s last,
  match lex_loop fuel cu s with
  | Ok _ => exists out, strip_loop fuel body cu s last = Ok out
  | SyntaxErr q => strip_loop fuel body cu s last = SyntaxErr q
  | Crash w => strip_loop fuel body cu s last = Crash w
  | OutOfFuel => strip_loop fuel body cu s last = OutOfFuel
  end.
Proof.
  induction fuel as [|f IH]; intros body cu s last; [reflexivity|].
  cbn [lex_loop strip_loop].
  destruct (read_token cu s) as [[[tk cu'] s']| | |]; try reflexivity.
  destruct (tkind tk =? K_EOF); [eexists; reflexivity|].
  destruct (tkind tk =? K_COMMENT).
  - specialize (IH body cu' s' last). destruct (lex_loop f cu' s'); exact IH.
  - specialize (IH body cu' s' (negb (is_punct_kind (tkind tk)))).
    destruct (lex_loop f cu' s'); [|rewrite IH; reflexivity..].
    destruct IH as (out & ->). eexists; reflexivity.
Qed.

Theorem strip_rejects_stay s q : lex s = SyntaxErr q -> strip s = SyntaxErr q.
Proof.
  unfold lex, strip. intros H.
  pose proof (strip_loop_lex (S (length s)) s init_cursor s false) as L. rewrite H in L. exact L.
Qed.

Theorem strip_accepts s ts : lex s = Ok ts -> exists out, strip s = Ok out.
Proof.
  unfold lex, strip. intros H.
  pose proof (strip_loop_lex (S (length s)) s init_cursor s false) as L. rewrite H in L. exact L.
Qed.

(* ================================================================== *)
(* A. small helpers                                                    *)
(* ================================================================== *)

Lemma peek_app_ne (P : N -> bool) a r : a <> [] -> peek_is P (a ++ r) = peek_is P a.
Proof. destruct a; [congruence|reflexivity]. Qed.

Lemma peek_is_mono (P Q : N -> bool) r :
  (forall c, Q c = true -> P c = true) -> peek_is P r = false -> peek_is Q r = false.
Proof.
  intros H. destruct r as [|c t]; [reflexivity|]. cbn. intros HP.
  destruct (Q c) eqn:E; [|reflexivity]. apply H in E. congruence.
Qed.

Lemma span_stop p r : peek_is p r = false -> span p r = ([], r).
Proof. destruct r as [|c t]; [reflexivity|]. cbn. intros ->. reflexivity. Qed.

Lemma span_app p a r : Forall (fun c => p c = true) a -> peek_is p r = false -> span p (a ++ r) = (a, r).
Proof.
  intros Ha Hr. induction Ha as [|c a Hc Ha IH]; [apply span_stop, Hr|].
  cbn. rewrite Hc, IH. reflexivity.
Qed.

Lemma skip_ignored_stop cu s : peek_is is_ignored_char s = false -> skip_ignored cu s = (cu, s).
Proof.
  destruct s as [|c t]; [reflexivity|]. cbn [peek_is]. unfold is_ignored_char. intros H.
  apply orb_false_iff in H as [H1 H2]. apply orb_false_iff in H1 as [H0 H1].
  cbn [skip_ignored]. rewrite H0, H1, H2. reflexivity.
Qed.

Lemma read_token_space cu s :
  read_token cu (32 :: s) = read_token (mkCur (S (cpos cu)) (cline cu) (cls cu)) s.
Proof. reflexivity. Qed.

(* ================================================================== *)
(* B. numbers: what was read is read again before any text that does   *)
(*    not start with a digit, a dot or a name start                    *)
(* ================================================================== *)

Definition is_dot_or_ns (c : N) : bool := (c =? 46) || is_name_start c.
Definition numstop (r : list N) : Prop :=
  peek_is is_digit r = false /\ peek_is is_dot_or_ns r = false.
Definition digits (d : list N) : Prop := Forall (fun c => is_digit c = true) d /\ d <> [].

Lemma read_digits_ana pos s e r : read_digits pos s = Ok (e, r) ->
  exists d, s = d ++ r /\ e = (pos + length d)%nat /\ digits d /\ peek_is is_digit r = false.
Proof.
  unfold read_digits. destruct (peek_is is_digit s) eqn:E; [|discriminate].
  destruct (span is_digit s) as [d r'] eqn:Es. intros H; inversion H; subst.
  pose proof (span_spec _ _ _ _ Es) as (-> & Hd & Hr). exists d. repeat split; auto.
  intros ->. cbn in E. rewrite E in Hr. discriminate.
Qed.

Lemma read_digits_syn d r pos : digits d -> peek_is is_digit r = false ->
  read_digits pos (d ++ r) = Ok ((pos + length d)%nat, r).
Proof.
  intros [Hd Hne] Hr. unfold read_digits. rewrite (peek_app_ne _ _ _ Hne).
  destruct d as [|c d']; [congruence|]. inversion Hd; subst. cbn [peek_is].
  replace (is_digit c) with true by auto. rewrite span_app; [reflexivity|constructor; auto|exact Hr].
Qed.

Lemma digits_peek d : digits d -> peek_is is_digit d = true.
Proof. intros [Hd Hne]. destruct d; [congruence|]. inversion Hd; subst. assumption. Qed.

(* a stage consumed [a], leaving r; it consumes [a] again before any r2 that satisfies [ok] *)
Lemma num_int_loc pos s e r : num_int pos s = Ok (e, r) ->
  exists a, s = a ++ r /\ e = (pos + length a)%nat /\ peek_is is_digit a = true /\
    peek_is is_digit r = false /\
    forall pos2 r2, peek_is is_digit r2 = false -> num_int pos2 (a ++ r2) = Ok ((pos2 + length a)%nat, r2).
Proof.
  unfold num_int. destruct (peek_is (N.eqb 48) s) eqn:E0.
  - destruct s as [|c t]; [discriminate|]. cbn [peek_is] in E0. apply N.eqb_eq in E0. subst c. cbn [tl].
    destruct (peek_is is_digit t) eqn:Ed; [discriminate|]. intros H; inversion H; subst.
    exists [48]. repeat split; auto; [cbn; lia|]. intros pos2 r2 H2. cbn. rewrite H2. f_equal. f_equal. lia.
  - intros H. apply read_digits_ana in H as (d & -> & -> & Hd & Hr).
    exists d. repeat split; auto; [apply digits_peek, Hd|]. intros pos2 r2 H2.
    rewrite (peek_app_ne _ d r (proj2 Hd)) in E0. rewrite (peek_app_ne _ d r2 (proj2 Hd)), E0.
    apply read_digits_syn; assumption.
Qed.

Lemma num_frac_loc pos s e fl r : num_frac pos s = Ok (e, fl, r) ->
  exists a, s = a ++ r /\ e = (pos + length a)%nat /\
    ((a = [] /\ fl = false /\ peek_is (N.eqb 46) r = false) \/
     (peek_is (N.eqb 46) a = true /\ fl = true /\ peek_is is_digit r = false)) /\
    forall pos2 r2, peek_is is_digit r2 = false -> peek_is (N.eqb 46) r2 = false ->
      num_frac pos2 (a ++ r2) = Ok ((pos2 + length a)%nat, fl, r2).
Proof.
  unfold num_frac. destruct (peek_is (N.eqb 46) s) eqn:E.
  - destruct s as [|c t]; [discriminate|]. cbn [peek_is] in E. apply N.eqb_eq in E. subst c. cbn [tl].
    destruct (read_digits (S pos) t) as [[p r']| | |] eqn:Ed; try discriminate.
    intros H; inversion H; subst. apply read_digits_ana in Ed as (d & -> & -> & Hd & Hr).
    exists (46 :: d). split; [reflexivity|]. split; [cbn; lia|]. split; [right; repeat split; auto|].
    intros pos2 r2 H2 _.
    cbn. rewrite (read_digits_syn d r2 (S pos2) Hd H2). f_equal. f_equal. f_equal. lia.
  - intros H; inversion H; subst. exists []. split; [reflexivity|]. split; [cbn; lia|].
    split; [left; repeat split; auto|].
    intros pos2 r2 _ H2. cbn [app]. rewrite H2. cbn. rewrite Nat.add_0_r. reflexivity.
Qed.

Definition is_e (c : N) : bool := (c =? 69) || (c =? 101).
Definition is_sgn (c : N) : bool := (c =? 43) || (c =? 45).

Lemma num_exp_loc pos fl0 s e fl r : num_exp pos fl0 s = Ok (e, fl, r) ->
  exists a, s = a ++ r /\ e = (pos + length a)%nat /\
    ((a = [] /\ fl = fl0 /\ peek_is is_e r = false) \/
     (peek_is is_e a = true /\ fl = true /\ peek_is is_digit r = false)) /\
    forall pos2 r2, peek_is is_digit r2 = false -> peek_is is_e r2 = false ->
      num_exp pos2 fl0 (a ++ r2) = Ok ((pos2 + length a)%nat, fl, r2).
Proof.
  unfold num_exp. fold is_e. fold is_sgn. destruct (peek_is is_e s) eqn:Ee.
  - destruct s as [|c t]; [discriminate|]. cbn [peek_is] in Ee. cbn [tl]. cbv zeta.
    destruct (peek_is is_sgn t) eqn:Es; cbn [fst snd].
    + destruct t as [|g t']; [discriminate|]. cbn [peek_is] in Es. cbn [tl].
      destruct (read_digits (S (S pos)) t') as [[p r']| | |] eqn:Ed; try discriminate.
      intros H; inversion H; subst. apply read_digits_ana in Ed as (d & -> & -> & Hd & Hr).
      exists (c :: g :: d). split; [reflexivity|]. split; [cbn; lia|]. split; [right; repeat split; auto|].
      intros pos2 r2 H2 _.
      cbn [app peek_is tl]. rewrite Ee, Es. cbn [fst snd].
      rewrite (read_digits_syn d r2 (S (S pos2)) Hd H2). f_equal. f_equal. f_equal. cbn; lia.
    + destruct (read_digits (S pos) t) as [[p r']| | |] eqn:Ed; try discriminate.
      intros H; inversion H; subst. apply read_digits_ana in Ed as (d & -> & -> & Hd & Hr).
      exists (c :: d). split; [reflexivity|]. split; [cbn; lia|]. split; [right; repeat split; auto|].
      intros pos2 r2 H2 _.
      cbn [app peek_is tl]. rewrite Ee.
      rewrite (peek_app_ne _ d r (proj2 Hd)) in Es. rewrite (peek_app_ne _ d r2 (proj2 Hd)), Es. cbn [fst snd].
      rewrite (read_digits_syn d r2 (S pos2) Hd H2). f_equal. f_equal. f_equal. cbn; lia.
  - intros H; inversion H; subst. exists []. split; [reflexivity|]. split; [cbn; lia|].
    split; [left; repeat split; auto|].
    intros pos2 r2 _ H2. cbn [app]. rewrite H2. cbn. rewrite Nat.add_0_r. reflexivity.
Qed.

Lemma peek_is_excl (P Q : N -> bool) a :
  (forall c, P c = true -> Q c = false) -> peek_is P a = true -> peek_is Q a = false.
Proof. intros H. destruct a as [|c t]; [discriminate|]. cbn. apply H. Qed.

Lemma peek_is_true_ne (P : N -> bool) a : peek_is P a = true -> a <> [].
Proof. destruct a; [discriminate|congruence]. Qed.

Lemma is_e_cases c : is_e c = true -> c = 69 \/ c = 101.
Proof. unfold is_e. intros H. apply orb_true_iff in H as [H|H]; apply N.eqb_eq in H; auto. Qed.

Lemma is_e_not_digit c : is_e c = true -> is_digit c = false.
Proof. intros H. apply is_e_cases in H as [->| ->]; reflexivity. Qed.
Lemma is_e_not_dot c : is_e c = true -> (46 =? c) = false.
Proof. intros H. apply is_e_cases in H as [->| ->]; reflexivity. Qed.
Lemma is_e_ns c : is_e c = true -> is_dot_or_ns c = true.
Proof. intros H. apply is_e_cases in H as [->| ->]; reflexivity. Qed.
Lemma dot_not_digit c : (46 =? c) = true -> is_digit c = false.
Proof. intros H. apply N.eqb_eq in H. subst. reflexivity. Qed.
Lemma dot_is_dot_or_ns c : (46 =? c) = true -> is_dot_or_ns c = true.
Proof. intros H. apply N.eqb_eq in H. subst. reflexivity. Qed.
Lemma digit_not_minus c : is_digit c = true -> (45 =? c) = false.
Proof.
  unfold is_digit. intros H. apply andb_true_iff in H as [H _]. apply N.leb_le in H.
  apply N.eqb_neq. lia.
Qed.

Lemma peek_app_false (P : N -> bool) a r :
  (a = [] \/ peek_is P a = false) -> peek_is P r = false -> peek_is P (a ++ r) = false.
Proof.
  intros [->|H] Hr; [exact Hr|]. destruct a; [exact Hr|exact H].
Qed.

Lemma read_number_loc start s e fl r : read_number start s = Ok (e, fl, r) ->
  exists a, s = a ++ r /\ e = (start + length a)%nat /\
    peek_is (fun c => is_digit c || (c =? 45)) a = true /\ numstop r /\
    forall pos2 r2, numstop r2 -> read_number pos2 (a ++ r2) = Ok ((pos2 + length a)%nat, fl, r2).
Proof.
  unfold read_number. cbv zeta. intros H.
  (* sign *)
  assert (Hsign : exists a0, s = a0 ++ snd (num_sign start s) /\
            fst (num_sign start s) = (start + length a0)%nat /\
            (a0 = [45] \/ a0 = [] /\ peek_is (N.eqb 45) s = false)).
  { unfold num_sign. destruct (peek_is (N.eqb 45) s) eqn:E.
    - destruct s as [|c t]; [discriminate|]. cbn [peek_is] in E. apply N.eqb_eq in E. subst c.
      exists [45]. cbn. repeat split; auto; lia.
    - exists []. cbn. repeat split; auto; lia. }
  destruct Hsign as (a0 & Es0 & Ep0 & Ha0).
  destruct (num_int (fst (num_sign start s)) (snd (num_sign start s))) as [[p1 s1]| | |] eqn:E1; try discriminate.
  cbn [obind fst snd] in H. apply num_int_loc in E1 as (a1 & Es1 & -> & Hd1 & Hr1 & L1).
  destruct (num_frac (fst (num_sign start s) + length a1) s1) as [[[p2 f2] s2]| | |] eqn:E2; try discriminate.
  cbn [obind fst snd] in H. apply num_frac_loc in E2 as (a2 & -> & -> & C2 & L2).
  destruct (num_exp (fst (num_sign start s) + length a1 + length a2) f2 s2) as [[[p3 f3] s3]| | |] eqn:E3;
    try discriminate.
  cbn [obind fst snd] in H. apply num_exp_loc in E3 as (a3 & -> & -> & C3 & L3).
  unfold num_end in H. fold is_dot_or_ns in H.
  destruct (peek_is is_dot_or_ns s3) eqn:Eend; [discriminate|]. inversion H; subst e fl r. clear H.
  assert (Hne1 : a1 <> []) by (apply peek_is_true_ne in Hd1; exact Hd1).
  (* what follows each stage *)
  assert (D3 : peek_is is_digit s3 = false).
  { destruct C3 as [(-> & _ & _)|(_ & _ & H)]; [|exact H]. cbn [app] in *.
    destruct C2 as [(-> & _ & _)|(_ & _ & H)]; [|exact H]. exact Hr1. }
  assert (A3d : a3 = [] \/ peek_is is_digit a3 = false).
  { destruct C3 as [(-> & _)|(H & _)]; [left; reflexivity|right]. eapply peek_is_excl; [|exact H]. apply is_e_not_digit. }
  assert (A3p : a3 = [] \/ peek_is (N.eqb 46) a3 = false).
  { destruct C3 as [(-> & _)|(H & _)]; [left; reflexivity|right]. eapply peek_is_excl; [|exact H]. apply is_e_not_dot. }
  assert (A2d : a2 = [] \/ peek_is is_digit a2 = false).
  { destruct C2 as [(-> & _)|(H & _)]; [left; reflexivity|right]. eapply peek_is_excl; [|exact H]. apply dot_not_digit. }
  exists (a0 ++ a1 ++ a2 ++ a3). split.
  { rewrite Es0 at 1. rewrite Es1. rewrite <- !app_assoc. reflexivity. }
  split; [rewrite Ep0, !app_length; lia|].
  split.
  { destruct Ha0 as [->|(-> & _)]; [reflexivity|]. cbn [app]. rewrite peek_app_ne by exact Hne1.
    destruct a1 as [|c t]; [congruence|]. cbn [peek_is] in *. rewrite Hd1. reflexivity. }
  split; [split; assumption|].
  intros pos2 r2 [R2d R2n].
  assert (R2e : peek_is is_e r2 = false) by (eapply peek_is_mono; [apply is_e_ns|exact R2n]).
  assert (R2p : peek_is (N.eqb 46) r2 = false) by (eapply peek_is_mono; [apply dot_is_dot_or_ns|exact R2n]).
  (* sign stage on the new text *)
  assert (Hs2 : num_sign pos2 ((a0 ++ a1 ++ a2 ++ a3) ++ r2)
                = ((pos2 + length a0)%nat, a1 ++ a2 ++ a3 ++ r2)).
  { unfold num_sign. destruct Ha0 as [->|(-> & Hm)].
    - cbn. f_equal; [lia|]. rewrite <- !app_assoc. reflexivity.
    - cbn [app]. rewrite <- !app_assoc. rewrite peek_app_ne by exact Hne1.
      replace (peek_is (N.eqb 45) a1) with false.
      + cbn. rewrite Nat.add_0_r. reflexivity.
      + symmetry. eapply peek_is_excl; [|exact Hd1]. apply digit_not_minus. }
  rewrite Hs2. cbn [fst snd].
  rewrite L1 by (apply peek_app_false; [exact A2d|apply peek_app_false; [exact A3d|exact R2d]]).
  cbn [obind fst snd].
  rewrite L2; [|apply peek_app_false; [exact A3d|exact R2d]|apply peek_app_false; [exact A3p|exact R2p]].
  cbn [obind fst snd].
  rewrite L3 by assumption. cbn [obind fst snd].
  unfold num_end. fold is_dot_or_ns. rewrite R2n. rewrite !app_length. f_equal. f_equal. f_equal. lia.
Qed.

(* ================================================================== *)
(* C. quoted strings: the lexeme up to the closing quote is read the   *)
(*    same way whatever follows                                        *)
(* ================================================================== *)

Lemma var_width_loc n : forall point size ds p sz,
  var_width n point size ds = Some (p, sz) ->
  forall r2, var_width n point size (firstn (sz - size) ds ++ r2) = Some (p, sz).
Proof.
  induction n as [|n IH]; intros point size ds p sz H r2; [discriminate|].
  pose proof (var_width_size _ _ _ _ _ _ H) as Hsz.
  cbn [var_width] in H. destruct ds as [|c t]; [discriminate|].
  destruct (sz - size)%nat as [|k] eqn:Ek; [lia|]. cbn [firstn app var_width].
  destruct (c =? 125) eqn:Ec.
  - destruct (Nat.ltb (S size) 5 || negb (is_scalar point)); [discriminate|]. exact H.
  - destruct (hex_digit c) as [h|]; [|discriminate].
    replace k with (sz - S size)%nat by lia. apply IH. exact H.
Qed.

Lemma hex4_inv ds c : hex4 ds = Some c -> exists h1 h2 h3 h4 t, ds = h1 :: h2 :: h3 :: h4 :: t.
Proof. destruct ds as [|h1 [|h2 [|h3 [|h4 t]]]]; try discriminate. intros _. repeat eexists. Qed.

Lemma read_escape_loc pos s v size : s <> [] -> read_escape pos s = Ok (v, size) ->
  forall pos2 r2, read_escape pos2 (firstn size s ++ r2) = Ok (v, size).
Proof.
  intros Hs H pos2 r2. destruct s as [|b r]; [congruence|].
  unfold read_escape in H. cbv zeta in H. cbn [tl] in H.
  destruct (peek_is (N.eqb 117) r) eqn:Eu.
  - destruct r as [|u r1]; [discriminate|]. cbn [tl] in H. cbn [peek_is] in Eu.
    destruct (peek_is (N.eqb 123) r1) eqn:Eb.
    + destruct r1 as [|br r3]; [discriminate|]. cbn [skipn] in H.
      destruct (var_width 9 0 3 r3) as [[p sz]|] eqn:Ev; [|discriminate]. inversion H; subst v size.
      pose proof (var_width_size _ _ _ _ _ _ Ev) as Hsz.
      destruct sz as [|[|[|k]]]; try lia. cbn [firstn app].
      unfold read_escape. cbv zeta. cbn [tl skipn peek_is]. rewrite Eu. cbn [peek_is] in Eb. rewrite Eb.
      pose proof (var_width_loc _ _ _ _ _ _ Ev r2) as L.
      replace (S (S (S k)) - 3)%nat with k in L by lia. rewrite L. reflexivity.
    + cbn [skipn] in H. destruct (hex4 r1) as [code|] eqn:Eh; [|discriminate].
      destruct (hex4_inv _ _ Eh) as (h1 & h2 & h3 & h4 & t4 & ->).
      destruct (is_scalar code) eqn:Esc.
      * inversion H; subst v size. cbn [firstn app].
        unfold read_escape. cbv zeta. cbn [tl skipn peek_is]. rewrite Eu. cbn [peek_is] in Eb. rewrite Eb.
        cbn [hex4] in Eh |- *. rewrite Eh, Esc. reflexivity.
      * destruct (is_lead code && starts2 92 117 t4) eqn:El; [|discriminate].
        destruct t4 as [|x [|y t6]]; try (cbn [starts2] in El; rewrite andb_false_r in El; discriminate).
        cbn [skipn] in H. destruct (hex4 t6) as [tr|] eqn:Eh2; [|discriminate].
        destruct (hex4_inv _ _ Eh2) as (k1 & k2 & k3 & k4 & t10 & ->).
        destruct (is_trail tr) eqn:Et; [|discriminate]. inversion H; subst v size. cbn [firstn app].
        unfold read_escape. cbv zeta. cbn [tl skipn peek_is]. rewrite Eu. cbn [peek_is] in Eb. rewrite Eb.
        cbn [hex4] in Eh, Eh2 |- *. rewrite Eh, Esc. cbn [starts2] in El |- *. rewrite El, Eh2, Et. reflexivity.
  - destruct r as [|c r']; [discriminate|]. destruct (escaped_char c) as [w|] eqn:Ee; [|discriminate].
    inversion H; subst v size. cbn [firstn app].
    unfold read_escape. cbv zeta. cbn [tl]. cbn [peek_is] in Eu |- *. rewrite Eu, Ee. reflexivity.
Qed.

Lemma firstn_skipn_app {A} n (s r2 : list A) : (n <= length s)%nat -> skipn n (firstn n s ++ r2) = r2.
Proof.
  intros H. rewrite skipn_app, firstn_length, Nat.min_l by exact H. rewrite Nat.sub_diag.
  rewrite skipn_firstn_comm, Nat.sub_diag. reflexivity.
Qed.

Lemma rsl_loc fuel : forall pos acc s e v r,
  read_string_loop fuel pos acc s = Ok (e, v, r) ->
  exists a, s = a ++ r /\ e = (pos + length a)%nat /\
    forall fuel2 pos2 r2, (length (a ++ r2) < fuel2)%nat ->
      read_string_loop fuel2 pos2 acc (a ++ r2) = Ok ((pos2 + length a)%nat, v, r2).
Proof.
  induction fuel as [|f IH]; intros pos acc s e v r H; [discriminate|].
  cbn [read_string_loop] in H. destruct s as [|c t]; [discriminate|].
  destruct (c =? 34) eqn:Eq.
  { inversion H; subst. exists [c]. split; [reflexivity|]. split; [cbn; lia|].
    intros fuel2 pos2 r2 Hf. destruct fuel2 as [|f2]; [lia|]. cbn [app read_string_loop]. rewrite Eq.
    cbn [length]. f_equal. f_equal. f_equal. lia. }
  destruct (c =? 92) eqn:Eb.
  { destruct (read_escape pos (c :: t)) as [[w size]| | |] eqn:Ee; try discriminate.
    pose proof (read_escape_size _ _ _ _ ltac:(discriminate) Ee) as Hsz.
    apply IH in H as (a' & Es & -> & L).
    exists (firstn size (c :: t) ++ a'). split.
    { rewrite <- app_assoc, <- Es. symmetry. apply firstn_skipn. }
    split; [rewrite app_length, firstn_length, Nat.min_l by lia; lia|].
    intros fuel2 pos2 r2 Hf. destruct fuel2 as [|f2]; [lia|].
    rewrite app_length, firstn_length, Nat.min_l in * by lia. rewrite <- app_assoc.
    assert (Ehd : firstn size (c :: t) ++ a' ++ r2 = c :: (firstn (size - 1) t ++ a' ++ r2)).
    { destruct size as [|k]; [lia|]. cbn [firstn app]. rewrite Nat.sub_0_r. reflexivity. }
    rewrite Ehd. cbn [read_string_loop]. rewrite Eq, Eb. rewrite <- Ehd.
    rewrite (read_escape_loc _ _ _ _ ltac:(discriminate) Ee pos2 (a' ++ r2)).
    rewrite firstn_skipn_app by lia. rewrite L.
    - f_equal. f_equal. f_equal. lia.
    - rewrite !app_length in *. lia. }
  destruct ((c =? LF) || (c =? CR)) eqn:Elt; [discriminate|].
  destruct (is_scalar c) eqn:Esc.
  { apply IH in H as (a' & -> & -> & L). exists (c :: a'). split; [reflexivity|]. split; [cbn; lia|].
    intros fuel2 pos2 r2 Hf. destruct fuel2 as [|f2]; [lia|]. cbn [app read_string_loop].
    rewrite Eq, Eb, Elt, Esc. rewrite L by (cbn [app length] in Hf; lia). cbn [length]. f_equal. f_equal. f_equal. lia. }
  destruct (is_lead c && peek_is is_trail t) eqn:Ep; [|discriminate].
  destruct t as [|d t']; [rewrite andb_false_r in Ep; discriminate|]. cbn [hd tl] in H.
  apply IH in H as (a' & -> & -> & L). exists (c :: d :: a'). split; [reflexivity|]. split; [cbn; lia|].
  intros fuel2 pos2 r2 Hf. destruct fuel2 as [|f2]; [lia|]. cbn [app read_string_loop].
  rewrite Eq, Eb, Elt, Esc. cbn [peek_is] in Ep |- *. rewrite Ep. cbn [hd tl].
  rewrite L by (cbn [app length] in Hf; lia). cbn [length]. f_equal. f_equal. f_equal. lia.
Qed.
