(* Proofs about the model of strip_ignored_characters (Lang/Strip.v).
   Outline: (B)-(C) what read_number / read_string_loop consumed is consumed again, with the same result,
   in front of any text that cannot extend it; (E) read_token_ana: shape of the gap and of the lexeme of
   every token read_token returns; (F) relex0: the text strip emits for a token (its lexeme, or the
   minimised block string re-printed from the value - round trip of Lang/StripBlock.v) is read back as a
   token of the same kind and value in front of whatever strip emits next; (G) strip_main, by induction on
   the lexer's fuel over the ORIGINAL source: the stripped text lexes to the same significant tokens, is
   tight, and is a fixed point of strip; (H) the theorems re-exported in Properties/C09strip.v. *)
From GV Require Import Base.Prelude Lang.Lexer Lang.LexerProps Lang.LexerLoc Lang.BlockString Lang.BlockStringProps Lang.StripBlock Lang.Strip.

(* ---- rejected sources stay rejected, at the same position; accepted sources are stripped ---- *)
Lemma strip_loop_lex fuel : forall body cu s last,
  match lex_loop fuel cu s with
  | Ok _ => exists out, strip_loop fuel body cu s last = Ok out
  | SyntaxErr q => strip_loop fuel body cu s last = SyntaxErr q
  | Crash w => strip_loop fuel body cu s last = Crash w
  | OutOfFuel => strip_loop fuel body cu s last = OutOfFuel
  end.
Proof.
  induction fuel as [|f IH]; intros body cu s last; [reflexivity|].
  cbn [lex_loop strip_loop].
  destruct (read_token cu s) as [[[tk cu'] s']| | |]; try reflexivity.
  destruct (tkind tk =? K_EOF); [eexists; reflexivity|].
  destruct (tkind tk =? K_COMMENT).
  - specialize (IH body cu' s' last). destruct (lex_loop f cu' s'); exact IH.
  - specialize (IH body cu' s' (negb (is_punct_kind (tkind tk)))).
    destruct (lex_loop f cu' s'); [|rewrite IH; reflexivity..].
    destruct IH as (out & ->). eexists; reflexivity.
Qed.

Theorem strip_rejects_stay s q : lex s = SyntaxErr q -> strip s = SyntaxErr q.
Proof.
  unfold lex, strip. intros H.
  pose proof (strip_loop_lex (S (length s)) s init_cursor s false) as L. rewrite H in L. exact L.
Qed.

Theorem strip_accepts s ts : lex s = Ok ts -> exists out, strip s = Ok out.
Proof.
  unfold lex, strip. intros H.
  pose proof (strip_loop_lex (S (length s)) s init_cursor s false) as L. rewrite H in L. exact L.
Qed.

(* ================================================================== *)
(* A. small helpers                                                    *)
(* ================================================================== *)

Lemma peek_app_ne (P : N -> bool) a r : a <> [] -> peek_is P (a ++ r) = peek_is P a.
Proof. destruct a; [congruence|reflexivity]. Qed.

Lemma peek_is_mono (P Q : N -> bool) r :
  (forall c, Q c = true -> P c = true) -> peek_is P r = false -> peek_is Q r = false.
Proof.
  intros H. destruct r as [|c t]; [reflexivity|]. cbn. intros HP.
  destruct (Q c) eqn:E; [|reflexivity]. apply H in E. congruence.
Qed.

Lemma span_stop p r : peek_is p r = false -> span p r = ([], r).
Proof. destruct r as [|c t]; [reflexivity|]. cbn. intros ->. reflexivity. Qed.

Lemma span_app p a r : Forall (fun c => p c = true) a -> peek_is p r = false -> span p (a ++ r) = (a, r).
Proof.
  intros Ha Hr. induction Ha as [|c a Hc Ha IH]; [apply span_stop, Hr|].
  cbn. rewrite Hc, IH. reflexivity.
Qed.

Lemma skip_ignored_stop cu s : peek_is is_ignored_char s = false -> skip_ignored cu s = (cu, s).
Proof.
  destruct s as [|c t]; [reflexivity|]. cbn [peek_is]. unfold is_ignored_char. intros H.
  apply orb_false_iff in H as [H1 H2]. apply orb_false_iff in H1 as [H0 H1].
  cbn [skip_ignored]. rewrite H0, H1, H2. reflexivity.
Qed.

Lemma read_token_space cu s :
  read_token cu (32 :: s) = read_token (mkCur (S (cpos cu)) (cline cu) (cls cu)) s.
Proof. reflexivity. Qed.

(* ================================================================== *)
(* B. numbers: what was read is read again before any text that does   *)
(*    not start with a digit, a dot or a name start                    *)
(* ================================================================== *)

Definition is_dot_or_ns (c : N) : bool := (c =? 46) || is_name_start c.
Definition numstop (r : list N) : Prop :=
  peek_is is_digit r = false /\ peek_is is_dot_or_ns r = false.
Definition digits (d : list N) : Prop := Forall (fun c => is_digit c = true) d /\ d <> [].

Lemma read_digits_ana pos s e r : read_digits pos s = Ok (e, r) ->
  exists d, s = d ++ r /\ e = (pos + length d)%nat /\ digits d /\ peek_is is_digit r = false.
Proof.
  unfold read_digits. destruct (peek_is is_digit s) eqn:E; [|discriminate].
  destruct (span is_digit s) as [d r'] eqn:Es. intros H; inversion H; subst.
  pose proof (span_spec _ _ _ _ Es) as (-> & Hd & Hr). exists d. repeat split; auto.
  intros ->. cbn in E. rewrite E in Hr. discriminate.
Qed.

Lemma read_digits_syn d r pos : digits d -> peek_is is_digit r = false ->
  read_digits pos (d ++ r) = Ok ((pos + length d)%nat, r).
Proof.
  intros [Hd Hne] Hr. unfold read_digits. rewrite (peek_app_ne _ _ _ Hne).
  destruct d as [|c d']; [congruence|]. inversion Hd; subst. cbn [peek_is].
  replace (is_digit c) with true by auto. rewrite span_app; [reflexivity|constructor; auto|exact Hr].
Qed.

Lemma digits_peek d : digits d -> peek_is is_digit d = true.
Proof. intros [Hd Hne]. destruct d; [congruence|]. inversion Hd; subst. assumption. Qed.

(* a stage consumed [a], leaving r; it consumes [a] again before any r2 that satisfies [ok] *)
Lemma num_int_loc pos s e r : num_int pos s = Ok (e, r) ->
  exists a, s = a ++ r /\ e = (pos + length a)%nat /\ peek_is is_digit a = true /\
    peek_is is_digit r = false /\
    forall pos2 r2, peek_is is_digit r2 = false -> num_int pos2 (a ++ r2) = Ok ((pos2 + length a)%nat, r2).
Proof.
  unfold num_int. destruct (peek_is (N.eqb 48) s) eqn:E0.
  - destruct s as [|c t]; [discriminate|]. cbn [peek_is] in E0. apply N.eqb_eq in E0. subst c. cbn [tl].
    destruct (peek_is is_digit t) eqn:Ed; [discriminate|]. intros H; inversion H; subst.
    exists [48]. repeat split; auto; [cbn; lia|]. intros pos2 r2 H2. cbn. rewrite H2. f_equal. f_equal. lia.
  - intros H. apply read_digits_ana in H as (d & -> & -> & Hd & Hr).
    exists d. repeat split; auto; [apply digits_peek, Hd|]. intros pos2 r2 H2.
    rewrite (peek_app_ne _ d r (proj2 Hd)) in E0. rewrite (peek_app_ne _ d r2 (proj2 Hd)), E0.
    apply read_digits_syn; assumption.
Qed.

Lemma num_frac_loc pos s e fl r : num_frac pos s = Ok (e, fl, r) ->
  exists a, s = a ++ r /\ e = (pos + length a)%nat /\
    ((a = [] /\ fl = false /\ peek_is (N.eqb 46) r = false) \/
     (peek_is (N.eqb 46) a = true /\ fl = true /\ peek_is is_digit r = false)) /\
    forall pos2 r2, peek_is is_digit r2 = false -> peek_is (N.eqb 46) r2 = false ->
      num_frac pos2 (a ++ r2) = Ok ((pos2 + length a)%nat, fl, r2).
Proof.
  unfold num_frac. destruct (peek_is (N.eqb 46) s) eqn:E.
  - destruct s as [|c t]; [discriminate|]. cbn [peek_is] in E. apply N.eqb_eq in E. subst c. cbn [tl].
    destruct (read_digits (S pos) t) as [[p r']| | |] eqn:Ed; try discriminate.
    intros H; inversion H; subst. apply read_digits_ana in Ed as (d & -> & -> & Hd & Hr).
    exists (46 :: d). split; [reflexivity|]. split; [cbn; lia|]. split; [right; repeat split; auto|].
    intros pos2 r2 H2 _.
    cbn. rewrite (read_digits_syn d r2 (S pos2) Hd H2). f_equal. f_equal. f_equal. lia.
  - intros H; inversion H; subst. exists []. split; [reflexivity|]. split; [cbn; lia|].
    split; [left; repeat split; auto|].
    intros pos2 r2 _ H2. cbn [app]. rewrite H2. cbn. rewrite Nat.add_0_r. reflexivity.
Qed.

Definition is_e (c : N) : bool := (c =? 69) || (c =? 101).
Definition is_sgn (c : N) : bool := (c =? 43) || (c =? 45).

Lemma num_exp_loc pos fl0 s e fl r : num_exp pos fl0 s = Ok (e, fl, r) ->
  exists a, s = a ++ r /\ e = (pos + length a)%nat /\
    ((a = [] /\ fl = fl0 /\ peek_is is_e r = false) \/
     (peek_is is_e a = true /\ fl = true /\ peek_is is_digit r = false)) /\
    forall pos2 r2, peek_is is_digit r2 = false -> peek_is is_e r2 = false ->
      num_exp pos2 fl0 (a ++ r2) = Ok ((pos2 + length a)%nat, fl, r2).
Proof.
  unfold num_exp. fold is_e. fold is_sgn. destruct (peek_is is_e s) eqn:Ee.
  - destruct s as [|c t]; [discriminate|]. cbn [peek_is] in Ee. cbn [tl]. cbv zeta.
    destruct (peek_is is_sgn t) eqn:Es; cbn [fst snd].
    + destruct t as [|g t']; [discriminate|]. cbn [peek_is] in Es. cbn [tl].
      destruct (read_digits (S (S pos)) t') as [[p r']| | |] eqn:Ed; try discriminate.
      intros H; inversion H; subst. apply read_digits_ana in Ed as (d & -> & -> & Hd & Hr).
      exists (c :: g :: d). split; [reflexivity|]. split; [cbn; lia|]. split; [right; repeat split; auto|].
      intros pos2 r2 H2 _.
      cbn [app peek_is tl]. rewrite Ee, Es. cbn [fst snd].
      rewrite (read_digits_syn d r2 (S (S pos2)) Hd H2). f_equal. f_equal. f_equal. cbn; lia.
    + destruct (read_digits (S pos) t) as [[p r']| | |] eqn:Ed; try discriminate.
      intros H; inversion H; subst. apply read_digits_ana in Ed as (d & -> & -> & Hd & Hr).
      exists (c :: d). split; [reflexivity|]. split; [cbn; lia|]. split; [right; repeat split; auto|].
      intros pos2 r2 H2 _.
      cbn [app peek_is tl]. rewrite Ee.
      rewrite (peek_app_ne _ d r (proj2 Hd)) in Es. rewrite (peek_app_ne _ d r2 (proj2 Hd)), Es. cbn [fst snd].
      rewrite (read_digits_syn d r2 (S pos2) Hd H2). f_equal. f_equal. f_equal. cbn; lia.
  - intros H; inversion H; subst. exists []. split; [reflexivity|]. split; [cbn; lia|].
    split; [left; repeat split; auto|].
    intros pos2 r2 _ H2. cbn [app]. rewrite H2. cbn. rewrite Nat.add_0_r. reflexivity.
Qed.

Lemma peek_is_excl (P Q : N -> bool) a :
  (forall c, P c = true -> Q c = false) -> peek_is P a = true -> peek_is Q a = false.
Proof. intros H. destruct a as [|c t]; [discriminate|]. cbn. apply H. Qed.

Lemma peek_is_true_ne (P : N -> bool) a : peek_is P a = true -> a <> [].
Proof. destruct a; [discriminate|congruence]. Qed.

Lemma is_e_cases c : is_e c = true -> c = 69 \/ c = 101.
Proof. unfold is_e. intros H. apply orb_true_iff in H as [H|H]; apply N.eqb_eq in H; auto. Qed.

Lemma is_e_not_digit c : is_e c = true -> is_digit c = false.
Proof. intros H. apply is_e_cases in H as [->| ->]; reflexivity. Qed.
Lemma is_e_not_dot c : is_e c = true -> (46 =? c) = false.
Proof. intros H. apply is_e_cases in H as [->| ->]; reflexivity. Qed.
Lemma is_e_ns c : is_e c = true -> is_dot_or_ns c = true.
Proof. intros H. apply is_e_cases in H as [->| ->]; reflexivity. Qed.
Lemma dot_not_digit c : (46 =? c) = true -> is_digit c = false.
Proof. intros H. apply N.eqb_eq in H. subst. reflexivity. Qed.
Lemma dot_is_dot_or_ns c : (46 =? c) = true -> is_dot_or_ns c = true.
Proof. intros H. apply N.eqb_eq in H. subst. reflexivity. Qed.
Lemma digit_not_minus c : is_digit c = true -> (45 =? c) = false.
Proof.
  unfold is_digit. intros H. apply andb_true_iff in H as [H _]. apply N.leb_le in H.
  apply N.eqb_neq. lia.
Qed.

Lemma peek_app_false (P : N -> bool) a r :
  (a = [] \/ peek_is P a = false) -> peek_is P r = false -> peek_is P (a ++ r) = false.
Proof.
  intros [->|H] Hr; [exact Hr|]. destruct a; [exact Hr|exact H].
Qed.

Lemma read_number_loc start s e fl r : read_number start s = Ok (e, fl, r) ->
  exists a, s = a ++ r /\ e = (start + length a)%nat /\
    peek_is (fun c => is_digit c || (c =? 45)) a = true /\ numstop r /\
    forall pos2 r2, numstop r2 -> read_number pos2 (a ++ r2) = Ok ((pos2 + length a)%nat, fl, r2).
Proof.
  unfold read_number. cbv zeta. intros H.
  (* sign *)
  assert (Hsign : exists a0, s = a0 ++ snd (num_sign start s) /\
            fst (num_sign start s) = (start + length a0)%nat /\
            (a0 = [45] \/ a0 = [] /\ peek_is (N.eqb 45) s = false)).
  { unfold num_sign. destruct (peek_is (N.eqb 45) s) eqn:E.
    - destruct s as [|c t]; [discriminate|]. cbn [peek_is] in E. apply N.eqb_eq in E. subst c.
      exists [45]. cbn. repeat split; auto; lia.
    - exists []. cbn. repeat split; auto; lia. }
  destruct Hsign as (a0 & Es0 & Ep0 & Ha0).
  destruct (num_int (fst (num_sign start s)) (snd (num_sign start s))) as [[p1 s1]| | |] eqn:E1; try discriminate.
  cbn [obind fst snd] in H. apply num_int_loc in E1 as (a1 & Es1 & -> & Hd1 & Hr1 & L1).
  destruct (num_frac (fst (num_sign start s) + length a1) s1) as [[[p2 f2] s2]| | |] eqn:E2; try discriminate.
  cbn [obind fst snd] in H. apply num_frac_loc in E2 as (a2 & -> & -> & C2 & L2).
  destruct (num_exp (fst (num_sign start s) + length a1 + length a2) f2 s2) as [[[p3 f3] s3]| | |] eqn:E3;
    try discriminate.
  cbn [obind fst snd] in H. apply num_exp_loc in E3 as (a3 & -> & -> & C3 & L3).
  unfold num_end in H. fold is_dot_or_ns in H.
  destruct (peek_is is_dot_or_ns s3) eqn:Eend; [discriminate|]. inversion H; subst e fl r. clear H.
  assert (Hne1 : a1 <> []) by (apply peek_is_true_ne in Hd1; exact Hd1).
  (* what follows each stage *)
  assert (D3 : peek_is is_digit s3 = false).
  { destruct C3 as [(-> & _ & _)|(_ & _ & H)]; [|exact H]. cbn [app] in *.
    destruct C2 as [(-> & _ & _)|(_ & _ & H)]; [|exact H]. exact Hr1. }
  assert (A3d : a3 = [] \/ peek_is is_digit a3 = false).
  { destruct C3 as [(-> & _)|(H & _)]; [left; reflexivity|right]. eapply peek_is_excl; [|exact H]. apply is_e_not_digit. }
  assert (A3p : a3 = [] \/ peek_is (N.eqb 46) a3 = false).
  { destruct C3 as [(-> & _)|(H & _)]; [left; reflexivity|right]. eapply peek_is_excl; [|exact H]. apply is_e_not_dot. }
  assert (A2d : a2 = [] \/ peek_is is_digit a2 = false).
  { destruct C2 as [(-> & _)|(H & _)]; [left; reflexivity|right]. eapply peek_is_excl; [|exact H]. apply dot_not_digit. }
  exists (a0 ++ a1 ++ a2 ++ a3). split.
  { rewrite Es0 at 1. rewrite Es1. rewrite <- !app_assoc. reflexivity. }
  split; [rewrite Ep0, !app_length; lia|].
  split.
  { destruct Ha0 as [->|(-> & _)]; [reflexivity|]. cbn [app]. rewrite peek_app_ne by exact Hne1.
    destruct a1 as [|c t]; [congruence|]. cbn [peek_is] in *. rewrite Hd1. reflexivity. }
  split; [split; assumption|].
  intros pos2 r2 [R2d R2n].
  assert (R2e : peek_is is_e r2 = false) by (eapply peek_is_mono; [apply is_e_ns|exact R2n]).
  assert (R2p : peek_is (N.eqb 46) r2 = false) by (eapply peek_is_mono; [apply dot_is_dot_or_ns|exact R2n]).
  (* sign stage on the new text *)
  assert (Hs2 : num_sign pos2 ((a0 ++ a1 ++ a2 ++ a3) ++ r2)
                = ((pos2 + length a0)%nat, a1 ++ a2 ++ a3 ++ r2)).
  { unfold num_sign. destruct Ha0 as [->|(-> & Hm)].
    - cbn. f_equal; [lia|]. rewrite <- !app_assoc. reflexivity.
    - cbn [app]. rewrite <- !app_assoc. rewrite peek_app_ne by exact Hne1.
      replace (peek_is (N.eqb 45) a1) with false.
      + cbn. rewrite Nat.add_0_r. reflexivity.
      + symmetry. eapply peek_is_excl; [|exact Hd1]. apply digit_not_minus. }
  rewrite Hs2. cbn [fst snd].
  rewrite L1 by (apply peek_app_false; [exact A2d|apply peek_app_false; [exact A3d|exact R2d]]).
  cbn [obind fst snd].
  rewrite L2; [|apply peek_app_false; [exact A3d|exact R2d]|apply peek_app_false; [exact A3p|exact R2p]].
  cbn [obind fst snd].
  rewrite L3 by assumption. cbn [obind fst snd].
  unfold num_end. fold is_dot_or_ns. rewrite R2n. rewrite !app_length. f_equal. f_equal. f_equal. lia.
Qed.

(* ================================================================== *)
(* C. quoted strings: the lexeme up to the closing quote is read the   *)
(*    same way whatever follows                                        *)
(* ================================================================== *)

Lemma var_width_loc n : forall point size ds p sz,
  var_width n point size ds = Some (p, sz) ->
  forall r2, var_width n point size (firstn (sz - size) ds ++ r2) = Some (p, sz).
Proof.
  induction n as [|n IH]; intros point size ds p sz H r2; [discriminate|].
  pose proof (var_width_size _ _ _ _ _ _ H) as Hsz.
  cbn [var_width] in H. destruct ds as [|c t]; [discriminate|].
  destruct (sz - size)%nat as [|k] eqn:Ek; [lia|]. cbn [firstn app var_width].
  destruct (c =? 125) eqn:Ec.
  - destruct (Nat.ltb (S size) 5 || negb (is_scalar point)); [discriminate|]. exact H.
  - destruct (hex_digit c) as [h|]; [|discriminate].
    replace k with (sz - S size)%nat by lia. apply IH. exact H.
Qed.

Lemma hex4_inv ds c : hex4 ds = Some c -> exists h1 h2 h3 h4 t, ds = h1 :: h2 :: h3 :: h4 :: t.
Proof. destruct ds as [|h1 [|h2 [|h3 [|h4 t]]]]; try discriminate. intros _. repeat eexists. Qed.

Lemma read_escape_loc pos s v size : s <> [] -> read_escape pos s = Ok (v, size) ->
  forall pos2 r2, read_escape pos2 (firstn size s ++ r2) = Ok (v, size).
Proof.
  intros Hs H pos2 r2. destruct s as [|b r]; [congruence|].
  unfold read_escape in H. cbv zeta in H. cbn [tl] in H.
  destruct (peek_is (N.eqb 117) r) eqn:Eu.
  - destruct r as [|u r1]; [discriminate|]. cbn [tl] in H. cbn [peek_is] in Eu.
    destruct (peek_is (N.eqb 123) r1) eqn:Eb.
    + destruct r1 as [|br r3]; [discriminate|]. cbn [skipn] in H.
      destruct (var_width 9 0 3 r3) as [[p sz]|] eqn:Ev; [|discriminate]. inversion H; subst v size.
      pose proof (var_width_size _ _ _ _ _ _ Ev) as Hsz.
      destruct sz as [|[|[|k]]]; try lia. cbn [firstn app].
      unfold read_escape. cbv zeta. cbn [tl skipn peek_is]. rewrite Eu. cbn [peek_is] in Eb. rewrite Eb.
      pose proof (var_width_loc _ _ _ _ _ _ Ev r2) as L.
      replace (S (S (S k)) - 3)%nat with k in L by lia. rewrite L. reflexivity.
    + cbn [skipn] in H. destruct (hex4 r1) as [code|] eqn:Eh; [|discriminate].
      destruct (hex4_inv _ _ Eh) as (h1 & h2 & h3 & h4 & t4 & ->).
      destruct (is_scalar code) eqn:Esc.
      * inversion H; subst v size. cbn [firstn app].
        unfold read_escape. cbv zeta. cbn [tl skipn peek_is]. rewrite Eu. cbn [peek_is] in Eb. rewrite Eb.
        cbn [hex4] in Eh |- *. rewrite Eh, Esc. reflexivity.
      * destruct (is_lead code && starts2 92 117 t4) eqn:El; [|discriminate].
        destruct t4 as [|x [|y t6]]; try (cbn [starts2] in El; rewrite andb_false_r in El; discriminate).
        cbn [skipn] in H. destruct (hex4 t6) as [tr|] eqn:Eh2; [|discriminate].
        destruct (hex4_inv _ _ Eh2) as (k1 & k2 & k3 & k4 & t10 & ->).
        destruct (is_trail tr) eqn:Et; [|discriminate]. inversion H; subst v size. cbn [firstn app].
        unfold read_escape. cbv zeta. cbn [tl skipn peek_is]. rewrite Eu. cbn [peek_is] in Eb. rewrite Eb.
        cbn [hex4] in Eh, Eh2 |- *. rewrite Eh, Esc. cbn [starts2] in El |- *. rewrite El, Eh2, Et. reflexivity.
  - destruct r as [|c r']; [discriminate|]. destruct (escaped_char c) as [w|] eqn:Ee; [|discriminate].
    inversion H; subst v size. cbn [firstn app].
    unfold read_escape. cbv zeta. cbn [tl]. cbn [peek_is] in Eu |- *. rewrite Eu, Ee. reflexivity.
Qed.

Lemma firstn_skipn_app {A} n (s r2 : list A) : (n <= length s)%nat -> skipn n (firstn n s ++ r2) = r2.
Proof.
  intros H. rewrite skipn_app, firstn_length, Nat.min_l by exact H. rewrite Nat.sub_diag.
  rewrite skipn_firstn_comm, Nat.sub_diag. reflexivity.
Qed.

Lemma rsl_loc fuel : forall pos acc s e v r,
  read_string_loop fuel pos acc s = Ok (e, v, r) ->
  exists a, s = a ++ r /\ e = (pos + length a)%nat /\
    forall fuel2 pos2 r2, (length (a ++ r2) < fuel2)%nat ->
      read_string_loop fuel2 pos2 acc (a ++ r2) = Ok ((pos2 + length a)%nat, v, r2).
Proof.
  induction fuel as [|f IH]; intros pos acc s e v r H; [discriminate|].
  cbn [read_string_loop] in H. destruct s as [|c t]; [discriminate|].
  destruct (c =? 34) eqn:Eq.
  { inversion H; subst. exists [c]. split; [reflexivity|]. split; [cbn; lia|].
    intros fuel2 pos2 r2 Hf. destruct fuel2 as [|f2]; [lia|]. cbn [app read_string_loop]. rewrite Eq.
    cbn [length]. f_equal. f_equal. f_equal. lia. }
  destruct (c =? 92) eqn:Eb.
  { destruct (read_escape pos (c :: t)) as [[w size]| | |] eqn:Ee; try discriminate.
    pose proof (read_escape_size pos (c :: t) w size ltac:(discriminate) Ee) as Hsz.
    apply IH in H as (a' & Es & -> & L).
    assert (Hlen : length (firstn size (c :: t)) = size) by (rewrite firstn_length, Nat.min_l; lia).
    exists (firstn size (c :: t) ++ a'). split.
    { rewrite <- app_assoc, <- Es. symmetry. apply firstn_skipn. }
    split; [rewrite app_length, Hlen; lia|].
    intros fuel2 pos2 r2 Hf. destruct fuel2 as [|f2]; [lia|].
    rewrite !app_length, Hlen in Hf. rewrite app_length, Hlen. rewrite <- app_assoc.
    assert (Ehd : firstn size (c :: t) ++ a' ++ r2 = c :: (firstn (size - 1) t ++ a' ++ r2)).
    { destruct size as [|k]; [lia|]. replace (S k - 1)%nat with k by lia. reflexivity. }
    rewrite Ehd. cbn [read_string_loop]. rewrite Eq, Eb. rewrite <- Ehd.
    rewrite (read_escape_loc pos (c :: t) w size ltac:(discriminate) Ee pos2 (a' ++ r2)).
    rewrite firstn_skipn_app by lia. rewrite L.
    - f_equal. f_equal. f_equal. lia.
    - rewrite app_length. lia. }
  destruct ((c =? LF) || (c =? CR)) eqn:Elt; [discriminate|].
  destruct (is_scalar c) eqn:Esc.
  { apply IH in H as (a' & -> & -> & L). exists (c :: a'). split; [reflexivity|]. split; [cbn; lia|].
    intros fuel2 pos2 r2 Hf. destruct fuel2 as [|f2]; [lia|]. cbn [app read_string_loop].
    rewrite Eq, Eb, Elt, Esc. rewrite L by (cbn [app length] in Hf; lia). cbn [length]. f_equal. f_equal. f_equal. lia. }
  destruct (is_lead c && peek_is is_trail t) eqn:Ep; [|discriminate].
  destruct t as [|d t']; [rewrite andb_false_r in Ep; discriminate|]. cbn [hd tl] in H.
  apply IH in H as (a' & -> & -> & L). exists (c :: d :: a'). split; [reflexivity|]. split; [cbn; lia|].
  intros fuel2 pos2 r2 Hf. destruct fuel2 as [|f2]; [lia|]. cbn [app read_string_loop].
  rewrite Eq, Eb, Elt, Esc. cbn [peek_is] in Ep |- *. rewrite Ep. cbn [hd tl].
  rewrite L by (cbn [app length] in Hf; lia). cbn [length]. f_equal. f_equal. f_equal. lia.
Qed.

(* ================================================================== *)
(* D. character classes                                                *)
(* ================================================================== *)

Definition punct_chars : list N := [33; 36; 38; 40; 41; 58; 61; 64; 91; 93; 123; 124; 125].

Lemma punct_kind_some c k : punct_kind c = Some k ->
  In c punct_chars /\ is_punct_kind k = true /\ (k =? K_SPREAD) = false /\ (k =? K_EOF) = false /\
  (k =? K_COMMENT) = false /\ (k =? K_BLOCK_STRING) = false.
Proof.
  unfold punct_kind.
  repeat (match goal with |- context [if ?c =? ?v then _ else _] =>
            destruct (N.eqb_spec c v) as [->|];
            [intros H; inversion H; subst k; cbn [In punct_chars]; repeat split; tauto|] end).
  discriminate.
Qed.

Lemma punct_kind_none c : ~ In c punct_chars -> punct_kind c = None.
Proof.
  unfold punct_kind, punct_chars. cbn [In]. intros H.
  repeat (match goal with |- context [if ?c =? ?v then _ else _] =>
            destruct (N.eqb_spec c v) as [E|]; [exfalso; apply H; rewrite E; tauto|] end).
  reflexivity.
Qed.

Lemma punct_char_facts c : In c punct_chars ->
  (c =? 35) = false /\ (c =? 34) = false /\ is_ignored_char c = false /\ is_name_continue c = false /\
  is_digit c = false /\ is_dot_or_ns c = false /\ (34 =? c) = false.
Proof.
  unfold punct_chars. cbn [In]. intros H.
  repeat (destruct H as [<-|H]; [repeat split; reflexivity|]). destruct H.
Qed.

Lemma name_start_range c : is_name_start c = true -> (65 <= c <= 90 \/ 97 <= c <= 122 \/ c = 95).
Proof.
  unfold is_name_start, is_letter. intros H.
  apply orb_true_iff in H as [H|H]; [|apply N.eqb_eq in H; lia].
  apply orb_true_iff in H as [H|H]; apply andb_true_iff in H as [H1 H2]; apply N.leb_le in H1, H2; lia.
Qed.

Lemma digit_range c : is_digit c = true -> 48 <= c <= 57.
Proof. unfold is_digit. intros H. apply andb_true_iff in H as [H1 H2]. apply N.leb_le in H1, H2. lia. Qed.

Lemma not_in_punct c : (forall v, In v punct_chars -> c <> v) -> ~ In c punct_chars.
Proof. intros H Hin. exact (H c Hin eq_refl). Qed.

Lemma range_not_punct c : (48 <= c <= 57 \/ 65 <= c <= 90 \/ 97 <= c <= 122 \/ c = 95 \/ c = 45 \/ c = 46) ->
  punct_kind c = None /\ (c =? 35) = false /\ (c =? 34) = false /\ is_ignored_char c = false.
Proof.
  intros H. split; [|split; [|split]].
  - apply punct_kind_none. unfold punct_chars. cbn [In]. lia.
  - apply N.eqb_neq. lia.
  - apply N.eqb_neq. lia.
  - unfold is_ignored_char, is_ws_ignored, LF, CR.
    repeat match goal with |- context [?a =? ?b] => destruct (N.eqb_spec a b); [lia|] end. reflexivity.
Qed.

Lemma name_start_not_num c : is_name_start c = true -> is_digit c || (c =? 45) = false.
Proof.
  intros H. apply name_start_range in H. apply orb_false_iff. split.
  - unfold is_digit. destruct (N.leb_spec 48 c), (N.leb_spec c 57); cbn; try reflexivity. lia.
  - apply N.eqb_neq. lia.
Qed.

Lemma num_head_range c : is_digit c || (c =? 45) = true -> 48 <= c <= 57 \/ c = 45.
Proof.
  intros H. apply orb_true_iff in H as [H|H]; [left; apply digit_range, H|right; apply N.eqb_eq, H].
Qed.

(* what may follow a non-punctuator token without changing it: nothing, an ignored character (the
   separating space of a stripped text; space, comma, line feed in printed text) or a one-character
   punctuator *)
Definition follow_ok (r : list N) : Prop :=
  match r with [] => True | c :: _ => is_ignored_char c = true \/ In c punct_chars end.

Lemma ignored_cases c : is_ignored_char c = true ->
  c = 32 \/ c = 9 \/ c = 44 \/ c = 65279 \/ c = LF \/ c = CR.
Proof.
  unfold is_ignored_char, is_ws_ignored. intros H.
  repeat (apply orb_true_iff in H as [H|H]); apply N.eqb_eq in H; auto 10.
Qed.

Lemma follow_ok_facts r : follow_ok r ->
  peek_is is_name_continue r = false /\ numstop r /\ peek_is (N.eqb 34) r = false.
Proof.
  destruct r as [|c t]; [repeat split; reflexivity|]. cbn [follow_ok peek_is]. unfold numstop. cbn [peek_is].
  intros [H|H].
  - apply ignored_cases in H. unfold LF, CR in H.
    destruct H as [->|[->|[->|[->|[->| ->]]]]]; repeat split; reflexivity.
  - apply punct_char_facts in H. tauto.
Qed.

(* ================================================================== *)
(* E. what read_token returns: gap, lexeme, and the shape of the lexeme *)
(* ================================================================== *)

Lemma starts2_loc a s' r2 : a <> [] -> starts2 34 34 (a ++ s') = false ->
  peek_is (N.eqb 34) r2 = false -> starts2 34 34 (a ++ r2) = false.
Proof.
  destruct a as [|x [|y a']]; [congruence| |]; intros _ H Hr.
  - cbn [app]. destruct r2 as [|y t]; [reflexivity|]. cbn [starts2 peek_is] in *.
    rewrite N.eqb_sym in Hr. rewrite Hr. apply andb_false_r.
  - exact H.
Qed.

Inductive lexeme_of (tk : token) (lx s' : list N) : Prop :=
| L_punct c : lx = [c] -> punct_kind c = Some (tkind tk) -> thasval tk = false -> tvalue tk = [] ->
    lexeme_of tk lx s'
| L_spread : lx = [46; 46; 46] -> tkind tk = K_SPREAD -> thasval tk = false -> tvalue tk = [] ->
    lexeme_of tk lx s'
| L_name c b : lx = c :: b -> is_name_start c = true -> Forall (fun x => is_name_continue x = true) b ->
    peek_is is_name_continue s' = false ->
    tkind tk = K_NAME -> thasval tk = true -> tvalue tk = lx -> lexeme_of tk lx s'
| L_num fl : peek_is (fun c => is_digit c || (c =? 45)) lx = true -> numstop s' ->
    Forall (fun c => num_char c = true) lx ->
    (forall pos2 r2, numstop r2 -> read_number pos2 (lx ++ r2) = Ok ((pos2 + length lx)%nat, fl, r2)) ->
    tkind tk = (if fl then K_FLOAT else K_INT) -> thasval tk = true -> tvalue tk = lx -> lexeme_of tk lx s'
| L_string body : lx = 34 :: body -> body <> [] -> starts2 34 34 (body ++ s') = false ->
    (forall fuel2 pos2 r2, (length (body ++ r2) < fuel2)%nat ->
       read_string_loop fuel2 pos2 [] (body ++ r2) = Ok ((pos2 + length body)%nat, tvalue tk, r2)) ->
    tkind tk = K_STRING -> thasval tk = true -> lexeme_of tk lx s'
| L_block : tkind tk = K_BLOCK_STRING -> thasval tk = true -> in_block_range (tvalue tk) = true ->
    lines_wp (split_lf (tvalue tk)) -> lexeme_of tk lx s'
| L_comment : tkind tk = K_COMMENT -> lexeme_of tk lx s'.

Lemma read_token_ana cu s tk cu' s' : read_token cu s = Ok (tk, cu', s') ->
  exists g lx, s = g ++ lx ++ s' /\ Forall (fun c => is_ignored_char c = true) g /\
    tstart tk = (cpos cu + length g)%nat /\ tend tk = (tstart tk + length lx)%nat /\ cpos cu' = tend tk /\
    (if tkind tk =? K_EOF then lx = [] /\ s' = [] /\ tvalue tk = [] else lexeme_of tk lx s').
Proof.
  intros H0. pose proof H0 as H. unfold read_token in H.
  destruct (skip_ignored cu s) as [cu1 s1] eqn:Esk.
  apply skip_ignored_spec in Esk as (g & Ag & Hg & Hp & _).
  pose proof (adv_split _ _ _ Ag) as Es.
  assert (Hgl : length (firstn g s) = g) by (apply firstn_length_le; destruct Ag; lia).
  assert (W : forall lx, s1 = lx ++ s' -> tstart tk = cpos cu1 -> tend tk = (cpos cu1 + length lx)%nat ->
              cpos cu' = tend tk ->
              (if tkind tk =? K_EOF then lx = [] /\ s' = [] /\ tvalue tk = [] else lexeme_of tk lx s') ->
              exists g lx, s = g ++ lx ++ s' /\ Forall (fun c => is_ignored_char c = true) g /\
                tstart tk = (cpos cu + length g)%nat /\ tend tk = (tstart tk + length lx)%nat /\
                cpos cu' = tend tk /\
                (if tkind tk =? K_EOF then lx = [] /\ s' = [] /\ tvalue tk = [] else lexeme_of tk lx s')).
  { intros lx E1 E2 E3 E4 E5. exists (firstn g s), lx. rewrite Hgl.
    split; [rewrite <- E1; exact Es|]. split; [exact Hg|]. repeat split; try lia; assumption. }
  destruct s1 as [|c t].
  { inversion H; subst tk cu' s'. apply (W []); cbn; auto; lia. }
  destruct (c =? 35) eqn:E35.
  { destruct (comment_body t) as [b r] eqn:Ec. pose proof (comment_body_app _ _ _ Ec) as Et.
    inversion H; subst tk cu' s'. apply (W (c :: b)); cbn [mk tstart tend cpos tkind length]; try lia.
    - rewrite Et. reflexivity.
    - cbn. apply L_comment. reflexivity. }
  destruct (c =? 34) eqn:E34.
  { apply N.eqb_eq in E34. subst c. destruct (starts2 34 34 t) eqn:Eqq.
    - cbv zeta in H.
      pose proof (read_block_loop_spec (S (length (skipn 2 t))) (cpos cu1 + 3) (cls cu1) [] [] (skipn 2 t)
                    ltac:(lia)) as Hb.
      destruct (read_block_loop (S (length (skipn 2 t))) (cpos cu1 + 3) (cls cu1) [] [] (skipn 2 t))
        as [[[[e raw] ls'] rest]| | |]; try discriminate.
      destruct Hb as (k & -> & Ak & Hk). inversion H. subst tk cu' s'.
      destruct t as [|x [|y t2]]; try discriminate. cbn [skipn] in *.
      apply (W (34 :: x :: y :: firstn k t2)).
      + rewrite (adv_split _ _ _ Ak) at 1. reflexivity.
      + reflexivity.
      + cbn [mk tend length]. rewrite firstn_length_le by (destruct Ak; lia). lia.
      + reflexivity.
      + cbn [mk tkind]. change (K_BLOCK_STRING =? K_EOF) with false. cbv iota.
        apply L_block; [reflexivity|reflexivity| |].
        * eapply block_token_in_range; [exact H0|reflexivity].
        * eapply block_token_wp; [exact H0|reflexivity].
    - destruct (read_string_loop (S (length t)) (S (cpos cu1)) [] t) as [[[e v] rest]| | |] eqn:Er; try discriminate.
      apply rsl_loc in Er as (a & -> & -> & L). inversion H; subst tk cu' s'.
      assert (Hne : a <> []).
      { intros ->. specialize (L 1%nat 0%nat [] ltac:(cbn; lia)). cbn in L. discriminate. }
      apply (W (34 :: a)); cbn [mk tstart tend cpos tkind length]; try lia; [reflexivity|].
      cbn. eapply L_string; eauto. }
  destruct (punct_kind c) as [k|] eqn:Epk.
  { inversion H; subst tk cu' s'. apply (W [c]); cbn [mk tstart tend cpos tkind length]; try lia; [reflexivity|].
    destruct (punct_kind_some _ _ Epk) as (_ & _ & _ & -> & _). eapply L_punct; eauto. }
  destruct (is_digit c || (c =? 45)) eqn:Ed.
  { destruct (read_number (cpos cu1) (c :: t)) as [[[e fl] rest]| | |] eqn:En; try discriminate.
    pose proof (read_number_nadv _ _ _ _ _ En) as (k & Hek & _ & Hnc).
    apply read_number_loc in En as (a & Ea & -> & Hhd & Hstop & L).
    assert (Hk : k = length a) by lia. subst k. rewrite Ea, firstn_app_length in Hnc.
    replace (firstn (cpos cu1 + length a - cpos cu1) (c :: t)) with a in H
      by (rewrite Ea; replace (cpos cu1 + length a - cpos cu1)%nat with (length a) by lia;
          rewrite firstn_app_length; reflexivity).
    inversion H; subst tk cu' s'.
    apply (W a); cbn [mk tstart tend cpos tkind length]; try lia; [exact Ea|].
    replace (_ =? K_EOF) with false by (destruct fl; reflexivity).
    eapply L_num; eauto. }
  destruct (is_name_start c) eqn:Ens.
  { destruct (span is_name_continue t) as [b r] eqn:Esp. apply span_spec in Esp as (-> & Hb & Hr).
    inversion H; subst tk cu' s'. apply (W (c :: b)); cbn [mk tstart tend cpos tkind length]; try lia; [reflexivity|].
    cbn. eapply L_name; eauto. }
  destruct (c =? 46) eqn:E46; [|discriminate]. apply N.eqb_eq in E46. subst c.
  destruct (starts2 46 46 t) eqn:Edd; [|discriminate].
  destruct t as [|x [|y t2]]; try discriminate. cbn [starts2] in Edd. apply andb_true_iff in Edd as [E1 E2].
  apply N.eqb_eq in E1, E2. subst x y. inversion H; subst tk cu' s'.
  apply (W [46; 46; 46]); cbn [mk tstart tend cpos tkind length]; try lia; [reflexivity|].
  cbn. apply L_spread; reflexivity.
Qed.

Lemma num_char_not_ignored c : num_char c = true -> is_ignored_char c = false.
Proof.
  intros H.
  assert (R : 48 <= c <= 57 \/ c = 45 \/ c = 46 \/ c = 69 \/ c = 101 \/ c = 43).
  { unfold num_char in H. repeat (apply orb_true_iff in H as [H|H]; [|apply N.eqb_eq in H; lia]).
    apply digit_range in H. lia. }
  unfold is_ignored_char, is_ws_ignored, LF, CR.
  repeat match goal with |- context [?a =? ?b] => destruct (N.eqb_spec a b); [lia|] end. reflexivity.
Qed.

Lemma name_continue_not_ignored c : is_name_continue c = true -> is_ignored_char c = false.
Proof.
  intros H.
  assert (R : 48 <= c <= 57 \/ 65 <= c <= 90 \/ 97 <= c <= 122 \/ c = 95).
  { unfold is_name_continue in H. apply orb_true_iff in H as [H|H]; [|apply N.eqb_eq in H; lia].
    apply orb_true_iff in H as [H|H]; [|apply digit_range in H; lia].
    assert (H' : is_name_start c = true) by (unfold is_name_start; rewrite H; reflexivity).
    apply name_start_range in H'. lia. }
  unfold is_ignored_char, is_ws_ignored, LF, CR.
  repeat match goal with |- context [?a =? ?b] => destruct (N.eqb_spec a b); [lia|] end. reflexivity.
Qed.

(* the lexeme of a punctuator, name or number contains no ignored character *)
Lemma lexeme_no_ignored tk lx s' : lexeme_of tk lx s' ->
  tkind tk <> K_STRING -> tkind tk <> K_BLOCK_STRING -> tkind tk <> K_COMMENT ->
  Forall (fun c => is_ignored_char c = false) lx.
Proof.
  intros HL H1 H2 H3.
  destruct HL as [c -> Hpk _ _ | -> _ _ _ | c b -> Hns Hb _ _ _ _
                 | fl _ _ Hnc _ _ _ _ | body -> _ _ _ Hk _ | Hk _ _ _ | Hk]; try congruence.
  - destruct (punct_kind_some _ _ Hpk) as (Hin & _). apply punct_char_facts in Hin.
    constructor; [tauto|constructor].
  - repeat constructor.
  - constructor.
    + destruct (range_not_punct c) as (_ & _ & _ & E); [apply name_start_range in Hns; lia|exact E].
    + eapply Forall_impl; [|exact Hb]. apply name_continue_not_ignored.
  - eapply Forall_impl; [|exact Hnc]. apply num_char_not_ignored.
Qed.

(* ================================================================== *)
(* F. re-lexing one token of the stripped text                         *)
(* ================================================================== *)

(* the text strip emits for a token whose lexeme is lx *)
Definition retext (tk : token) (lx : list N) : list N :=
  if tkind tk =? K_BLOCK_STRING then print_block_string (tvalue tk) true else lx.

(* reading s2 at cu2 gives a token like tk: same kind and value, after a gap of [gap]
   characters, spanning exactly [txt], leaving [rest2] *)
Definition relexed (tk : token) (txt : list N) (cu2 : cursor) (s2 rest2 : list N) (gap : nat) : Prop :=
  exists tk2 cu2', read_token cu2 s2 = Ok (tk2, cu2', rest2) /\
    tkind tk2 = tkind tk /\ tvalue tk2 = tvalue tk /\ thasval tk2 = thasval tk /\
    tstart tk2 = (cpos cu2 + gap)%nat /\ tend tk2 = (tstart tk2 + length txt)%nat /\ cpos cu2' = tend tk2.

Lemma read_token_nogap cu s : peek_is is_ignored_char s = false ->
  read_token cu s =
  (let p := cpos cu in
  let adv (n : nat) := mkCur (p + n) (cline cu) (cls cu) in
  match s with
  | [] => Ok (mk K_EOF cu p p None, cu, [])
  | c :: t =>
    if c =? 35 then
      let '(b, r) := comment_body t in
      let e := (p + 1 + length b)%nat in
      Ok (mk K_COMMENT cu p e (Some b), mkCur e (cline cu) (cls cu), r)
    else if c =? 34 then
      if starts2 34 34 t then
        let r := skipn 2 t in
        match read_block_loop (S (length r)) (p + 3) (cls cu) [] [] r with
        | Ok (e, raw, ls', rest) =>
          Ok (mk K_BLOCK_STRING cu p e (Some (join_lf (dedent raw))),
              mkCur e (cline cu + (length raw - 1)) ls', rest)
        | SyntaxErr q => SyntaxErr q
        | Crash w => Crash w
        | OutOfFuel => OutOfFuel
        end
      else
        match read_string_loop (S (length t)) (S p) [] t with
        | Ok (e, v, rest) => Ok (mk K_STRING cu p e (Some v), mkCur e (cline cu) (cls cu), rest)
        | SyntaxErr q => SyntaxErr q
        | Crash w => Crash w
        | OutOfFuel => OutOfFuel
        end
    else match punct_kind c with
    | Some k => Ok (mk k cu p (S p) None, adv 1%nat, t)
    | None =>
      if is_digit c || (c =? 45) then
        match read_number p s with
        | Ok (e, fl, rest) =>
          Ok (mk (if fl then K_FLOAT else K_INT) cu p e (Some (firstn (e - p) s)),
              mkCur e (cline cu) (cls cu), rest)
        | SyntaxErr q => SyntaxErr q
        | Crash w => Crash w
        | OutOfFuel => OutOfFuel
        end
      else if is_name_start c then
        let '(b, r) := span is_name_continue t in
        let e := (p + 1 + length b)%nat in
        Ok (mk K_NAME cu p e (Some (c :: b)), mkCur e (cline cu) (cls cu), r)
      else if c =? 46 then
        if starts2 46 46 t then Ok (mk K_SPREAD cu p (p + 3) None, adv 3%nat, skipn 2 t)
        else SyntaxErr p
      else SyntaxErr p
    end
  end).
Proof. intros H. unfold read_token. rewrite (skip_ignored_stop cu s H). reflexivity. Qed.

Lemma relex0 tk lx s' : lexeme_of tk lx s' -> (tkind tk =? K_COMMENT) = false ->
  forall cu2 rest2, (is_punct_kind (tkind tk) = true \/ follow_ok rest2) ->
  relexed tk (retext tk lx) cu2 (retext tk lx ++ rest2) rest2 0.
Proof.
  intros HL Hnc cu2 rest2 Hfol. unfold relexed, retext.
  assert (Hnp : is_punct_kind (tkind tk) = false -> follow_ok rest2).
  { intros E. destruct Hfol as [F|F]; [congruence|exact F]. }
  destruct HL as [c -> Hpk Hhv Hv | -> Hk Hhv Hv | c b -> Hns Hb Hs' Hk Hhv Hv
                 | fl Hhd Hs' _ L Hk Hhv Hv | body -> Hne Hst L Hk Hhv | Hk Hhv Hr Hw | Hk].
  - (* punctuator *)
    destruct (punct_kind_some _ _ Hpk) as (Hin & _ & _ & _ & _ & Hnb). rewrite Hnb.
    destruct (punct_char_facts _ Hin) as (E35 & E34 & Eig & _).
    cbn [app]. rewrite read_token_nogap by exact Eig. cbv zeta. rewrite E35, E34, Hpk.
    eexists. eexists. split; [reflexivity|]. cbn [mk tkind tvalue thasval tstart tend cpos length].
    rewrite Hhv, Hv. repeat split; lia.
  - (* spread *)
    rewrite Hk. change (K_SPREAD =? K_BLOCK_STRING) with false. cbv iota. cbn [app].
    rewrite read_token_nogap by reflexivity. cbv zeta.
    change (46 =? 35) with false. change (46 =? 34) with false. change (punct_kind 46) with (@None N).
    change (is_digit 46 || (46 =? 45)) with false. change (is_name_start 46) with false.
    change (46 =? 46) with true. cbv iota. change (starts2 46 46 (46 :: 46 :: rest2)) with true. cbv iota.
    eexists. eexists. split; [reflexivity|]. cbn [mk tkind tvalue thasval tstart tend cpos length skipn].
    rewrite Hhv, Hv. repeat split; lia.
  - (* name *)
    rewrite Hk. change (K_NAME =? K_BLOCK_STRING) with false. cbv iota.
    assert (F : follow_ok rest2) by (apply Hnp; rewrite Hk; reflexivity).
    destruct (follow_ok_facts _ F) as (Fn & _ & _).
    destruct (range_not_punct c) as (Epk & E35 & E34 & Eig).
    { apply name_start_range in Hns. lia. }
    cbn [app]. rewrite read_token_nogap by exact Eig. cbv zeta.
    rewrite E35, E34, Epk, (name_start_not_num _ Hns), Hns. rewrite (span_app _ _ _ Hb Fn).
    eexists. eexists. split; [reflexivity|]. cbn [mk tkind tvalue thasval tstart tend cpos length].
    rewrite Hhv, Hv. repeat split; lia.
  - (* number *)
    assert (Hkb : (tkind tk =? K_BLOCK_STRING) = false) by (rewrite Hk; destruct fl; reflexivity).
    rewrite Hkb.
    assert (F : follow_ok rest2) by (apply Hnp; rewrite Hk; destruct fl; reflexivity).
    destruct (follow_ok_facts _ F) as (_ & Fs & _).
    destruct lx as [|c t]; [discriminate|]. cbn [peek_is] in Hhd.
    destruct (range_not_punct c) as (Epk & E35 & E34 & Eig).
    { apply num_head_range in Hhd. lia. }
    cbn [app]. rewrite read_token_nogap by exact Eig. cbv zeta.
    rewrite E35, E34, Epk, Hhd. change (c :: t ++ rest2) with ((c :: t) ++ rest2).
    rewrite (L (cpos cu2) rest2 Fs).
    eexists. eexists. split; [reflexivity|]. cbn [mk tkind tvalue thasval tstart tend cpos].
    replace (cpos cu2 + length (c :: t) - cpos cu2)%nat with (length (c :: t)) by lia.
    rewrite firstn_app_length. rewrite Hhv, Hv, Hk. repeat split; lia.
  - (* quoted string *)
    rewrite Hk. change (K_STRING =? K_BLOCK_STRING) with false. cbv iota.
    assert (F : follow_ok rest2) by (apply Hnp; rewrite Hk; reflexivity).
    destruct (follow_ok_facts _ F) as (_ & _ & Fq).
    cbn [app]. rewrite read_token_nogap by reflexivity. cbv zeta.
    change (34 =? 35) with false. change (34 =? 34) with true. cbv iota.
    rewrite (starts2_loc _ _ _ Hne Hst Fq). rewrite L by lia.
    eexists. eexists. split; [reflexivity|]. cbn [mk tkind tvalue thasval tstart tend cpos length].
    rewrite Hhv. repeat split; lia.
  - (* block string *)
    rewrite Hk. change (K_BLOCK_STRING =? K_BLOCK_STRING) with true. cbv iota.
    destruct (block_roundtrip_wp (tvalue tk) true [] cu2 rest2 Hr Hw (Forall_nil _))
      as (tk2 & cu2' & E & Ek & Eh & Ev & Es & Ee & Ec).
    cbn [indent_all] in E, Ee. exists tk2, cu2'. rewrite Hhv. repeat split; auto; lia.
  - rewrite Hk in Hnc. discriminate.
Qed.

Lemma retext_nonempty tk lx s' : lexeme_of tk lx s' -> (tkind tk =? K_COMMENT) = false ->
  (1 <= length (retext tk lx))%nat.
Proof.
  unfold retext. intros HL Hnc.
  destruct (tkind tk =? K_BLOCK_STRING) eqn:Eb.
  { unfold print_block_string. cbv zeta. rewrite app_length. cbn [TQ length]. lia. }
  destruct HL as [c -> _ _ _ | -> _ _ _ | c b -> _ _ _ _ _ _
                 | fl Hhd _ _ _ _ _ _ | body -> _ _ _ _ _ | Hk _ _ _ | Hk]; cbn [length]; try lia.
  - destruct lx; [discriminate|cbn; lia].
  - rewrite Hk in Eb. discriminate.
  - rewrite Hk in Hnc. discriminate.
Qed.

Lemma sep_before_cases last k : sep_before last k = [] \/ sep_before last k = [32].
Proof. unfold sep_before. destruct (last && _); auto. Qed.

Lemma relex_gap tk txt rest2 :
  (forall cu2, relexed tk txt cu2 (txt ++ rest2) rest2 0) ->
  forall sep cu2, (sep = [] \/ sep = [32]) -> relexed tk txt cu2 (sep ++ txt ++ rest2) rest2 (length sep).
Proof.
  intros H sep cu2 [->| ->]; [exact (H cu2)|].
  destruct (H (mkCur (S (cpos cu2)) (cline cu2) (cls cu2))) as (tk2 & cu2' & E & Hk & Hv & Hh & Hs & He & Hc).
  exists tk2, cu2'. cbn [app length]. rewrite read_token_space. cbn [cpos] in Hs.
  repeat split; auto; lia.
Qed.

(* ================================================================== *)
(* G. the whole text                                                   *)
(* ================================================================== *)

Lemma slice_lexeme body p g lx s' : skipn p body = g ++ lx ++ s' ->
  slice body (p + length g) (p + length g + length lx) = lx.
Proof.
  intros H. unfold slice. replace (p + length g + length lx - (p + length g))%nat with (length lx) by lia.
  rewrite <- (skipn_skipn' (length g) p body), H, skipn_app_length. apply firstn_app_length.
Qed.

Lemma suffix_step (body : list N) p g lx s' : skipn p body = g ++ lx ++ s' ->
  skipn (p + length g + length lx) body = s'.
Proof.
  intros H. rewrite <- Nat.add_assoc, <- (skipn_skipn' (length g + length lx) p body), H.
  rewrite <- (skipn_skipn' (length lx) (length g)), skipn_app_length. apply skipn_app_length.
Qed.

Lemma token_text_retext body cu s tk g lx s' :
  skipn (cpos cu) body = s -> s = g ++ lx ++ s' ->
  tstart tk = (cpos cu + length g)%nat -> tend tk = (tstart tk + length lx)%nat ->
  token_text body tk = retext tk lx.
Proof.
  intros Hb Hs Hst Hen. unfold token_text, retext. destruct (tkind tk =? K_BLOCK_STRING); [reflexivity|].
  rewrite Hen, Hst. apply (slice_lexeme body (cpos cu) g lx s'). congruence.
Qed.

Lemma eof_token_nil cu : read_token cu [] = Ok (mk K_EOF cu (cpos cu) (cpos cu) None, cu, []).
Proof. reflexivity. Qed.

Lemma strip_main fuel : forall body cu s last ts,
  skipn (cpos cu) body = s -> lex_loop fuel cu s = Ok ts ->
  exists out, strip_loop fuel body cu s last = Ok out /\ (last = true -> follow_ok out) /\
    forall fuel2 body2 cu2, (length out < fuel2)%nat -> skipn (cpos cu2) body2 = out ->
      (exists ts2, lex_loop fuel2 cu2 out = Ok ts2 /\
                   map tok_sig (significant ts2) = map tok_sig (significant ts) /\
                   tight last (cpos cu2) out ts2) /\
      strip_loop fuel2 body2 cu2 out last = Ok out.
Proof.
  induction fuel as [|f IH]; intros body cu s last ts Hbody Hlex; [discriminate|].
  cbn [lex_loop] in Hlex. cbn [strip_loop].
  destruct (read_token cu s) as [[[tk cu'] s']| | |] eqn:Ert; try discriminate.
  destruct (read_token_ana _ _ _ _ _ Ert) as (g & lx & Es & Hg & Hst & Hen & Hcu' & Hcls).
  destruct (tkind tk =? K_EOF) eqn:Ek.
  - (* end of the source *)
    destruct Hcls as (_ & _ & Hval). inversion Hlex; subst ts. exists []. split; [reflexivity|].
    split; [intros _; exact I|]. intros fuel2 body2 cu2 Hf _. destruct fuel2 as [|f2]; [cbn in Hf; lia|].
    cbn [lex_loop strip_loop]. rewrite eof_token_nil. cbn [mk tkind]. change (K_EOF =? K_EOF) with true. cbv iota.
    split; [|reflexivity]. eexists. split; [reflexivity|]. split.
    + apply N.eqb_eq in Ek. unfold significant. cbn [filter mk tkind]. rewrite Ek.
      change (negb (K_EOF =? K_COMMENT)) with true. cbv iota. cbn [map]. unfold tok_sig.
      cbn [mk tkind tvalue]. rewrite Ek, Hval. reflexivity.
    + apply tight_eof; reflexivity.
  - destruct (lex_loop f cu' s') as [ts'| | |] eqn:El; try discriminate. inversion Hlex; subst ts. clear Hlex.
    assert (Hbody' : skipn (cpos cu') body = s').
    { rewrite Hcu', Hen, Hst. apply (suffix_step body (cpos cu) g lx s'). congruence. }
    destruct (tkind tk =? K_COMMENT) eqn:Ec.
    + (* a comment is skipped *)
      destruct (IH body cu' s' last ts' Hbody' El) as (out & Eo & Hfo & Hre).
      exists out. split; [exact Eo|]. split; [exact Hfo|]. intros fuel2 body2 cu2 Hf Hb2.
      destruct (Hre fuel2 body2 cu2 Hf Hb2) as ((ts2 & E2 & Hsig & Ht) & Hid).
      split; [|exact Hid]. exists ts2. split; [exact E2|]. split; [|exact Ht].
      rewrite Hsig. unfold significant. cbn [filter]. rewrite Ec. reflexivity.
    + (* a significant token *)
      set (np := negb (is_punct_kind (tkind tk))).
      destruct (IH body cu' s' np ts' Hbody' El) as (out' & Eo & Hfo & Hre). rewrite Eo.
      set (sep := sep_before last (tkind tk)).
      assert (Etxt : token_text body tk = retext tk lx)
        by exact (token_text_retext body cu s tk g lx s' Hbody Es Hst Hen).
      rewrite Etxt. set (txt := retext tk lx).
      exists (sep ++ txt ++ out'). split; [reflexivity|].
      assert (Hfol : is_punct_kind (tkind tk) = true \/ follow_ok out').
      { destruct (is_punct_kind (tkind tk)) eqn:Ep; [left; reflexivity|right]. apply Hfo. reflexivity. }
      assert (Hntxt : (1 <= length txt)%nat) by (eapply retext_nonempty; eauto).
      assert (Hni : tkind tk <> K_STRING -> tkind tk <> K_BLOCK_STRING ->
                    Forall (fun c => is_ignored_char c = false) txt).
      { intros N1 N2. unfold txt, retext.
        destruct (tkind tk =? K_BLOCK_STRING) eqn:Eb; [apply N.eqb_eq in Eb; congruence|].
        apply (lexeme_no_ignored tk lx s' Hcls N1 N2). intros E. rewrite E in Ec. discriminate. }
      split.
      { (* what follows a non-punctuator *)
        intros ->. unfold sep, sep_before. cbn [andb].
        destruct (negb (is_punct_kind (tkind tk)) || (tkind tk =? K_SPREAD)) eqn:Esp.
        - cbn [app follow_ok]. left. reflexivity.
        - apply orb_false_iff in Esp as [Ep Esp]. apply negb_false_iff in Ep. cbn [app].
          destruct Hcls as [c -> Hpk _ _ | _ Hk _ _ | c b _ _ _ _ Hk _ _
                 | fl _ _ _ _ Hk _ _ | body0 _ _ _ _ Hk _ | Hk _ _ _ | Hk];
            try (rewrite Hk in Ep; try destruct fl; discriminate).
          + unfold txt, retext. destruct (punct_kind_some _ _ Hpk) as (Hin & _ & _ & _ & _ & ->).
            cbn [app follow_ok]. right. exact Hin.
          + rewrite Hk in Esp. discriminate. }
      intros fuel2 body2 cu2 Hf Hb2. destruct fuel2 as [|f2]; [cbn in Hf; lia|].
      destruct (relex_gap tk txt out' (fun c2 => relex0 tk lx s' Hcls Ec c2 out' Hfol) sep cu2
                  (sep_before_cases last (tkind tk)))
        as (tk2 & cu2' & E2 & Hk2 & Hv2 & Hh2 & Hs2 & He2 & Hc2).
      assert (Hb2' : skipn (cpos cu2') body2 = out').
      { rewrite Hc2, He2, Hs2. apply (suffix_step body2 (cpos cu2) sep txt out'). exact Hb2. }
      assert (Hf' : (length out' < f2)%nat) by (rewrite !app_length in Hf; lia).
      destruct (Hre f2 body2 cu2' Hf' Hb2') as ((ts2 & El2 & Hsig & Ht) & Hid).
      cbn [lex_loop strip_loop]. rewrite E2, Hk2, Ek, Ec, El2. fold np. rewrite Hid. split.
      * exists (tk2 :: ts2). split; [reflexivity|]. split.
        -- unfold significant. cbn [filter]. rewrite Hk2, Ec. cbn [negb map]. fold (significant ts2).
           fold (significant ts'). rewrite Hsig. unfold tok_sig at 1 3. rewrite Hk2, Hv2. reflexivity.
        -- unfold sep. rewrite <- Hk2. apply tight_tok; rewrite ?Hk2; auto.
           rewrite Hc2 in Ht. exact Ht.
      * fold sep. f_equal. f_equal. f_equal.
        unfold token_text. rewrite Hk2, Hv2. unfold txt, retext.
        destruct (tkind tk =? K_BLOCK_STRING) eqn:Eb; [reflexivity|].
        assert (Hb3 : skipn (cpos cu2) body2 = sep ++ lx ++ out').
        { rewrite Hb2. unfold txt, retext. rewrite Eb. reflexivity. }
        rewrite He2, Hs2. replace (length txt) with (length lx) by (unfold txt, retext; rewrite Eb; reflexivity).
        apply (slice_lexeme body2 (cpos cu2) sep lx out' Hb3).
Qed.

(* ================================================================== *)
(* H. the theorems                                                     *)
(* ================================================================== *)

Lemma strip_ok_lex s out : strip s = Ok out -> exists ts, lex s = Ok ts.
Proof.
  unfold strip, lex. intros H.
  pose proof (strip_loop_lex (S (length s)) s init_cursor s false) as L.
  destruct (lex_loop (S (length s)) init_cursor s) as [ts| | |]; [exists ts; reflexivity|congruence..].
Qed.

Lemma strip_all s ts : lex s = Ok ts ->
  exists out ts2, strip s = Ok out /\ lex out = Ok ts2 /\
    map tok_sig (significant ts2) = map tok_sig (significant ts) /\
    tight false 0 out ts2 /\ strip out = Ok out.
Proof.
  unfold lex, strip. intros Hl.
  destruct (strip_main (S (length s)) s init_cursor s false ts eq_refl Hl) as (out & Eo & _ & Hre).
  destruct (Hre (S (length out)) out init_cursor ltac:(lia) eq_refl) as ((ts2 & E2 & Hsig & Ht) & Hid).
  exists out, ts2. auto.
Qed.

Theorem strip_preserves_tokens s ts : lex s = Ok ts ->
  exists out ts2, strip s = Ok out /\ lex out = Ok ts2 /\
    map tok_sig (significant ts2) = map tok_sig (significant ts).
Proof.
  intros Hl. destruct (strip_all s ts Hl) as (out & ts2 & H1 & H2 & H3 & _).
  exists out, ts2. auto.
Qed.

Theorem strip_idempotent s out : strip s = Ok out -> strip out = Ok out.
Proof.
  intros H. destruct (strip_ok_lex s out H) as (ts & Hl).
  destruct (strip_all s ts Hl) as (out1 & ts2 & H1 & _ & _ & _ & H5). congruence.
Qed.

Theorem strip_tight s out : strip s = Ok out ->
  exists ts2, lex out = Ok ts2 /\ tight false 0 out ts2.
Proof.
  intros H. destruct (strip_ok_lex s out H) as (ts & Hl).
  destruct (strip_all s ts Hl) as (out1 & ts2 & H1 & H2 & _ & H4 & _).
  assert (out1 = out) by congruence. subst out1. exists ts2. auto.
Qed.
