(* Recursive (specification-shaped) model of language/visitor.py: visit() and ParallelVisitor.
   Trees are generic: a node has a kind, an identity and slots in QUERY_DOCUMENT_KEYS order;
   a slot is absent, a single node, or an array of nodes. *)
From GV Require Import Base.Prelude.

Inductive tree := Node : N -> N -> slots -> tree          (* kind, id, slots *)
with slots := SNil | SCons : slot -> slots -> slots
with slot := SNone | SOne : tree -> slot | SArr : trees -> slot
with trees := TNil | TCons : tree -> trees -> trees.

Definition tkindof (t : tree) : N := match t with Node k _ _ => k end.
Definition tid (t : tree) : N := match t with Node _ i _ => i end.
Definition tslots (t : tree) : slots := match t with Node _ _ s => s end.

Inductive key := KNone | KName (i : nat) | KIdx (i : nat).
Inductive phase := Enter | Leave.
Inductive action := Idle | Skip | Break | Remove | Replace (t : tree).

(* one visitor call as the visitor observes it *)
Record call := mkCall {
  c_phase : phase; c_id : N; c_kind : N; c_key : key; c_path : list key; c_nanc : nat;
  c_action : N (* 0 idle 1 skip 2 break 3 remove 4 replace *) }.

Definition action_code (a : action) : N :=
  match a with Idle => 0 | Skip => 1 | Break => 2 | Remove => 3 | Replace _ => 4 end.

(* result of visiting one node *)
Inductive res := RBreak | RKeep | REdit (v : option tree) | ROutOfFuel.

Section Visit.
  (* a visitor: state-passing decision function *)
  Variable St : Type.
  Variable decide : phase -> tree -> St -> action * St.

  Definition st : Type := (St * list call)%type.

  Definition do_call (ph : phase) (t : tree) (k : key) (path : list key) (nanc : nat) (s : st)
    : action * st :=
    let '(a, s') := decide ph t (fst s) in
    (a, (s', mkCall ph (tid t) (tkindof t) k path nanc (action_code a) :: snd s)).

  (* nanc for the items inside X = nanc at X + (1 if X has a parent) *)
  Definition inner_nanc (has_parent : bool) (nanc : nat) : nat :=
    if has_parent then S nanc else nanc.

  (* The traversal is written as an open step [node_step rec] over the recursive call
     [rec] for children, closed by recursion on [fuel].  [fuel] bounds the nesting depth
     (tree depth plus nested enter-replacements, whose replacement trees are traversed
     instead of the original).  The loops over slots and array items are structural. *)
  Definition visit_fn : Type := tree -> key -> list key -> nat -> bool -> st -> res * st.

  (* None = out of fuel; Some None = break *)
  Fixpoint vtrees (rec : visit_fn) (l : trees) (j : nat) (path : list key) (nanc : nat) (s : st)
    : option (option (trees * bool)) * st :=
    match l with
    | TNil => (Some (Some (TNil, false)), s)
    | TCons c rest =>
      let '(r, s') := rec c (KIdx j) (path ++ [KIdx j]) nanc true s in
      match r with
      | ROutOfFuel => (None, s')
      | RBreak => (Some None, s')
      | _ =>
        let '(r2, s'') := vtrees rec rest (S j) path nanc s' in
        match r2 with
        | None => (None, s'')
        | Some None => (Some None, s'')
        | Some (Some (rest', e')) =>
          match r with
          | REdit None => (Some (Some (rest', true)), s'')
          | REdit (Some v) => (Some (Some (TCons v rest', true)), s'')
          | _ => (Some (Some (TCons c rest', e')), s'')
          end
        end
      end
    end.

  Fixpoint vslots (rec : visit_fn) (ss : slots) (i : nat) (path : list key) (inner : nat) (s : st)
    : option (option (slots * bool)) * st :=
    match ss with
    | SNil => (Some (Some (SNil, false)), s)
    | SCons sl rest =>
      let cont (sl' : slot) (e : bool) (s' : st) :=
        let '(r, s'') := vslots rec rest (S i) path inner s' in
        match r with
        | None => (None, s'')
        | Some None => (Some None, s'')
        | Some (Some (rest', e')) => (Some (Some (SCons sl' rest', e || e')), s'')
        end in
      match sl with
      | SNone => cont SNone false s
      | SOne c =>
        let '(r, s') := rec c (KName i) (path ++ [KName i]) inner true s in
        match r with
        | ROutOfFuel => (None, s')
        | RBreak => (Some None, s')
        | RKeep => cont (SOne c) false s'
        | REdit None => cont SNone true s'
        | REdit (Some v) => cont (SOne v) true s'
        end
      | SArr l =>
        (* the array is entered as a pseudo node: no visitor call, one more ancestor *)
        let '(r, s') := vtrees rec l 0%nat (path ++ [KName i]) (S inner) s in
        match r with
        | None => (None, s')
        | Some None => (Some None, s')
        | Some (Some (l', e)) => cont (SArr (if e then l' else l)) e s'
        end
      end
    end.

  (* children, rebuild, leave *)
  Definition go (rec : visit_fn) (node : tree) (entered_edit : bool) (k : key) (path : list key)
             (nanc : nat) (has_parent : bool) (s1 : st) : res * st :=
    let '(r, s2) := vslots rec (tslots node) 0%nat path (inner_nanc has_parent nanc) s1 in
    match r with
    | None => (ROutOfFuel, s2)
    | Some None => (RBreak, s2)
    | Some (Some (ss', edited)) =>
      let node' := if edited then Node (tkindof node) (tid node) ss' else node in
      let '(a2, s3) := do_call Leave node' k path nanc s2 in
      match a2 with
      | Break => (RBreak, s3)
      | Remove => (REdit None, s3)
      | Replace v => (REdit (Some v), s3)
      | Idle | Skip =>
        if edited || entered_edit then (REdit (Some node'), s3) else (RKeep, s3)
      end
    end.

  Definition node_step (rec : visit_fn) : visit_fn :=
    fun t k path nanc has_parent s =>
      let '(a, s1) := do_call Enter t k path nanc s in
      match a with
      | Break => (RBreak, s1)
      | Skip => (RKeep, s1)
      | Remove => (REdit None, s1)
      | Idle => go rec t false k path nanc has_parent s1
      | Replace t' => go rec t' true k path nanc has_parent s1
      end.

  Fixpoint visit_tree (fuel : nat) : visit_fn :=
    match fuel with
    | O => fun _ _ _ _ _ s => (ROutOfFuel, s)
    | S f => node_step (visit_tree f)
    end.

  (* visit(root, visitor): result and the call log (oldest first) *)
  Definition visit (fuel : nat) (root : tree) (s0 : St) : res * St * list call :=
    let '(r, (s, log)) := visit_tree fuel root KNone [] 0%nat false (s0, []) in
    (r, s, rev log).
End Visit.

(* ---- scripted visitors: a decision table keyed by (node id, phase) ---- *)
Definition phase_eqb (a b : phase) : bool :=
  match a, b with Enter, Enter => true | Leave, Leave => true | _, _ => false end.

Definition script := list (N * phase * action).

Fixpoint lookup_script (sc : script) (id : N) (ph : phase) : action :=
  match sc with
  | [] => Idle
  | (i, p, a) :: r => if (i =? id) && phase_eqb p ph then a else lookup_script r id ph
  end.

Definition scripted (sc : script) : phase -> tree -> unit -> action * unit :=
  fun ph t _ => (lookup_script sc (tid t) ph, tt).

(* ---- ParallelVisitor ---- *)
Inductive skipstate := SkNone | SkNode (id : N) | SkBreak.

(* per-visitor sub-call: visitor index, phase, node id *)
Definition subcall : Type := (nat * phase * N)%type.
Definition pstate : Type := (list skipstate * list subcall)%type.

(* enter: visitors in order; the first edit is returned at once *)
Fixpoint par_enter (scs : list script) (sks : list skipstate) (i : nat) (t : tree)
  : action * list skipstate * list subcall :=
  match scs, sks with
  | sc :: scs', sk :: sks' =>
    match sk with
    | SkNone =>
      let a := lookup_script sc (tid t) Enter in
      let sub := (i, Enter, tid t) in
      match a with
      | Skip => let '(r, sks'', subs) := par_enter scs' sks' (S i) t in (r, SkNode (tid t) :: sks'', sub :: subs)
      | Break => let '(r, sks'', subs) := par_enter scs' sks' (S i) t in (r, SkBreak :: sks'', sub :: subs)
      | Idle => let '(r, sks'', subs) := par_enter scs' sks' (S i) t in (r, SkNone :: sks'', sub :: subs)
      | _ => (a, sk :: sks', [sub])
      end
    | _ => let '(r, sks'', subs) := par_enter scs' sks' (S i) t in (r, sk :: sks'', subs)
    end
  | _, _ => (Idle, sks, [])
  end.

Fixpoint par_leave (scs : list script) (sks : list skipstate) (i : nat) (t : tree)
  : action * list skipstate * list subcall :=
  match scs, sks with
  | sc :: scs', sk :: sks' =>
    match sk with
    | SkNone =>
      let a := lookup_script sc (tid t) Leave in
      let sub := (i, Leave, tid t) in
      match a with
      | Break => let '(r, sks'', subs) := par_leave scs' sks' (S i) t in (r, SkBreak :: sks'', sub :: subs)
      | Idle | Skip => let '(r, sks'', subs) := par_leave scs' sks' (S i) t in (r, SkNone :: sks'', sub :: subs)
      | _ => (a, sk :: sks', [sub])
      end
    | SkNode id =>
      let '(r, sks'', subs) := par_leave scs' sks' (S i) t in
      (r, (if id =? tid t then SkNone else sk) :: sks'', subs)
    | SkBreak => let '(r, sks'', subs) := par_leave scs' sks' (S i) t in (r, sk :: sks'', subs)
    end
  | _, _ => (Idle, sks, [])
  end.

Definition parallel (scs : list script) : phase -> tree -> pstate -> action * pstate :=
  fun ph t ps =>
    let '(a, sks, subs) := match ph with
                           | Enter => par_enter scs (fst ps) 0%nat t
                           | Leave => par_leave scs (fst ps) 0%nat t
                           end in
    (a, (sks, rev subs ++ snd ps)).

Definition visit_scripted (fuel : nat) (root : tree) (sc : script) : res * list call :=
  let '(r, _, log) := visit unit (scripted sc) fuel root tt in (r, log).

Definition visit_parallel (fuel : nat) (root : tree) (scs : list script)
  : res * list call * list subcall :=
  let '(r, ps, log) := visit pstate (parallel scs) fuel root (map (fun _ => SkNone) scs, []) in
  (r, log, rev (snd ps)).
