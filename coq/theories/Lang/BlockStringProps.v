(* Proofs about the block-string printer model and the lexer's block-string denotation. *)
From GV Require Import Base.Prelude Lang.Location Lang.Lexer Lang.LexerProps Lang.BlockString.

(* ================================================================== *)
(* A. lines                                                            *)
(* ================================================================== *)

(* split at LF only *)
Fixpoint split_lf (s : list N) : list (list N) :=
  match s with
  | [] => [[]]
  | c :: t =>
    if c =? LF then [] :: split_lf t
    else match split_lf t with l :: r => (c :: l) :: r | [] => [[c]] end
  end.

Lemma split_lf_ne s : split_lf s <> [].
Proof.
  destruct s as [|c t]; cbn; [discriminate|].
  destruct (c =? LF); [discriminate|]. destruct (split_lf t); discriminate.
Qed.

Lemma join_lf_cons l ls : ls <> [] -> join_lf (l :: ls) = l ++ LF :: join_lf ls.
Proof. destruct ls; [congruence|reflexivity]. Qed.

Lemma join_lf_flat l ls : join_lf (l :: ls) = l ++ flat_map (fun y => LF :: y) ls.
Proof.
  revert l; induction ls as [|m ls IH]; intros l.
  - cbn. rewrite app_nil_r. reflexivity.
  - rewrite join_lf_cons by discriminate. rewrite IH. reflexivity.
Qed.

Lemma join_split s : join_lf (split_lf s) = s.
Proof.
  induction s as [|c t IH]; [reflexivity|]. cbn [split_lf].
  destruct (N.eqb_spec c LF) as [->|Hc].
  - rewrite join_lf_cons by apply split_lf_ne. rewrite IH. reflexivity.
  - destruct (split_lf t) as [|l r] eqn:E; [exfalso; eapply split_lf_ne; eauto|].
    rewrite !join_lf_flat in *. cbn. rewrite IH. reflexivity.
Qed.

Definition nolf (l : list N) : Prop := Forall (fun c => (c =? LF) = false) l.

Lemma split_lf_nolf_line l : nolf l -> split_lf l = [l].
Proof.
  induction 1 as [|c t Hc Ht IH]; [reflexivity|]. cbn [split_lf]. rewrite Hc, IH. reflexivity.
Qed.

Lemma split_lf_app_lf a b : nolf a -> split_lf (a ++ LF :: b) = a :: split_lf b.
Proof.
  induction 1 as [|c t Hc Ht IH]; [reflexivity|]. cbn [app split_lf]. rewrite Hc, IH. reflexivity.
Qed.

Lemma split_join ls : ls <> [] -> Forall nolf ls -> split_lf (join_lf ls) = ls.
Proof.
  induction ls as [|l ls IH]; [congruence|]. intros _ H. inversion H as [|? ? Hl Hls]; subst.
  destruct ls as [|m ls'].
  - cbn. apply split_lf_nolf_line. exact Hl.
  - rewrite join_lf_cons by discriminate. rewrite split_lf_app_lf by exact Hl.
    rewrite IH; [reflexivity|discriminate|exact Hls].
Qed.

Lemma split_lf_forall (Q : N -> Prop) s : Forall Q s -> Forall (Forall Q) (split_lf s).
Proof.
  induction 1 as [|c t Hc Ht IH]; [repeat constructor|]. cbn [split_lf].
  destruct (c =? LF); [constructor; [constructor|exact IH]|].
  destruct (split_lf t) as [|l r]; [repeat constructor; exact Hc|].
  inversion IH; subst. constructor; [constructor; assumption|assumption].
Qed.

Lemma split_lf_lines_nolf s : Forall nolf (split_lf s).
Proof.
  induction s as [|c t IH]; [repeat constructor|]. cbn [split_lf].
  destruct (c =? LF) eqn:E; [constructor; [constructor|exact IH]|].
  destruct (split_lf t) as [|l r]; [repeat constructor; exact E|].
  inversion IH; subst. constructor; [constructor; assumption|assumption].
Qed.

(* the regex split of Location.v is the LF split on CR-free text *)
Lemma has_cr_false v : has_cr v = false <-> Forall (fun c => (c =? CR) = false) v.
Proof.
  unfold has_cr. induction v as [|c t IH]; cbn [existsb]; [split; [constructor|reflexivity]|].
  rewrite orb_false_iff, IH, (N.eqb_sym CR c). split.
  - intros [H1 H2]. constructor; assumption.
  - intros H. inversion H; subst. split; assumption.
Qed.

Lemma split_lines_aux_lf s : has_cr s = false -> forall cur,
  split_lines_aux cur s =
  match split_lf s with l :: r => (rev cur ++ l) :: r | [] => [rev cur] end.
Proof.
  intros H. apply has_cr_false in H.
  induction H as [|c t Hc Ht IH]; intros cur; [cbn; rewrite app_nil_r; reflexivity|].
  cbn [split_lines_aux split_lf]. rewrite Hc.
  destruct (c =? LF).
  - rewrite IH. cbn [rev app]. rewrite app_nil_r.
    destruct (split_lf t) as [|l r] eqn:E; [exfalso; eapply split_lf_ne; eauto|reflexivity].
  - rewrite IH. destruct (split_lf t) as [|l r]; cbn [rev]; rewrite <- ?app_assoc; reflexivity.
Qed.

Lemma split_lines_lf s : has_cr s = false -> split_lines s = split_lf s.
Proof.
  intros H. unfold split_lines. rewrite split_lines_aux_lf by exact H.
  destruct (split_lf s) eqn:E; [exfalso; eapply split_lf_ne; eauto|reflexivity].
Qed.

(* ================================================================== *)
(* B. escaping of triple quotes                                        *)
(* ================================================================== *)

Lemma esc_triple t : escape_tq (34 :: 34 :: 34 :: t) = 92 :: 34 :: 34 :: 34 :: escape_tq t.
Proof. reflexivity. Qed.

Lemma esc_notriple c t : starts3 34 34 34 (c :: t) = false -> escape_tq (c :: t) = c :: escape_tq t.
Proof.
  destruct t as [|d [|e t3]]; try reflexivity. cbn [starts3]. intros H.
  cbn [escape_tq]. rewrite H. reflexivity.
Qed.

Lemma starts3_head c r : (c =? 34) = false -> starts3 34 34 34 (c :: r) = false.
Proof. intros H. destruct r as [|d [|e r']]; cbn; rewrite ?H; reflexivity. Qed.

Lemma esc_nonquote c t : (c =? 34) = false -> escape_tq (c :: t) = c :: escape_tq t.
Proof. intros H. apply esc_notriple, starts3_head, H. Qed.

Lemma starts3_true s : starts3 34 34 34 s = true -> exists t, s = 34 :: 34 :: 34 :: t.
Proof.
  destruct s as [|a [|b [|c t]]]; cbn; try discriminate. intros H.
  apply andb_true_iff in H as [H Hc]. apply andb_true_iff in H as [Ha Hb].
  apply N.eqb_eq in Ha, Hb, Hc. subst. eauto.
Qed.

Lemma esc_ind (P : list N -> Prop) :
  P [] -> (forall t, P t -> P (34 :: 34 :: 34 :: t)) ->
  (forall c t, starts3 34 34 34 (c :: t) = false -> P t -> P (c :: t)) ->
  forall s, P s.
Proof.
  intros H0 H3 H1 s.
  assert (G : forall n s, (length s <= n)%nat -> P s).
  { induction n as [|n IH]; intros s' Hs.
    - destruct s'; [exact H0|cbn in Hs; lia].
    - destruct s' as [|c t]; [exact H0|].
      destruct (starts3 34 34 34 (c :: t)) eqn:E.
      + apply starts3_true in E as (t' & E). rewrite E. apply H3. apply IH.
        inversion E; subst. cbn in Hs. lia.
      + apply H1; [exact E|]. apply IH. cbn in Hs. lia. }
  apply (G (length s)). lia.
Qed.

Lemma esc_head_cases t :
  t = [] \/
  (exists t3, t = 34 :: 34 :: 34 :: t3) \/
  (exists d t', t = d :: t' /\ starts3 34 34 34 t = false /\ escape_tq t = d :: escape_tq t').
Proof.
  destruct t as [|d t']; [left; reflexivity|right].
  destruct (starts3 34 34 34 (d :: t')) eqn:E.
  - left. apply starts3_true in E. exact E.
  - right. exists d, t'. split; [reflexivity|]. split; [reflexivity|apply esc_notriple, E].
Qed.

Lemma esc_app_lf a b : escape_tq (a ++ LF :: b) = escape_tq a ++ LF :: escape_tq b.
Proof.
  induction a as [|t IH|c t H3 IH] using esc_ind.
  - cbn [app]. apply esc_nonquote. reflexivity.
  - cbn [app]. rewrite !esc_triple, IH. reflexivity.
  - cbn [app]. rewrite (esc_notriple c t H3), esc_notriple, IH; [reflexivity|].
    destruct t as [|d [|e t3]]; cbn [app].
    + destruct b; cbn; [reflexivity|destruct (c =? 34); reflexivity].
    + cbn. destruct (c =? 34), (d =? 34); reflexivity.
    + exact H3.
Qed.

Lemma esc_forall (Q : N -> Prop) s : Q 92 -> Forall Q s -> Forall Q (escape_tq s).
Proof.
  intros Hq. induction s as [|t IH|c t H3 IH] using esc_ind; intros H.
  - constructor.
  - rewrite esc_triple. inversion H as [|? ? Ha H']; subst. inversion H' as [|? ? Hb H'']; subst.
    inversion H'' as [|? ? Hc Ht]; subst. repeat (constructor; [assumption|]). apply IH, Ht.
  - rewrite esc_notriple by exact H3. inversion H; subst. constructor; [assumption|apply IH; assumption].
Qed.

Lemma esc_nil_inv s : escape_tq s = [] -> s = [].
Proof.
  destruct (esc_head_cases s) as [->|[(t3 & ->)|(d & t' & -> & _ & E)]]; [reflexivity| |];
    [rewrite esc_triple|rewrite E]; discriminate.
Qed.

Lemma esc_length s : (length s <= length (escape_tq s))%nat.
Proof.
  induction s as [|t IH|c t H3 IH] using esc_ind; [cbn; lia| |].
  - rewrite esc_triple. cbn [length]. lia.
  - rewrite esc_notriple by exact H3. cbn [length]. lia.
Qed.

Definition blanks (p : list N) : Prop := Forall (fun c => is_blank_char c = true) p.

Lemma blank_not_quote c : is_blank_char c = true -> (c =? 34) = false.
Proof.
  unfold is_blank_char. intros H. apply orb_true_iff in H as [H|H]; apply N.eqb_eq in H; subst; reflexivity.
Qed.

Lemma esc_blank_prefix p l : blanks p -> escape_tq (p ++ l) = p ++ escape_tq l.
Proof.
  induction 1 as [|c t Hc Ht IH]; [reflexivity|]. cbn [app].
  rewrite esc_nonquote by (apply blank_not_quote, Hc). rewrite IH. reflexivity.
Qed.

Lemma esc_join ls : escape_tq (join_lf ls) = join_lf (map escape_tq ls).
Proof.
  induction ls as [|l ls IH]; [reflexivity|]. destruct ls as [|m ls']; [reflexivity|].
  cbn [map]. rewrite (join_lf_cons l), (join_lf_cons (escape_tq l)) by discriminate.
  rewrite esc_app_lf, IH. reflexivity.
Qed.

(* ================================================================== *)
(* C. the lexer's block loop on escaped lines                          *)
(* ================================================================== *)

(* after the greedy scan for triple quotes, the text does not end in a bare quote or a backslash *)
Fixpoint safe_end (s : list N) : bool :=
  match s with
  | [] => true
  | c :: t =>
    match t with
    | d :: e :: t3 => if (c =? 34) && (d =? 34) && (e =? 34) then safe_end t3 else safe_end t
    | [] => negb (c =? 34) && negb (c =? 92)
    | _ => safe_end t
    end
  end.

Lemma safe_end_triple t : safe_end (34 :: 34 :: 34 :: t) = safe_end t.
Proof. reflexivity. Qed.

Lemma safe_end_step c t : starts3 34 34 34 (c :: t) = false -> t <> [] -> safe_end (c :: t) = safe_end t.
Proof.
  destruct t as [|d [|e t3]]; [congruence|reflexivity|]. cbn [starts3]. intros H _.
  cbn [safe_end]. rewrite H. reflexivity.
Qed.

Definition plain (c : N) : Prop := (c =? LF) = false /\ (c =? CR) = false /\ is_scalar c = true.

Definition tail_ok (l T : list N) : Prop := safe_end l = true \/ peek_is (N.eqb 34) T = false.

Lemma tail_ok_triple t T : tail_ok (34 :: 34 :: 34 :: t) T -> tail_ok t T.
Proof. intros [H|H]; [left; exact H|right; exact H]. Qed.

Lemma tail_ok_tl c t T : starts3 34 34 34 (c :: t) = false -> tail_ok (c :: t) T -> tail_ok t T.
Proof.
  intros H3 [H|H]; [|right; exact H]. left.
  destruct t as [|d t']; [reflexivity|]. rewrite safe_end_step in H; [exact H|exact H3|discriminate].
Qed.

Lemma peek_no_starts3 T : peek_is (N.eqb 34) T = false -> starts3 34 34 34 T = false.
Proof.
  destruct T as [|x T']; [reflexivity|]. cbn [peek_is]. intros H. apply starts3_head.
  rewrite N.eqb_sym. exact H.
Qed.

Lemma starts3_34 r : starts3 34 34 34 (34 :: r) = starts2 34 34 r.
Proof. destruct r as [|a [|b r']]; reflexivity. Qed.

Lemma starts2_head c r : (c =? 34) = false -> starts2 34 34 (c :: r) = false.
Proof. intros H. destruct r as [|d r']; cbn; rewrite ?H; reflexivity. Qed.

Lemma starts2_34 r : starts2 34 34 (34 :: r) = peek_is (N.eqb 34) r.
Proof.
  destruct r as [|a r']; [reflexivity|]. cbn [starts2 peek_is].
  change (34 =? 34) with true. rewrite andb_true_l. apply N.eqb_sym.
Qed.

(* no closing delimiter is seen at a character that does not start a triple *)
Lemma look_i c t T : starts3 34 34 34 (c :: t) = false -> tail_ok (c :: t) T ->
  starts3 34 34 34 (c :: escape_tq t ++ T) = false.
Proof.
  intros H3 Hok. destruct (c =? 34) eqn:Ec; [|apply starts3_head, Ec].
  apply N.eqb_eq in Ec. subst c. rewrite starts3_34 in *.
  destruct (esc_head_cases t) as [->|[(t3 & ->)|(d & t' & -> & H3t & E)]].
  - cbn [escape_tq app]. destruct Hok as [H|H]; [discriminate|].
    destruct T as [|x T']; [reflexivity|]. apply starts2_head. cbn in H. rewrite N.eqb_sym. exact H.
  - reflexivity.
  - rewrite E. cbn [app]. destruct (d =? 34) eqn:Ed; [|apply starts2_head, Ed].
    apply N.eqb_eq in Ed. subst d. rewrite starts2_34 in *.
    destruct (esc_head_cases t') as [->|[(t3 & ->)|(e & t'' & -> & H3t' & E')]].
    + cbn [escape_tq app]. destruct Hok as [H|H]; [discriminate|exact H].
    + reflexivity.
    + rewrite E'. cbn [app peek_is]. cbn [peek_is] in H3. exact H3.
Qed.

(* no escape (backslash + triple quote) is seen at a backslash of the value *)
Lemma look_ii c t T : tail_ok (c :: t) T ->
  (c =? 92) && starts3 34 34 34 (escape_tq t ++ T) = false.
Proof.
  intros Hok. destruct (c =? 92) eqn:Ec; [|reflexivity]. cbn [andb].
  apply N.eqb_eq in Ec. subst c.
  destruct (esc_head_cases t) as [->|[(t3 & ->)|(d & t' & -> & H3t & E)]].
  - cbn [escape_tq app]. destruct Hok as [H|H]; [discriminate|]. apply peek_no_starts3, H.
  - reflexivity.
  - rewrite E. cbn [app]. destruct (d =? 34) eqn:Ed; [|apply starts3_head, Ed].
    apply N.eqb_eq in Ed. subst d. rewrite starts3_34 in *.
    destruct (esc_head_cases t') as [->|[(t3 & ->)|(e & t'' & -> & H3t' & E')]].
    + cbn [escape_tq app]. destruct Hok as [H|H]; [discriminate|].
      destruct T as [|x T']; [reflexivity|]. apply starts2_head. cbn in H. rewrite N.eqb_sym. exact H.
    + reflexivity.
    + rewrite E'. cbn [app]. destruct (e =? 34) eqn:Ee; [|apply starts2_head, Ee].
      apply N.eqb_eq in Ee. subst e. rewrite starts2_34 in *.
      destruct (esc_head_cases t'') as [->|[(t3 & ->)|(g & t3 & -> & H3t'' & E'')]].
      * cbn [escape_tq app]. destruct Hok as [H|H]; [discriminate|exact H].
      * reflexivity.
      * rewrite E''. cbn [app peek_is]. cbn [peek_is] in H3t. exact H3t.
Qed.

Lemma loop_step_esc f pos ls cur lines r :
  read_block_loop (S f) pos ls cur lines (92 :: 34 :: 34 :: 34 :: r)
  = read_block_loop f (pos + 4) ls (34 :: 34 :: 34 :: cur) lines r.
Proof. reflexivity. Qed.

Lemma loop_step_char f pos ls cur lines c r : plain c ->
  starts3 34 34 34 (c :: r) = false -> (c =? 92) && starts3 34 34 34 r = false ->
  read_block_loop (S f) pos ls cur lines (c :: r) = read_block_loop f (S pos) ls (c :: cur) lines r.
Proof.
  intros (Hl & Hc & Hs) H1 H2. cbn [read_block_loop]. rewrite H1, H2, Hl, Hc, Hs. reflexivity.
Qed.

Lemma loop_step_lf f pos ls cur lines r :
  read_block_loop (S f) pos ls cur lines (LF :: r)
  = read_block_loop f (S pos) (S pos) [] (rev cur :: lines) r.
Proof. destruct r as [|a [|b r']]; reflexivity. Qed.

Lemma loop_close f pos ls cur lines rest :
  read_block_loop (S f) pos ls cur lines (34 :: 34 :: 34 :: rest)
  = Ok ((pos + 3)%nat, rev (rev cur :: lines), ls, rest).
Proof. reflexivity. Qed.

(* one escaped line is consumed as that line *)
Lemma loop_line l : Forall plain l -> forall T f pos ls cur lines,
  tail_ok l T -> (length (escape_tq l ++ T) < f)%nat ->
  exists f', (length T < f')%nat /\
    read_block_loop f pos ls cur lines (escape_tq l ++ T)
    = read_block_loop f' (pos + length (escape_tq l)) ls (rev l ++ cur) lines T.
Proof.
  induction l as [|t IH|c t H3 IH] using esc_ind; intros Hp T f pos ls cur lines Hok Hf.
  - exists f. split; [exact Hf|]. cbn. rewrite Nat.add_0_r. reflexivity.
  - rewrite esc_triple in *. cbn [app length] in Hf. destruct f as [|f]; [lia|].
    inversion Hp as [|? ? _ Hp1]; subst. inversion Hp1 as [|? ? _ Hp2]; subst.
    inversion Hp2 as [|? ? _ Hp3]; subst.
    destruct (IH Hp3 T f (pos + 4)%nat ls (34 :: 34 :: 34 :: cur) lines (tail_ok_triple _ _ Hok) ltac:(lia))
      as (f' & Hf' & E).
    exists f'. split; [exact Hf'|]. cbn [app]. rewrite loop_step_esc, E.
    cbn [rev length]. rewrite <- !app_assoc. cbn [app].
    replace (pos + 4 + length (escape_tq t))%nat with (pos + S (S (S (S (length (escape_tq t))))))%nat by lia.
    reflexivity.
  - rewrite (esc_notriple c t H3) in *. cbn [app length] in Hf. destruct f as [|f]; [lia|].
    inversion Hp as [|? ? Hc Hpt]; subst.
    destruct (IH Hpt T f (S pos) ls (c :: cur) lines (tail_ok_tl _ _ _ H3 Hok) ltac:(lia))
      as (f' & Hf' & E).
    exists f'. split; [exact Hf'|]. cbn [app].
    rewrite loop_step_char; [|exact Hc|apply look_i; assumption|apply look_ii; assumption].
    rewrite E. cbn [rev length]. rewrite <- app_assoc. cbn [app].
    replace (S pos + length (escape_tq t))%nat with (pos + S (length (escape_tq t)))%nat by lia.
    reflexivity.
Qed.

Definition lines_ok (R : list (list N)) : Prop := Forall (Forall plain) R.

(* a non-empty list of escaped lines joined by LF and closed by the triple quote is read as those lines *)
Lemma loop_lines R : R <> [] -> lines_ok R -> safe_end (last R []) = true ->
  forall (rest : list N) f pos ls cur lines,
  (length (join_lf (map escape_tq R) ++ 34%N :: 34%N :: 34%N :: rest) < f)%nat ->
  exists ls',
    read_block_loop f pos ls cur lines (join_lf (map escape_tq R) ++ 34 :: 34 :: 34 :: rest)
    = Ok ((pos + length (join_lf (map escape_tq R)) + 3)%nat,
          rev lines ++ (rev cur ++ hd [] R) :: tl R, ls', rest).
Proof.
  induction R as [|l R IH]; [congruence|]. intros _ Hok Hse rest f pos ls cur lines Hf.
  inversion Hok as [|? ? Hl HR]; subst.
  destruct R as [|m R'].
  - cbn [map join_lf] in *. cbn [last] in Hse.
    destruct (loop_line l Hl (34 :: 34 :: 34 :: rest) f pos ls cur lines (or_introl Hse) Hf)
      as (f' & Hf' & E).
    destruct f' as [|f']; [cbn in Hf'; lia|].
    rewrite E, loop_close. exists ls. cbn [hd tl rev]. rewrite rev_app_distr, rev_involutive.
    reflexivity.
  - cbn [map] in *. rewrite join_lf_cons in * by discriminate.
    rewrite <- app_assoc in *. cbn [app] in *.
    destruct (loop_line l Hl (LF :: join_lf (escape_tq m :: map escape_tq R') ++ 34 :: 34 :: 34 :: rest)
                f pos ls cur lines (or_intror eq_refl) Hf) as (f' & Hf' & E).
    destruct f' as [|f']; [cbn in Hf'; lia|].
    rewrite E, loop_step_lf.
    assert (Hse' : safe_end (last (m :: R') []) = true) by exact Hse.
    destruct (IH ltac:(discriminate) HR Hse' rest f' (S (pos + length (escape_tq l)))
                 (S (pos + length (escape_tq l))) [] (rev (rev l ++ cur) :: lines)
                 ltac:(cbn [length] in Hf'; lia)) as (ls' & E').
    exists ls'. cbn [map] in E'. rewrite E'. f_equal. f_equal. f_equal. f_equal.
    + rewrite app_length. cbn [length]. lia.
    + cbn [hd tl rev app]. rewrite rev_app_distr, rev_involutive. rewrite <- app_assoc. reflexivity.
Qed.

(* ================================================================== *)
(* D. dedent of re-indented lines                                      *)
(* ================================================================== *)

Lemma leading_ws_prefix p l : blanks p -> leading_ws (p ++ l) = (length p + leading_ws l)%nat.
Proof.
  induction 1 as [|c t Hc Ht IH]; [reflexivity|]. cbn [app leading_ws length]. rewrite Hc, IH. reflexivity.
Qed.

Lemma line_blank_prefix p l : blanks p -> line_blank (p ++ l) = line_blank l.
Proof.
  intros H. unfold line_blank. rewrite leading_ws_prefix by exact H. rewrite app_length.
  destruct (Nat.eqb_spec (leading_ws l) (length l)) as [E|E].
  - apply Nat.eqb_eq. lia.
  - apply Nat.eqb_neq. lia.
Qed.

Lemma ci_pad p T : blanks p ->
  common_indent (map (app p) T) = option_map (Nat.add (length p)) (common_indent T).
Proof.
  intros Hp. induction T as [|l T IH]; [reflexivity|]. cbn [map common_indent].
  rewrite line_blank_prefix by exact Hp. rewrite IH.
  destruct (line_blank l); [reflexivity|].
  rewrite leading_ws_prefix by exact Hp.
  destruct (common_indent T) as [k|]; cbn [option_map]; [|reflexivity].
  f_equal. lia.
Qed.

Lemma ci_zero T : existsb zero_indent_line T = true -> common_indent T = Some 0%nat.
Proof.
  induction T as [|l T IH]; [discriminate|]. cbn [existsb common_indent]. intros H.
  apply orb_true_iff in H as [H|H].
  - unfold zero_indent_line in H. apply andb_true_iff in H as [Hb Hz].
    apply negb_true_iff in Hb. apply Nat.eqb_eq in Hz. rewrite Hb, Hz.
    destruct (common_indent T); reflexivity.
  - rewrite (IH H). destruct (line_blank l); [reflexivity|]. rewrite Nat.min_0_r. reflexivity.
Qed.

Definition all_empty (T : list (list N)) : Prop := Forall (fun l => l = []) T.

Lemma ci_all_empty T : all_empty T -> common_indent T = None.
Proof.
  induction 1 as [|l T Hl HT IH]; [reflexivity|]. subst l. cbn [common_indent]. rewrite IH. reflexivity.
Qed.

Lemma skipn_app_length {A} (p l : list A) : skipn (length p) (p ++ l) = l.
Proof. induction p; cbn; auto. Qed.

Lemma ded_tail p T : blanks p ->
  existsb zero_indent_line T = true \/ all_empty T ->
  map (fun l => match common_indent (map (app p) T) with Some k => skipn k l | None => [] end)
      (map (app p) T) = T.
Proof.
  intros Hp H. rewrite ci_pad by exact Hp. destruct H as [H|H].
  - rewrite (ci_zero T H). cbn [option_map]. rewrite Nat.add_0_r.
    rewrite map_map. rewrite <- (map_id T) at 2. apply map_ext. intros l. apply skipn_app_length.
  - rewrite (ci_all_empty T H). cbn [option_map]. rewrite map_map.
    induction H as [|l T Hl HT IH]; [reflexivity|]. cbn [map]. rewrite IH. subst l. reflexivity.
Qed.

Definition trim (X : list (list N)) : list (list N) :=
  rev (drop_while_blank (rev (drop_while_blank X))).

Lemma dedent_indented p X : X <> [] -> blanks p ->
  existsb zero_indent_line (tl X) = true \/ all_empty (tl X) ->
  dedent (hd [] X :: map (app p) (tl X)) = trim X.
Proof.
  intros HX Hp H. destruct X as [|x T]; [congruence|]. cbn [hd tl] in *.
  unfold dedent. rewrite ded_tail by assumption. reflexivity.
Qed.

Definition all_blank (A : list (list N)) : Prop := Forall (fun l => line_blank l = true) A.

Lemma dwb_blank_prefix A B : all_blank A -> drop_while_blank (A ++ B) = drop_while_blank B.
Proof. induction 1 as [|l A Hl HA IH]; [reflexivity|]. cbn [app drop_while_blank]. rewrite Hl. exact IH. Qed.

Lemma dwb_nonblank b B : line_blank b = false -> drop_while_blank (b :: B) = b :: B.
Proof. intros H. cbn [drop_while_blank]. rewrite H. reflexivity. Qed.

Lemma all_blank_rev A : all_blank A -> all_blank (rev A).
Proof. unfold all_blank. intros H. apply Forall_rev. exact H. Qed.

Lemma trim_eq pre L post : all_blank pre -> all_blank post -> L <> [] ->
  line_blank (hd [] L) = false -> line_blank (last L []) = false ->
  trim (pre ++ L ++ post) = L.
Proof.
  intros Hpre Hpost HL Hh Hl. unfold trim.
  rewrite dwb_blank_prefix by exact Hpre.
  destruct L as [|l0 L']; [congruence|]. cbn [hd] in Hh.
  cbn [app]. rewrite dwb_nonblank by exact Hh.
  change (l0 :: L' ++ post) with ((l0 :: L') ++ post). rewrite rev_app_distr.
  rewrite dwb_blank_prefix by (apply all_blank_rev, Hpost).
  destruct (exists_last HL) as (L0 & z & E). rewrite E in *. rewrite last_last in Hl.
  rewrite rev_app_distr. cbn [rev app]. rewrite dwb_nonblank by exact Hl.
  change (z :: rev L0) with (rev [z] ++ rev L0). rewrite <- rev_app_distr. apply rev_involutive.
Qed.

(* ================================================================== *)
(* E. the shape of the printed text                                    *)
(* ================================================================== *)

Lemma nolf_esc l : nolf l -> nolf (escape_tq l).
Proof. apply esc_forall. reflexivity. Qed.

Lemma split_lf_esc s : split_lf (escape_tq s) = map escape_tq (split_lf s).
Proof.
  rewrite <- (join_split s) at 1. rewrite esc_join. apply split_join.
  - intros E. apply map_eq_nil in E. eapply split_lf_ne; eauto.
  - apply Forall_forall. intros x Hx. apply in_map_iff in Hx as (l & <- & Hl).
    apply nolf_esc. pose proof (split_lf_lines_nolf s) as H. rewrite Forall_forall in H. apply H, Hl.
Qed.

Lemma has_cr_esc v : has_cr v = false -> has_cr (escape_tq v) = false.
Proof. rewrite !has_cr_false. apply esc_forall. reflexivity. Qed.

Lemma eobs_esc l : empty_or_blank_start (escape_tq l) = empty_or_blank_start l.
Proof.
  destruct (esc_head_cases l) as [->|[(t3 & ->)|(d & t' & -> & _ & E)]];
    [reflexivity|reflexivity|rewrite E; reflexivity].
Qed.

Lemma forallb_map_ext {A B} (f : A -> B) (g : B -> bool) (h : A -> bool) l :
  (forall x, g (f x) = h x) -> forallb g (map f l) = forallb h l.
Proof. intros H. induction l as [|x l IH]; [reflexivity|]. cbn. rewrite H, IH. reflexivity. Qed.

Lemma tl_map {A B} (f : A -> B) l : tl (map f l) = map f (tl l).
Proof. destruct l; reflexivity. Qed.

Definition fl (v : list N) : bool :=
  Nat.ltb 1 (length (split_lf v)) && forallb empty_or_blank_start (tl (split_lf v)).
Definition httq (v : list N) : bool := ends_with [92; 34; 34; 34] (escape_tq v).
Definition ft (v : list N) : bool := (ends_with [34] v && negb (httq v)) || ends_with [92] v.
Definition single (v : list N) : bool := Nat.eqb (length (split_lf v)) 1.
Definition pm (v : list N) (m : bool) : bool :=
  negb m && (negb (single v) || Nat.ltb 70 (length v) || ft v || fl v || httq v).
Definition before_b (v : list N) (m : bool) : bool :=
  (pm v m && negb (single v && starts_blank v)) || fl v.
Definition after_b (v : list N) (m : bool) : bool := pm v m || ft v.

Lemma print_eq v m : has_cr v = false ->
  print_block_string v m
  = TQ ++ (if before_b v m then [LF] else []) ++ escape_tq v ++ (if after_b v m then [LF] else []) ++ TQ.
Proof.
  intros H. unfold print_block_string. cbv zeta.
  rewrite (split_lines_lf _ (has_cr_esc v H)), split_lf_esc, map_length, tl_map.
  rewrite (forallb_map_ext escape_tq empty_or_blank_start empty_or_blank_start _ eobs_esc).
  reflexivity.
Qed.

(* ---- the trailing-quote / trailing-backslash rule is exactly safe_end ---- *)
Lemma ends_with_cons suf c t :
  ends_with suf (c :: t) = nat_list_eqb suf (c :: t) || ends_with suf t.
Proof. reflexivity. Qed.

Lemma nle_cons a s c t : nat_list_eqb (a :: s) (c :: t) = (a =? c) && nat_list_eqb s t.
Proof. reflexivity. Qed.

Lemma ew1_cons x c t : t <> [] -> ends_with [x] (c :: t) = ends_with [x] t.
Proof.
  intros H. cbn [ends_with nat_list_eqb]. destruct t as [|d t']; [congruence|].
  rewrite andb_false_r. reflexivity.
Qed.

Lemma esc_not_3q t : nat_list_eqb [34; 34; 34] (escape_tq t) = false.
Proof.
  destruct (nat_list_eqb [34; 34; 34] (escape_tq t)) eqn:E; [exfalso|reflexivity].
  apply nat_list_eqb_eq in E.
  destruct (esc_head_cases t) as [->|[(t3 & ->)|(d & t' & -> & H3 & E1)]]; [discriminate|discriminate|].
  rewrite E1 in E. injection E as <- E.
  destruct (esc_head_cases t') as [->|[(t3 & ->)|(e & t'' & -> & H3' & E2)]]; [discriminate|discriminate|].
  rewrite E2 in E. injection E as <- E.
  destruct (esc_head_cases t'') as [->|[(t3 & ->)|(g & t3 & -> & H3'' & E3)]]; [discriminate|discriminate|].
  rewrite E3 in E. injection E as <- E. symmetry in E. apply esc_nil_inv in E. subst t3.
  discriminate.
Qed.

Lemma ew_tq4_triple E : E <> [] ->
  ends_with [92; 34; 34; 34] (92 :: 34 :: 34 :: 34 :: E) = ends_with [92; 34; 34; 34] E.
Proof. destruct E; [congruence|]. intros _. reflexivity. Qed.

Lemma safe_end_ft v : safe_end v = negb (ft v).
Proof.
  induction v as [|t IH|c t H3 IH] using esc_ind.
  - reflexivity.
  - destruct t as [|x t']; [reflexivity|]. rewrite safe_end_triple, IH. f_equal.
    unfold ft, httq. rewrite esc_triple.
    rewrite !(ew1_cons _ 34) by discriminate.
    rewrite ew_tq4_triple; [reflexivity|]. intros E. apply esc_nil_inv in E. discriminate.
  - destruct t as [|x t'].
    + unfold ft, httq. cbn [escape_tq safe_end ends_with nat_list_eqb].
      rewrite !andb_true_r, !orb_false_r, !andb_false_r, andb_true_r.
      rewrite (N.eqb_sym 34 c), (N.eqb_sym 92 c). rewrite negb_orb. reflexivity.
    + rewrite safe_end_step by (exact H3 || discriminate). rewrite IH. f_equal.
      unfold ft, httq. rewrite (esc_notriple c _ H3).
      rewrite !(ew1_cons _ c) by discriminate.
      rewrite (ends_with_cons _ c), nle_cons, esc_not_3q, andb_false_r. reflexivity.
Qed.

Lemma safe_end_app_lf a b : safe_end (a ++ LF :: b) = safe_end b.
Proof.
  induction a as [|t IH|c t H3 IH] using esc_ind.
  - cbn [app]. destruct b as [|d b']; [reflexivity|]. apply safe_end_step; [|discriminate].
    apply starts3_head. reflexivity.
  - cbn [app]. rewrite safe_end_triple. exact IH.
  - cbn [app]. rewrite safe_end_step; [exact IH| |destruct t; discriminate].
    destruct t as [|d [|e t3]]; cbn [app].
    + destruct b; cbn; [reflexivity|destruct (c =? 34); reflexivity].
    + cbn. destruct (c =? 34), (d =? 34); reflexivity.
    + exact H3.
Qed.

Lemma safe_end_join L : L <> [] -> safe_end (join_lf L) = safe_end (last L []).
Proof.
  induction L as [|l L IH]; [congruence|]. intros _. destruct L as [|m L']; [reflexivity|].
  rewrite join_lf_cons by discriminate. rewrite safe_end_app_lf. rewrite IH by discriminate. reflexivity.
Qed.

Lemma safe_end_last_line v : safe_end (last (split_lf v) []) = safe_end v.
Proof. rewrite <- safe_end_join by apply split_lf_ne. rewrite join_split. reflexivity. Qed.

Lemma blank_props c : is_blank_char c = true ->
  (c =? 34) = false /\ (c =? 92) = false /\ (c =? LF) = false /\ (c =? CR) = false /\ is_scalar c = true.
Proof.
  unfold is_blank_char. intros H. apply orb_true_iff in H as [H|H]; apply N.eqb_eq in H; subst;
    repeat split; reflexivity.
Qed.

Lemma safe_end_blank_prefix p l : blanks p -> safe_end (p ++ l) = safe_end l.
Proof.
  induction 1 as [|c t Hc Ht IH]; [reflexivity|]. cbn [app].
  destruct (blank_props c Hc) as (H34 & H92 & _).
  destruct (t ++ l) as [|d r] eqn:E.
  - apply app_eq_nil in E as [-> ->]. cbn. rewrite H34, H92. reflexivity.
  - rewrite safe_end_step; [exact IH|apply starts3_head, H34|discriminate].
Qed.

(* ---- consequences of the layout decisions ---- *)
Lemma zil_not_eobs l : zero_indent_line l = true -> empty_or_blank_start l = false.
Proof.
  unfold zero_indent_line, line_blank. destruct l as [|c t]; [discriminate|].
  cbn [leading_ws empty_or_blank_start]. destruct (is_blank_char c); [|reflexivity].
  rewrite andb_false_r. discriminate.
Qed.

Lemma not_eobs_zil l : empty_or_blank_start l = false -> zero_indent_line l = true.
Proof.
  unfold zero_indent_line, line_blank. destruct l as [|c t]; [discriminate|].
  cbn [leading_ws empty_or_blank_start length]. intros ->. reflexivity.
Qed.

Lemma forallb_false_existsb {A} (f g : A -> bool) l :
  (forall x, f x = false -> g x = true) -> forallb f l = false -> existsb g l = true.
Proof.
  intros H. induction l as [|x l IH]; [discriminate|]. cbn. intros E.
  apply andb_false_iff in E as [E|E]; [rewrite (H x E); reflexivity|rewrite (IH E), orb_true_r; reflexivity].
Qed.

Lemma existsb_forallb_contra {A} (f g : A -> bool) l :
  (forall x, g x = true -> f x = false) -> existsb g l = true -> forallb f l = true -> False.
Proof.
  intros H. induction l as [|x l IH]; [discriminate|]. cbn. intros E F.
  apply andb_true_iff in F as [F1 F2]. apply orb_true_iff in E as [E|E]; [|auto].
  rewrite (H x E) in F1. discriminate.
Qed.

Lemma range_unpack v : in_block_range v = true ->
  has_cr v = false /\
  (v = [] \/
   (line_blank (hd [] (split_lf v)) = false /\ line_blank (last (split_lf v) []) = false /\
    (length (split_lf v) = 1%nat \/ existsb zero_indent_line (tl (split_lf v)) = true \/
     leading_ws (hd [] (split_lf v)) = 0%nat))).
Proof.
  unfold in_block_range. intros H. apply andb_true_iff in H as [Hcr H].
  apply negb_true_iff in Hcr. split; [exact Hcr|].
  destruct v as [|c t]; [left; reflexivity|right].
  rewrite (split_lines_lf _ Hcr) in H.
  apply andb_true_iff in H as [H H3]. apply andb_true_iff in H as [H1 H2].
  apply negb_true_iff in H1, H2. split; [exact H1|]. split; [exact H2|].
  apply orb_true_iff in H3 as [H3|H3]; [apply orb_true_iff in H3 as [H3|H3]|].
  - left. apply Nat.eqb_eq, H3.
  - right. left. exact H3.
  - right. right. apply Nat.eqb_eq, H3.
Qed.

Lemma single_line_eq v l : split_lf v = [l] -> v = l.
Proof. intros E. rewrite <- (join_split v), E. reflexivity. Qed.

Lemma F_pre v m : in_block_range v = true -> v <> [] -> before_b v m = true ->
  existsb zero_indent_line (split_lf v) = true.
Proof.
  intros Hr Hv Hb. destruct (range_unpack v Hr) as (_ & [->|(H1 & H2 & H3)]); [congruence|].
  destruct (split_lf v) as [|l0 L'] eqn:EL; [exfalso; eapply split_lf_ne; eauto|].
  cbn [hd tl length existsb] in *.
  assert (Z : leading_ws l0 = 0%nat -> zero_indent_line l0 = true).
  { intros Z. unfold zero_indent_line. rewrite H1, Z. reflexivity. }
  destruct H3 as [H3|[H3|H3]].
  - destruct L' as [|? ?]; [|cbn in H3; lia].
    unfold before_b, fl, single in Hb. rewrite EL in Hb. cbn [length Nat.ltb Nat.leb Nat.eqb andb orb] in Hb.
    rewrite orb_false_r in Hb. apply andb_true_iff in Hb as [_ Hb]. apply negb_true_iff in Hb.
    apply single_line_eq in EL. subst l0. rewrite Z; [reflexivity|].
    destruct v as [|c t]; [congruence|]. cbn [starts_blank] in Hb. cbn [leading_ws]. rewrite Hb. reflexivity.
  - rewrite H3. apply orb_true_r.
  - rewrite (Z H3). reflexivity.
Qed.

Lemma F_nopre v m : before_b v m = false ->
  length (split_lf v) = 1%nat \/ existsb zero_indent_line (tl (split_lf v)) = true.
Proof.
  unfold before_b. intros H. apply orb_false_iff in H as [_ H]. unfold fl in H.
  apply andb_false_iff in H as [H|H].
  - left. apply Nat.ltb_ge in H. pose proof (split_lf_ne v). destruct (split_lf v); [congruence|cbn in *; lia].
  - right. eapply forallb_false_existsb; [|exact H]. apply not_eobs_zil.
Qed.

Lemma F_post v m : after_b v m = false -> safe_end (last (split_lf v) []) = true.
Proof.
  unfold after_b. intros H. apply orb_false_iff in H as [_ H].
  rewrite safe_end_last_line, safe_end_ft, H. reflexivity.
Qed.

(* ================================================================== *)
(* F. re-indentation                                                   *)
(* ================================================================== *)

Lemma indent_by_app p a b : indent_by p (a ++ b) = indent_by p a ++ indent_by p b.
Proof.
  induction a as [|c t IH]; [reflexivity|]. cbn [app indent_by]. rewrite IH.
  destruct (c =? LF); [|reflexivity]. cbn [app]. rewrite <- app_assoc. reflexivity.
Qed.

Lemma indent_by_nolf p s : nolf s -> indent_by p s = s.
Proof. induction 1 as [|c t Hc Ht IH]; [reflexivity|]. cbn [indent_by]. rewrite Hc, IH. reflexivity. Qed.

Lemma indent_by_nil s : indent_by [] s = s.
Proof. induction s as [|c t IH]; [reflexivity|]. cbn [indent_by app]. rewrite IH. destruct (N.eqb_spec c LF); congruence. Qed.

Lemma indent_by_compose p1 p2 s : nolf p1 -> indent_by p2 (indent_by p1 s) = indent_by (p2 ++ p1) s.
Proof.
  intros H. induction s as [|c t IH]; [reflexivity|]. cbn [indent_by].
  destruct (c =? LF) eqn:E.
  - cbn [indent_by]. change (LF =? LF) with true. cbv iota.
    rewrite indent_by_app, (indent_by_nolf p2 p1 H), IH, <- app_assoc. reflexivity.
  - cbn [indent_by]. rewrite E, IH. reflexivity.
Qed.

Lemma blanks_nolf p : blanks p -> nolf p.
Proof. apply Forall_impl. intros c Hc. apply blank_props in Hc. tauto. Qed.

Lemma blanks_app p q : blanks p -> blanks q -> blanks (p ++ q).
Proof. intros. apply Forall_app. split; assumption. Qed.

Lemma indent_all_one pads : Forall blanks pads -> forall acc, blanks acc ->
  exists P, blanks P /\ forall s, indent_all pads (indent_by acc s) = indent_by P s.
Proof.
  induction 1 as [|p pads Hp Hps IH]; intros acc Hacc.
  - exists acc. split; [exact Hacc|reflexivity].
  - destruct (IH (p ++ acc) (blanks_app _ _ Hp Hacc)) as (P & HP & E).
    exists P. split; [exact HP|]. intros s. cbn [indent_all].
    rewrite indent_by_compose by (apply blanks_nolf, Hacc). apply E.
Qed.

Lemma indent_all_single pads : Forall blanks pads ->
  exists P, blanks P /\ forall s, indent_all pads s = indent_by P s.
Proof.
  intros H. destruct (indent_all_one pads H [] (Forall_nil _)) as (P & HP & E).
  exists P. split; [exact HP|]. intros s. rewrite <- E, indent_by_nil. reflexivity.
Qed.

Lemma indent_flat p Y : Forall nolf Y ->
  indent_by p (flat_map (fun y => LF :: y) Y) = flat_map (fun y => LF :: y) (map (app p) Y).
Proof.
  induction 1 as [|y Y Hy HY IH]; [reflexivity|]. cbn [flat_map map].
  change ((LF :: y) ++ flat_map (fun y0 => LF :: y0) Y) with (LF :: (y ++ flat_map (fun y0 => LF :: y0) Y)).
  cbn [indent_by]. change (LF =? LF) with true. cbv iota.
  rewrite indent_by_app, (indent_by_nolf p y Hy), IH. cbn [app]. rewrite <- app_assoc. reflexivity.
Qed.

Lemma indent_join p X : X <> [] -> Forall nolf X ->
  indent_by p (join_lf X) = join_lf (hd [] X :: map (app p) (tl X)).
Proof.
  intros HX H. destruct X as [|l Y]; [congruence|]. inversion H; subst. cbn [hd tl].
  rewrite !join_lf_flat, indent_by_app, indent_by_nolf, indent_flat by assumption. reflexivity.
Qed.

Lemma indent_esc_lines p X : X <> [] -> blanks p -> Forall nolf X ->
  indent_by p (join_lf (map escape_tq X))
  = join_lf (map escape_tq (hd [] X :: map (app p) (tl X))).
Proof.
  intros HX Hp H. rewrite indent_join.
  - destruct X as [|l Y]; [congruence|]. cbn [map hd tl]. do 2 f_equal.
    rewrite !map_map. apply map_ext. intros y. symmetry. apply esc_blank_prefix, Hp.
  - intros E. apply map_eq_nil in E. congruence.
  - apply Forall_forall. intros x Hx. apply in_map_iff in Hx as (l & <- & Hl).
    apply nolf_esc. rewrite Forall_forall in H. apply H, Hl.
Qed.

(* ================================================================== *)
(* G. the round trip                                                   *)
(* ================================================================== *)

Lemma read_token_block cu r :
  read_token cu (34 :: 34 :: 34 :: r) =
  match read_block_loop (S (length r)) (cpos cu + 3) (cls cu) [] [] r with
  | Ok (e, raw, ls', rest) =>
    Ok (mk K_BLOCK_STRING cu (cpos cu) e (Some (join_lf (dedent raw))),
        mkCur e (cline cu + (length raw - 1)) ls', rest)
  | SyntaxErr q => SyntaxErr q
  | Crash w => Crash w
  | OutOfFuel => OutOfFuel
  end.
Proof. reflexivity. Qed.

Lemma join_pre Y : Y <> [] -> [LF] ++ join_lf Y = join_lf ([] :: Y).
Proof. intros H. rewrite join_lf_cons by exact H. reflexivity. Qed.

Lemma join_post Y : Y <> [] -> join_lf Y ++ [LF] = join_lf (Y ++ [[]]).
Proof.
  induction Y as [|l Y IH]; [congruence|]. intros _. destruct Y as [|m Y'].
  - cbn. reflexivity.
  - rewrite (join_lf_cons l (m :: Y')) by discriminate. cbn [app].
    rewrite (join_lf_cons l (m :: Y' ++ [[]])) by discriminate. rewrite <- app_assoc. cbn [app].
    do 2 f_equal. apply (IH ltac:(discriminate)).
Qed.

Definition scalars (v : list N) : Prop := Forall (fun c => is_scalar c = true) v.

Lemma last_map_app {A} (f : A -> A) (T : list A) (d : A) : T <> [] -> last (map f T) d = f (last T d).
Proof.
  induction T as [|x T IH]; [congruence|]. intros _. destruct T as [|y T']; [reflexivity|].
  change (last (map f (x :: y :: T')) d) with (last (map f (y :: T')) d).
  change (last (x :: y :: T') d) with (last (y :: T') d). apply IH. discriminate.
Qed.

Lemma last_app_r {A} (a b : list A) d : b <> [] -> last (a ++ b) d = last b d.
Proof.
  intros Hb. induction a as [|x a IH]; [reflexivity|]. cbn [app].
  destruct (a ++ b) eqn:E; [apply app_eq_nil in E as [_ E]; congruence|]. exact IH.
Qed.

Lemma safe_end_last_R p X : X <> [] -> blanks p ->
  safe_end (last (hd [] X :: map (app p) (tl X)) []) = safe_end (last X []).
Proof.
  intros HX Hp. destruct X as [|x T]; [congruence|]. cbn [hd tl].
  destruct T as [|y T']; [reflexivity|].
  change (last (x :: map (app p) (y :: T')) []) with (last (map (app p) (y :: T')) []).
  change (last (x :: y :: T') []) with (last (y :: T') []).
  rewrite last_map_app by discriminate. apply safe_end_blank_prefix, Hp.
Qed.

Lemma plain_blank c : is_blank_char c = true -> plain c.
Proof. intros H. apply blank_props in H. unfold plain. tauto. Qed.

Lemma existsb_app_l {A} (f : A -> bool) a b : existsb f a = true -> existsb f (a ++ b) = true.
Proof. intros H. rewrite existsb_app, H. reflexivity. Qed.

Definition post_lines (a : bool) : list (list N) := if a then [[]] else [].
Definition pre_lines (b : bool) : list (list N) := if b then [[]] else [].

Lemma all_blank_pl b : all_blank (pre_lines b).
Proof. destruct b; repeat constructor. Qed.

Lemma all_empty_pl b : all_empty (pre_lines b).
Proof. destruct b; repeat constructor. Qed.

Lemma Forall_and {A} (P Q : A -> Prop) l : Forall P l -> Forall Q l -> Forall (fun x => P x /\ Q x) l.
Proof. induction 1; intros H'; inversion H'; subst; constructor; auto. Qed.

Lemma lines_plain v : has_cr v = false -> scalars v -> lines_ok (split_lf v).
Proof.
  intros Hcr Hs. apply has_cr_false in Hcr. unfold scalars in Hs.
  pose proof (split_lf_forall _ v (Forall_and _ _ _ Hcr Hs)) as H1.
  pose proof (split_lf_lines_nolf v) as H2. unfold lines_ok.
  induction H1 as [|l T Hl HT IH]; [constructor|]. inversion H2 as [|? ? Hn HnT]; subst.
  constructor; [|apply IH; assumption]. unfold nolf in Hn.
  pose proof (Forall_and _ _ _ Hn Hl) as H3.
  eapply Forall_impl; [|exact H3]. cbn. intros c. unfold plain. tauto.
Qed.

Theorem block_roundtrip_main v m pads cu rest :
  in_block_range v = true -> scalars v -> Forall blanks pads ->
  exists tk cu',
    read_token cu (indent_all pads (print_block_string v m) ++ rest) = Ok (tk, cu', rest) /\
    tkind tk = K_BLOCK_STRING /\ thasval tk = true /\ tvalue tk = v /\
    tstart tk = cpos cu /\
    tend tk = (cpos cu + length (indent_all pads (print_block_string v m)))%nat /\
    cpos cu' = tend tk.
Proof.
  intros Hr Hs Hpads.
  destruct (range_unpack v Hr) as (Hcr & Hshape).
  destruct (indent_all_single pads Hpads) as (P & HP & EP). rewrite EP.
  rewrite (print_eq v m Hcr).
  set (B := before_b v m). set (A := after_b v m).
  pose (L := split_lf v).
  pose (X := pre_lines B ++ L ++ post_lines A).
  assert (HLne : L <> []) by apply split_lf_ne.
  assert (HXne : X <> []).
  { unfold X. intros E. apply app_eq_nil in E as [_ E]. apply app_eq_nil in E as [E _]. congruence. }
  (* the body is the LF-join of the escaped lines of X *)
  assert (Ebody : (if B then [LF] else []) ++ escape_tq v ++ (if A then [LF] else [])
                  = join_lf (map escape_tq X)).
  { assert (E0 : escape_tq v = join_lf (map escape_tq L)).
    { unfold L. rewrite <- esc_join, join_split. reflexivity. }
    assert (Hne : map escape_tq L <> []) by (intros E; apply map_eq_nil in E; congruence).
    unfold X, pre_lines, post_lines. rewrite E0, !map_app.
    destruct B, A; cbn [map escape_tq app].
    - rewrite join_post by exact Hne. rewrite <- join_pre; [reflexivity|].
      intros E. apply app_eq_nil in E as [E _]. congruence.
    - rewrite !app_nil_r. rewrite <- join_pre by exact Hne. reflexivity.
    - rewrite join_post by exact Hne. reflexivity.
    - rewrite !app_nil_r. reflexivity. }
  assert (HLnolf : Forall nolf L) by apply split_lf_lines_nolf.
  assert (HXnolf : Forall nolf X).
  { unfold X, pre_lines, post_lines. apply Forall_app. split; [destruct B; repeat constructor|].
    apply Forall_app. split; [exact HLnolf|destruct A; repeat constructor]. }
  set (R := hd [] X :: map (app P) (tl X)).
  assert (Etext : indent_by P (TQ ++ (if B then [LF] else []) ++ escape_tq v ++ (if A then [LF] else []) ++ TQ)
                  = 34 :: 34 :: 34 :: join_lf (map escape_tq R) ++ [34; 34; 34]).
  { rewrite indent_by_app. rewrite (indent_by_nolf P TQ) by (repeat constructor).
    replace ((if B then [LF] else []) ++ escape_tq v ++ (if A then [LF] else []) ++ TQ)
      with (((if B then [LF] else []) ++ escape_tq v ++ (if A then [LF] else [])) ++ TQ)
      by (rewrite <- !app_assoc; reflexivity).
    rewrite Ebody, indent_by_app, (indent_by_nolf P TQ) by (repeat constructor).
    rewrite indent_esc_lines by assumption. reflexivity. }
  rewrite Etext.
  (* lines of R are made of plain characters *)
  assert (HLplain : lines_ok L) by (apply lines_plain; assumption).
  assert (HXplain : lines_ok X).
  { unfold X, lines_ok, pre_lines, post_lines. apply Forall_app. split; [destruct B; repeat constructor|].
    apply Forall_app. split; [exact HLplain|destruct A; repeat constructor]. }
  assert (HRplain : lines_ok R).
  { unfold R. destruct X as [|x T]; [congruence|]. cbn [hd tl]. inversion HXplain; subst.
    constructor; [assumption|]. apply Forall_forall. intros l Hl. apply in_map_iff in Hl as (y & <- & Hy).
    apply Forall_app. split; [eapply Forall_impl; [|exact HP]; apply plain_blank|].
    match goal with H : Forall (Forall plain) T |- _ => rewrite Forall_forall in H; apply H, Hy end. }
  assert (HRse : safe_end (last R []) = true).
  { unfold R. rewrite safe_end_last_R by assumption. unfold X, post_lines. fold A.
    destruct A eqn:EA.
    - rewrite app_assoc. rewrite last_last. reflexivity.
    - rewrite app_nil_r. rewrite last_app_r by exact HLne. apply (F_post v m). exact EA. }
  (* run the lexer *)
  cbn [app]. rewrite read_token_block.
  rewrite <- app_assoc. cbn [app].
  destruct (loop_lines R ltac:(discriminate) HRplain HRse rest
              (S (length (join_lf (map escape_tq R) ++ 34 :: 34 :: 34 :: rest)))
              (cpos cu + 3)%nat (cls cu) [] [] ltac:(lia)) as (ls' & Eloop).
  rewrite Eloop. cbn [rev app].
  (* the value *)
  assert (Eval : join_lf (dedent R) = v).
  { destruct Hshape as [Ev|(H1 & H2 & H3)].
    - subst v. unfold R, X, L. replace B with false by (unfold B; destruct m; reflexivity).
      replace A with false by (unfold A; destruct m; reflexivity). reflexivity.
    - assert (Hv : v <> []).
      { intros ->. cbn in H1. discriminate. }
      fold L in H1, H2, H3.
      assert (Hcond : existsb zero_indent_line (tl X) = true \/ all_empty (tl X)).
      { unfold X, pre_lines. fold B. destruct B eqn:EB.
        - left. cbn [app tl]. apply existsb_app_l. apply (F_pre v m Hr Hv EB).
        - cbn [app]. destruct (F_nopre v m EB) as [F|F]; fold L in F.
          + right. destruct L as [|l0 [|? ?]]; cbn in F; try lia. cbn [app tl]. apply all_empty_pl.
          + left. destruct L as [|l0 L']; [congruence|]. cbn [app tl] in *. apply existsb_app_l, F. }
      unfold R. rewrite (dedent_indented P X HXne HP Hcond). unfold X.
      rewrite trim_eq; [apply join_split|apply all_blank_pl|apply all_blank_pl|assumption..]. }
  eexists. eexists. split; [reflexivity|]. cbn [mk tkind thasval tvalue tstart tend cpos].
  repeat split; try reflexivity; [exact Eval|].
  cbn [length]. rewrite app_length. cbn [length]. lia.
Qed.

(* ================================================================== *)
(* H. every lexed block value is in the range                          *)
(* ================================================================== *)

Definition nolt (c : N) : Prop := (c =? LF) = false /\ (c =? CR) = false.

Lemma Forall_skipn' {A} (Q : A -> Prop) n l : Forall Q l -> Forall Q (skipn n l).
Proof.
  revert l; induction n as [|n IH]; intros l H; [exact H|]. destruct l; [constructor|].
  inversion H; subst. cbn. apply IH. assumption.
Qed.

Lemma trail_nolt d : is_trail d = true -> nolt d.
Proof.
  unfold is_trail, nolt, LF, CR. intros H. apply andb_true_iff in H as [H _]. apply N.leb_le in H.
  split; apply N.eqb_neq; lia.
Qed.

Lemma lead_nolt c : is_lead c = true -> nolt c.
Proof.
  unfold is_lead, nolt, LF, CR. intros H. apply andb_true_iff in H as [H _]. apply N.leb_le in H.
  split; apply N.eqb_neq; lia.
Qed.

(* every character of the raw lines is a character of the input and is no line terminator *)
Lemma loop_inv (Qs : N -> Prop) f : forall pos ls cur lines s e raw ls' r,
  Forall Qs s -> Forall (fun c => Qs c /\ nolt c) cur ->
  Forall (Forall (fun c => Qs c /\ nolt c)) lines ->
  read_block_loop f pos ls cur lines s = Ok (e, raw, ls', r) ->
  Forall (Forall (fun c => Qs c /\ nolt c)) raw /\ raw <> [].
Proof.
  induction f as [|f IH]; intros pos ls cur lines s e raw ls' r Hs Hcur Hlines H; [discriminate|].
  cbn [read_block_loop] in H. destruct s as [|c t]; [discriminate|].
  inversion Hs as [|? ? Hc Ht]; subst.
  destruct (starts3 34 34 34 (c :: t)) eqn:E3.
  { injection H as _ Hraw _ _. rewrite <- Hraw. cbn [rev]. split.
    - apply Forall_app. split; [apply Forall_rev, Hlines|].
      constructor; [apply Forall_rev, Hcur|constructor].
    - intros E. apply app_eq_nil in E as [_ E]. discriminate. }
  destruct ((c =? 92) && starts3 34 34 34 t) eqn:Eb.
  { apply andb_true_iff in Eb as [_ Eb]. apply starts3_true in Eb as (t' & ->).
    inversion Ht as [|? ? Hq Ht1]; subst. inversion Ht1 as [|? ? _ Ht2]; subst.
    inversion Ht2 as [|? ? _ Ht3]; subst.
    assert (Q34 : Qs 34 /\ nolt 34) by (split; [exact Hq|split; reflexivity]).
    eapply IH; [| | |exact H]; [exact Ht3| |exact Hlines].
    repeat (constructor; [exact Q34|]). exact Hcur. }
  destruct (c =? LF) eqn:El.
  { eapply IH; [| | |exact H]; [exact Ht|constructor|].
    constructor; [apply Forall_rev, Hcur|exact Hlines]. }
  destruct (c =? CR) eqn:Ecr.
  { destruct (peek_is (N.eqb LF) t).
    - eapply IH; [| | |exact H]; [destruct t; [constructor|inversion Ht; assumption]|constructor|].
      constructor; [apply Forall_rev, Hcur|exact Hlines].
    - eapply IH; [| | |exact H]; [exact Ht|constructor|].
      constructor; [apply Forall_rev, Hcur|exact Hlines]. }
  destruct (is_scalar c).
  { eapply IH; [| | |exact H]; [exact Ht| |exact Hlines].
    constructor; [|exact Hcur]. split; [exact Hc|split; assumption]. }
  destruct (is_lead c && peek_is is_trail t) eqn:Ep; [|discriminate].
  apply andb_true_iff in Ep as [Elead Ep]. destruct t as [|d t']; [discriminate|]. cbn [peek_is] in Ep.
  cbn [hd tl] in H. inversion Ht; subst.
  eapply IH; [| | |exact H]; [assumption| |exact Hlines].
  constructor; [split; [assumption|apply trail_nolt, Ep]|].
  constructor; [|exact Hcur]. split; [exact Hc|split; assumption].
Qed.

(* ---- trimming ---- *)
Lemma dwb_split M : exists A, M = A ++ drop_while_blank M /\ all_blank A /\
  (drop_while_blank M = [] \/ line_blank (hd [] (drop_while_blank M)) = false).
Proof.
  induction M as [|x M IH].
  - exists []. repeat split; [constructor|left; reflexivity].
  - cbn [drop_while_blank]. destruct (line_blank x) eqn:E.
    + destruct IH as (A & E1 & HA & Hd). exists (x :: A). split; [cbn; congruence|].
      split; [constructor; assumption|exact Hd].
    + exists []. repeat split; [constructor|right; exact E].
Qed.

Lemma dwb_snoc Y x : line_blank x = false -> drop_while_blank (Y ++ [x]) = drop_while_blank Y ++ [x].
Proof.
  intros H. induction Y as [|y Y IH]; cbn [app drop_while_blank]; [rewrite H; reflexivity|].
  destruct (line_blank y); [exact IH|reflexivity].
Qed.

Lemma trim_split M : exists A B, M = A ++ trim M ++ B /\ all_blank A /\ all_blank B /\
  (trim M = [] \/ (line_blank (hd [] (trim M)) = false /\ line_blank (last (trim M) []) = false)).
Proof.
  unfold trim. destruct (dwb_split M) as (A & E1 & HA & Hd).
  destruct (dwb_split (rev (drop_while_blank M))) as (B' & E2 & HB & Hd2).
  exists A, (rev B'). split; [|split; [exact HA|split; [apply all_blank_rev, HB|]]].
  - rewrite E1 at 1. f_equal. rewrite <- rev_app_distr, <- E2, rev_involutive. reflexivity.
  - destruct Hd as [Hd|Hd]; [left; rewrite Hd; reflexivity|].
    destruct (drop_while_blank M) as [|x M1]; [left; reflexivity|]. cbn [hd] in Hd. right.
    cbn [rev] in *. rewrite dwb_snoc in * by exact Hd.
    rewrite rev_app_distr. cbn [rev app hd]. split; [exact Hd|].
    change (x :: rev (drop_while_blank (rev M1))) with ([x] ++ rev (drop_while_blank (rev M1))).
    destruct (drop_while_blank (rev M1)) as [|z Z] eqn:EZ; [exact Hd|].
    cbn [rev]. rewrite app_assoc, last_last.
    destruct Hd2 as [Hd2|Hd2]; [discriminate|]. exact Hd2.
Qed.

Lemma all_blank_dwb Bk : all_blank Bk -> drop_while_blank Bk = [].
Proof. intros H. rewrite <- (app_nil_r Bk). rewrite dwb_blank_prefix by exact H. reflexivity. Qed.

Lemma trim_single x Bk : all_blank Bk -> trim (x :: Bk) = if line_blank x then [] else [x].
Proof.
  intros H. destruct (line_blank x) eqn:E.
  - unfold trim. cbn [drop_while_blank]. rewrite E, (all_blank_dwb Bk H). reflexivity.
  - apply (trim_eq [] [x] Bk); [constructor|exact H|discriminate|exact E|exact E].
Qed.

(* ---- the common indent is attained ---- *)
Lemma skipn_lws_zil l : line_blank l = false -> zero_indent_line (skipn (leading_ws l) l) = true.
Proof.
  induction l as [|c t IH]; [discriminate|]. unfold line_blank. cbn [leading_ws length].
  destruct (is_blank_char c) eqn:Ec.
  - cbn [Nat.eqb skipn]. exact IH.
  - intros _. cbn [skipn]. unfold zero_indent_line, line_blank. cbn [leading_ws length]. rewrite Ec. reflexivity.
Qed.

Lemma ci_some_zil T k : common_indent T = Some k ->
  existsb zero_indent_line (map (skipn k) T) = true.
Proof.
  revert k; induction T as [|l T IH]; intros k H; [discriminate|]. cbn [common_indent] in H.
  cbn [map existsb]. destruct (line_blank l) eqn:El.
  - rewrite (IH k H). apply orb_true_r.
  - destruct (common_indent T) as [m|] eqn:Em.
    + inversion H; subst k. destruct (Nat.min_spec (leading_ws l) m) as [[_ ->]|[_ ->]].
      * rewrite skipn_lws_zil by exact El. reflexivity.
      * rewrite (IH m eq_refl). apply orb_true_r.
    + inversion H; subst k. rewrite skipn_lws_zil by exact El. reflexivity.
Qed.

Lemma ci_none_blank T : common_indent T = None -> all_blank T.
Proof.
  induction T as [|l T IH]; [constructor|]. cbn [common_indent]. destruct (line_blank l) eqn:El.
  - intros H. constructor; [exact El|apply IH, H].
  - destruct (common_indent T); discriminate.
Qed.

Lemma existsb_zil_in_trim M : existsb zero_indent_line M = true -> existsb zero_indent_line (trim M) = true.
Proof.
  destruct (trim_split M) as (A & B & E & HA & HB & _). intros H. rewrite E in H.
  rewrite !existsb_app in H.
  assert (Z : forall Bk, all_blank Bk -> existsb zero_indent_line Bk = false).
  { induction 1 as [|x Bk Hx HBk IH]; [reflexivity|]. cbn [existsb]. rewrite IH.
    unfold zero_indent_line. rewrite Hx. reflexivity. }
  rewrite (Z A HA), (Z B HB), orb_false_r in H. exact H.
Qed.

(* ---- assembling the range predicate ---- *)
Lemma range_intro v : has_cr v = false ->
  (v = [] \/
   (line_blank (hd [] (split_lf v)) = false /\ line_blank (last (split_lf v) []) = false /\
    (length (split_lf v) = 1%nat \/ existsb zero_indent_line (tl (split_lf v)) = true \/
     leading_ws (hd [] (split_lf v)) = 0%nat))) ->
  in_block_range v = true.
Proof.
  intros Hcr H. unfold in_block_range. rewrite Hcr. cbn [negb andb].
  destruct v as [|c t]; [reflexivity|]. destruct H as [H|(H1 & H2 & H3)]; [discriminate|].
  rewrite (split_lines_lf _ Hcr). rewrite H1, H2. cbn [negb andb].
  destruct H3 as [H3|[H3|H3]].
  - rewrite H3. reflexivity.
  - rewrite H3. apply orb_true_iff. left. apply orb_true_r.
  - rewrite H3. apply orb_true_r.
Qed.

Lemma join_lf_forall (Q : N -> Prop) D : Q LF -> Forall (Forall Q) D -> Forall Q (join_lf D).
Proof.
  intros HQ. induction 1 as [|l D Hl HD IH]; [constructor|]. destruct D as [|m D']; [exact Hl|].
  rewrite join_lf_cons by discriminate. apply Forall_app. split; [exact Hl|constructor; [exact HQ|exact IH]].
Qed.

Lemma dwb_forall (Q : list N -> Prop) M : Forall Q M -> Forall Q (drop_while_blank M).
Proof.
  induction 1 as [|x M Hx HM IH]; [constructor|]. cbn [drop_while_blank].
  destruct (line_blank x); [exact IH|constructor; assumption].
Qed.

Lemma dedent_forall (Q : N -> Prop) raw : Forall (Forall Q) raw -> Forall (Forall Q) (dedent raw).
Proof.
  intros H. unfold dedent. destruct raw as [|first others]; [constructor|].
  inversion H; subst. apply Forall_rev, dwb_forall, Forall_rev, dwb_forall.
  constructor; [assumption|]. apply Forall_forall. intros x Hx. apply in_map_iff in Hx as (l & <- & Hl).
  destruct (common_indent others); [|constructor]. apply Forall_skipn'.
  match goal with H : Forall (Forall Q) others |- _ => rewrite Forall_forall in H; apply H, Hl end.
Qed.

Lemma dedent_in_range raw : Forall (Forall nolt) raw -> in_block_range (join_lf (dedent raw)) = true.
Proof.
  intros Hraw.
  pose proof (dedent_forall nolt raw Hraw) as HD.
  assert (Hcr : has_cr (join_lf (dedent raw)) = false).
  { apply has_cr_false. apply join_lf_forall; [reflexivity|].
    eapply Forall_impl; [|exact HD]. intros l. apply Forall_impl. intros c [_ Hc]. exact Hc. }
  apply range_intro; [exact Hcr|].
  destruct (dedent raw) as [|d0 D'] eqn:ED; [left; reflexivity|]. right.
  assert (Hsplit : split_lf (join_lf (d0 :: D')) = d0 :: D').
  { apply split_join; [discriminate|]. eapply Forall_impl; [|exact HD]. intros l. apply Forall_impl.
    intros c [Hc _]. exact Hc. }
  rewrite Hsplit. cbn [hd tl].
  destruct raw as [|first others]; [discriminate|]. unfold dedent in ED. fold (trim (first :: map (fun l => match common_indent others with Some k => skipn k l | None => [] end) others)) in ED.
  set (M := first :: map (fun l => match common_indent others with Some k => skipn k l | None => [] end) others) in *.
  destruct (trim_split M) as (A & B & EM & HA & HB & [Ht|[Hh Hl]]); [congruence|].
  rewrite ED in Hh, Hl. cbn [hd] in Hh. split; [exact Hh|]. split; [exact Hl|].
  destruct (common_indent others) as [k|] eqn:Eci.
  - assert (EMk : M = first :: map (skipn k) others) by (unfold M; rewrite ?Eci; reflexivity).
    assert (Hz : existsb zero_indent_line (trim M) = true).
    { apply existsb_zil_in_trim. rewrite EMk. cbn [existsb]. rewrite (ci_some_zil others k Eci). apply orb_true_r. }
    rewrite ED in Hz. cbn [existsb] in Hz. apply orb_true_iff in Hz as [Hz|Hz].
    + right. right. unfold zero_indent_line in Hz. apply andb_true_iff in Hz as [_ Hz]. apply Nat.eqb_eq, Hz.
    + right. left. exact Hz.
  - left. assert (Hb : all_blank (map (fun _ : list N => @nil N) others)).
    { apply Forall_forall. intros x Hx. apply in_map_iff in Hx as (l & <- & _). reflexivity. }
    assert (EMn : M = first :: map (fun _ : list N => @nil N) others) by (unfold M; rewrite ?Eci; reflexivity).
    rewrite EMn, (trim_single first _ Hb) in ED.
    destruct (line_blank first); [discriminate|]. inversion ED; subst. reflexivity.
Qed.

Lemma punct_kind_not_block c k : punct_kind c = Some k -> (k =? K_BLOCK_STRING) = false.
Proof.
  unfold punct_kind.
  repeat match goal with |- context [if ?b then _ else _] => destruct b end;
    intros H; inversion H; reflexivity.
Qed.

(* the shape of a block string token, whatever the source *)
Lemma read_token_block_inv cu s tk cu' r :
  read_token cu s = Ok (tk, cu', r) -> tkind tk = K_BLOCK_STRING ->
  exists f pos ls s1 e raw ls', adv s (length s - length s1) s1 /\
    read_block_loop f pos ls [] [] s1 = Ok (e, raw, ls', r) /\ tvalue tk = join_lf (dedent raw).
Proof.
  unfold read_token. destruct (skip_ignored cu s) as [cu1 s1] eqn:Esk.
  apply skip_ignored_spec in Esk as (g & Ag & _).
  intros H Hk.
  destruct s1 as [|c t]; [inversion H; subst; discriminate|].
  destruct (c =? 35).
  { destruct (comment_body t). inversion H; subst. discriminate. }
  destruct (c =? 34).
  { destruct (starts2 34 34 t) eqn:Eqq.
    - cbv zeta in H.
      destruct (read_block_loop (S (length (skipn 2 t))) (cpos cu1 + 3) (cls cu1) [] [] (skipn 2 t))
        as [[[[e raw] ls'] rest]| | |] eqn:Eb; try discriminate.
      inversion H; subst. exists (S (length (skipn 2 t))), (cpos cu1 + 3)%nat, (cls cu1), (skipn 2 t), e, raw, ls'.
      split; [|split; [exact Eb|reflexivity]].
      apply starts2_length in Eqq.
      assert (A3 : adv (c :: t) 3 (skipn 2 t)).
      { change 3%nat with (S 2). apply adv_cons. apply adv_skipn. exact Eqq. }
      pose proof (adv_trans _ _ _ _ _ Ag A3) as A.
      pose proof (adv_length _ _ _ A) as HL.
      replace (length s - length (skipn 2 t))%nat with (g + 3)%nat by lia. exact A.
    - destruct (read_string_loop (S (length t)) (S (cpos cu1)) [] t) as [[[e v] rest]| | |]; try discriminate.
      inversion H; subst. discriminate. }
  destruct (punct_kind c) as [k|] eqn:Epk.
  { inversion H; subst. apply punct_kind_not_block in Epk. cbn in Hk. rewrite Hk in Epk. discriminate. }
  destruct (is_digit c || (c =? 45)).
  { destruct (read_number (cpos cu1) (c :: t)) as [[[e fl0] rest]| | |]; try discriminate.
    inversion H; subst. destruct fl0; discriminate. }
  destruct (is_name_start c).
  { destruct (span is_name_continue t). inversion H; subst. discriminate. }
  destruct (c =? 46); [|discriminate].
  destruct (starts2 46 46 t); [|discriminate]. inversion H; subst. discriminate.
Qed.

Lemma adv_forall (Q : N -> Prop) s n r : adv s n r -> Forall Q s -> Forall Q r.
Proof. intros [-> _]. apply Forall_skipn'. Qed.

Theorem block_token_in_range cu s tk cu' r :
  read_token cu s = Ok (tk, cu', r) -> tkind tk = K_BLOCK_STRING ->
  in_block_range (tvalue tk) = true.
Proof.
  intros H Hk. destruct (read_token_block_inv _ _ _ _ _ H Hk) as (f & pos & ls & s1 & e & raw & ls' & _ & Hb & ->).
  apply dedent_in_range.
  destruct (loop_inv (fun _ => True) f pos ls [] [] s1 e raw ls' r) as [Hr _]; try exact Hb; try constructor.
  - apply Forall_forall. intros; exact I.
  - eapply Forall_impl; [|exact Hr]. intros l. apply Forall_impl. intros c [_ Hc]. exact Hc.
Qed.

Theorem block_token_scalars cu s tk cu' r :
  scalars s -> read_token cu s = Ok (tk, cu', r) -> tkind tk = K_BLOCK_STRING ->
  scalars (tvalue tk).
Proof.
  intros Hs H Hk. destruct (read_token_block_inv _ _ _ _ _ H Hk) as (f & pos & ls & s1 & e & raw & ls' & A & Hb & ->).
  destruct (loop_inv (fun c => is_scalar c = true) f pos ls [] [] s1 e raw ls' r) as [Hr _];
    try exact Hb; try constructor.
  - eapply adv_forall; [exact A|exact Hs].
  - unfold scalars. apply join_lf_forall; [reflexivity|]. apply dedent_forall.
    eapply Forall_impl; [|exact Hr]. intros l. apply Forall_impl. intros c [Hc _]. exact Hc.
Qed.

(* ================================================================== *)
(* I. exactness of the characterisation                                *)
(* ================================================================== *)

Lemma block_value_token raw v : block_value raw = Ok v ->
  exists tk cu' r, read_token init_cursor (TQ ++ raw ++ TQ) = Ok (tk, cu', r) /\
                   tkind tk = K_BLOCK_STRING /\ tvalue tk = v.
Proof.
  unfold block_value. destruct (read_token init_cursor (TQ ++ raw ++ TQ)) as [[[tk cu'] r]| | |] eqn:E;
    try discriminate.
  intros H. inversion H; subst. exists tk, cu', r. split; [reflexivity|]. split; [|reflexivity].
  unfold TQ in E. cbn [app] in E. rewrite read_token_block in E.
  destruct (read_block_loop _ _ _ _ _ _) as [[[[e raw'] ls'] rest]| | |]; try discriminate.
  inversion E; subst. reflexivity.
Qed.

Theorem block_value_in_range raw v : block_value raw = Ok v -> in_block_range v = true.
Proof.
  intros H. destruct (block_value_token raw v H) as (tk & cu' & r & E & Hk & <-).
  eapply block_token_in_range; eauto.
Qed.

Definition chosen_raw (v : list N) : list N :=
  (if before_b v false then [LF] else []) ++ escape_tq v ++ (if after_b v false then [LF] else []).

Lemma print_chosen v : has_cr v = false -> print_block_string v false = TQ ++ chosen_raw v ++ TQ.
Proof. intros H. rewrite (print_eq v false H). unfold chosen_raw. rewrite <- !app_assoc. reflexivity. Qed.

Theorem range_has_raw v : in_block_range v = true -> scalars v ->
  scalars (chosen_raw v) /\ block_value (chosen_raw v) = Ok v.
Proof.
  intros Hr Hs. split.
  - unfold chosen_raw, scalars. apply Forall_app. split; [destruct (before_b v false); repeat constructor|].
    apply Forall_app. split; [apply esc_forall; [reflexivity|exact Hs]|].
    destruct (after_b v false); repeat constructor.
  - destruct (block_roundtrip_main v false [] init_cursor [] Hr Hs (Forall_nil _))
      as (tk & cu' & E & _ & _ & Hv & _).
    cbn [indent_all] in E. rewrite app_nil_r in E.
    destruct (range_unpack v Hr) as (Hcr & _). rewrite (print_chosen v Hcr) in E.
    unfold block_value. rewrite E, Hv. reflexivity.
Qed.

Theorem block_range_char_main v :
  (in_block_range v = true /\ scalars v) <-> (exists raw, scalars raw /\ block_value raw = Ok v).
Proof.
  split.
  - intros [Hr Hs]. exists (chosen_raw v). apply range_has_raw; assumption.
  - intros (raw & Hraw & H). split; [eapply block_value_in_range; eauto|].
    destruct (block_value_token raw v H) as (tk & cu' & r & E & Hk & <-).
    eapply block_token_scalars; [|exact E|exact Hk].
    unfold scalars. apply Forall_app. split; [repeat constructor|].
    apply Forall_app. split; [exact Hraw|repeat constructor].
Qed.

(* ================================================================== *)
(* J. printable implies in range                                       *)
(* ================================================================== *)

Definition pinv (ie hi hci seen : bool) (s : list N) : Prop :=
  has_cr s = false /\
  exists l0 L', split_lf s = l0 :: L' /\
    (match L' with [] => ie && line_blank l0 = false | _ => line_blank (last L' []) = false end) /\
    (seen = false -> L' <> [] -> ie && line_blank l0 = false) /\
    ((seen = false /\ L' = []) \/ hci = false \/
     (line_blank l0 = false /\ hi || (ie && Nat.ltb 0 (leading_ws l0)) = false) \/
     existsb zero_indent_line L' = true).

Lemma line_blank_cons_blank c l : is_blank_char c = true -> line_blank (c :: l) = line_blank l.
Proof. intros H. unfold line_blank. cbn [leading_ws length]. rewrite H. reflexivity. Qed.

Lemma line_blank_cons_nonblank c l : is_blank_char c = false -> line_blank (c :: l) = false.
Proof. intros H. unfold line_blank. cbn [leading_ws length]. rewrite H. reflexivity. Qed.

Lemma has_cr_cons c t : has_cr (c :: t) = (c =? CR) || has_cr t.
Proof. unfold has_cr. cbn [existsb]. rewrite (N.eqb_sym CR c). reflexivity. Qed.

Lemma printable_loop_inv s : forall ie hi hci seen,
  printable_loop ie hi hci seen s = true -> pinv ie hi hci seen s.
Proof.
  induction s as [|c t IH]; intros ie hi hci seen H.
  - cbn [printable_loop] in H. apply andb_true_iff in H as [H1 H2].
    apply negb_true_iff in H1, H2. subst ie. split; [reflexivity|].
    exists [], []. split; [reflexivity|]. split; [reflexivity|]. split; [congruence|].
    apply andb_false_iff in H2 as [H2|H2]; [right; left; exact H2|left; split; [exact H2|reflexivity]].
  - cbn [printable_loop] in H. destruct (c =? LF) eqn:El.
    + apply N.eqb_eq in El. subst c.
      destruct (ie && negb seen) eqn:E1; [discriminate|].
      destruct (IH _ _ _ _ H) as (Hcr & l0' & L'' & Es & G2 & G3 & G4).
      split; [rewrite has_cr_cons, Hcr; reflexivity|].
      exists [], (l0' :: L''). split; [cbn [split_lf]; change (LF =? LF) with true; rewrite Es; reflexivity|].
      split; [|split].
      * destruct L'' as [|m L3]; [cbn [last]; cbn [andb] in G2; exact G2|exact G2].
      * intros Hseen _. subst seen. cbn [negb] in E1. rewrite andb_true_r in E1. subst ie. reflexivity.
      * destruct G4 as [[G4 _]|[G4|[[G4a G4b]|G4]]]; [discriminate|right; left; exact G4| |].
        -- right. right. right. cbn [existsb]. cbn [orb andb] in G4b.
           unfold zero_indent_line. rewrite G4a. apply Nat.ltb_ge in G4b.
           replace (leading_ws l0') with 0%nat by lia. reflexivity.
        -- right. right. right. cbn [existsb]. rewrite G4. apply orb_true_r.
    + destruct (is_blank_char c) eqn:Eb.
      * destruct (IH _ _ _ _ H) as (Hcr & l0' & L'' & Es & G2 & G3 & G4).
        destruct (blank_props c Eb) as (_ & _ & _ & Ecr & _).
        split; [rewrite has_cr_cons, Hcr, Ecr; reflexivity|].
        exists (c :: l0'), L''. split; [cbn [split_lf]; rewrite El, Es; reflexivity|].
        rewrite (line_blank_cons_blank c l0' Eb). split; [exact G2|]. split; [exact G3|].
        destruct G4 as [G4|[G4|[[G4a G4b]|G4]]]; [left; exact G4|right; left; exact G4| |right; right; right; exact G4].
        right. right. left. split; [exact G4a|]. cbn [leading_ws]. rewrite Eb.
        apply orb_false_iff in G4b as [G4b _]. apply orb_false_iff in G4b as [-> ->]. reflexivity.
      * destruct (c <=? 15) eqn:E15; [discriminate|].
        destruct (IH _ _ _ _ H) as (Hcr & l0' & L'' & Es & G2 & G3 & G4).
        assert (Ecr : (c =? CR) = false).
        { apply N.leb_gt in E15. apply N.eqb_neq. unfold CR. lia. }
        split; [rewrite has_cr_cons, Hcr, Ecr; reflexivity|].
        exists (c :: l0'), L''. split; [cbn [split_lf]; rewrite El, Es; reflexivity|].
        rewrite (line_blank_cons_nonblank c l0' Eb). split; [|split].
        -- destruct L''; [apply andb_false_r|exact G2].
        -- intros _ _. apply andb_false_r.
        -- cbn [leading_ws]. rewrite Eb. cbn [Nat.ltb Nat.leb]. rewrite andb_false_r, orb_false_r.
           destruct G4 as [G4|[G4|[[G4a G4b]|G4]]]; [left; exact G4| | |right; right; right; exact G4].
           ++ apply andb_false_iff in G4 as [G4|G4]; [right; left; exact G4|].
              right. right. left. split; [reflexivity|exact G4].
           ++ right. right. left. split; [reflexivity|]. cbn [andb] in G4b. rewrite orb_false_r in G4b. exact G4b.
Qed.

Theorem printable_in_range_main v : is_printable_as_block_string v = true -> in_block_range v = true.
Proof.
  destruct v as [|c t]; [reflexivity|]. unfold is_printable_as_block_string. intros H.
  apply printable_loop_inv in H as (Hcr & l0 & L' & Es & G2 & G3 & G4).
  apply range_intro; [exact Hcr|]. right. rewrite Es. cbn [hd tl length].
  assert (H0 : line_blank l0 = false).
  { destruct L' as [|m L3]; [exact G2|]. apply (G3 eq_refl). discriminate. }
  split; [exact H0|]. split.
  - destruct L' as [|m L3]; [exact H0|exact G2].
  - destruct G4 as [[_ ->]|[G4|[[_ G4]|G4]]]; [left; reflexivity|discriminate| |right; left; exact G4].
    right. right. cbn [orb andb] in G4. apply Nat.ltb_ge in G4. lia.
Qed.
