(* print_string followed by the lexer's read_string gives the original text back. *)
From GV Require Import Base.Prelude Gen.Tables Gen.TableChecks Lang.Lexer Lang.LexerProps Lang.PrintString.

(* an escape table entry decodes to its character, whatever follows *)
Definition check_entry (e : N * list N) : bool :=
  let '(c, esc) := e in
  match esc with
  | [b0; x] =>
    (b0 =? 92) && negb (x =? 117) && match escaped_char x with Some v => v =? c | None => false end
  | [b0; u; a; b; d; f] =>
    (b0 =? 92) && (u =? 117) && negb (a =? 123) &&
    match hex4 [a; b; d; f] with Some code => (code =? c) && is_scalar code | None => false end
  | _ => false
  end.

Lemma check_entry_sound c esc : check_entry (c, esc) = true ->
  forall pos tail, read_escape pos (esc ++ tail) = Ok ([c], length esc).
Proof.
  unfold check_entry. intros H pos tail.
  destruct esc as [|b0 [|x [|a [|b [|d [|f [|g r]]]]]]]; try discriminate.
  - apply andb_true_iff in H as [H Hv]. apply andb_true_iff in H as [Hb Hx].
    apply negb_true_iff in Hx.
    unfold read_escape. cbn [tl app peek_is]. rewrite (N.eqb_sym 117 x), Hx.
    destruct (escaped_char x) as [v|]; [|discriminate]. apply N.eqb_eq in Hv. subst v. reflexivity.
  - apply andb_true_iff in H as [H Hc]. apply andb_true_iff in H as [H Ha].
    apply andb_true_iff in H as [Hb Hu]. apply negb_true_iff in Ha. apply N.eqb_eq in Hu. subst x.
    unfold read_escape. cbn [tl app peek_is skipn]. change (117 =? 117) with true. cbv iota.
    rewrite (N.eqb_sym 123 a), Ha.
    change (hex4 (a :: b :: d :: f :: tail)) with (hex4 [a; b; d; f]).
    destruct (hex4 [a; b; d; f]) as [code|]; [|discriminate].
    apply andb_true_iff in Hc as [Hc Hs]. apply N.eqb_eq in Hc. subst code. rewrite Hs. reflexivity.
Qed.

(* obligations on the regenerated table, re-checked by computation on every run *)
Lemma table_entries_ok :
  forallb (fun e => in_ranges print_string_passthrough (fst e) || check_entry e) print_string_tbl = true.
Proof. vm_compute. reflexivity. Qed.

(* passthrough characters are >= 32 and are neither the quote nor the backslash *)
Lemma passthrough_ok :
  forallb (fun r => (32 <=? fst r) && (fst r <=? snd r) &&
                    negb ((fst r <=? 34) && (34 <=? snd r)) && negb ((fst r <=? 92) && (92 <=? snd r)))
          print_string_passthrough = true.
Proof. vm_compute. reflexivity. Qed.

(* every code point below 256 that is not passed through has a table entry, and every code
   point from 256 on is passed through *)
Lemma table_covers_low :
  forallb (fun c => in_ranges print_string_passthrough c
                    || match lookup_tbl print_string_tbl c with Some _ => true | None => false end)
          (map N.of_nat (seq 0 256)) = true.
Proof. vm_compute. reflexivity. Qed.

Lemma passthrough_covers_high :
  existsb (fun r => (fst r <=? 256) && (1114111 <=? snd r)) print_string_passthrough = true.
Proof. vm_compute. reflexivity. Qed.

Lemma lookup_tbl_in t c e : lookup_tbl t c = Some e -> In (c, e) t.
Proof.
  induction t as [|[k v] r IH]; cbn; [discriminate|].
  destruct (N.eqb_spec k c) as [->|]; [intros H; inversion H; auto|auto].
Qed.

Lemma in_ranges_passthrough_props c : in_ranges print_string_passthrough c = true ->
  (32 <= c) /\ c <> 34 /\ c <> 92.
Proof.
  unfold in_ranges. intros H. apply existsb_exists in H as (r & Hin & Hr).
  pose proof passthrough_ok as P. rewrite forallb_forall in P. specialize (P r Hin).
  apply andb_true_iff in Hr as [H1 H2]. apply N.leb_le in H1, H2.
  apply andb_true_iff in P as [P P4]. apply andb_true_iff in P as [P P3].
  apply andb_true_iff in P as [P1 P2]. apply N.leb_le in P1, P2.
  apply negb_true_iff in P3, P4. apply andb_false_iff in P3, P4.
  split; [lia|]. split.
  - intros ->. destruct P3 as [P3|P3]; apply N.leb_gt in P3; lia.
  - intros ->. destruct P4 as [P4|P4]; apply N.leb_gt in P4; lia.
Qed.

(* a character that is printed escaped: its entry decodes back *)
Lemma print_char_escape c e : c <= 1114111 ->
  in_ranges print_string_passthrough c = false -> lookup_tbl print_string_tbl c = Some e ->
  check_entry (c, e) = true.
Proof.
  intros _ Hp Hl. apply lookup_tbl_in in Hl.
  pose proof table_entries_ok as T. rewrite forallb_forall in T. specialize (T _ Hl).
  cbn [fst] in T. rewrite Hp in T. exact T.
Qed.

Lemma not_passthrough_has_entry c : c <= 1114111 ->
  in_ranges print_string_passthrough c = false ->
  exists e, lookup_tbl print_string_tbl c = Some e.
Proof.
  intros Hc H.
  assert (Hlow : c < 256).
  { pose proof passthrough_covers_high as P. apply existsb_exists in P as (r & Hin & Hr).
    apply andb_true_iff in Hr as [H1 H2]. apply N.leb_le in H1, H2.
    destruct (N.ltb_spec c 256) as [|Hge]; [assumption|exfalso].
    assert (in_ranges print_string_passthrough c = true); [|congruence].
    unfold in_ranges. apply existsb_exists. exists r. split; [exact Hin|].
    apply andb_true_iff. split; apply N.leb_le; lia. }
  pose proof table_covers_low as T. rewrite forallb_forall in T.
  specialize (T c). rewrite H in T. cbn [orb] in T.
  assert (Hin : In c (map N.of_nat (seq 0 256))).
  { apply in_map_iff. exists (N.to_nat c). split; [apply N2Nat.id|]. apply in_seq. lia. }
  specialize (T Hin). destruct (lookup_tbl print_string_tbl c); [eauto|discriminate].
Qed.

(* the lexer's string loop reads back one printed character *)
Theorem read_printed (fuel : nat) : forall (s : list N) (pos : nat) (acc tail : list N),
  Forall (fun c => is_scalar c = true) s ->
  (length (print_string_body s ++ (34%N :: tail)) < fuel)%nat ->
  read_string_loop fuel pos acc (print_string_body s ++ 34 :: tail)
  = Ok ((pos + length (print_string_body s) + 1)%nat, rev acc ++ s, tail).
Proof.
  induction fuel as [|f IH]; intros s pos acc tail Hs Hf; [lia|].
  destruct s as [|c s'].
  - cbn. rewrite app_nil_r. f_equal. apply f_equal2; [apply f_equal2|reflexivity]; [lia|reflexivity].
  - inversion Hs as [|? ? Hc Hs']; subst.
    assert (Hcp : c <= 1114111).
    { unfold is_scalar in Hc. apply orb_true_iff in Hc as [Hc|Hc].
      - apply N.leb_le in Hc. lia.
      - apply andb_true_iff in Hc as [_ Hc]. apply N.leb_le in Hc. exact Hc. }
    unfold print_string_body in *. cbn [flat_map] in *.
    destruct (in_ranges print_string_passthrough c) eqn:Ep.
    + assert (Hpc : print_char c = [c]) by (unfold print_char; rewrite Ep; reflexivity).
      rewrite Hpc in *.
      apply in_ranges_passthrough_props in Ep as (H32 & H34 & H92).
      cbn [app] in *. cbn [read_string_loop].
      destruct (N.eqb_spec c 34); [congruence|]. destruct (N.eqb_spec c 92); [congruence|].
      assert ((c =? LF) || (c =? CR) = false) as ->.
      { apply orb_false_iff. split; apply N.eqb_neq; unfold LF, CR; lia. }
      rewrite Hc. rewrite IH; [|exact Hs'|cbn [length] in Hf; lia].
      f_equal. apply f_equal2; [apply f_equal2|reflexivity];
        [cbn [length app]; lia | cbn [rev]; rewrite <- app_assoc; reflexivity].
    + destruct (not_passthrough_has_entry c Hcp Ep) as [e He].
      assert (Hpc : print_char c = e) by (unfold print_char; rewrite Ep, He; reflexivity).
      rewrite Hpc in *.
      pose proof (print_char_escape c e Hcp Ep He) as Hce.
      assert (He92 : exists x r, e = 92 :: x :: r).
      { unfold check_entry in Hce. destruct e as [|b0 [|x r]]; try discriminate.
        exists x, r. f_equal.
        destruct r as [|a [|b [|d [|g [|h r']]]]]; try discriminate;
          repeat (apply andb_true_iff in Hce as [Hce ?]); apply N.eqb_eq in Hce; exact Hce. }
      destruct He92 as (x & r & ->).
      rewrite <- app_assoc. cbn [app read_string_loop].
      change (92 =? 34) with false. change (92 =? 92) with true. cbv iota.
      pose proof (check_entry_sound c (92 :: x :: r) Hce pos (flat_map print_char s' ++ 34 :: tail)) as Hre.
      cbn [app] in Hre. rewrite Hre.
      replace (skipn (length (92 :: x :: r)) (92 :: x :: r ++ flat_map print_char s' ++ 34 :: tail))
        with (flat_map print_char s' ++ 34 :: tail).
      2:{ change (92 :: x :: r ++ flat_map print_char s' ++ 34 :: tail)
            with ((92 :: x :: r) ++ flat_map print_char s' ++ 34 :: tail).
          generalize (92 :: x :: r) as l. intros l. induction l; cbn; auto. }
      rewrite IH; [|exact Hs'|].
      * f_equal. apply f_equal2; [apply f_equal2|reflexivity];
          [cbn [app length]; rewrite !app_length; cbn [length]; lia
          | cbn [rev app]; rewrite <- app_assoc; reflexivity].
      * cbn [app length] in Hf. rewrite !app_length in Hf.
        rewrite app_length. cbn [length] in *. lia.
Qed.

(* ---- the printed string as a whole token -------------------------------------------------- *)

Lemma print_char_head c : is_scalar c = true ->
  exists x r, print_char c = x :: r /\ x <> 34.
Proof.
  intros Hc. unfold print_char.
  destruct (in_ranges print_string_passthrough c) eqn:Hp.
  - exists c, []. split; [reflexivity|]. apply in_ranges_passthrough_props in Hp. tauto.
  - assert (Hcp : c <= 1114111).
    { unfold is_scalar in Hc. apply orb_true_iff in Hc as [H|H].
      - apply N.leb_le in H. lia.
      - apply andb_true_iff in H as [_ H]. apply N.leb_le in H. exact H. }
    destruct (not_passthrough_has_entry c Hcp Hp) as (e & He). rewrite He.
    pose proof (print_char_escape c e Hcp Hp He) as Hce. unfold check_entry in Hce.
    destruct e as [|b0 [|x r]]; try discriminate.
    exists b0, (x :: r). split; [reflexivity|].
    assert (b0 = 92); [|lia].
    destruct r as [|a [|b [|d [|f [|g r]]]]]; try discriminate.
    + apply andb_true_iff in Hce as [H _]. apply andb_true_iff in H as [H _]. apply N.eqb_eq in H. exact H.
    + apply andb_true_iff in Hce as [H _]. apply andb_true_iff in H as [H _].
      apply andb_true_iff in H as [H _]. apply N.eqb_eq in H. exact H.
Qed.

(* Lexing print_string's output, followed by anything (which must not begin with a quote when the
   string is empty: two quotes followed by a quote are the start of a block string), gives exactly one STRING
   token whose value is the text, spanning exactly the printed characters. *)
Theorem print_string_token (s rest : list N) (cu : cursor) :
  Forall (fun c => is_scalar c = true) s ->
  (s = [] -> hd_error rest <> Some 34) ->
  read_token cu (print_string s ++ rest) =
  Ok (mk K_STRING cu (cpos cu) (cpos cu + length (print_string s))%nat (Some s),
      mkCur (cpos cu + length (print_string s))%nat (cline cu) (cls cu), rest).
Proof.
  intros Hs Hq. unfold print_string. rewrite <- app_comm_cons, <- app_assoc. cbn [app].
  unfold read_token. cbn [skip_ignored].
  change (is_ws_ignored 34) with false. change (34 =? LF) with false. change (34 =? CR) with false.
  cbv iota. change (34 =? 35) with false. change (34 =? 34) with true. cbv iota.
  assert (Hst : starts2 34 34 (print_string_body s ++ 34 :: rest) = false).
  { destruct s as [|c s'].
    - cbn [print_string_body flat_map app starts2]. destruct rest as [|y rest']; [reflexivity|].
      change (34 =? 34) with true. cbn [andb].
      apply N.eqb_neq. intros ->. apply (Hq eq_refl). reflexivity.
    - inversion Hs as [|? ? Hc _]; subst.
      destruct (print_char_head c Hc) as (x & r & Ex & Hx).
      unfold print_string_body. cbn [flat_map]. rewrite Ex. cbn [app starts2].
      apply N.eqb_neq in Hx. rewrite Hx.
      destruct ((r ++ flat_map print_char s') ++ 34 :: rest); reflexivity. }
  rewrite Hst.
  rewrite (read_printed _ s (S (cpos cu)) [] rest Hs (Nat.lt_succ_diag_r _)).
  cbn [rev app length]. rewrite app_length. cbn [length].
  replace (S (cpos cu) + length (print_string_body s) + 1)%nat
    with (cpos cu + S (length (print_string_body s) + 1))%nat by lia.
  reflexivity.
Qed.

(* obligation on the regenerated escape table: no escape sequence contains a line feed *)
Lemma table_no_newline :
  forallb (fun e => negb (existsb (N.eqb 10) (snd e))) print_string_tbl = true.
Proof. vm_compute. reflexivity. Qed.

Lemma print_char_no_lf c : ~ In 10 (print_char c) \/ c = 10.
Proof.
  unfold print_char.
  destruct (in_ranges print_string_passthrough c) eqn:Hp.
  - left. apply in_ranges_passthrough_props in Hp. intros [H|[]]. lia.
  - destruct (lookup_tbl print_string_tbl c) as [e|] eqn:He.
    + left. apply lookup_tbl_in in He.
      pose proof table_no_newline as T. rewrite forallb_forall in T. specialize (T _ He).
      cbn [snd] in T. apply negb_true_iff in T. intros Hin.
      assert (existsb (N.eqb 10) e = true); [|congruence].
      apply existsb_exists. exists 10. split; [exact Hin|reflexivity].
    + destruct (N.eq_dec c 10) as [-> | Hn]; [right; reflexivity|left]. intros [H|[]]. congruence.
Qed.

Lemma print_string_no_lf s : Forall (fun c => is_scalar c = true) s -> ~ In 10 (print_string s).
Proof.
  intros Hs. unfold print_string. intros [H|H]; [discriminate|].
  apply in_app_iff in H as [H|[H|[]]]; [|discriminate].
  unfold print_string_body in H. apply in_flat_map in H as (c & Hc & Hin).
  destruct (print_char_no_lf c) as [Hn | ->]; [exact (Hn Hin)|].
  (* c = 10 is printed through its table entry *)
  rewrite Forall_forall in Hs. specialize (Hs _ Hc).
  unfold print_char in Hin.
  destruct (in_ranges print_string_passthrough 10) eqn:Hp.
  { apply in_ranges_passthrough_props in Hp. lia. }
  destruct (not_passthrough_has_entry 10 ltac:(lia) Hp) as (e & He). rewrite He in Hin.
  apply lookup_tbl_in in He.
  pose proof table_no_newline as T. rewrite forallb_forall in T. specialize (T _ He).
  cbn [snd] in T. apply negb_true_iff in T.
  assert (existsb (N.eqb 10) e = true); [|congruence].
  apply existsb_exists. exists 10. split; [exact Hin|reflexivity].
Qed.
