(* Proofs about the lexer model: spans, gaps, fuel sufficiency (totality). *)
From GV Require Import Base.Prelude Lang.Lexer.

(* [adv s n r]: r is s with exactly n characters consumed *)
Definition adv (s : list N) (n : nat) (r : list N) : Prop := r = skipn n s /\ (n <= length s)%nat.

Lemma adv_0 s : adv s 0 s.
Proof. split; [reflexivity|lia]. Qed.

Lemma skipn_skipn' {A} (m : nat) : forall (n : nat) (l : list A), skipn m (skipn n l) = skipn (n + m) l.
Proof.
  intros n; induction n as [|n IH]; intros l; [reflexivity|].
  destruct l; [rewrite !skipn_nil; reflexivity|]. cbn. apply IH.
Qed.

Lemma adv_trans s n r m r' : adv s n r -> adv r m r' -> adv s (n + m) r'.
Proof.
  intros [-> Hn] [-> Hm]. split.
  - rewrite skipn_skipn'. reflexivity.
  - rewrite skipn_length in Hm. lia.
Qed.

Lemma adv_cons c t n r : adv t n r -> adv (c :: t) (S n) r.
Proof. intros [-> H]. split; [reflexivity|cbn; lia]. Qed.

Lemma adv_tl s : s <> [] -> adv s 1 (tl s).
Proof. destruct s; [congruence|]. intros _. split; [reflexivity|cbn; lia]. Qed.

Lemma adv_length s n r : adv s n r -> length s = (n + length r)%nat.
Proof. intros [-> H]. rewrite skipn_length. lia. Qed.

Lemma adv_split s n r : adv s n r -> s = firstn n s ++ r.
Proof. intros [-> _]. symmetry. apply firstn_skipn. Qed.

Lemma adv_app a r : adv (a ++ r) (length a) r.
Proof.
  split.
  - induction a; cbn; auto.
  - rewrite app_length. lia.
Qed.

Lemma peek_is_nonempty p s : peek_is p s = true -> s <> [].
Proof. destruct s; cbn; congruence. Qed.

(* ---- span ---- *)
Lemma span_spec p s : forall a r, span p s = (a, r) ->
  s = a ++ r /\ Forall (fun c => p c = true) a /\ peek_is p r = false.
Proof.
  induction s as [|c t IH]; intros a r H; cbn in H.
  - inversion H; subst. repeat split; constructor.
  - destruct (p c) eqn:E.
    + destruct (span p t) as [a' r'] eqn:E2. inversion H; subst.
      destruct (IH _ _ eq_refl) as (-> & Hf & Hp). repeat split; auto.
    + inversion H; subst. repeat split; cbn; auto.
Qed.

Lemma span_adv p s a r : span p s = (a, r) -> adv s (length a) r.
Proof. intros H. apply span_spec in H as (-> & _ & _). apply adv_app. Qed.

(* ---- comments ---- *)
Lemma comment_body_adv_n n : forall s a r, (length s <= n)%nat ->
  comment_body s = (a, r) -> adv s (length a) r.
Proof.
  induction n as [|n IH]; intros s a r Hn H.
  - destruct s; [|cbn in Hn; lia]. cbn in H. inversion H; subst. apply adv_0.
  - destruct s as [|c t]; [cbn in H; inversion H; subst; apply adv_0|].
    cbn in H. destruct ((c =? LF) || (c =? CR)).
    + inversion H; subst. apply adv_0.
    + destruct (is_scalar c).
      * destruct (comment_body t) as [a' r'] eqn:E. inversion H; subst.
        cbn [length]. apply adv_cons. apply IH; [cbn in Hn; lia|exact E].
      * destruct t as [|d t']; [inversion H; subst; apply adv_0|].
        destruct (is_lead c && is_trail d).
        -- destruct (comment_body t') as [a' r'] eqn:E. inversion H; subst.
           cbn [length]. apply adv_cons, adv_cons. apply IH; [cbn in Hn; lia|exact E].
        -- inversion H; subst. apply adv_0.
Qed.

Lemma comment_body_adv s a r : comment_body s = (a, r) -> adv s (length a) r.
Proof. apply (comment_body_adv_n (length s)). lia. Qed.

(* ---- ignored ---- *)
Definition skip_post (cu : cursor) (s : list N) (cu' : cursor) (s' : list N) : Prop :=
  exists k, adv s k s' /\ Forall (fun c => is_ignored_char c = true) (firstn k s)
            /\ cpos cu' = (cpos cu + k)%nat /\ peek_is is_ignored_char s' = false.

Lemma skip_post_cons cu p l ls c t cu' s' :
  is_ignored_char c = true -> p = S (cpos cu) ->
  skip_post (mkCur p l ls) t cu' s' -> skip_post cu (c :: t) cu' s'.
Proof.
  intros Hc -> (k & Ha & Hf & Hp & Hk). exists (S k).
  split; [apply adv_cons; exact Ha|]. split; [cbn; constructor; assumption|].
  split; [rewrite Hp; cbn; lia|exact Hk].
Qed.

Lemma skip_post_stop cu s : peek_is is_ignored_char s = false -> skip_post cu s cu s.
Proof.
  intros H. exists 0%nat. split; [apply adv_0|]. split; [constructor|]. split; [lia|exact H].
Qed.

Lemma skip_ignored_spec_n n : forall s cu cu' s', (length s <= n)%nat ->
  skip_ignored cu s = (cu', s') -> skip_post cu s cu' s'.
Proof.
  induction n as [|n IH]; intros s cu cu' s' Hn H.
  - destruct s; [|cbn in Hn; lia]. cbn in H. inversion H; subst. apply skip_post_stop. reflexivity.
  - destruct s as [|c t].
    { cbn in H. inversion H; subst. apply skip_post_stop. reflexivity. }
    cbn [skip_ignored] in H.
    destruct (is_ws_ignored c) eqn:Ew.
    { apply IH in H; [|cbn in Hn; lia].
      eapply skip_post_cons; [|reflexivity|exact H]. unfold is_ignored_char. rewrite Ew. reflexivity. }
    destruct (c =? LF) eqn:El.
    { apply IH in H; [|cbn in Hn; lia].
      eapply skip_post_cons; [|reflexivity|exact H].
      unfold is_ignored_char. rewrite El, orb_true_r. reflexivity. }
    destruct (c =? CR) eqn:Ec.
    { assert (Hc : is_ignored_char c = true) by (unfold is_ignored_char; rewrite Ec, orb_true_r; reflexivity).
      destruct t as [|d t'].
      - inversion H; subst. eapply skip_post_cons; [exact Hc|reflexivity|].
        apply skip_post_stop. reflexivity.
      - destruct (d =? LF) eqn:Ed.
        + apply IH in H; [|cbn in Hn; lia].
          eapply skip_post_cons; [exact Hc|reflexivity|].
          eapply (skip_post_cons (mkCur (S (cpos cu)) 0 0) (cpos cu + 2)%nat); [|cbn; lia|exact H].
          unfold is_ignored_char. rewrite Ed, orb_true_r. reflexivity.
        + apply IH in H; [|cbn in Hn; cbn; lia].
          eapply skip_post_cons; [exact Hc|reflexivity|exact H]. }
    inversion H; subst. apply skip_post_stop. cbn.
    unfold is_ignored_char. rewrite Ew, El, Ec. reflexivity.
Qed.

Lemma skip_ignored_spec s cu cu' s' :
  skip_ignored cu s = (cu', s') -> skip_post cu s cu' s'.
Proof. apply (skip_ignored_spec_n (length s)). lia. Qed.

(* ---- numbers ---- *)
Lemma read_digits_adv pos s e r : read_digits pos s = Ok (e, r) ->
  exists k, e = (pos + k)%nat /\ adv s k r /\ (1 <= k)%nat.
Proof.
  unfold read_digits. destruct (peek_is is_digit s) eqn:E; [|discriminate].
  destruct (span is_digit s) as [d r'] eqn:Es. intros H; inversion H; subst.
  exists (length d). split; [reflexivity|]. split; [eapply span_adv; eauto|].
  destruct s as [|c t]; [discriminate|]. cbn in E, Es. rewrite E in Es.
  destruct (span is_digit t). inversion Es; subst. cbn. lia.
Qed.

Definition adv_res (pos : nat) (s : list N) (e : nat) (r : list N) (lo : nat) : Prop :=
  exists k, e = (pos + k)%nat /\ adv s k r /\ (lo <= k)%nat.

Lemma num_sign_adv pos s : adv_res pos s (fst (num_sign pos s)) (snd (num_sign pos s)) 0.
Proof.
  unfold num_sign. destruct (peek_is (N.eqb 45) s) eqn:E; cbn [fst snd].
  - exists 1%nat. split; [lia|]. split; [|lia]. apply adv_tl. eapply peek_is_nonempty; eauto.
  - exists 0%nat. split; [lia|]. split; [apply adv_0|lia].
Qed.

Lemma num_int_adv pos s e r : num_int pos s = Ok (e, r) -> adv_res pos s e r 1.
Proof.
  unfold num_int. destruct (peek_is (N.eqb 48) s) eqn:E0.
  - destruct (peek_is is_digit (tl s)); [discriminate|]. intros H; inversion H; subst.
    exists 1%nat. split; [lia|]. split; [|lia]. apply adv_tl. eapply peek_is_nonempty; eauto.
  - apply read_digits_adv.
Qed.

Lemma num_frac_adv pos s e fl r : num_frac pos s = Ok (e, fl, r) -> adv_res pos s e r 0.
Proof.
  unfold num_frac. destruct (peek_is (N.eqb 46) s) eqn:E.
  - destruct (read_digits (S pos) (tl s)) as [[p r']| | |] eqn:Ed; try discriminate.
    intros H; inversion H; subst. apply read_digits_adv in Ed as (k & -> & Ak & _).
    exists (1 + k)%nat. split; [lia|]. split; [|lia]. eapply adv_trans; [|exact Ak].
    apply adv_tl. eapply peek_is_nonempty; eauto.
  - intros H; inversion H; subst. exists 0%nat. split; [lia|]. split; [apply adv_0|lia].
Qed.

Lemma num_exp_adv pos fl0 s e fl r : num_exp pos fl0 s = Ok (e, fl, r) -> adv_res pos s e r 0.
Proof.
  unfold num_exp. destruct (peek_is (fun c => (c =? 69) || (c =? 101)) s) eqn:Ee.
  - assert (Ae : adv s 1 (tl s)) by (apply adv_tl; eapply peek_is_nonempty; eauto).
    cbv zeta.
    destruct (peek_is (fun c => (c =? 43) || (c =? 45)) (tl s)) eqn:Es; cbn [fst snd].
    + destruct (read_digits (S (S pos)) (tl (tl s))) as [[p r']| | |] eqn:Ed; try discriminate.
      intros H; inversion H; subst. apply read_digits_adv in Ed as (k & -> & Ak & _).
      exists (1 + (1 + k))%nat. split; [lia|]. split; [|lia]. eapply adv_trans; [exact Ae|].
      eapply adv_trans; [|exact Ak]. apply adv_tl. eapply peek_is_nonempty; eauto.
    + destruct (read_digits (S pos) (tl s)) as [[p r']| | |] eqn:Ed; try discriminate.
      intros H; inversion H; subst. apply read_digits_adv in Ed as (k & -> & Ak & _).
      exists (1 + k)%nat. split; [lia|]. split; [|lia]. eapply adv_trans; [exact Ae|exact Ak].
  - intros H; inversion H; subst. exists 0%nat. split; [lia|]. split; [apply adv_0|lia].
Qed.

Lemma adv_res_trans pos s e1 r1 l1 e2 r2 l2 :
  adv_res pos s e1 r1 l1 -> adv_res e1 r1 e2 r2 l2 -> adv_res pos s e2 r2 (l1 + l2).
Proof.
  intros (k1 & -> & A1 & H1) (k2 & -> & A2 & H2). exists (k1 + k2)%nat.
  split; [lia|]. split; [eapply adv_trans; eauto|lia].
Qed.

Lemma read_number_adv start s e fl r : read_number start s = Ok (e, fl, r) ->
  adv_res start s e r 1.
Proof.
  unfold read_number. cbv zeta. intros H.
  pose proof (num_sign_adv start s) as A0.
  destruct (num_int (fst (num_sign start s)) (snd (num_sign start s))) as [[p1 s1]| | |] eqn:E1; try discriminate.
  cbn [obind fst snd] in H. apply num_int_adv in E1.
  destruct (num_frac p1 s1) as [[[p2 f2] s2]| | |] eqn:E2; try discriminate.
  cbn [obind fst snd] in H. apply num_frac_adv in E2.
  destruct (num_exp p2 f2 s2) as [[[p3 f3] s3]| | |] eqn:E3; try discriminate.
  cbn [obind fst snd] in H. apply num_exp_adv in E3.
  unfold num_end in H. destruct (peek_is _ s3); [discriminate|]. inversion H; subst.
  pose proof (adv_res_trans _ _ _ _ _ _ _ _ (adv_res_trans _ _ _ _ _ _ _ _ (adv_res_trans _ _ _ _ _ _ _ _ A0 E1) E2) E3) as A.
  exact A.
Qed.

(* ---- escapes ---- *)
Lemma var_width_size n : forall point size ds p sz,
  var_width n point size ds = Some (p, sz) -> (size < sz <= size + length ds)%nat.
Proof.
  induction n as [|n IH]; intros point size ds p sz H; cbn [var_width] in H; [discriminate|].
  destruct ds as [|c t]; [discriminate|].
  destruct (c =? 125).
  - destruct (Nat.ltb (S size) 5 || negb (is_scalar point)); [discriminate|].
    inversion H; subst. cbn. lia.
  - destruct (hex_digit c); [|discriminate]. apply IH in H. cbn. lia.
Qed.

Lemma hex4_length s c : hex4 s = Some c -> (4 <= length s)%nat.
Proof.
  destruct s as [|a [|b [|x [|d t]]]]; cbn; try discriminate. intros _. lia.
Qed.

Lemma skipn_length_le {A} n (l : list A) k : (k <= length (skipn n l))%nat -> (n + k <= length l)%nat \/ k = 0%nat.
Proof. rewrite skipn_length. lia. Qed.

Lemma read_escape_size pos s v size : s <> [] ->
  read_escape pos s = Ok (v, size) -> (1 <= size <= length s)%nat.
Proof.
  intros Hs. unfold read_escape. cbv zeta.
  destruct (peek_is (N.eqb 117) (tl s)) eqn:Eu.
  - destruct (peek_is (N.eqb 123) (tl (tl s))) eqn:Eb.
    + destruct (var_width 9 0 3 (skipn 3 s)) as [[p sz]|] eqn:Ev; [|discriminate].
      intros H; inversion H; subst. apply var_width_size in Ev.
      rewrite skipn_length in Ev.
      destruct s as [|a [|b [|c t]]]; cbn in *; try discriminate; lia.
    + destruct (hex4 (skipn 2 s)) as [code|] eqn:Eh; [|discriminate].
      apply hex4_length in Eh. rewrite skipn_length in Eh.
      destruct (is_scalar code).
      * intros H; inversion H; subst. lia.
      * destruct (is_lead code && starts2 92 117 (skipn 6 s)); [|discriminate].
        destruct (hex4 (skipn 8 s)) as [tr|] eqn:Eh2; [|discriminate].
        apply hex4_length in Eh2. rewrite skipn_length in Eh2.
        destruct (is_trail tr); [|discriminate]. intros H; inversion H; subst. lia.
  - destruct (tl s) as [|c r] eqn:Et; [discriminate|].
    destruct (escaped_char c); [|discriminate]. intros H; inversion H; subst.
    destruct s as [|a s']; [congruence|]. cbn in Et. subst s'. cbn. lia.
Qed.

(* ---- strings ---- *)
Lemma read_string_loop_spec fuel : forall pos acc s,
  (length s < fuel)%nat ->
  match read_string_loop fuel pos acc s with
  | Ok (e, v, r) => adv_res pos s e r 1
  | SyntaxErr _ => True
  | Crash _ => False
  | OutOfFuel => False
  end.
Proof.
  induction fuel as [|f IH]; intros pos acc s Hf; [lia|].
  cbn [read_string_loop]. destruct s as [|c t]; [exact I|].
  destruct (c =? 34).
  { exists 1%nat. split; [lia|]. split; [|lia]. apply adv_cons, adv_0. }
  destruct (c =? 92).
  { destruct (read_escape pos (c :: t)) as [[v size]| | |] eqn:Ee; try exact I.
    - apply read_escape_size in Ee; [|discriminate].
      assert (A : adv (c :: t) size (skipn size (c :: t))) by (split; [reflexivity|lia]).
      specialize (IH (pos + size)%nat (rev v ++ acc) (skipn size (c :: t))).
      rewrite skipn_length in IH. cbn [length] in *.
      specialize (IH ltac:(lia)).
      destruct (read_string_loop f (pos + size) (rev v ++ acc) (skipn size (c :: t))) as [[[e v'] r]| | |];
        try exact IH.
      destruct IH as (k & -> & Ak & Hk). exists (size + k)%nat.
      split; [lia|]. split; [eapply adv_trans; eauto|lia].
    - unfold read_escape in Ee. cbv zeta in Ee.
      repeat match type of Ee with
             | (if ?b then _ else _) = _ => destruct b
             | match ?x with _ => _ end = _ => destruct x
             end; discriminate.
    - unfold read_escape in Ee. cbv zeta in Ee.
      repeat match type of Ee with
             | (if ?b then _ else _) = _ => destruct b
             | match ?x with _ => _ end = _ => destruct x
             end; discriminate. }
  destruct ((c =? LF) || (c =? CR)); [exact I|].
  destruct (is_scalar c).
  { specialize (IH (S pos) (c :: acc) t ltac:(cbn in Hf; lia)).
    destruct (read_string_loop f (S pos) (c :: acc) t) as [[[e v'] r]| | |]; try exact IH.
    destruct IH as (k & -> & Ak & Hk). exists (S k). split; [lia|]. split; [apply adv_cons; exact Ak|lia]. }
  destruct (is_lead c && peek_is is_trail t) eqn:Ep; [|exact I].
  apply andb_true_iff in Ep as [_ Ep]. apply peek_is_nonempty in Ep.
  destruct t as [|d t']; [congruence|]. cbn [hd tl].
  specialize (IH (pos + 2)%nat (d :: c :: acc) t' ltac:(cbn in Hf; lia)).
  destruct (read_string_loop f (pos + 2) (d :: c :: acc) t') as [[[e v'] r]| | |]; try exact IH.
  destruct IH as (k & -> & Ak & Hk). exists (S (S k)). split; [lia|].
  split; [apply adv_cons, adv_cons; exact Ak|lia].
Qed.

(* ---- block strings ---- *)
Lemma starts3_length a b c s : starts3 a b c s = true -> (3 <= length s)%nat.
Proof. destruct s as [|x [|y [|z t]]]; cbn; try discriminate. intros _; lia. Qed.

Lemma starts2_length a b s : starts2 a b s = true -> (2 <= length s)%nat.
Proof. destruct s as [|x [|y t]]; cbn; try discriminate. intros _; lia. Qed.

Lemma adv_skipn s n : (n <= length s)%nat -> adv s n (skipn n s).
Proof. intros H. split; [reflexivity|exact H]. Qed.

Lemma read_block_loop_spec fuel : forall pos ls cur lines s,
  (length s < fuel)%nat ->
  match read_block_loop fuel pos ls cur lines s with
  | Ok (e, raw, ls', r) => adv_res pos s e r 3
  | SyntaxErr _ => True
  | Crash _ => False
  | OutOfFuel => False
  end.
Proof.
  induction fuel as [|f IH]; intros pos ls cur lines s Hf; [lia|].
  cbn [read_block_loop]. destruct s as [|c t]; [exact I|].
  destruct (starts3 34 34 34 (c :: t)) eqn:E3.
  { apply starts3_length in E3. exists 3%nat. split; [lia|]. split; [apply adv_skipn; exact E3|lia]. }
  assert (Hstep : forall n pos' ls' cur' lines' r, (1 <= n)%nat -> adv (c :: t) n r ->
            pos' = (pos + n)%nat ->
            match read_block_loop f pos' ls' cur' lines' r with
            | Ok (e, _, _, r') => adv_res pos (c :: t) e r' 3
            | SyntaxErr _ => True | Crash _ => False | OutOfFuel => False end).
  { intros n pos' ls' cur' lines' r Hn A ->.
    pose proof (adv_length _ _ _ A) as HL.
    specialize (IH (pos + n)%nat ls' cur' lines' r ltac:(cbn [length] in *; lia)).
    destruct (read_block_loop f (pos + n) ls' cur' lines' r) as [[[[e raw] l'] r']| | |]; try exact IH.
    destruct IH as (k & -> & Ak & Hk). exists (n + k)%nat. split; [lia|].
    split; [eapply adv_trans; eauto|lia]. }
  destruct ((c =? 92) && starts3 34 34 34 t) eqn:Eb.
  { apply andb_true_iff in Eb as [_ Eb]. apply starts3_length in Eb.
    apply (Hstep 4%nat); [lia| |lia]. apply adv_skipn. cbn; lia. }
  destruct (c =? LF).
  { apply (Hstep 1%nat); [lia|apply adv_cons, adv_0|lia]. }
  destruct (c =? CR).
  { destruct (peek_is (N.eqb LF) t) eqn:El.
    - apply (Hstep 2%nat); [lia| |lia]. apply adv_cons, adv_tl. eapply peek_is_nonempty; eauto.
    - apply (Hstep 1%nat); [lia|apply adv_cons, adv_0|lia]. }
  destruct (is_scalar c).
  { apply (Hstep 1%nat); [lia|apply adv_cons, adv_0|lia]. }
  destruct (is_lead c && peek_is is_trail t) eqn:Ep; [|exact I].
  apply andb_true_iff in Ep as [_ Ep].
  apply (Hstep 2%nat); [lia| |lia]. apply adv_cons, adv_tl. eapply peek_is_nonempty; eauto.
Qed.

Definition safe {A} (o : outcome A) : Prop :=
  match o with Crash _ => False | OutOfFuel => False | _ => True end.

Lemma read_digits_safe pos s : safe (read_digits pos s).
Proof. unfold read_digits. destruct (peek_is is_digit s); [destruct (span is_digit s)|]; exact I. Qed.

Lemma read_number_safe start s : safe (read_number start s).
Proof.
  unfold read_number. cbv zeta.
  set (ps := num_sign start s). clearbody ps.
  unfold num_int.
  assert (safe (if peek_is (N.eqb 48) (snd ps)
                then if peek_is is_digit (tl (snd ps)) then SyntaxErr (S (fst ps)) else Ok (S (fst ps), tl (snd ps))
                else read_digits (fst ps) (snd ps))) as H1.
  { destruct (peek_is (N.eqb 48) (snd ps)); [destruct (peek_is is_digit (tl (snd ps))); exact I|apply read_digits_safe]. }
  destruct (if peek_is (N.eqb 48) (snd ps) then _ else _) as [r1| | |]; try exact H1; cbn [obind].
  unfold num_frac.
  destruct (peek_is (N.eqb 46) (snd r1)).
  - pose proof (read_digits_safe (S (fst r1)) (tl (snd r1))) as H2.
    destruct (read_digits (S (fst r1)) (tl (snd r1))) as [[p r]| | |]; try exact H2; cbn [obind fst snd].
    unfold num_exp. destruct (peek_is _ r).
    + cbv zeta. match goal with |- context [read_digits ?a ?b] => pose proof (read_digits_safe a b) as H3; destruct (read_digits a b) as [[p' r']| | |] end;
        try exact H3; cbn [obind fst snd]. unfold num_end. destruct (peek_is _ r'); exact I.
    + cbn [obind fst snd]. unfold num_end. destruct (peek_is _ r); exact I.
  - cbn [obind fst snd]. unfold num_exp. destruct (peek_is _ (snd r1)).
    + cbv zeta. match goal with |- context [read_digits ?a ?b] => pose proof (read_digits_safe a b) as H3; destruct (read_digits a b) as [[p' r']| | |] end;
        try exact H3; cbn [obind fst snd]. unfold num_end. destruct (peek_is _ r'); exact I.
    + cbn [obind fst snd]. unfold num_end. destruct (peek_is _ (snd r1)); exact I.
Qed.

(* ---- one token ---- *)
Definition tok_post (cu : cursor) (s : list N) (tk : token) (cu' : cursor) (s' : list N) : Prop :=
  exists g n,
    Forall (fun c => is_ignored_char c = true) (firstn g s) /\
    tstart tk = (cpos cu + g)%nat /\ tend tk = (tstart tk + n)%nat /\
    adv s (g + n) s' /\ cpos cu' = tend tk /\
    peek_is is_ignored_char (skipn g s) = false /\
    ((tkind tk =? K_EOF) = true -> n = 0%nat /\ s' = []) /\
    ((tkind tk =? K_EOF) = false -> (1 <= n)%nat).

Lemma punct_kind_not_eof c k : punct_kind c = Some k -> (k =? K_EOF) = false.
Proof.
  unfold punct_kind.
  repeat match goal with |- context [if ?b then _ else _] => destruct b end;
    intros H; inversion H; reflexivity.
Qed.

Lemma read_token_spec cu s :
  match read_token cu s with
  | Ok (tk, cu', s') => tok_post cu s tk cu' s'
  | SyntaxErr _ => True
  | Crash _ => False
  | OutOfFuel => False
  end.
Proof.
  unfold read_token.
  destruct (skip_ignored cu s) as [cu1 s1] eqn:Esk.
  apply skip_ignored_spec in Esk as (g & Ag & Hg & Hp & Hpeek).
  pose proof Ag as [Es1 Hgl].
  (* common wrap-up: a lexeme of n >= 1 characters *)
  assert (W : forall tk cu' s' n k v, adv s1 n s' -> (1 <= n)%nat -> (k =? K_EOF) = false ->
              tk = mk k cu1 (cpos cu1) (cpos cu1 + n) v -> cpos cu' = (cpos cu1 + n)%nat ->
              tok_post cu s tk cu' s').
  { intros tk cu' s' n k v An Hn Hk -> Hc. exists g, n. cbn.
    split; [exact Hg|]. split; [lia|]. split; [lia|].
    split; [eapply adv_trans; eauto|]. split; [lia|]. rewrite <- Es1.
    split; [exact Hpeek|]. split; [rewrite Hk; discriminate|intros _; lia]. }
  destruct s1 as [|c t].
  { exists g, 0%nat. cbn. split; [exact Hg|]. split; [lia|]. split; [lia|].
    split; [rewrite Nat.add_0_r; exact Ag|]. split; [lia|]. rewrite <- Es1.
    split; [reflexivity|]. split; [auto|discriminate]. }
  destruct (c =? 35).
  { destruct (comment_body t) as [b r] eqn:Ec. apply comment_body_adv in Ec.
    eapply (W _ _ _ (1 + length b)%nat K_COMMENT (Some b)); [apply adv_cons; exact Ec|lia|reflexivity| |cbn; lia].
    f_equal; lia. }
  destruct (c =? 34).
  { destruct (starts2 34 34 t) eqn:Eqq.
    - apply starts2_length in Eqq. cbv zeta.
      pose proof (read_block_loop_spec (S (length (skipn 2 t))) (cpos cu1 + 3) (cls cu1) [] [] (skipn 2 t)
                    ltac:(lia)) as Hb.
      destruct (read_block_loop (S (length (skipn 2 t))) (cpos cu1 + 3) (cls cu1) [] [] (skipn 2 t))
        as [[[[e raw] ls'] rest]| | |]; try exact Hb.
      destruct Hb as (k & -> & Ak & Hk).
      eapply (W _ _ _ (3 + k)%nat K_BLOCK_STRING (Some (join_lf (dedent raw)))); [|lia|reflexivity| |cbn; lia].
      + change (3 + k)%nat with (1 + (2 + k))%nat. apply adv_cons.
        eapply adv_trans; [apply adv_skipn; exact Eqq|exact Ak].
      + f_equal; lia.
    - pose proof (read_string_loop_spec (S (length t)) (S (cpos cu1)) [] t ltac:(lia)) as Hs.
      destruct (read_string_loop (S (length t)) (S (cpos cu1)) [] t) as [[[e v] rest]| | |]; try exact Hs.
      destruct Hs as (k & -> & Ak & Hk).
      eapply (W _ _ _ (1 + k)%nat K_STRING (Some v)); [apply adv_cons; exact Ak|lia|reflexivity| |cbn; lia].
      f_equal; lia. }
  destruct (punct_kind c) as [k|] eqn:Epk.
  { eapply (W _ _ _ 1%nat k None); [apply adv_cons, adv_0|lia|eapply punct_kind_not_eof; eauto| |cbn; lia].
    f_equal; lia. }
  destruct (is_digit c || (c =? 45)) eqn:Ed.
  { destruct (read_number (cpos cu1) (c :: t)) as [[[e fl] rest]| | |] eqn:En; try exact I.
    - apply read_number_adv in En as (k & -> & Ak & Hk).
      eapply (W _ _ _ k (if fl then K_FLOAT else K_INT)); [exact Ak|lia|destruct fl; reflexivity| |cbn; lia]. rewrite Nat.add_comm, Nat.add_sub. reflexivity.
    - pose proof (read_number_safe (cpos cu1) (c :: t)) as Hs. rewrite En in Hs. exact Hs.
    - pose proof (read_number_safe (cpos cu1) (c :: t)) as Hs. rewrite En in Hs. exact Hs. }
  destruct (is_name_start c).
  { destruct (span is_name_continue t) as [b r] eqn:Esp. apply span_adv in Esp.
    eapply (W _ _ _ (1 + length b)%nat K_NAME (Some (c :: b))); [apply adv_cons; exact Esp|lia|reflexivity| |cbn; lia].
    f_equal; lia. }
  destruct (c =? 46); [|exact I].
  destruct (starts2 46 46 t) eqn:Edd; [|exact I]. apply starts2_length in Edd.
  eapply (W _ _ _ 3%nat K_SPREAD None); [|lia|reflexivity|reflexivity|cbn; lia].
  change 3%nat with (1 + 2)%nat. apply adv_cons. apply adv_skipn. exact Edd.
Qed.

(* ---- the whole token list ---- *)
(* [spans pos s ts]: the text s (starting at offset pos) is exactly
   gap lexeme gap lexeme ... gap, the gaps made of ignored characters only, each token's
   [tstart, tend) being the offsets of its lexeme, the last token being EOF at the end. *)
Inductive spans : nat -> list N -> list token -> Prop :=
| spans_eof pos s tk :
    Forall (fun c => is_ignored_char c = true) s ->
    (tkind tk =? K_EOF) = true -> tstart tk = (pos + length s)%nat -> tend tk = tstart tk ->
    spans pos s [tk]
| spans_tok pos g lx s' tk ts :
    Forall (fun c => is_ignored_char c = true) g -> lx <> [] ->
    peek_is is_ignored_char (lx ++ s') = false ->
    (tkind tk =? K_EOF) = false ->
    tstart tk = (pos + length g)%nat -> tend tk = (tstart tk + length lx)%nat ->
    spans (tend tk) s' ts ->
    spans pos (g ++ lx ++ s') (tk :: ts).

Lemma firstn_add {A} (a b : nat) (l : list A) :
  firstn (a + b) l = firstn a l ++ firstn b (skipn a l).
Proof.
  revert l; induction a as [|a IH]; intros l; [reflexivity|].
  destruct l; [cbn; rewrite firstn_nil; reflexivity|]. cbn. f_equal. apply IH.
Qed.

Lemma lex_loop_spec fuel : forall cu s,
  (length s < fuel)%nat ->
  match lex_loop fuel cu s with
  | Ok ts => spans (cpos cu) s ts
  | SyntaxErr _ => True
  | Crash _ => False
  | OutOfFuel => False
  end.
Proof.
  induction fuel as [|f IH]; intros cu s Hf; [lia|].
  cbn [lex_loop]. pose proof (read_token_spec cu s) as Ht.
  destruct (read_token cu s) as [[[tk cu'] s']| | |]; try exact Ht.
  destruct Ht as (g & n & Hg & Hst & Hen & Ha & Hc & Hpk & Heof & Hne).
  destruct (tkind tk =? K_EOF) eqn:Ek.
  - destruct (Heof eq_refl) as [-> ->]. rewrite Nat.add_0_r in Ha.
    pose proof (adv_split _ _ _ Ha) as Es. rewrite app_nil_r in Es.
    pose proof (adv_length _ _ _ Ha) as HL. cbn in HL.
    apply spans_eof; auto; [rewrite Es; exact Hg|lia|lia].
  - specialize (Hne eq_refl).
    pose proof (adv_length _ _ _ Ha) as HL.
    specialize (IH cu' s' ltac:(lia)).
    destruct (lex_loop f cu' s') as [ts| | |]; try exact IH.
    pose proof (adv_split _ _ _ Ha) as Es. rewrite firstn_add in Es.
    rewrite <- app_assoc in Es. rewrite Es.
    assert (Hgl : length (firstn g s) = g) by (apply firstn_length_le; lia).
    assert (Hnl : length (firstn n (skipn g s)) = n).
    { apply firstn_length_le. rewrite skipn_length. lia. }
    apply spans_tok; auto.
    + intros E. rewrite E in Hnl. cbn in Hnl. lia.
    + destruct Ha as [Ea _]. rewrite Ea.
      replace (firstn n (skipn g s) ++ skipn (g + n) s) with (skipn g s); [exact Hpk|].
      rewrite <- (firstn_skipn n (skipn g s)) at 1. f_equal. apply skipn_skipn'.
    + lia.
    + lia.
    + rewrite Hc in IH. exact IH.
Qed.

Theorem lex_total s : match lex s with Ok ts => spans 0 s ts | SyntaxErr _ => True | _ => False end.
Proof. unfold lex. apply (lex_loop_spec (S (length s)) init_cursor s). lia. Qed.

(* consequences of [spans] *)
Lemma spans_bounds pos s ts : spans pos s ts ->
  Forall (fun t => (pos <= tstart t <= tend t)%nat /\ (tend t <= pos + length s)%nat) ts.
Proof.
  induction 1 as [pos s tk Hi Hk Hs He | pos g lx s' tk ts Hg Hlx Hpk Hk Hs He Hsp IH].
  - constructor; [|constructor]. lia.
  - constructor.
    + rewrite !app_length. lia.
    + eapply Forall_impl; [|exact IH]. cbn. intros t [H1 H2]. rewrite !app_length. lia.
Qed.

Fixpoint ordered (prev_end : nat) (ts : list token) : Prop :=
  match ts with
  | [] => True
  | t :: r => (prev_end <= tstart t)%nat /\ (tstart t <= tend t)%nat /\ ordered (tend t) r
  end.

Lemma spans_ordered pos s ts : spans pos s ts -> ordered pos ts.
Proof.
  induction 1 as [pos s tk Hi Hk Hs He | pos g lx s' tk ts Hg Hlx Hpk Hk Hs He Hsp IH]; cbn.
  - repeat split; lia.
  - repeat split; try lia. exact IH.
Qed.

(* the schema-coordinate lexer is total as well *)
Lemma coord_token_spec cu s :
  match coord_token cu s with
  | Ok (tk, cu', s') => (tkind tk =? K_EOF) = true \/ (length s' < length s)%nat
  | SyntaxErr _ => True | _ => False
  end.
Proof.
  unfold coord_token. destruct s as [|c t]; [left; reflexivity|].
  destruct (coord_punct c); [right; cbn; lia|].
  destruct (is_name_start c); [|exact I].
  destruct (span is_name_continue t) as [b r] eqn:E. apply span_adv in E.
  apply adv_length in E. right. cbn. lia.
Qed.

Lemma coord_loop_total fuel : forall cu s, (length s < fuel)%nat ->
  match coord_loop fuel cu s with Ok _ => True | SyntaxErr _ => True | _ => False end.
Proof.
  induction fuel as [|f IH]; intros cu s Hf; [lia|].
  cbn [coord_loop]. pose proof (coord_token_spec cu s) as Ht.
  destruct (coord_token cu s) as [[[tk cu'] s']| | |]; try exact Ht.
  destruct (tkind tk =? K_EOF); [exact I|].
  destruct Ht as [Ht|Ht]; [discriminate|].
  specialize (IH cu' s' ltac:(lia)).
  destruct (coord_loop f cu' s'); auto.
Qed.

Theorem coord_lex_total s :
  match coord_lex s with Ok _ => True | SyntaxErr _ => True | _ => False end.
Proof. unfold coord_lex. apply coord_loop_total. lia. Qed.
