(* Executable model of src/graphql/language/lexer.py (Lexer.read_next_token and helpers),
   block_string.dedent_block_string_lines and SchemaCoordinateLexer.
   Structural over the remaining input; positions are carried explicitly.  Loops whose
   step size is data dependent (escapes) run on fuel; LexerProps shows fuel suffices. *)
From GV Require Import Base.Prelude.

(* ---- character classes (proved equal to the swept tables in LexerProps) ---- *)
Definition is_digit (c : N) : bool := (48 <=? c) && (c <=? 57).
Definition is_letter (c : N) : bool := ((65 <=? c) && (c <=? 90)) || ((97 <=? c) && (c <=? 122)).
Definition is_name_start (c : N) : bool := is_letter c || (c =? 95).
Definition is_name_continue (c : N) : bool := is_letter c || is_digit c || (c =? 95).
Definition is_scalar (c : N) : bool := (c <=? 55295) || ((57344 <=? c) && (c <=? 1114111)).
Definition is_lead (c : N) : bool := (55296 <=? c) && (c <=? 56319).
Definition is_trail (c : N) : bool := (56320 <=? c) && (c <=? 57343).
Definition is_ws_ignored (c : N) : bool := (c =? 32) || (c =? 9) || (c =? 44) || (c =? 65279).
Definition is_ignored_char (c : N) : bool := is_ws_ignored c || (c =? LF) || (c =? CR).

(* token kinds: codes shared with harness/gen_tables.KIND_CODE *)
Definition K_SOF : N := 0.   Definition K_EOF : N := 1.   Definition K_BANG : N := 2.
Definition K_DOLLAR : N := 3. Definition K_AMP : N := 4.  Definition K_PAREN_L : N := 5.
Definition K_PAREN_R : N := 6. Definition K_DOT : N := 7. Definition K_SPREAD : N := 8.
Definition K_COLON : N := 9.  Definition K_EQUALS : N := 10. Definition K_AT : N := 11.
Definition K_BRACKET_L : N := 12. Definition K_BRACKET_R : N := 13. Definition K_BRACE_L : N := 14.
Definition K_PIPE : N := 15.  Definition K_BRACE_R : N := 16. Definition K_NAME : N := 17.
Definition K_INT : N := 18.   Definition K_FLOAT : N := 19. Definition K_STRING : N := 20.
Definition K_BLOCK_STRING : N := 21. Definition K_COMMENT : N := 22.

Definition punct_kind (c : N) : option N :=
  if c =? 33 then Some K_BANG else if c =? 36 then Some K_DOLLAR else if c =? 38 then Some K_AMP
  else if c =? 40 then Some K_PAREN_L else if c =? 41 then Some K_PAREN_R
  else if c =? 58 then Some K_COLON else if c =? 61 then Some K_EQUALS else if c =? 64 then Some K_AT
  else if c =? 91 then Some K_BRACKET_L else if c =? 93 then Some K_BRACKET_R
  else if c =? 123 then Some K_BRACE_L else if c =? 124 then Some K_PIPE
  else if c =? 125 then Some K_BRACE_R else None.

Record token := mkTok {
  tkind : N; tstart : nat; tend : nat; tline : nat; tcol : nat;
  thasval : bool; tvalue : list N }.

(* lexer cursor: position, line, line_start *)
Record cursor := mkCur { cpos : nat; cline : nat; cls : nat }.

Definition mk (k : N) (cu : cursor) (start stop : nat) (v : option (list N)) : token :=
  mkTok k start stop (cline cu) (1 + start - cls cu)
        (match v with Some _ => true | None => false end)
        (match v with Some x => x | None => [] end).

(* ---- ignored characters between tokens ---- *)
Fixpoint skip_ignored (cu : cursor) (s : list N) : cursor * list N :=
  match s with
  | [] => (cu, [])
  | c :: t =>
    let p := cpos cu in
    if is_ws_ignored c then skip_ignored (mkCur (S p) (cline cu) (cls cu)) t
    else if c =? LF then skip_ignored (mkCur (S p) (S (cline cu)) (S p)) t
    else if c =? CR then
      match t with
      | d :: t' =>
        if d =? LF then skip_ignored (mkCur (p + 2) (S (cline cu)) (p + 2)) t'
        else skip_ignored (mkCur (S p) (S (cline cu)) (S p)) t
      | [] => (mkCur (S p) (S (cline cu)) (S p), [])
      end
    else (cu, s)
  end.

(* ---- comments: up to CR/LF; a lone surrogate also ends the comment ---- *)
Fixpoint comment_body (s : list N) : list N * list N :=
  match s with
  | [] => ([], [])
  | c :: t =>
    if (c =? LF) || (c =? CR) then ([], s)
    else if is_scalar c then let '(a, r) := comment_body t in (c :: a, r)
    else match t with
         | d :: t' =>
           if is_lead c && is_trail d then let '(a, r) := comment_body t' in (c :: d :: a, r)
           else ([], s)
         | [] => ([], s)
         end
  end.

(* ---- names and digits ---- *)
Fixpoint span (p : N -> bool) (s : list N) : list N * list N :=
  match s with
  | [] => ([], [])
  | c :: t => if p c then let '(a, r) := span p t in (c :: a, r) else ([], s)
  end.

Definition peek (s : list N) : option N := match s with [] => None | c :: _ => Some c end.
Definition peek_is (p : N -> bool) (s : list N) : bool :=
  match s with [] => false | c :: _ => p c end.

(* read_digits: at least one digit, else error at [pos] *)
Definition read_digits (pos : nat) (s : list N) : outcome (nat * list N) :=
  if peek_is is_digit s then let '(d, r) := span is_digit s in Ok ((pos + length d)%nat, r)
  else SyntaxErr pos.

(* read_number; [s] starts at the first character (digit or '-'), at offset [start].
   Result: end offset, is_float, rest.  Staged like the implementation. *)
Definition num_sign (pos : nat) (s : list N) : nat * list N :=
  if peek_is (N.eqb 45) s then (S pos, tl s) else (pos, s).

Definition num_int (pos : nat) (s : list N) : outcome (nat * list N) :=
  if peek_is (N.eqb 48) s
  then if peek_is is_digit (tl s) then SyntaxErr (S pos) else Ok (S pos, tl s)
  else read_digits pos s.

Definition num_frac (pos : nat) (s : list N) : outcome (nat * bool * list N) :=
  if peek_is (N.eqb 46) s
  then match read_digits (S pos) (tl s) with
       | Ok (p, r) => Ok (p, true, r)
       | SyntaxErr q => SyntaxErr q | Crash w => Crash w | OutOfFuel => OutOfFuel
       end
  else Ok (pos, false, s).

Definition num_exp (pos : nat) (fl : bool) (s : list N) : outcome (nat * bool * list N) :=
  if peek_is (fun c => (c =? 69) || (c =? 101)) s
  then let s4 := tl s in
       let ps := if peek_is (fun c => (c =? 43) || (c =? 45)) s4
                 then (S (S pos), tl s4) else (S pos, s4) in
       match read_digits (fst ps) (snd ps) with
       | Ok (p, r) => Ok (p, true, r)
       | SyntaxErr q => SyntaxErr q | Crash w => Crash w | OutOfFuel => OutOfFuel
       end
  else Ok (pos, fl, s).

Definition num_end (pos : nat) (fl : bool) (s : list N) : outcome (nat * bool * list N) :=
  if peek_is (fun c => (c =? 46) || is_name_start c) s then SyntaxErr pos else Ok (pos, fl, s).

Definition read_number (start : nat) (s : list N) : outcome (nat * bool * list N) :=
  let ps := num_sign start s in
  obind (num_int (fst ps) (snd ps)) (fun r1 =>
  obind (num_frac (fst r1) (snd r1)) (fun r2 =>
  obind (num_exp (fst (fst r2)) (snd (fst r2)) (snd r2)) (fun r3 =>
  num_end (fst (fst r3)) (snd (fst r3)) (snd r3)))).

(* ---- escapes ---- *)
Definition hex_digit (c : N) : option N :=
  if (48 <=? c) && (c <=? 57) then Some (c - 48)
  else if (65 <=? c) && (c <=? 70) then Some (c - 55)
  else if (97 <=? c) && (c <=? 102) then Some (c - 87)
  else None.

Definition escaped_char (c : N) : option N :=
  if c =? 34 then Some 34 else if c =? 47 then Some 47 else if c =? 92 then Some 92
  else if c =? 98 then Some 8 else if c =? 102 then Some 12 else if c =? 110 then Some 10
  else if c =? 114 then Some 13 else if c =? 116 then Some 9 else None.

(* four hex digits -> code, None if fewer than four characters or a non-hex digit *)
Definition hex4 (s : list N) : option N :=
  match s with
  | a :: b :: c :: d :: _ =>
    match hex_digit a, hex_digit b, hex_digit c, hex_digit d with
    | Some x, Some y, Some z, Some w => Some (x * 4096 + y * 256 + z * 16 + w)
    | _, _, _, _ => None
    end
  | _ => None
  end.

(* \u{...}: [ds] = characters after "\u{", at most 9 of them are inspected
   (the whole escape is at most 12 characters); size counts from the backslash. *)
Fixpoint var_width (n : nat) (point : N) (size : nat) (ds : list N) : option (N * nat) :=
  match n with
  | O => None
  | S n' =>
    match ds with
    | [] => None
    | c :: t =>
      if c =? 125 then
        if (Nat.ltb (S size) 5) || negb (is_scalar point) then None else Some (point, S size)
      else match hex_digit c with
           | Some h => var_width n' (point * 16 + h) (S size) t
           | None => None
           end
    end
  end.

Definition starts2 (a b : N) (s : list N) : bool :=
  match s with x :: y :: _ => (x =? a) && (y =? b) | _ => false end.
Definition starts3 (a b c : N) (s : list N) : bool :=
  match s with x :: y :: z :: _ => (x =? a) && (y =? b) && (z =? c) | _ => false end.

(* escape at [s] = backslash :: rest.  Ok (decoded code points, size) or error at [pos]. *)
Definition read_escape (pos : nat) (s : list N) : outcome (list N * nat) :=
  let r := tl s in
  if peek_is (N.eqb 117) r then
    if peek_is (N.eqb 123) (tl r) then
      match var_width 9 0 3 (skipn 3 s) with
      | Some (p, sz) => Ok ([p], sz)
      | None => SyntaxErr pos
      end
    else
      let ds := skipn 2 s in
      match hex4 ds with
      | Some code =>
        if is_scalar code then Ok ([code], 6%nat)
        else if is_lead code && starts2 92 117 (skipn 6 s) then
          match hex4 (skipn 8 s) with
          | Some tr => if is_trail tr
                       then Ok ([65536 + (code - 55296) * 1024 + (tr - 56320)], 12%nat)
                       else SyntaxErr pos
          | None => SyntaxErr pos
          end
        else SyntaxErr pos
      | None => SyntaxErr pos
      end
  else
    match r with
    | c :: _ => match escaped_char c with
                | Some v => Ok ([v], 2%nat)
                | None => SyntaxErr pos
                end
    | [] => SyntaxErr pos
    end.

(* ---- quoted strings; [s] is the text after the opening quote, at offset [pos] ---- *)
Fixpoint read_string_loop (fuel : nat) (pos : nat) (acc : list N) (s : list N)
  : outcome (nat * list N * list N) :=
  match fuel with
  | O => OutOfFuel
  | S f =>
    match s with
    | [] => SyntaxErr pos
    | c :: t =>
      if c =? 34 then Ok (S pos, rev acc, t)
      else if c =? 92 then
        match read_escape pos s with
        | Ok (v, size) => read_string_loop f (pos + size) (rev v ++ acc) (skipn size s)
        | SyntaxErr p => SyntaxErr p
        | Crash w => Crash w
        | OutOfFuel => OutOfFuel
        end
      else if (c =? LF) || (c =? CR) then SyntaxErr pos
      else if is_scalar c then read_string_loop f (S pos) (c :: acc) t
      else if is_lead c && peek_is is_trail t
           then read_string_loop f (pos + 2) (hd 0 t :: c :: acc) (tl t)
           else SyntaxErr pos
    end
  end.

(* ---- block strings ---- *)
Definition is_blank_char (c : N) : bool := (c =? 32) || (c =? 9).

Fixpoint leading_ws (l : list N) : nat :=
  match l with
  | c :: t => if is_blank_char c then S (leading_ws t) else O
  | [] => O
  end.

Definition line_blank (l : list N) : bool := Nat.eqb (leading_ws l) (length l).

(* minimum indent over non-blank lines (None = no such line = "maxsize") *)
Fixpoint common_indent (ls : list (list N)) : option nat :=
  match ls with
  | [] => None
  | l :: t =>
    let r := common_indent t in
    if line_blank l then r
    else match r with
         | None => Some (leading_ws l)
         | Some m => Some (Nat.min (leading_ws l) m)
         end
  end.

Fixpoint drop_while_blank (ls : list (list N)) : list (list N) :=
  match ls with
  | l :: t => if line_blank l then drop_while_blank t else ls
  | [] => []
  end.

Definition dedent (lines : list (list N)) : list (list N) :=
  match lines with
  | [] => []
  | first :: others =>
    let ci := common_indent others in
    let ded := first :: map (fun l => match ci with Some k => skipn k l | None => [] end) others in
    (* a line beyond 'maxsize' indentation becomes empty; all such lines are blank *)
    rev (drop_while_blank (rev (drop_while_blank ded)))
  end.

Fixpoint join_lf (ls : list (list N)) : list N :=
  match ls with
  | [] => []
  | [l] => l
  | l :: t => l ++ LF :: join_lf t
  end.

(* [s]: text after the opening triple quote at offset [pos]. Result: end offset, raw lines,
   line_start after the token, rest. *)
Fixpoint read_block_loop (fuel : nat) (pos ls : nat) (cur : list N) (lines : list (list N))
         (s : list N) : outcome (nat * list (list N) * nat * list N) :=
  match fuel with
  | O => OutOfFuel
  | S f =>
    match s with
    | [] => SyntaxErr pos
    | c :: t =>
      if starts3 34 34 34 s then Ok ((pos + 3)%nat, rev (rev cur :: lines), ls, skipn 3 s)
      else if (c =? 92) && starts3 34 34 34 t
      then read_block_loop f (pos + 4) ls (34 :: 34 :: 34 :: cur) lines (skipn 4 s)
      else if c =? LF then read_block_loop f (S pos) (S pos) [] (rev cur :: lines) t
      else if c =? CR then
        if peek_is (N.eqb LF) t
        then read_block_loop f (pos + 2) (pos + 2) [] (rev cur :: lines) (tl t)
        else read_block_loop f (S pos) (S pos) [] (rev cur :: lines) t
      else if is_scalar c then read_block_loop f (S pos) ls (c :: cur) lines t
      else if is_lead c && peek_is is_trail t
           then read_block_loop f (pos + 2) ls (hd 0 t :: c :: cur) lines (tl t)
           else SyntaxErr pos
    end
  end.

(* ---- one token ---- *)
(* Reads the next token (comments included) from cursor [cu] with remaining text [s].
   Returns the token, the cursor after it and the remaining text. *)
Definition read_token (cu0 : cursor) (s0 : list N) : outcome (token * cursor * list N) :=
  let '(cu, s) := skip_ignored cu0 s0 in
  let p := cpos cu in
  let adv (n : nat) := mkCur (p + n) (cline cu) (cls cu) in
  match s with
  | [] => Ok (mk K_EOF cu p p None, cu, [])
  | c :: t =>
    if c =? 35 then
      let '(b, r) := comment_body t in
      let e := (p + 1 + length b)%nat in
      Ok (mk K_COMMENT cu p e (Some b), mkCur e (cline cu) (cls cu), r)
    else if c =? 34 then
      if starts2 34 34 t then
        let r := skipn 2 t in
        match read_block_loop (S (length r)) (p + 3) (cls cu) [] [] r with
        | Ok (e, raw, ls', rest) =>
          Ok (mk K_BLOCK_STRING cu p e (Some (join_lf (dedent raw))),
              mkCur e (cline cu + (length raw - 1)) ls', rest)
        | SyntaxErr q => SyntaxErr q
        | Crash w => Crash w
        | OutOfFuel => OutOfFuel
        end
      else
        match read_string_loop (S (length t)) (S p) [] t with
        | Ok (e, v, rest) => Ok (mk K_STRING cu p e (Some v), mkCur e (cline cu) (cls cu), rest)
        | SyntaxErr q => SyntaxErr q
        | Crash w => Crash w
        | OutOfFuel => OutOfFuel
        end
    else match punct_kind c with
    | Some k => Ok (mk k cu p (S p) None, adv 1%nat, t)
    | None =>
      if is_digit c || (c =? 45) then
        match read_number p s with
        | Ok (e, fl, rest) =>
          Ok (mk (if fl then K_FLOAT else K_INT) cu p e (Some (firstn (e - p) s)),
              mkCur e (cline cu) (cls cu), rest)
        | SyntaxErr q => SyntaxErr q
        | Crash w => Crash w
        | OutOfFuel => OutOfFuel
        end
      else if is_name_start c then
        let '(b, r) := span is_name_continue t in
        let e := (p + 1 + length b)%nat in
        Ok (mk K_NAME cu p e (Some (c :: b)), mkCur e (cline cu) (cls cu), r)
      else if c =? 46 then
        if starts2 46 46 t then Ok (mk K_SPREAD cu p (p + 3) None, adv 3%nat, skipn 2 t)
        else SyntaxErr p
      else SyntaxErr p
    end
  end.

(* ---- all tokens, comments included, ending with EOF ---- *)
Fixpoint lex_loop (fuel : nat) (cu : cursor) (s : list N) : outcome (list token) :=
  match fuel with
  | O => OutOfFuel
  | S f =>
    match read_token cu s with
    | Ok (tk, cu', s') =>
      if tkind tk =? K_EOF then Ok [tk]
      else match lex_loop f cu' s' with
           | Ok ts => Ok (tk :: ts)
           | e => e
           end
    | SyntaxErr q => SyntaxErr q
    | Crash w => Crash w
    | OutOfFuel => OutOfFuel
    end
  end.

Definition init_cursor : cursor := mkCur 0 1 0.
Definition lex (s : list N) : outcome (list token) := lex_loop (S (length s)) init_cursor s.

Definition significant (ts : list token) : list token :=
  filter (fun t => negb (tkind t =? K_COMMENT)) ts.

(* ---- SchemaCoordinateLexer: punctuators . ( ) : @ and names, nothing ignored ---- *)
Definition coord_punct (c : N) : option N :=
  if c =? 46 then Some K_DOT else if c =? 40 then Some K_PAREN_L else if c =? 41 then Some K_PAREN_R
  else if c =? 58 then Some K_COLON else if c =? 64 then Some K_AT else None.

Definition coord_token (cu : cursor) (s : list N) : outcome (token * cursor * list N) :=
  let p := cpos cu in
  match s with
  | [] => Ok (mk K_EOF cu p p None, cu, [])
  | c :: t =>
    match coord_punct c with
    | Some k => Ok (mk k cu p (S p) None, mkCur (S p) 1 0, t)
    | None =>
      if is_name_start c then
        let '(b, r) := span is_name_continue t in
        let e := (p + 1 + length b)%nat in
        Ok (mk K_NAME cu p e (Some (c :: b)), mkCur e 1 0, r)
      else SyntaxErr p
    end
  end.

Fixpoint coord_loop (fuel : nat) (cu : cursor) (s : list N) : outcome (list token) :=
  match fuel with
  | O => OutOfFuel
  | S f =>
    match coord_token cu s with
    | Ok (tk, cu', s') =>
      if tkind tk =? K_EOF then Ok [tk]
      else match coord_loop f cu' s' with Ok ts => Ok (tk :: ts) | e => e end
    | SyntaxErr q => SyntaxErr q
    | Crash w => Crash w
    | OutOfFuel => OutOfFuel
    end
  end.

Definition coord_lex (s : list N) : outcome (list token) := coord_loop (S (length s)) init_cursor s.
