(* Every tree the parser returns for a source text of Unicode scalar values satisfies the lexical side
   conditions lex_ok of the printer theorems (Lang/PrinterProps.v): the parser only copies token values
   into the leaves, and the lexer's token values are lexemes / scalar strings / block values in range.
   So "parse, print, parse" is the identity on every parsed text. *)
From GV Require Import Base.Prelude Lang.Lexer Lang.LexerProps Lang.LexerLoc Lang.BlockString
  Lang.BlockStringProps Lang.StripBlock Lang.Strip Lang.StripProps Lang.Ast Lang.Parser Lang.Unparse
  Lang.Wf Lang.Printer Lang.PrinterProps.

(* ================================================================== *)
(* 1. the values of the lexer's tokens                                 *)
(* ================================================================== *)

Definition tok_ok (t : sigtok) : Prop :=
  (fst t = K_NAME -> is_name (snd t) = true) /\
  (fst t = K_INT -> alone K_INT (snd t) (snd t) = true) /\
  (fst t = K_FLOAT -> alone K_FLOAT (snd t) (snd t) = true) /\
  (fst t = K_STRING -> scalars (snd t)) /\
  (fst t = K_BLOCK_STRING -> block_ok (snd t)).

(* escapes decode to scalar values *)
Lemma var_width_scalar n : forall point size ds p sz,
  var_width n point size ds = Some (p, sz) -> is_scalar p = true.
Proof.
  induction n as [|n IH]; intros point size ds p sz H; [discriminate|]. cbn [var_width] in H.
  destruct ds as [|c t]; [discriminate|]. destruct (c =? 125).
  - destruct (Nat.ltb (S size) 5) eqn:E1; [discriminate|]. cbn [orb] in H.
    destruct (is_scalar point) eqn:E2; [|discriminate]. inversion H; subst. exact E2.
  - destruct (hex_digit c); [|discriminate]. eapply IH; eauto.
Qed.

Lemma escaped_char_scalar c v : escaped_char c = Some v -> is_scalar v = true.
Proof.
  unfold escaped_char.
  repeat match goal with |- context [if ?b then _ else _] => destruct b end;
    intros H; inversion H; reflexivity.
Qed.

Lemma read_escape_scalars pos s v size : read_escape pos s = Ok (v, size) -> scalars v.
Proof.
  unfold read_escape. cbv zeta.
  destruct (peek_is (N.eqb 117) (tl s)).
  - destruct (peek_is (N.eqb 123) (tl (tl s))).
    + destruct (var_width 9 0 3 (skipn 3 s)) as [[p sz]|] eqn:E; [|discriminate].
      intros H; inversion H; subst. constructor; [eapply var_width_scalar; eauto|constructor].
    + destruct (hex4 (skipn 2 s)) as [code|]; [|discriminate].
      destruct (is_scalar code) eqn:Es.
      * intros H; inversion H; subst. constructor; [exact Es|constructor].
      * destruct (is_lead code && starts2 92 117 (skipn 6 s)) eqn:El; [|discriminate].
        destruct (hex4 (skipn 8 s)) as [tr|]; [|discriminate].
        destruct (is_trail tr) eqn:Et; [|discriminate]. intros H.
        assert (Ev : v = [65536 + (code - 55296) * 1024 + (tr - 56320)]) by congruence. subst v. clear H.
        apply andb_true_iff in El as [El _]. constructor; [|constructor].
        unfold is_lead in El. unfold is_trail in Et. unfold is_scalar.
        apply andb_true_iff in El as [L1 L2]. apply andb_true_iff in Et as [T1 T2].
        apply N.leb_le in L1, L2, T1, T2. apply orb_true_iff. right.
        apply andb_true_iff. split; apply N.leb_le; lia.
  - destruct (tl s) as [|c r]; [discriminate|]. destruct (escaped_char c) as [w|] eqn:E; [|discriminate].
    intros H; inversion H; subst. constructor; [eapply escaped_char_scalar; eauto|constructor].
Qed.

Lemma scalars_skipn n s : scalars s -> scalars (skipn n s).
Proof. apply Forall_skipn'. Qed.

Lemma read_string_loop_scalars fuel : forall pos acc s e v r,
  scalars s -> scalars acc -> read_string_loop fuel pos acc s = Ok (e, v, r) -> scalars v.
Proof.
  induction fuel as [|f IH]; intros pos acc s e v r Hs Ha H; [discriminate|].
  cbn [read_string_loop] in H. destruct s as [|c t]; [discriminate|].
  inversion Hs as [|? ? Hc Ht]; subst.
  destruct (c =? 34).
  { inversion H; subst. apply Forall_rev. exact Ha. }
  destruct (c =? 92).
  { destruct (read_escape pos (c :: t)) as [[w size]| | |] eqn:Ee; try discriminate.
    eapply IH; [| |exact H].
    - apply scalars_skipn. exact Hs.
    - apply Forall_app. split; [apply Forall_rev; eapply read_escape_scalars; eauto|exact Ha]. }
  destruct ((c =? LF) || (c =? CR)); [discriminate|].
  destruct (is_scalar c) eqn:Esc.
  { eapply IH; [exact Ht| |exact H]. constructor; assumption. }
  congruence.
Qed.

Lemma read_token_tok_ok cu s tk cu' s' : scalars s -> read_token cu s = Ok (tk, cu', s') ->
  tok_ok (tok_sig tk) /\ scalars s'.
Proof.
  intros Hs E. destruct (read_token_ana _ _ _ _ _ E) as (g & lx & Es & _ & _ & _ & _ & Hcls).
  assert (Hs' : scalars s').
  { rewrite Es in Hs. unfold scalars in *. apply Forall_app in Hs as [_ Hs]. apply Forall_app in Hs as [_ Hs]. exact Hs. }
  split; [|exact Hs']. unfold tok_ok, tok_sig. cbn [fst snd].
  destruct (tkind tk =? K_EOF) eqn:Ek.
  { apply N.eqb_eq in Ek. rewrite Ek. repeat split; discriminate. }
  (* numbers: the lexeme alone is that token *)
  assert (NUM : forall k, (k = K_INT \/ k = K_FLOAT) -> tkind tk = k -> alone k (tvalue tk) (tvalue tk) = true).
  { intros k Hk Ek'.
    assert (Hv : tvalue tk = lx).
    { destruct Hcls as [c _ Hpk _ _| _ Hk' _ _|c b _ _ _ _ Hk' _ Hv|fl0 _ _ _ _ Hk' _ Hv|body _ _ _ _ Hk' _|Hk' _ _ _|Hk'];
        try exact Hv; exfalso.
      - destruct (punct_kind_some _ _ Hpk) as (_ & Hp & _). rewrite Ek' in Hp. destruct Hk as [->| ->]; discriminate.
      - rewrite Hk' in Ek'. destruct Hk as [->| ->]; discriminate.
      - rewrite Hk' in Ek'. destruct Hk as [->| ->]; discriminate.
      - rewrite Hk' in Ek'. destruct Hk as [->| ->]; discriminate.
      - rewrite Hk' in Ek'. destruct Hk as [->| ->]; discriminate. }
    assert (Hnc : (tkind tk =? K_COMMENT) = false) by (rewrite Ek'; destruct Hk as [->| ->]; reflexivity).
    pose proof (relex0 tk lx s' Hcls Hnc init_cursor [] (or_intror I)) as R.
    unfold retext in R. replace (tkind tk =? K_BLOCK_STRING) with false in R
      by (rewrite Ek'; destruct Hk as [->| ->]; reflexivity).
    destruct R as (tk2 & cu2 & E2 & K2 & V2 & _ & S2 & _). rewrite app_nil_r in E2.
    unfold alone. rewrite Hv, E2, K2, V2, Ek', Hv, S2. rewrite N.eqb_refl. cbn [andb].
    replace (nat_list_eqb lx lx) with true by (symmetry; apply nat_list_eqb_eq; reflexivity). reflexivity. }
  split; [|split; [|split; [|split]]].
  - intros Hk. destruct Hcls as [c _ Hpk _ _| _ Hk' _ _|c b -> Hns Hb _ _ _ Hv|fl0 _ _ _ _ Hk' _ _|body _ _ _ _ Hk' _|Hk' _ _ _|Hk'].
    + destruct (punct_kind_some _ _ Hpk) as (_ & Hp & _). rewrite Hk in Hp. discriminate.
    + rewrite Hk in Hk'. discriminate.
    + rewrite Hv. cbn [is_name]. rewrite Hns. cbn [andb]. apply forallb_forall. rewrite Forall_forall in Hb. exact Hb.
    + rewrite Hk in Hk'. destruct fl0; discriminate.
    + rewrite Hk in Hk'. discriminate.
    + rewrite Hk in Hk'. discriminate.
    + rewrite Hk in Hk'. discriminate.
  - intros Hk. apply NUM; [left; reflexivity|exact Hk].
  - intros Hk. apply NUM; [right; reflexivity|exact Hk].
  - intros Hk.
    (* quoted strings *)
    revert E. unfold read_token. destruct (skip_ignored cu s) as [cu1 s1] eqn:Esk.
    pose proof (skip_ignored_spec _ _ _ _ Esk) as (g1 & Ag & _).
    assert (Hs1 : scalars s1) by (eapply adv_forall; [exact Ag|exact Hs]).
    destruct s1 as [|c t]; [intros E; inversion E; subst; discriminate|].
    destruct (c =? 35). { destruct (comment_body t). intros E; inversion E; subst. discriminate. }
    destruct (c =? 34).
    { destruct (starts2 34 34 t).
      - cbv zeta. destruct (read_block_loop _ _ _ _ _ _) as [[[[e raw] ls'] rest]| | |]; try discriminate.
        intros E; inversion E; subst. discriminate.
      - destruct (read_string_loop (S (length t)) (S (cpos cu1)) [] t) as [[[e v] rest]| | |] eqn:Er; try discriminate.
        intros E; inversion E; subst. cbn [mk tvalue].
        inversion Hs1; subst. eapply read_string_loop_scalars; [| |exact Er]; [assumption|constructor]. }
    destruct (punct_kind c) as [k|] eqn:Epk.
    { intros E; inversion E; subst. cbn [mk tkind] in Hk. apply punct_kind_some in Epk as (_ & Hp & _).
      rewrite Hk in Hp. discriminate. }
    destruct (is_digit c || (c =? 45)).
    { destruct (read_number (cpos cu1) (c :: t)) as [[[e fl0] rest]| | |]; try discriminate.
      intros E; inversion E; subst. cbn [mk tkind] in Hk. destruct fl0; discriminate. }
    destruct (is_name_start c).
    { destruct (span is_name_continue t). intros E; inversion E; subst. discriminate. }
    destruct (c =? 46); [|discriminate]. destruct (starts2 46 46 t); [|discriminate].
    intros E; inversion E; subst. discriminate.
  - intros Hk. split; [eapply block_token_in_range; eauto|eapply block_token_wp; eauto].
Qed.

Lemma lex_loop_tok_ok fuel : forall cu s ts, scalars s -> lex_loop fuel cu s = Ok ts ->
  Forall tok_ok (map tok_sig ts).
Proof.
  induction fuel as [|f IH]; intros cu s ts Hs H; [discriminate|]. cbn [lex_loop] in H.
  destruct (read_token cu s) as [[[tk cu'] s']| | |] eqn:E; try discriminate.
  destruct (read_token_tok_ok _ _ _ _ _ Hs E) as [Ht Hs'].
  destruct (tkind tk =? K_EOF).
  - inversion H; subst. constructor; [exact Ht|constructor].
  - destruct (lex_loop f cu' s') as [ts'| | |] eqn:El; try discriminate. inversion H; subst.
    cbn [map]. constructor; [exact Ht|eapply IH; eauto].
Qed.

Lemma significant_tok_ok ts : Forall tok_ok (map tok_sig ts) -> Forall tok_ok (map tok_sig (significant ts)).
Proof.
  unfold significant. induction ts as [|t r IH]; intros F; [constructor|]. cbn [map] in F. inversion F; subst.
  cbn [filter]. destruct (negb (tkind t =? K_COMMENT)); [constructor; [assumption|]|]; apply IH; assumption.
Qed.

Lemma lex_tok_ok s ts : scalars s -> lex s = Ok ts -> Forall tok_ok (map tok_sig (significant ts)).
Proof. intros Hs H. apply significant_tok_ok. exact (lex_loop_tok_ok _ _ _ _ Hs H). Qed.

(* ================================================================== *)
(* 2. the parser copies token values into the leaves                   *)
(* ================================================================== *)

Definition Iok (ts : list sigtok) : Prop := Forall tok_ok ts.

(* on token lists whose tokens are ok, a successful run returns a result satisfying Q and leaves
   ok tokens *)
Definition posts {A} (Q : A -> Prop) (m : P A) : Prop :=
  forall ts a r, Iok ts -> m ts = ROk a r -> Q a /\ Iok r.

Lemma posts_ret {A} (Q : A -> Prop) a : Q a -> posts Q (ret a).
Proof. intros H ts b r Hi E. inversion E; subst. auto. Qed.

Lemma posts_bind {A B} (Q1 : A -> Prop) (Q2 : B -> Prop) (m : P A) (f : A -> P B) :
  posts Q1 m -> (forall a, Q1 a -> posts Q2 (f a)) -> posts Q2 (bind m f).
Proof.
  intros H1 H2 ts b r Hi. unfold bind. destruct (m ts) as [a r1| |] eqn:E; try discriminate.
  intros E2. destruct (H1 _ _ _ Hi E) as [Ha Hr]. eapply H2; eauto.
Qed.

Lemma posts_weaken {A} (Q1 Q2 : A -> Prop) m : posts Q1 m -> (forall a, Q1 a -> Q2 a) -> posts Q2 m.
Proof. intros H1 H2 ts a r Hi E. destruct (H1 _ _ _ Hi E). auto. Qed.

Lemma posts_fail_here {A} (Q : A -> Prop) : posts Q fail_here.
Proof. intros ts a r _ E. discriminate. Qed.
Lemma posts_fail_prev {A} (Q : A -> Prop) : posts Q fail_prev.
Proof. intros ts a r _ E. discriminate. Qed.
Lemma posts_fail_next {A} (Q : A -> Prop) : posts Q fail_next.
Proof. intros ts a r _ E. discriminate. Qed.
Lemma posts_out_of_fuel {A} (Q : A -> Prop) : posts Q out_of_fuel.
Proof. intros ts a r _ E. discriminate. Qed.
Lemma posts_with_fuel {A} (Q : A -> Prop) (g : nat -> P A) : (forall f, posts Q (g f)) -> posts Q (with_fuel g).
Proof. intros H ts a r Hi E. eapply H; eauto. Qed.

Lemma tok_ok_eof : tok_ok eof_tok.
Proof. repeat split; discriminate. Qed.
Lemma tok_at_ok ts : Iok ts -> tok_ok (tok_at ts).
Proof. intros H. destruct ts; [apply tok_ok_eof|]. inversion H; assumption. Qed.

Lemma posts_cur : posts tok_ok cur.
Proof. intros ts a r Hi E. inversion E; subst. split; [apply tok_at_ok, Hi|exact Hi]. Qed.

Section Prims.
Variable fl : nat.

Lemma posts_adv : posts (fun _ => True) (adv fl).
Proof.
  intros ts a r Hi E. split; [exact I|]. unfold adv in E. destruct ts as [|t r0]; [inversion E; subst; exact Hi|].
  destruct (fst t =? K_EOF); [inversion E; subst; exact Hi|]. unfold chk in E.
  destruct (kind_at r0 =? K_LEXERR); [discriminate|]. destruct (over fl r0); [discriminate|].
  inversion E; subst. inversion Hi; assumption.
Qed.

Lemma posts_look : posts tok_ok (look).
Proof.
  intros ts a r Hi E. unfold look in E. destruct ts as [|t r0]; [inversion E; subst; split; [apply tok_ok_eof|exact Hi]|].
  inversion Hi as [|? ? Ht Hr]; subst.
  destruct (fst t =? K_EOF); [inversion E; subst; split; [exact Ht|exact Hi]|].
  destruct (kind_at r0 =? K_LEXERR); [discriminate|]. inversion E; subst. split; [apply tok_at_ok, Hr|exact Hi].
Qed.
End Prims.

Create HintDb ps.
#[export] Hint Resolve posts_fail_here posts_fail_prev posts_fail_next posts_out_of_fuel posts_cur
  posts_adv posts_look : ps.

Ltac sb := eapply posts_bind; [solve [eauto 3 with ps]|cbv beta; intros ? ?].

Section Prims2.
Variable fl : nat.

Lemma posts_expect_token k : posts (fun v => tok_ok (k, v)) (expect_token fl k).
Proof.
  unfold expect_token. sb. destruct (fst a =? k) eqn:E; [|apply posts_fail_here].
  sb. apply posts_ret. apply N.eqb_eq in E. subst k. destruct a. exact H.
Qed.
Lemma posts_expect_optional_token k : posts (fun _ => True) (expect_optional_token fl k).
Proof. unfold expect_optional_token. sb. destruct (fst a =? k); [sb|]; apply posts_ret; exact I. Qed.
Lemma posts_expect_keyword w : posts (fun _ => True) (expect_keyword fl w).
Proof. unfold expect_keyword. sb. destruct (is_keyword a w); [apply posts_adv|apply posts_fail_here]. Qed.
Lemma posts_expect_optional_keyword w : posts (fun _ => True) (expect_optional_keyword fl w).
Proof. unfold expect_optional_keyword. sb. destruct (is_keyword a w); [sb|]; apply posts_ret; exact I. Qed.
End Prims2.
#[export] Hint Resolve posts_expect_token posts_expect_optional_token posts_expect_keyword
  posts_expect_optional_keyword : ps.

(* ---------- loops ---------- *)
Section Loops.
Variable fl : nat.
Variable p : P node.
Hypothesis Hp : posts lex_ok p.

Lemma posts_until_close close : forall f, posts (Forall lex_ok) (until_close fl f close p).
Proof.
  induction f as [|f IH]; [apply posts_out_of_fuel|]. cbn [until_close].
  sb. destruct a; [apply posts_ret; constructor|].
  eapply posts_bind; [exact Hp|]. intros x Hx.
  eapply posts_bind; [exact IH|]. intros xs Hxs. apply posts_ret. constructor; assumption.
Qed.
Lemma posts_loop_close close : posts (Forall lex_ok) (loop_close fl close p).
Proof. unfold loop_close. apply posts_with_fuel. apply posts_until_close. Qed.
Lemma posts_any open close : posts (Forall lex_ok) (any_ fl open p close).
Proof. unfold any_. sb. apply posts_loop_close. Qed.
Lemma posts_many open close : posts (Forall lex_ok) (many fl open p close).
Proof.
  unfold many. sb. eapply posts_bind; [exact Hp|]. intros x Hx.
  eapply posts_bind; [apply posts_loop_close|]. intros xs Hxs. apply posts_ret. constructor; assumption.
Qed.
Lemma posts_optional_many open close :
  posts (fun o => attr_ok (oattr o)) (optional_many fl open p close).
Proof.
  unfold optional_many. sb. destruct a; [|apply posts_ret; exact I].
  eapply posts_bind; [exact Hp|]. intros x Hx.
  eapply posts_bind; [apply posts_loop_close|]. intros xs Hxs. apply posts_ret. cbn [oattr attr_ok].
  apply all_ok. constructor; assumption.
Qed.
Lemma posts_delim_loop delim : forall f, posts (Forall lex_ok) (delim_loop fl f delim p).
Proof.
  induction f as [|f IH]; [apply posts_out_of_fuel|]. cbn [delim_loop].
  eapply posts_bind; [exact Hp|]. intros x Hx. sb. destruct a.
  - eapply posts_bind; [exact IH|]. intros xs Hxs. apply posts_ret. constructor; assumption.
  - apply posts_ret. constructor; [assumption|constructor].
Qed.
Lemma posts_delimited_many delim : posts (Forall lex_ok) (delimited_many fl delim p).
Proof. unfold delimited_many. sb. apply posts_with_fuel. apply posts_delim_loop. Qed.
Lemma posts_while_peek k : forall f, posts (Forall lex_ok) (while_peek f k p).
Proof.
  induction f as [|f IH]; [apply posts_out_of_fuel|]. cbn [while_peek].
  sb. destruct (fst a =? k); [|apply posts_ret; constructor].
  eapply posts_bind; [exact Hp|]. intros x Hx.
  eapply posts_bind; [exact IH|]. intros xs Hxs. apply posts_ret. constructor; assumption.
Qed.
End Loops.

Lemma lattr_ok l : Forall lex_ok l -> attr_ok (lattr l).
Proof. intros H. destruct l; [exact I|]. cbn [lattr attr_ok]. apply all_ok. exact H. Qed.
Lemma alist_ok l : Forall lex_ok l -> attr_ok (AList l).
Proof. intros H. cbn [attr_ok]. apply all_ok. exact H. Qed.

(* a node all of whose attributes are ok and whose kind has no leaf condition *)
Ltac nd := apply posts_ret; cbn [lex_ok leaf_ok map fold_right attr_ok oattr lattr] in *; repeat split; auto.

Section Productions.
Variable fl : nat.

Lemma posts_name : posts lex_ok (name fl).
Proof. unfold name. sb. apply posts_ret. destruct H as (H & _). cbn. repeat split. apply H. reflexivity. Qed.
Hint Resolve posts_name : ps.

Lemma posts_variable : posts lex_ok (variable fl).
Proof. unfold variable. sb. sb. nd. Qed.
Hint Resolve posts_variable : ps.
Lemma posts_named_type : posts lex_ok (named_type fl).
Proof. unfold named_type. sb. nd. Qed.
Hint Resolve posts_named_type : ps.

Lemma named_value_ok v : is_name v = true -> lex_ok (named_value v).
Proof.
  intros H. unfold named_value. destruct (seqb v s_true); [cbn; auto|].
  destruct (seqb v s_false); [cbn; auto|]. destruct (seqb v s_null); cbn; auto.
Qed.

Lemma posts_object_field pv : posts lex_ok pv -> posts lex_ok (object_field fl pv).
Proof.
  intros Hpv. unfold object_field. sb. sb. eapply posts_bind; [exact Hpv|]. intros v Hv. nd.
Qed.

Lemma posts_value c : forall f, posts lex_ok (value fl f c).
Proof.
  induction f as [|f IH]; [apply posts_out_of_fuel|]. cbn [value]. cbv zeta.
  sb.
  repeat match goal with |- posts _ (if ?b then _ else _) => destruct b end.
  - eapply posts_bind; [apply posts_any; exact IH|]. intros l Hl. apply posts_ret.
    cbn. repeat split. apply all_ok, Hl.
  - eapply posts_bind; [apply posts_any; apply posts_object_field; exact IH|]. intros l Hl. apply posts_ret.
    cbn. repeat split. apply all_ok, Hl.
  - sb. apply posts_ret. destruct H0 as (_ & H0 & _). cbn. repeat split; apply H0; reflexivity.
  - sb. apply posts_ret. destruct H0 as (_ & _ & H0 & _). cbn. repeat split; apply H0; reflexivity.
  - sb. apply posts_ret. destruct H0 as (_ & _ & _ & H0 & _). cbn. repeat split; apply H0; reflexivity.
  - sb. apply posts_ret. destruct H0 as (_ & _ & _ & _ & H0). cbn. repeat split; apply H0; reflexivity.
  - sb. apply posts_ret. destruct H0 as (H0 & _). apply named_value_ok. apply H0. reflexivity.
  - sb. apply posts_fail_prev.
  - apply posts_variable.
  - apply posts_fail_here.
Qed.
Lemma posts_value_literal c : posts lex_ok (value_literal fl c).
Proof. unfold value_literal. apply posts_with_fuel. apply posts_value. Qed.
Hint Resolve posts_value_literal : ps.

Lemma posts_description : posts attr_ok (description fl).
Proof.
  intros ts a r Hi E. unfold description, bind, cur in E.
  destruct (peek_description (tok_at ts)) eqn:Ep; [|inversion E; subst; split; [exact I|exact Hi]].
  unfold string_literal, bind, cur in E.
  destruct (adv fl ts) as [u r1| |] eqn:Ea; try discriminate. cbn [ret] in E. inversion E; subst.
  destruct (posts_adv fl ts u r Hi Ea) as [_ Hr]. split; [|exact Hr].
  pose proof (tok_at_ok ts Hi) as (_ & _ & _ & Hs & Hb). cbn. repeat split.
  unfold peek_description in Ep. destruct (fst (tok_at ts) =? K_BLOCK_STRING) eqn:Eb.
  - apply Hb, N.eqb_eq, Eb.
  - rewrite orb_false_r in Ep. apply Hs, N.eqb_eq, Ep.
Qed.
End Productions.
#[export] Hint Resolve posts_name posts_variable posts_named_type posts_value_literal posts_description : ps.

Ltac go := repeat first
  [ apply posts_fail_here | apply posts_fail_prev | apply posts_fail_next
  | match goal with |- posts _ (ret _) => nd end
  | match goal with |- posts _ (bind _ _) => sb end
  | match goal with |- posts _ (if ?b then _ else _) => destruct b eqn:? end
  | solve [eauto 3 with ps] ].

(* bind whose first computation is a conditional returning an attribute *)
Ltac sba := eapply (posts_bind attr_ok); [|cbv beta; intros ? ?].

Section Productions2.
Variable fl : nat.

Lemma posts_type_ref : forall f, posts lex_ok (type_ref fl f).
Proof.
  induction f as [|f IH]; [apply posts_out_of_fuel|]. cbn [type_ref].
  sb. eapply (posts_bind lex_ok).
  - destruct a; [|apply posts_named_type]. eapply posts_bind; [exact IH|]. intros i Hi. sb. nd.
  - intros t Ht. sb. destruct a0; nd.
Qed.
Lemma posts_type_reference : posts lex_ok (type_reference fl).
Proof. unfold type_reference. apply posts_with_fuel. apply posts_type_ref. Qed.
Hint Resolve posts_type_reference : ps.

Lemma posts_argument c : posts lex_ok (argument fl c).
Proof. unfold argument. go. Qed.
Lemma posts_arguments c : posts (fun o => attr_ok (oattr o)) (arguments fl c).
Proof. unfold arguments. apply posts_optional_many. apply posts_argument. Qed.
Lemma posts_fragment_argument : posts lex_ok (fragment_argument fl).
Proof. unfold fragment_argument. go. Qed.
Lemma posts_fragment_arguments : posts (fun o => attr_ok (oattr o)) (fragment_arguments fl).
Proof. unfold fragment_arguments. apply posts_optional_many. apply posts_fragment_argument. Qed.
Hint Resolve posts_arguments posts_fragment_arguments : ps.

Lemma posts_directive c : posts lex_ok (directive fl c).
Proof. unfold directive. go. Qed.
Lemma posts_directives c : posts attr_ok (directives fl c).
Proof.
  unfold directives. eapply posts_bind.
  - apply posts_with_fuel. intros f. apply posts_while_peek. apply posts_directive.
  - intros l Hl. apply posts_ret. apply lattr_ok, Hl.
Qed.
Hint Resolve posts_directives : ps.

Lemma posts_fragment_name : posts lex_ok (fragment_name fl).
Proof. unfold fragment_name. go. Qed.
Hint Resolve posts_fragment_name : ps.

Lemma posts_field ss : posts lex_ok ss -> posts lex_ok (field fl ss).
Proof.
  intros Hss. unfold field. sb. sb.
  eapply (posts_bind (fun an => attr_ok (fst an) /\ lex_ok (snd an))).
  { destruct a0; [sb|]; apply posts_ret; cbn [fst snd attr_ok]; auto. }
  intros an [Ha1 Ha2]. sb. sb. sb. sba.
  { match goal with |- posts _ (if ?b then _ else _) => destruct b end; [|nd].
    eapply posts_bind; [exact Hss|]. intros x Hx. nd. }
  nd.
Qed.

Lemma posts_fragment xfa ss : posts lex_ok ss -> posts lex_ok (fragment fl xfa ss).
Proof.
  intros Hss. unfold fragment. sb. sb. sb.
  destruct (negb a0 && (fst a1 =? K_NAME)).
  - sb. sb. eapply (posts_bind (fun o => attr_ok (oattr o))).
    { match goal with |- posts _ (if ?b then _ else _) => destruct b end;
        [apply posts_fragment_arguments|apply posts_ret; exact I]. }
    intros o Ho. sb. nd.
  - sba. { destruct a0; [sb|]; nd. }
    sb. eapply posts_bind; [exact Hss|]. intros s Hs. nd.
Qed.

Lemma posts_selection xfa ss : posts lex_ok ss -> posts lex_ok (selection fl xfa ss).
Proof.
  intros Hss. unfold selection. sb. destruct (fst a =? K_SPREAD); [apply posts_fragment|apply posts_field]; exact Hss.
Qed.

Lemma posts_sel_set xfa : forall f, posts lex_ok (sel_set fl xfa f).
Proof.
  induction f as [|f IH]; [apply posts_out_of_fuel|]. cbn [sel_set].
  eapply posts_bind; [apply posts_many; apply posts_selection; exact IH|]. intros l Hl.
  apply posts_ret. cbn. repeat split. apply all_ok, Hl.
Qed.
Lemma posts_selection_set xfa : posts lex_ok (selection_set fl xfa).
Proof. unfold selection_set. apply posts_with_fuel. apply posts_sel_set. Qed.
Hint Resolve posts_selection_set : ps.

Lemma posts_default :
  forall e : bool, posts attr_ok (if e then x <- value_literal fl true ;; ret (ANode x) else ret ANone).
Proof. intros e. destruct e; [sb|]; nd. Qed.

Lemma posts_variable_definition : posts lex_ok (variable_definition fl).
Proof.
  unfold variable_definition. sb. sb. sb. sb. sb.
  eapply posts_bind; [apply posts_default|]. intros dv Hdv. sb. nd.
Qed.
Lemma posts_variable_definitions : posts (fun o => attr_ok (oattr o)) (variable_definitions fl).
Proof. unfold variable_definitions. apply posts_optional_many. apply posts_variable_definition. Qed.
Hint Resolve posts_variable_definitions : ps.

Lemma posts_operation_type : posts (fun _ => True) (operation_type fl).
Proof. unfold operation_type. sb. destruct (operation_type_of a); [apply posts_ret; exact I|apply posts_fail_prev]. Qed.
Hint Resolve posts_operation_type : ps.

Lemma posts_operation_definition xfa : posts lex_ok (operation_definition fl xfa).
Proof.
  unfold operation_definition. sb. destruct (fst a =? K_BRACE_L).
  - sb. nd.
  - sb. sb. sb. sba. { match goal with |- posts _ (if ?b then _ else _) => destruct b end; [sb|]; nd. }
    sb. sb. sb. nd.
Qed.

Lemma posts_type_condition : posts lex_ok (type_condition fl).
Proof. unfold type_condition. go. Qed.
Hint Resolve posts_type_condition : ps.

Lemma posts_fragment_definition xfa : posts lex_ok (fragment_definition fl xfa).
Proof.
  unfold fragment_definition. sb. sb. sb. sba.
  { destruct xfa; [sb; nd|apply posts_ret; exact I]. }
  sb. sb. sb. nd.
Qed.

Lemma posts_operation_type_definition : posts lex_ok (operation_type_definition fl).
Proof. unfold operation_type_definition. go. Qed.

Lemma posts_implements_interfaces : posts attr_ok (implements_interfaces fl).
Proof.
  unfold implements_interfaces. sb. destruct a; [|nd].
  eapply posts_bind; [apply posts_delimited_many; apply posts_named_type|]. intros l Hl.
  apply posts_ret. apply alist_ok, Hl.
Qed.
Lemma posts_union_member_types : posts attr_ok (union_member_types fl).
Proof.
  unfold union_member_types. sb. destruct a; [|nd].
  eapply posts_bind; [apply posts_delimited_many; apply posts_named_type|]. intros l Hl.
  apply posts_ret. apply alist_ok, Hl.
Qed.
Hint Resolve posts_implements_interfaces posts_union_member_types : ps.

Lemma posts_input_value_def : posts lex_ok (input_value_def fl).
Proof.
  unfold input_value_def. sb. sb. sb. sb. sb.
  eapply posts_bind; [apply posts_default|]. intros dv Hdv. sb. nd.
Qed.
Lemma posts_argument_defs : posts (fun o => attr_ok (oattr o)) (argument_defs fl).
Proof. unfold argument_defs. apply posts_optional_many. apply posts_input_value_def. Qed.
Lemma posts_input_fields_definition : posts (fun o => attr_ok (oattr o)) (input_fields_definition fl).
Proof. unfold input_fields_definition. apply posts_optional_many. apply posts_input_value_def. Qed.
Hint Resolve posts_argument_defs posts_input_fields_definition : ps.

Lemma posts_field_definition : posts lex_ok (field_definition fl).
Proof. unfold field_definition. go. Qed.
Lemma posts_fields_definition : posts (fun o => attr_ok (oattr o)) (fields_definition fl).
Proof. unfold fields_definition. apply posts_optional_many. apply posts_field_definition. Qed.
Hint Resolve posts_fields_definition : ps.

Lemma posts_enum_value_name : posts lex_ok (enum_value_name fl).
Proof. unfold enum_value_name. go. Qed.
Hint Resolve posts_enum_value_name : ps.
Lemma posts_enum_value_definition : posts lex_ok (enum_value_definition fl).
Proof. unfold enum_value_definition. go. Qed.
Lemma posts_enum_values_definition : posts (fun o => attr_ok (oattr o)) (enum_values_definition fl).
Proof. unfold enum_values_definition. apply posts_optional_many. apply posts_enum_value_definition. Qed.
Hint Resolve posts_enum_values_definition : ps.

Lemma posts_directive_location : posts lex_ok (directive_location fl).
Proof.
  unfold directive_location. sb. destruct (is_directive_location a); [|apply posts_fail_prev].
  apply posts_ret. destruct H as (H & _). cbn. repeat split. apply H. reflexivity.
Qed.

Lemma posts_many_otd o c : posts (Forall lex_ok) (many fl o (operation_type_definition fl) c).
Proof. apply posts_many. apply posts_operation_type_definition. Qed.
Lemma posts_optional_many_otd o c :
  posts (fun x => attr_ok (oattr x)) (optional_many fl o (operation_type_definition fl) c).
Proof. apply posts_optional_many. apply posts_operation_type_definition. Qed.
Hint Resolve posts_many_otd posts_optional_many_otd : ps.

Lemma posts_schema_definition : posts lex_ok (schema_definition fl).
Proof. unfold schema_definition. sb. sb. sb. sb. apply posts_ret. cbn. repeat split; auto. apply all_ok. assumption. Qed.
Lemma posts_scalar_type_definition : posts lex_ok (scalar_type_definition fl).
Proof. unfold scalar_type_definition. go. Qed.
Lemma posts_object_type_definition : posts lex_ok (object_type_definition fl).
Proof. unfold object_type_definition. go. Qed.
Lemma posts_interface_type_definition : posts lex_ok (interface_type_definition fl).
Proof. unfold interface_type_definition. go. Qed.
Lemma posts_union_type_definition : posts lex_ok (union_type_definition fl).
Proof. unfold union_type_definition. go. Qed.
Lemma posts_enum_type_definition : posts lex_ok (enum_type_definition fl).
Proof. unfold enum_type_definition. go. Qed.
Lemma posts_input_object_type_definition : posts lex_ok (input_object_type_definition fl).
Proof. unfold input_object_type_definition. go. Qed.

Lemma posts_directive_definition xdd : posts lex_ok (directive_definition fl xdd).
Proof.
  unfold directive_definition. sb. sb. sb. sb. sb. sba. { destruct xdd; [apply posts_directives|nd]. }
  sb. sb. eapply posts_bind; [apply posts_delimited_many; apply posts_directive_location|]. intros ls Hls.
  apply posts_ret. cbn [lex_ok leaf_ok map fold_right attr_ok oattr] in *. repeat split; auto. apply all_ok, Hls.
Qed.

Lemma posts_schema_extension : posts lex_ok (schema_extension fl).
Proof. unfold schema_extension. go. Qed.
Lemma posts_scalar_type_extension : posts lex_ok (scalar_type_extension fl).
Proof. unfold scalar_type_extension. go. Qed.
Lemma posts_object_type_extension : posts lex_ok (object_type_extension fl).
Proof. unfold object_type_extension. go. Qed.
Lemma posts_interface_type_extension : posts lex_ok (interface_type_extension fl).
Proof. unfold interface_type_extension. go. Qed.
Lemma posts_union_type_extension : posts lex_ok (union_type_extension fl).
Proof. unfold union_type_extension. go. Qed.
Lemma posts_enum_type_extension : posts lex_ok (enum_type_extension fl).
Proof. unfold enum_type_extension. go. Qed.
Lemma posts_input_object_type_extension : posts lex_ok (input_object_type_extension fl).
Proof. unfold input_object_type_extension. go. Qed.
Lemma posts_directive_definition_extension : posts lex_ok (directive_definition_extension fl).
Proof. unfold directive_definition_extension. go. Qed.

Lemma posts_type_system_extension xdd : posts lex_ok (type_system_extension fl xdd).
Proof.
  unfold type_system_extension. sb. destruct (fst a =? K_NAME); [|apply posts_fail_next]. cbv zeta.
  repeat match goal with |- posts _ (if ?b then _ else _) => destruct b end;
    first [apply posts_schema_extension|apply posts_scalar_type_extension|apply posts_object_type_extension
          |apply posts_interface_type_extension|apply posts_union_type_extension|apply posts_enum_type_extension
          |apply posts_input_object_type_extension|apply posts_directive_definition_extension|apply posts_fail_next].
Qed.

Lemma posts_definition xfa xdd : posts lex_ok (definition fl xfa xdd).
Proof.
  unfold definition. sb. destruct (fst a =? K_BRACE_L); [apply posts_operation_definition|]. cbv zeta.
  eapply (posts_bind tok_ok). { destruct (peek_description a); [apply posts_look|apply posts_ret; exact H]. }
  intros kt Hkt.
  repeat match goal with |- posts _ (if ?b then _ else _) => destruct b end;
    first [apply posts_fail_here|apply posts_fail_next|apply posts_schema_definition|apply posts_scalar_type_definition
          |apply posts_object_type_definition|apply posts_interface_type_definition|apply posts_union_type_definition
          |apply posts_enum_type_definition|apply posts_input_object_type_definition|apply posts_directive_definition
          |apply posts_operation_definition|apply posts_fragment_definition|apply posts_type_system_extension].
Qed.

Lemma posts_document xfa xdd : posts lex_ok (document fl xfa xdd).
Proof.
  unfold document. eapply posts_bind; [apply posts_many; apply posts_definition|]. intros l Hl.
  apply posts_ret. cbn. repeat split. apply all_ok, Hl.
Qed.

Lemma posts_value_entry c : posts lex_ok (value_entry fl c).
Proof. unfold value_entry, enter. sb. sb. sb. apply posts_ret. assumption. Qed.
Lemma posts_type_entry : posts lex_ok (type_entry fl).
Proof. unfold type_entry, enter. sb. sb. sb. apply posts_ret. assumption. Qed.
End Productions2.

(* ================================================================== *)
(* 3. parsed trees satisfy the lexical side conditions                 *)
(* ================================================================== *)

Theorem parse_entry_lex_ok e o ts x c : e <> ECoordinate ->
  Forall tok_ok (map sig ts) -> parse_entry e o ts = Ok (x, c) -> lex_ok x.
Proof.
  intros He Hts. unfold parse_entry.
  destruct (core e _ _ _ _) as [d r|y|] eqn:E; try discriminate. intros H; inversion H; subst.
  assert (Hi : Iok (sof_tok :: map sig ts)).
  { constructor; [repeat split; discriminate|exact Hts]. }
  destruct e; cbn [core] in E; [| | | |congruence].
  - exact (proj1 (posts_document _ _ _ _ _ _ Hi E)).
  - exact (proj1 (posts_value_entry _ _ _ _ _ Hi E)).
  - exact (proj1 (posts_value_entry _ _ _ _ _ Hi E)).
  - exact (proj1 (posts_type_entry _ _ _ _ Hi E)).
Qed.
