(* The block-string round trip of BlockStringProps.block_roundtrip_main, generalised from values of
   Unicode scalar values to values in which surrogates occur as lead-trail pairs - which is what
   the lexer accepts inside a block string and therefore what every BLOCK_STRING token value is.
   Used by StripProps.v so that the strip theorems need no hypothesis on the source text. *)
From GV Require Import Base.Prelude Lang.Location Lang.Lexer Lang.LexerProps Lang.BlockString
  Lang.BlockStringProps.

(* a line: plain characters (scalar, no line terminator) and surrogate pairs *)
Inductive wp : list N -> Prop :=
| wp_nil : wp []
| wp_one c t : plain c -> wp t -> wp (c :: t)
| wp_two c d t : is_lead c = true -> is_trail d = true -> wp t -> wp (c :: d :: t).

Lemma lead_facts c : is_lead c = true ->
  (c =? 34) = false /\ (c =? 92) = false /\ (c =? LF) = false /\ (c =? CR) = false /\
  is_scalar c = false /\ is_blank_char c = false.
Proof.
  unfold is_lead, is_scalar, is_blank_char, LF, CR. intros H. apply andb_true_iff in H as [H1 H2].
  apply N.leb_le in H1, H2.
  assert (E1 : (c <=? 55295) = false) by (apply N.leb_gt; lia).
  assert (E2 : (57344 <=? c) = false) by (apply N.leb_gt; lia).
  rewrite E1, E2.
  repeat split; try reflexivity; try (apply N.eqb_neq; lia).
  apply orb_false_iff. split; apply N.eqb_neq; lia.
Qed.

Lemma trail_facts d : is_trail d = true -> (d =? 34) = false /\ (d =? LF) = false.
Proof.
  unfold is_trail, LF. intros H. apply andb_true_iff in H as [H1 H2]. apply N.leb_le in H1, H2.
  split; apply N.eqb_neq; lia.
Qed.

Lemma wp_app a b : wp a -> wp b -> wp (a ++ b).
Proof. induction 1; intros Hb; cbn [app]; [exact Hb|apply wp_one; auto|apply wp_two; auto]. Qed.

Lemma wp_all_plain l : Forall plain l -> wp l.
Proof. induction 1; [constructor|apply wp_one; assumption]. Qed.

Lemma wp_nolf l : wp l -> nolf l.
Proof.
  induction 1 as [|c t Hc _ IH|c d t Hc Hd _ IH]; [constructor| |].
  - constructor; [apply Hc|exact IH].
  - constructor; [apply lead_facts, Hc|]. constructor; [apply trail_facts, Hd|exact IH].
Qed.

(* ---- the lexer's block loop on one escaped line ---- *)
Lemma loop_line_wp n : forall l, (length l <= n)%nat -> wp l -> forall T f pos ls cur lines,
  tail_ok l T -> (length (escape_tq l ++ T) < f)%nat ->
  exists f', (length T < f')%nat /\
    read_block_loop f pos ls cur lines (escape_tq l ++ T)
    = read_block_loop f' (pos + length (escape_tq l)) ls (rev l ++ cur) lines T.
Proof.
  induction n as [|n IH]; intros l Hn Hw T f pos ls cur lines Hok Hf.
  { destruct l; [|cbn in Hn; lia]. exists f. split; [exact Hf|]. cbn. rewrite Nat.add_0_r. reflexivity. }
  destruct l as [|c t].
  { exists f. split; [exact Hf|]. cbn. rewrite Nat.add_0_r. reflexivity. }
  destruct (starts3 34 34 34 (c :: t)) eqn:E3.
  - (* an escaped triple quote *)
    apply starts3_true in E3 as (t3 & E). rewrite E in *. clear E.
    assert (Hw3 : wp t3).
    { inversion Hw as [|? ? _ H1|? ? ? Hc _ _]; subst; [|apply lead_facts in Hc; destruct Hc as (Hc & _); discriminate].
      inversion H1 as [|? ? _ H2|? ? ? Hc _ _]; subst; [|apply lead_facts in Hc; destruct Hc as (Hc & _); discriminate].
      inversion H2 as [|? ? _ H3|? ? ? Hc _ _]; subst; [|apply lead_facts in Hc; destruct Hc as (Hc & _); discriminate].
      exact H3. }
    rewrite esc_triple in *. cbn [app length] in Hf. destruct f as [|f]; [lia|].
    destruct (IH t3 ltac:(cbn [length] in Hn; lia) Hw3 T f (pos + 4)%nat ls (34 :: 34 :: 34 :: cur) lines
                 (tail_ok_triple _ _ Hok) ltac:(lia)) as (f' & Hf' & E).
    exists f'. split; [exact Hf'|]. cbn [app]. rewrite loop_step_esc, E.
    cbn [rev length]. rewrite <- !app_assoc. cbn [app].
    replace (pos + 4 + length (escape_tq t3))%nat with (pos + S (S (S (S (length (escape_tq t3))))))%nat by lia.
    reflexivity.
  - inversion Hw as [|? ? Hc Hwt|? d t' Hc Hd Hwt]; subst.
    + (* a plain character *)
      rewrite (esc_notriple c t E3) in *. cbn [app length] in Hf. destruct f as [|f]; [lia|].
      destruct (IH t ltac:(cbn [length] in Hn; lia) Hwt T f (S pos) ls (c :: cur) lines
                   (tail_ok_tl _ _ _ E3 Hok) ltac:(lia)) as (f' & Hf' & E).
      exists f'. split; [exact Hf'|]. cbn [app].
      rewrite loop_step_char; [|exact Hc|apply look_i; assumption|apply look_ii; assumption].
      rewrite E. cbn [rev length]. rewrite <- app_assoc. cbn [app].
      replace (S pos + length (escape_tq t))%nat with (pos + S (length (escape_tq t)))%nat by lia.
      reflexivity.
    + (* a surrogate pair *)
      destruct (lead_facts _ Hc) as (Hq & Hb & Hl & Hr & Hs & _).
      destruct (trail_facts _ Hd) as (Hdq & _).
      rewrite (esc_nonquote c _ Hq), (esc_nonquote d _ Hdq) in *. cbn [app length] in Hf.
      destruct f as [|f]; [lia|].
      assert (Hok' : tail_ok t' T).
      { apply (tail_ok_tl d t' T); [apply starts3_head, Hdq|].
        apply (tail_ok_tl c (d :: t') T); [exact E3|exact Hok]. }
      destruct (IH t' ltac:(cbn [length] in Hn; lia) Hwt T f (pos + 2)%nat ls (d :: c :: cur) lines
                   Hok' ltac:(lia)) as (f' & Hf' & E).
      exists f'. split; [exact Hf'|]. cbn [app read_block_loop].
      rewrite (starts3_head c _ Hq), Hb, Hl, Hr, Hs, Hc. cbn [andb peek_is hd tl]. rewrite Hd.
      rewrite E. cbn [rev length]. rewrite <- !app_assoc. cbn [app].
      replace (pos + 2 + length (escape_tq t'))%nat with (pos + S (S (length (escape_tq t'))))%nat by lia.
      reflexivity.
Qed.

Definition lines_wp (R : list (list N)) : Prop := Forall wp R.

Lemma loop_lines_wp R : R <> [] -> lines_wp R -> safe_end (last R []) = true ->
  forall (rest : list N) f pos ls cur lines,
  (length (join_lf (map escape_tq R) ++ 34%N :: 34%N :: 34%N :: rest) < f)%nat ->
  exists ls',
    read_block_loop f pos ls cur lines (join_lf (map escape_tq R) ++ 34 :: 34 :: 34 :: rest)
    = Ok ((pos + length (join_lf (map escape_tq R)) + 3)%nat,
          rev lines ++ (rev cur ++ hd [] R) :: tl R, ls', rest).
Proof.
  induction R as [|l R IH]; [congruence|]. intros _ Hok Hse rest f pos ls cur lines Hf.
  inversion Hok as [|? ? Hl HR]; subst.
  destruct R as [|m R'].
  - cbn [map join_lf] in *. cbn [last] in Hse.
    destruct (loop_line_wp (length l) l (le_n _) Hl (34 :: 34 :: 34 :: rest) f pos ls cur lines (or_introl Hse) Hf)
      as (f' & Hf' & E).
    destruct f' as [|f']; [cbn in Hf'; lia|].
    rewrite E, loop_close. exists ls. cbn [hd tl rev]. rewrite rev_app_distr, rev_involutive.
    reflexivity.
  - cbn [map] in *. rewrite join_lf_cons in * by discriminate.
    rewrite <- app_assoc in *. cbn [app] in *.
    destruct (loop_line_wp (length l) l (le_n _) Hl
                (LF :: join_lf (escape_tq m :: map escape_tq R') ++ 34 :: 34 :: 34 :: rest)
                f pos ls cur lines (or_intror eq_refl) Hf) as (f' & Hf' & E).
    destruct f' as [|f']; [cbn in Hf'; lia|].
    rewrite E, loop_step_lf.
    assert (Hse' : safe_end (last (m :: R') []) = true) by exact Hse.
    destruct (IH ltac:(discriminate) HR Hse' rest f' (S (pos + length (escape_tq l)))
                 (S (pos + length (escape_tq l))) [] (rev (rev l ++ cur) :: lines)
                 ltac:(cbn [length] in Hf'; lia)) as (ls' & E').
    exists ls'. cbn [map] in E'. rewrite E'. f_equal. f_equal. f_equal. f_equal.
    + rewrite app_length. cbn [length]. lia.
    + cbn [hd tl rev app]. rewrite rev_app_distr, rev_involutive. rewrite <- app_assoc. reflexivity.
Qed.

(* ---- the round trip (the proof of BlockStringProps.block_roundtrip_main with [wp] lines) ---- *)
Theorem block_roundtrip_wp v m pads cu rest :
  in_block_range v = true -> lines_wp (split_lf v) -> Forall blanks pads ->
  exists tk cu',
    read_token cu (indent_all pads (print_block_string v m) ++ rest) = Ok (tk, cu', rest) /\
    tkind tk = K_BLOCK_STRING /\ thasval tk = true /\ tvalue tk = v /\
    tstart tk = cpos cu /\
    tend tk = (cpos cu + length (indent_all pads (print_block_string v m)))%nat /\
    cpos cu' = tend tk.
Proof.
  intros Hr HLplain Hpads.
  destruct (range_unpack v Hr) as (Hcr & Hshape).
  destruct (indent_all_single pads Hpads) as (P & HP & EP). rewrite EP.
  rewrite (print_eq v m Hcr).
  set (B := before_b v m). set (A := after_b v m).
  pose (L := split_lf v). fold L in HLplain.
  pose (X := pre_lines B ++ L ++ post_lines A).
  assert (HLne : L <> []) by apply split_lf_ne.
  assert (HXne : X <> []).
  { unfold X. intros E. apply app_eq_nil in E as [_ E]. apply app_eq_nil in E as [E _]. congruence. }
  assert (Ebody : (if B then [LF] else []) ++ escape_tq v ++ (if A then [LF] else [])
                  = join_lf (map escape_tq X)).
  { assert (E0 : escape_tq v = join_lf (map escape_tq L)).
    { unfold L. rewrite <- esc_join, join_split. reflexivity. }
    assert (Hne : map escape_tq L <> []) by (intros E; apply map_eq_nil in E; congruence).
    unfold X, pre_lines, post_lines. rewrite E0, !map_app.
    destruct B, A; cbn [map escape_tq app].
    - rewrite join_post by exact Hne. rewrite <- join_pre; [reflexivity|].
      intros E. apply app_eq_nil in E as [E _]. congruence.
    - rewrite !app_nil_r. rewrite <- join_pre by exact Hne. reflexivity.
    - rewrite join_post by exact Hne. reflexivity.
    - rewrite !app_nil_r. reflexivity. }
  assert (HLnolf : Forall nolf L) by apply split_lf_lines_nolf.
  assert (HXnolf : Forall nolf X).
  { unfold X, pre_lines, post_lines. apply Forall_app. split; [destruct B; repeat constructor|].
    apply Forall_app. split; [exact HLnolf|destruct A; repeat constructor]. }
  set (R := hd [] X :: map (app P) (tl X)).
  assert (Etext : indent_by P (TQ ++ (if B then [LF] else []) ++ escape_tq v ++ (if A then [LF] else []) ++ TQ)
                  = 34 :: 34 :: 34 :: join_lf (map escape_tq R) ++ [34; 34; 34]).
  { rewrite indent_by_app. rewrite (indent_by_nolf P TQ) by (repeat constructor).
    replace ((if B then [LF] else []) ++ escape_tq v ++ (if A then [LF] else []) ++ TQ)
      with (((if B then [LF] else []) ++ escape_tq v ++ (if A then [LF] else [])) ++ TQ)
      by (rewrite <- !app_assoc; reflexivity).
    rewrite Ebody, indent_by_app, (indent_by_nolf P TQ) by (repeat constructor).
    rewrite indent_esc_lines by assumption. reflexivity. }
  rewrite Etext.
  assert (HXplain : lines_wp X).
  { unfold X, lines_wp, pre_lines, post_lines. apply Forall_app. split; [destruct B; repeat constructor|].
    apply Forall_app. split; [exact HLplain|destruct A; repeat constructor]. }
  assert (HRplain : lines_wp R).
  { unfold R. destruct X as [|x T]; [congruence|]. cbn [hd tl]. inversion HXplain; subst.
    constructor; [assumption|]. apply Forall_forall. intros l Hl. apply in_map_iff in Hl as (y & <- & Hy).
    apply wp_app; [apply wp_all_plain; eapply Forall_impl; [|exact HP]; apply plain_blank|].
    match goal with H : Forall wp T |- _ => rewrite Forall_forall in H; apply H, Hy end. }
  assert (HRse : safe_end (last R []) = true).
  { unfold R. rewrite safe_end_last_R by assumption. unfold X, post_lines. fold A.
    destruct A eqn:EA.
    - rewrite app_assoc. rewrite last_last. reflexivity.
    - rewrite app_nil_r. rewrite last_app_r by exact HLne. apply (F_post v m). exact EA. }
  cbn [app]. rewrite read_token_block.
  rewrite <- app_assoc. cbn [app].
  destruct (loop_lines_wp R ltac:(discriminate) HRplain HRse rest
              (S (length (join_lf (map escape_tq R) ++ 34 :: 34 :: 34 :: rest)))
              (cpos cu + 3)%nat (cls cu) [] [] ltac:(lia)) as (ls' & Eloop).
  rewrite Eloop. cbn [rev app].
  assert (Eval : join_lf (dedent R) = v).
  { destruct Hshape as [Ev|(H1 & H2 & H3)].
    - subst v. unfold R, X, L. replace B with false by (unfold B; destruct m; reflexivity).
      replace A with false by (unfold A; destruct m; reflexivity). reflexivity.
    - assert (Hv : v <> []).
      { intros ->. cbn in H1. discriminate. }
      fold L in H1, H2, H3.
      assert (Hcond : existsb zero_indent_line (tl X) = true \/ all_empty (tl X)).
      { unfold X, pre_lines. fold B. destruct B eqn:EB.
        - left. cbn [app tl]. apply existsb_app_l. apply (F_pre v m Hr Hv EB).
        - cbn [app]. destruct (F_nopre v m EB) as [F|F]; fold L in F.
          + right. destruct L as [|l0 [|? ?]]; cbn in F; try lia. cbn [app tl]. apply all_empty_pl.
          + left. destruct L as [|l0 L']; [congruence|]. cbn [app tl] in *. apply existsb_app_l, F. }
      unfold R. rewrite (dedent_indented P X HXne HP Hcond). unfold X.
      rewrite trim_eq; [apply join_split|apply all_blank_pl|apply all_blank_pl|assumption..]. }
  eexists. eexists. split; [reflexivity|]. cbn [mk tkind thasval tvalue tstart tend cpos].
  repeat split; try reflexivity; [exact Eval|].
  cbn [length]. rewrite app_length. cbn [length]. lia.
Qed.

(* ---- every BLOCK_STRING token value is made of such lines ---- *)
Lemma loop_wp_inv f : forall pos ls cur lines s e raw ls' r,
  wp (rev cur) -> lines_wp lines ->
  read_block_loop f pos ls cur lines s = Ok (e, raw, ls', r) -> lines_wp raw.
Proof.
  induction f as [|f IH]; intros pos ls cur lines s e raw ls' r Hcur Hlines H; [discriminate|].
  cbn [read_block_loop] in H. destruct s as [|c t]; [discriminate|].
  destruct (starts3 34 34 34 (c :: t)).
  { injection H as _ Hraw _ _. rewrite <- Hraw. unfold lines_wp. apply Forall_app.
    split; [apply Forall_rev; exact Hlines|constructor; [exact Hcur|constructor]]. }
  destruct ((c =? 92) && starts3 34 34 34 t).
  { eapply IH; [| |exact H]; [|exact Hlines]. cbn [rev]. rewrite <- !app_assoc. cbn [app].
    apply wp_app; [exact Hcur|]. apply wp_all_plain. repeat constructor. }
  destruct (c =? LF) eqn:El.
  { eapply IH; [| |exact H]; [constructor|constructor; assumption]. }
  destruct (c =? CR) eqn:Ec.
  { destruct (peek_is (N.eqb LF) t); (eapply IH; [| |exact H]; [constructor|constructor; assumption]). }
  destruct (is_scalar c) eqn:Es.
  { eapply IH; [| |exact H]; [|exact Hlines]. cbn [rev]. apply wp_app; [exact Hcur|].
    apply wp_one; [repeat split; assumption|constructor]. }
  destruct (is_lead c && peek_is is_trail t) eqn:Ep; [|discriminate].
  apply andb_true_iff in Ep as [Hc Hd]. destruct t as [|d t']; [discriminate|]. cbn [peek_is hd tl] in *.
  eapply IH; [| |exact H]; [|exact Hlines]. cbn [rev]. rewrite <- app_assoc. cbn [app].
  apply wp_app; [exact Hcur|]. apply wp_two; [exact Hc|exact Hd|constructor].
Qed.

Lemma ci_le T k l : common_indent T = Some k -> In l T -> line_blank l = false -> (k <= leading_ws l)%nat.
Proof.
  revert k; induction T as [|x T IH]; intros k H Hin Hl; [destruct Hin|].
  cbn [common_indent] in H. destruct Hin as [->|Hin].
  - rewrite Hl in H. destruct (common_indent T); inversion H; lia.
  - destruct (line_blank x).
    + apply IH; assumption.
    + destruct (common_indent T) as [m|] eqn:Em.
      * inversion H; subst k. specialize (IH m eq_refl Hin Hl). lia.
      * apply ci_none_blank in Em. unfold all_blank in Em. rewrite Forall_forall in Em.
        rewrite (Em l Hin) in Hl. discriminate.
Qed.

Lemma wp_skip_blanks k : forall l, wp l -> (k <= leading_ws l)%nat -> wp (skipn k l).
Proof.
  induction k as [|k IH]; intros l Hw Hk; [exact Hw|].
  destruct l as [|c t]; [constructor|]. cbn [leading_ws] in Hk. cbn [skipn].
  destruct (is_blank_char c) eqn:Eb; [|lia].
  inversion Hw as [|? ? _ Ht|? ? ? Hc _ _]; subst.
  - apply IH; [exact Ht|lia].
  - apply lead_facts in Hc. destruct Hc as (_ & _ & _ & _ & _ & Hc). congruence.
Qed.

Lemma wp_skip_blank_line k l : line_blank l = true -> wp (skipn k l).
Proof.
  intros Hb. apply wp_all_plain.
  assert (H : Forall (fun c => is_blank_char c = true) l).
  { revert Hb. unfold line_blank. induction l as [|c t IH]; [constructor|]. cbn [leading_ws length].
    destruct (is_blank_char c) eqn:Ec; [|discriminate]. cbn [Nat.eqb]. intros H. constructor; auto. }
  apply Forall_skipn'. eapply Forall_impl; [|exact H]. apply plain_blank.
Qed.

Lemma dedent_wp raw : lines_wp raw -> lines_wp (dedent raw).
Proof.
  intros H. unfold dedent, lines_wp. destruct raw as [|first others]; [constructor|].
  inversion H as [|? ? Hf Ho]; subst. apply Forall_rev, dwb_forall, Forall_rev, dwb_forall.
  constructor; [assumption|]. apply Forall_forall. intros x Hx. apply in_map_iff in Hx as (l & <- & Hl).
  destruct (common_indent others) as [k|] eqn:Eci; [|constructor].
  destruct (line_blank l) eqn:Eb; [apply wp_skip_blank_line, Eb|].
  apply wp_skip_blanks; [|eapply ci_le; eauto].
  unfold lines_wp in Ho. rewrite Forall_forall in Ho. apply Ho, Hl.
Qed.

Theorem block_token_wp cu s tk cu' r :
  read_token cu s = Ok (tk, cu', r) -> tkind tk = K_BLOCK_STRING -> lines_wp (split_lf (tvalue tk)).
Proof.
  intros H Hk.
  destruct (read_token_block_inv _ _ _ _ _ H Hk) as (f & pos & ls & s1 & e & raw & ls' & _ & Hb & ->).
  pose proof (loop_wp_inv f pos ls [] [] s1 e raw ls' r wp_nil (Forall_nil _) Hb) as Hraw.
  pose proof (dedent_wp raw Hraw) as HD.
  destruct (dedent raw) as [|d0 D]; [repeat constructor|].
  rewrite split_join; [exact HD|discriminate|].
  eapply Forall_impl; [|exact HD]. apply wp_nolf.
Qed.

(* scalar values are a special case *)
Lemma scalars_lines_wp v : has_cr v = false -> scalars v -> lines_wp (split_lf v).
Proof.
  intros Hcr Hs. pose proof (lines_plain v Hcr Hs) as H. unfold lines_ok in H.
  eapply Forall_impl; [|exact H]. apply wp_all_plain.
Qed.
