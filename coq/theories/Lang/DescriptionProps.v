(* The text that print_schema.print_description / printer.leave_string_value produce for a string
   value re-lexes to the same value, for every string of Unicode scalar values, whichever of the
   two forms is chosen, under any re-indentation by blanks. *)
From GV Require Import Base.Prelude Gen.Tables Gen.TableChecks Lang.Lexer Lang.LexerProps
  Lang.PrintString Lang.PrintStringProps Lang.BlockString Lang.BlockStringProps
  Properties.BlockStringThms Lang.Description.

Lemma indent_by_no_lf pad s : ~ In 10 s -> indent_by pad s = s.
Proof.
  induction s as [|c t IH]; intros H; [reflexivity|].
  cbn [indent_by]. destruct (N.eqb_spec c LF) as [->|Hn].
  - exfalso. apply H. left. reflexivity.
  - rewrite IH; [reflexivity|]. intros Hin. apply H. right. exact Hin.
Qed.

Theorem description_roundtrip (v indent rest : list N) (cu : cursor) :
  Forall (fun c => is_scalar c = true) v ->
  Forall (fun c => is_blank_char c = true) indent ->
  (v = [] -> hd_error rest <> Some 34) ->
  exists tk cu',
    read_token cu (print_description_text v indent ++ rest) = Ok (tk, cu', rest) /\
    thasval tk = true /\ tvalue tk = v /\ tstart tk = cpos cu /\
    tend tk = (cpos cu + length (print_description_text v indent))%nat.
Proof.
  intros Hv Hi Hq. unfold print_description_text.
  destruct (is_printable_as_block_string v) eqn:Hp.
  - pose proof (printable_in_range v Hp) as Hr.
    destruct (block_roundtrip_in_range v false [indent] cu rest Hr Hv (Forall_cons _ Hi (Forall_nil _)))
      as (tk & cu' & H1 & _ & H3 & H4 & H5 & H6 & _).
    cbn [indent_all] in H1, H6. exists tk, cu'. repeat split; assumption.
  - rewrite indent_by_no_lf by (apply print_string_no_lf; exact Hv).
    rewrite (print_string_token v rest cu Hv Hq).
    eexists _, _. split; [reflexivity|]. cbn. repeat split; reflexivity.
Qed.
