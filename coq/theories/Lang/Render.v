(* Model of print_source_location / print_prefixed_lines
   (src/graphql/language/print_location.py): the complete rendered text, both the ordinary
   branch (previous line, named line, caret, next line) and the "minified document" branch
   (lines longer than 120 characters are shown in 80-character sub-lines).
   Every index access the Python code makes is an [nth_error] here, so "rendering never fails"
   is the statement that the result is [Some _]. *)
From GV Require Import Base.Prelude Lang.Location.

Definition SP : N := 32.
Definition BAR : N := 124.
Definition CARET : N := 94.
Definition COLON : N := 58.

(* str(n) for a non-negative int *)
Fixpoint dec_aux (fuel : nat) (n : N) (acc : list N) : list N :=
  match fuel with
  | O => acc
  | S f => let acc' := (48 + n mod 10) :: acc in
           if n / 10 =? 0 then acc' else dec_aux f (n / 10) acc'
  end.
Definition dec (n : nat) : list N :=
  let m := N.of_nat n in dec_aux (S (N.to_nat (N.log2 m))) m [].

(* s.rjust(n) *)
Definition rjust (n : nat) (s : list N) : list N := repeat SP (n - length s) ++ s.

(* [s[i:i+80] for i in range(0, len(s), 80)] *)
Fixpoint chunks (fuel : nat) (s : list N) : list (list N) :=
  match fuel with
  | O => []
  | S f => match s with
           | [] => []
           | _ => firstn 80 s :: chunks f (skipn 80 s)
           end
  end.
Definition sub_lines (s : list N) : list (list N) := chunks (length s) s.

(* l[a:b] *)
Definition slice {A} (a b : nat) (l : list A) : list A := firstn (b - a) (skipn a l).

Definition row : Type := (list N * option (list N))%type.

Definition num_prefix (n : nat) : list N := dec n ++ [SP; BAR].
Definition bar_prefix : list N := [BAR].

(* guarded access: [lines[i] if guard else None]; the outer option is the IndexError *)
Definition guarded (guard : bool) (l : list (list N)) (i : nat) : option (option (list N)) :=
  if guard then match nth_error l i with Some x => Some (Some x) | None => None end
  else Some None.

Definition rows (lines : list (list N)) (line_index line_num column_num : nat) : option (list row) :=
  match nth_error lines line_index with
  | None => None
  | Some ll =>
    if (120 <? length ll)%nat then
      let idx := (column_num / 80)%nat in
      let sc := (column_num mod 80)%nat in
      let subs := sub_lines ll in
      match nth_error subs 0 with
      | None => None
      | Some s0 =>
        match guarded (idx <? length subs - 1)%nat subs (idx + 1) with
        | None => None
        | Some nxt =>
          Some ((num_prefix line_num, Some s0)
                :: map (fun s => (bar_prefix, Some s)) (slice 1 (idx + 1) subs)
                ++ [(bar_prefix, Some (rjust sc [CARET])); (bar_prefix, nxt)])
        end
      end
    else
      match guarded (0 <? line_index)%nat lines (line_index - 1),
            guarded (line_index <? length lines - 1)%nat lines (line_index + 1) with
      | Some prv, Some nxt =>
        Some [(num_prefix (line_num - 1), prv);
              (num_prefix line_num, Some ll);
              (bar_prefix, Some (rjust column_num [CARET]));
              (num_prefix (line_num + 1), nxt)]
      | _, _ => None
      end
  end.

Definition existing (rs : list row) : list (list N * list N) :=
  flat_map (fun r => match snd r with Some l => [(fst r, l)] | None => [] end) rs.

Definition pad_len (ex : list (list N * list N)) : nat :=
  fold_right (fun r m => Nat.max (length (fst r)) m) 0%nat ex.

Definition fmt_row (pad : nat) (r : list N * list N) : list N :=
  rjust pad (fst r) ++ match snd r with [] => [] | l => SP :: l end.

Fixpoint join_nl (l : list (list N)) : list N :=
  match l with
  | [] => []
  | [x] => x
  | x :: t => x ++ LF :: join_nl t
  end.

Definition print_prefixed (rs : list row) : list N :=
  let ex := existing rs in join_nl (map (fmt_row (pad_len ex)) ex).

(* pad = location_offset.column - 1, lineoff = location_offset.line - 1 *)
Definition print_source_location (name : list N) (pad lineoff line column : nat) (body : list N)
  : option (list N) :=
  match line with
  | O => None
  | S line_index =>
    let lines := split_lines (repeat SP pad ++ body) in
    let line_num := (line + lineoff)%nat in
    let column_num := (column + (if (line =? 1)%nat then pad else 0))%nat in
    match rows lines line_index line_num column_num with
    | None => None
    | Some rs =>
      Some (name ++ COLON :: dec line_num ++ COLON :: dec column_num ++ LF :: print_prefixed rs)
    end
  end.
