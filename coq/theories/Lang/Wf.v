(* Well-formed trees: exactly the shapes the parser can return (per production), parameterised
   by the two experimental flags.  Definitions only; used by UnparseProps.v. *)
From GV Require Import Base.Prelude Lang.Lexer Lang.Ast Lang.Parser.

Inductive wf_name : node -> Prop :=
| wf_name_intro v : wf_name (Nd KName [AStr v]).

(* optional attribute: None or a node *)
Inductive wf_opt (Pn : node -> Prop) : attr -> Prop :=
| wf_opt_none : wf_opt Pn ANone
| wf_opt_some n : Pn n -> wf_opt Pn (ANode n).

(* optional tuple: None or a non-empty tuple *)
Inductive wf_nelist (Pn : node -> Prop) : attr -> Prop :=
| wf_nelist_none : wf_nelist Pn ANone
| wf_nelist_some x l : Pn x -> Forall Pn l -> wf_nelist Pn (AList (x :: l)).

(* non-empty tuple *)
Inductive wf_list1 (Pn : node -> Prop) : attr -> Prop :=
| wf_list1_intro x l : Pn x -> Forall Pn l -> wf_list1 Pn (AList (x :: l)).

Inductive wf_string : node -> Prop :=
| wf_string_intro v b : wf_string (Nd KStringValue [AStr v; ABool b]).
Definition wf_description : attr -> Prop := wf_opt wf_string.

(* ---- values ---- *)
Definition not_reserved_value (s : list N) : Prop :=
  seqb s s_true = false /\ seqb s s_false = false /\ seqb s s_null = false.

Inductive wf_value (c : bool) : node -> Prop :=
| wfv_var n : c = false -> wf_name n -> wf_value c (Nd KVariable [ANode n])
| wfv_int s : wf_value c (Nd KIntValue [AStr s])
| wfv_float s : wf_value c (Nd KFloatValue [AStr s])
| wfv_string s b : wf_value c (Nd KStringValue [AStr s; ABool b])
| wfv_bool b : wf_value c (Nd KBooleanValue [ABool b])
| wfv_null : wf_value c (Nd KNullValue [])
| wfv_enum s : not_reserved_value s -> wf_value c (Nd KEnumValue [AStr s])
| wfv_list l : wf_values c l -> wf_value c (Nd KListValue [AList l])
| wfv_object fs : wf_object_fields c fs -> wf_value c (Nd KObjectValue [AList fs])
with wf_values (c : bool) : list node -> Prop :=
| wfvs_nil : wf_values c []
| wfvs_cons v l : wf_value c v -> wf_values c l -> wf_values c (v :: l)
with wf_object_fields (c : bool) : list node -> Prop :=
| wfof_nil : wf_object_fields c []
| wfof_cons n v fs : wf_name n -> wf_value c v -> wf_object_fields c fs ->
                     wf_object_fields c (Nd KObjectField [ANode n; ANode v] :: fs).

Scheme wf_value_mind := Minimality for wf_value Sort Prop
  with wf_values_mind := Minimality for wf_values Sort Prop
  with wf_object_fields_mind := Minimality for wf_object_fields Sort Prop.
Combined Scheme wf_value_mutind from wf_value_mind, wf_values_mind, wf_object_fields_mind.

(* ---- types ---- *)
Inductive wf_named_type : node -> Prop :=
| wf_named_type_intro n : wf_name n -> wf_named_type (Nd KNamedType [ANode n]).

Inductive wf_type : node -> Prop :=
| wft_named n : wf_name n -> wf_type (Nd KNamedType [ANode n])
| wft_list t : wf_type t -> wf_type (Nd KListType [ANode t])
| wft_nonnull_named n : wf_name n -> wf_type (Nd KNonNullType [ANode (Nd KNamedType [ANode n])])
| wft_nonnull_list t : wf_type t -> wf_type (Nd KNonNullType [ANode (Nd KListType [ANode t])]).

(* ---- arguments, directives ---- *)
Inductive wf_argument (c : bool) : node -> Prop :=
| wf_argument_intro n v : wf_name n -> wf_value c v -> wf_argument c (Nd KArgument [ANode n; ANode v]).
Definition wf_arguments (c : bool) : attr -> Prop := wf_nelist (wf_argument c).

Inductive wf_fragment_argument : node -> Prop :=
| wf_fragment_argument_intro n v :
    wf_name n -> wf_value false v -> wf_fragment_argument (Nd KFragmentArgument [ANode n; ANode v]).

Inductive wf_directive (c : bool) : node -> Prop :=
| wf_directive_intro n a : wf_name n -> wf_arguments c a -> wf_directive c (Nd KDirective [ANode n; a]).
Definition wf_directives (c : bool) : attr -> Prop := wf_nelist (wf_directive c).

(* ---- selection sets ---- *)
Inductive wf_fragment_name : node -> Prop :=
| wf_fragment_name_intro v : seqb v s_on = false -> wf_fragment_name (Nd KName [AStr v]).

Section Flags.
Variable xfa xdd : bool.

Definition wf_spread_arguments (a : attr) : Prop :=
  if xfa then wf_nelist wf_fragment_argument a else a = ANone.

Inductive wf_selection_set : node -> Prop :=
| wfss_intro x l : wf_selection x -> wf_selections l ->
                   wf_selection_set (Nd KSelectionSet [AList (x :: l)])
with wf_selections : list node -> Prop :=
| wfsl_nil : wf_selections []
| wfsl_cons x l : wf_selection x -> wf_selections l -> wf_selections (x :: l)
with wf_selection : node -> Prop :=
| wfs_field_leaf d n al a :
    wf_directives false d -> wf_name n -> wf_opt wf_name al -> wf_arguments false a ->
    wf_selection (Nd KField [d; ANode n; al; a; ANone])
| wfs_field_nested d n al a s :
    wf_directives false d -> wf_name n -> wf_opt wf_name al -> wf_arguments false a ->
    wf_selection_set s ->
    wf_selection (Nd KField [d; ANode n; al; a; ANode s])
| wfs_spread d n a :
    wf_directives false d -> wf_fragment_name n -> wf_spread_arguments a ->
    wf_selection (Nd KFragmentSpread [d; ANode n; a])
| wfs_inline d s tc :
    wf_directives false d -> wf_selection_set s -> wf_opt wf_named_type tc ->
    wf_selection (Nd KInlineFragment [d; ANode s; tc]).

Scheme wf_selection_set_mind := Minimality for wf_selection_set Sort Prop
  with wf_selections_mind := Minimality for wf_selections Sort Prop
  with wf_selection_mind := Minimality for wf_selection Sort Prop.
Combined Scheme wf_selection_mutind
  from wf_selection_set_mind, wf_selections_mind, wf_selection_mind.

(* ---- executable definitions ---- *)
Inductive wf_variable : node -> Prop :=
| wf_variable_intro n : wf_name n -> wf_variable (Nd KVariable [ANode n]).

Inductive wf_variable_definition : node -> Prop :=
| wf_variable_definition_intro d v t dv ds :
    wf_description d -> wf_variable v -> wf_type t -> wf_opt (wf_value true) dv ->
    wf_directives true ds ->
    wf_variable_definition (Nd KVariableDefinition [d; ANode v; ANode t; dv; ds]).
Definition wf_variable_definitions : attr -> Prop := wf_nelist wf_variable_definition.

Definition wf_operation_code (o : N) : Prop := o = 0%N \/ o = 1%N \/ o = 2%N.

Inductive wf_operation : node -> Prop :=
| wf_operation_intro s d n vs ds o :
    wf_selection_set s -> wf_description d -> wf_opt wf_name n -> wf_variable_definitions vs ->
    wf_directives false ds -> wf_operation_code o ->
    wf_operation (Nd KOperationDefinition [ANode s; d; n; vs; ds; AEnum o]).

Inductive wf_fragment_definition : node -> Prop :=
| wf_fragment_definition_intro s d n vs ds tc :
    wf_selection_set s -> wf_description d -> wf_fragment_name n ->
    (if xfa then wf_variable_definitions vs else vs = AList []) ->
    wf_directives false ds -> wf_named_type tc ->
    wf_fragment_definition (Nd KFragmentDefinition [ANode s; d; ANode n; vs; ds; ANode tc]).

(* ---- type system ---- *)
Inductive wf_operation_type_definition : node -> Prop :=
| wf_otd_intro o t : wf_operation_code o -> wf_named_type t ->
                     wf_operation_type_definition (Nd KOperationTypeDefinition [AEnum o; ANode t]).

Inductive wf_input_value_definition : node -> Prop :=
| wf_ivd_intro n t d dv ds :
    wf_name n -> wf_type t -> wf_description d -> wf_opt (wf_value true) dv -> wf_directives true ds ->
    wf_input_value_definition (Nd KInputValueDefinition [ANode n; ANode t; d; dv; ds]).

Inductive wf_field_definition : node -> Prop :=
| wf_fd_intro n t d a ds :
    wf_name n -> wf_type t -> wf_description d -> wf_nelist wf_input_value_definition a ->
    wf_directives true ds ->
    wf_field_definition (Nd KFieldDefinition [ANode n; ANode t; d; a; ds]).

Inductive wf_enum_value_name : node -> Prop :=
| wf_evn_intro v : not_reserved_value v -> wf_enum_value_name (Nd KName [AStr v]).

Inductive wf_enum_value_definition : node -> Prop :=
| wf_evd_intro n d ds :
    wf_enum_value_name n -> wf_description d -> wf_directives true ds ->
    wf_enum_value_definition (Nd KEnumValueDefinition [ANode n; d; ds]).

Inductive wf_location : node -> Prop :=
| wf_location_intro v : is_directive_location v = true -> wf_location (Nd KName [AStr v]).

Inductive wf_type_system_definition : node -> Prop :=
| wf_schema_def d ds ots :
    wf_description d -> wf_directives true ds -> wf_list1 wf_operation_type_definition ots ->
    wf_type_system_definition (Nd KSchemaDefinition [d; ds; ots])
| wf_scalar_def n d ds :
    wf_name n -> wf_description d -> wf_directives true ds ->
    wf_type_system_definition (Nd KScalarTypeDefinition [ANode n; d; ds])
| wf_object_def n d ds i f :
    wf_name n -> wf_description d -> wf_directives true ds -> wf_nelist wf_named_type i ->
    wf_nelist wf_field_definition f ->
    wf_type_system_definition (Nd KObjectTypeDefinition [ANode n; d; ds; i; f])
| wf_interface_def n d ds i f :
    wf_name n -> wf_description d -> wf_directives true ds -> wf_nelist wf_named_type i ->
    wf_nelist wf_field_definition f ->
    wf_type_system_definition (Nd KInterfaceTypeDefinition [ANode n; d; ds; i; f])
| wf_union_def n d ds ts :
    wf_name n -> wf_description d -> wf_directives true ds -> wf_nelist wf_named_type ts ->
    wf_type_system_definition (Nd KUnionTypeDefinition [ANode n; d; ds; ts])
| wf_enum_def n d ds vs :
    wf_name n -> wf_description d -> wf_directives true ds -> wf_nelist wf_enum_value_definition vs ->
    wf_type_system_definition (Nd KEnumTypeDefinition [ANode n; d; ds; vs])
| wf_input_def n d ds f :
    wf_name n -> wf_description d -> wf_directives true ds -> wf_nelist wf_input_value_definition f ->
    wf_type_system_definition (Nd KInputObjectTypeDefinition [ANode n; d; ds; f])
| wf_directive_def n ls d a ds r :
    wf_name n -> wf_list1 wf_location ls -> wf_description d ->
    wf_nelist wf_input_value_definition a ->
    (if xdd then wf_directives true ds else ds = ANone) ->
    wf_type_system_definition (Nd KDirectiveDefinition [ANode n; ls; d; a; ds; ABool r]).

(* an extension must extend something *)
Definition some_present (l : list attr) : Prop := existsb (fun a => negb (attr_empty a)) l = true.

Inductive wf_extension : node -> Prop :=
| wf_schema_ext ds ots :
    wf_directives true ds -> wf_nelist wf_operation_type_definition ots -> some_present [ds; ots] ->
    wf_extension (Nd KSchemaExtension [ds; ots])
| wf_scalar_ext n ds :
    wf_name n -> wf_directives true ds -> some_present [ds] ->
    wf_extension (Nd KScalarTypeExtension [ANode n; ds])
| wf_object_ext n ds i f :
    wf_name n -> wf_directives true ds -> wf_nelist wf_named_type i ->
    wf_nelist wf_field_definition f -> some_present [i; ds; f] ->
    wf_extension (Nd KObjectTypeExtension [ANode n; ds; i; f])
| wf_interface_ext n ds i f :
    wf_name n -> wf_directives true ds -> wf_nelist wf_named_type i ->
    wf_nelist wf_field_definition f -> some_present [i; ds; f] ->
    wf_extension (Nd KInterfaceTypeExtension [ANode n; ds; i; f])
| wf_union_ext n ds ts :
    wf_name n -> wf_directives true ds -> wf_nelist wf_named_type ts -> some_present [ds; ts] ->
    wf_extension (Nd KUnionTypeExtension [ANode n; ds; ts])
| wf_enum_ext n ds vs :
    wf_name n -> wf_directives true ds -> wf_nelist wf_enum_value_definition vs ->
    some_present [ds; vs] ->
    wf_extension (Nd KEnumTypeExtension [ANode n; ds; vs])
| wf_input_ext n ds f :
    wf_name n -> wf_directives true ds -> wf_nelist wf_input_value_definition f ->
    some_present [ds; f] ->
    wf_extension (Nd KInputObjectTypeExtension [ANode n; ds; f])
| wf_directive_ext n ds :
    xdd = true -> wf_name n -> wf_directives true ds -> some_present [ds] ->
    wf_extension (Nd KDirectiveExtension [ANode n; ds]).

Inductive wf_definition : node -> Prop :=
| wf_def_operation x : wf_operation x -> wf_definition x
| wf_def_fragment x : wf_fragment_definition x -> wf_definition x
| wf_def_type_system x : wf_type_system_definition x -> wf_definition x
| wf_def_extension x : wf_extension x -> wf_definition x.

(* a document: a non-empty tuple of definitions *)
Inductive wf_document : node -> Prop :=
| wf_document_intro x l : wf_definition x -> Forall wf_definition l ->
                          wf_document (Nd KDocument [AList (x :: l)]).

End Flags.

(* ---- schema coordinates ---- *)
Inductive wf_coordinate : node -> Prop :=
| wf_type_coord n : wf_name n -> wf_coordinate (Nd KTypeCoordinate [ANode n])
| wf_member_coord n m : wf_name n -> wf_name m -> wf_coordinate (Nd KMemberCoordinate [ANode n; ANode m])
| wf_argument_coord n m a : wf_name n -> wf_name m -> wf_name a ->
                            wf_coordinate (Nd KArgumentCoordinate [ANode n; ANode m; ANode a])
| wf_directive_coord n : wf_name n -> wf_coordinate (Nd KDirectiveCoordinate [ANode n])
| wf_directive_argument_coord n a : wf_name n -> wf_name a ->
                                    wf_coordinate (Nd KDirectiveArgumentCoordinate [ANode n; ANode a]).

(* the tree an entry point returns *)
Definition wf_ast (e : entry) (xfa xdd : bool) (x : node) : Prop :=
  match e with
  | EDocument => wf_document xfa xdd x
  | EValue => wf_value false x
  | EConstValue => wf_value true x
  | EType => wf_type x
  | ECoordinate => wf_coordinate x
  end.
