(* Every tree returned by the parser is well formed (Lang/Wf.v), production by production.
   Together with UnparseProps this gives: whatever parses, re-parses from its own unparse to the
   same tree. *)
From GV Require Import Base.Prelude Lang.Lexer Lang.Ast Lang.Parser Lang.Wf.

Local Open Scope nat_scope.

Definition post {A} (Q : A -> Prop) (m : P A) : Prop := forall ts a r, m ts = ROk a r -> Q a.

Lemma post_ret {A} (Q : A -> Prop) a : Q a -> post Q (ret a).
Proof. intros H ts b r E. inversion E; subst. exact H. Qed.

Lemma post_bind {A B} (Q1 : A -> Prop) (Q2 : B -> Prop) (m : P A) (f : A -> P B) :
  post Q1 m -> (forall a, Q1 a -> post Q2 (f a)) -> post Q2 (bind m f).
Proof.
  intros H1 H2 ts b r. unfold bind. destruct (m ts) as [a r1| |] eqn:E; try discriminate.
  intros E2. eapply H2; [eapply H1; exact E|exact E2].
Qed.

Lemma post_true {A} (m : P A) : post (fun _ => True) m.
Proof. intros ts a r _. exact I. Qed.

Lemma post_weaken {A} (Q1 Q2 : A -> Prop) m : post Q1 m -> (forall a, Q1 a -> Q2 a) -> post Q2 m.
Proof. intros H1 H2 ts a r E. apply H2. eapply H1. exact E. Qed.

Lemma post_fail_here {A} (Q : A -> Prop) : post Q fail_here.
Proof. intros ts a r E. discriminate. Qed.
Lemma post_fail_prev {A} (Q : A -> Prop) : post Q fail_prev.
Proof. intros ts a r E. discriminate. Qed.
Lemma post_fail_next {A} (Q : A -> Prop) : post Q fail_next.
Proof. intros ts a r E. discriminate. Qed.
Lemma post_out_of_fuel {A} (Q : A -> Prop) : post Q out_of_fuel.
Proof. intros ts a r E. discriminate. Qed.

Lemma post_with_fuel {A} (Q : A -> Prop) (g : nat -> P A) : (forall f, post Q (g f)) -> post Q (with_fuel g).
Proof. intros H ts a r E. eapply H. exact E. Qed.

Create HintDb post.
#[export] Hint Resolve post_fail_here post_fail_prev post_fail_next post_out_of_fuel : post.
#[export] Hint Resolve post_true | 10 : post.

(* bind whose first result carries no information *)
Ltac pb_true := eapply (post_bind (fun _ => True)); [apply post_true|intros ? _].
(* bind whose first result is described by a registered lemma *)
Ltac pb := eapply post_bind; [solve [eauto 2 with post]|cbv beta; intros ? ?].

(* ---------- loops ---------- *)
Section Loops.
Variable fl : nat.
Variable p : P node.
Variable Pn : node -> Prop.
Hypothesis Hp : post Pn p.

Lemma post_until_close close : forall f, post (Forall Pn) (until_close fl f close p).
Proof.
  induction f as [|f IH]; [apply post_out_of_fuel|]. cbn [until_close].
  pb_true. destruct a; [apply post_ret; constructor|].
  eapply post_bind; [exact Hp|]. intros x Hx.
  eapply post_bind; [exact IH|]. intros xs Hxs. apply post_ret. constructor; assumption.
Qed.

Lemma post_loop_close close : post (Forall Pn) (loop_close fl close p).
Proof. unfold loop_close. apply post_with_fuel. apply post_until_close. Qed.

Lemma post_any open close : post (Forall Pn) (any_ fl open p close).
Proof. unfold any_. pb_true. apply post_loop_close. Qed.

Lemma post_many open close : post (fun l => wf_list1 Pn (AList l)) (many fl open p close).
Proof.
  unfold many. pb_true. eapply post_bind; [exact Hp|]. intros x Hx.
  eapply post_bind; [apply post_loop_close|]. intros xs Hxs. apply post_ret. constructor; assumption.
Qed.

Lemma post_optional_many open close : post (fun o => wf_nelist Pn (oattr o)) (optional_many fl open p close).
Proof.
  unfold optional_many. pb_true. destruct a; [|apply post_ret; constructor].
  eapply post_bind; [exact Hp|]. intros x Hx.
  eapply post_bind; [apply post_loop_close|]. intros xs Hxs. apply post_ret. constructor; assumption.
Qed.

Lemma post_delim_loop delim : forall f, post (fun l => wf_list1 Pn (AList l)) (delim_loop fl f delim p).
Proof.
  induction f as [|f IH]; [apply post_out_of_fuel|]. cbn [delim_loop].
  eapply post_bind; [exact Hp|]. intros x Hx. pb_true. destruct a.
  - eapply post_bind; [exact IH|]. intros xs Hxs. apply post_ret.
    inversion Hxs; subst. constructor; [exact Hx|]. constructor; assumption.
  - apply post_ret. constructor; [exact Hx|constructor].
Qed.

Lemma post_delimited_many delim : post (fun l => wf_list1 Pn (AList l)) (delimited_many fl delim p).
Proof. unfold delimited_many. pb_true. apply post_with_fuel. apply post_delim_loop. Qed.

Lemma post_while_peek k : forall f, post (Forall Pn) (while_peek f k p).
Proof.
  induction f as [|f IH]; [apply post_out_of_fuel|]. cbn [while_peek].
  pb_true. destruct (fst a =? k)%N; [|apply post_ret; constructor].
  eapply post_bind; [exact Hp|]. intros x Hx.
  eapply post_bind; [exact IH|]. intros xs Hxs. apply post_ret. constructor; assumption.
Qed.
End Loops.

Lemma lattr_wf Pn l : Forall Pn l -> wf_nelist Pn (lattr l).
Proof. intros [|x l' Hx Hl]; constructor; assumption. Qed.

Lemma list1_nelist Pn a : wf_list1 Pn a -> wf_nelist Pn a.
Proof. intros [x l Hx Hl]. constructor; assumption. Qed.

(* ---------- names, values ---------- *)
Lemma post_name fl : post wf_name (name fl).
Proof. unfold name. pb_true. apply post_ret. constructor. Qed.
#[export] Hint Resolve post_name : post.

Lemma post_variable fl : post wf_variable (variable fl).
Proof. unfold variable. pb_true. pb. apply post_ret. constructor. assumption. Qed.
#[export] Hint Resolve post_variable : post.

Lemma post_named_type fl : post wf_named_type (named_type fl).
Proof. unfold named_type. pb. apply post_ret. constructor. assumption. Qed.
#[export] Hint Resolve post_named_type : post.

Lemma named_value_wf c v : wf_value c (named_value v).
Proof.
  unfold named_value. destruct (seqb v s_true) eqn:E1; [constructor|].
  destruct (seqb v s_false) eqn:E2; [constructor|].
  destruct (seqb v s_null) eqn:E3; [constructor|]. constructor. repeat split; assumption.
Qed.

Lemma Forall_wf_values c l : Forall (wf_value c) l -> wf_values c l.
Proof. induction 1; constructor; assumption. Qed.

Definition is_object_field (c : bool) (x : node) : Prop :=
  exists n v, x = Nd KObjectField [ANode n; ANode v] /\ wf_name n /\ wf_value c v.

Lemma Forall_wf_object_fields c l : Forall (is_object_field c) l -> wf_object_fields c l.
Proof.
  induction 1 as [|x l (n & v & -> & Hn & Hv) Hl IH]; constructor; assumption.
Qed.

Lemma post_object_field fl c pv : post (wf_value c) pv -> post (is_object_field c) (object_field fl pv).
Proof.
  intros Hpv. unfold object_field. pb. pb_true. eapply post_bind; [exact Hpv|]. intros v Hv.
  apply post_ret. exists a, v. auto.
Qed.

Lemma post_value fl c : forall f, post (wf_value c) (value fl f c).
Proof.
  induction f as [|f IH]; [apply post_out_of_fuel|]. cbn [value]. cbv zeta.
  pb_true.
  repeat match goal with |- post _ (if ?b then _ else _) => destruct b end.
  - eapply post_bind; [apply (post_any fl _ (wf_value c)); exact IH|]. intros l Hl.
    apply post_ret. constructor. apply Forall_wf_values. exact Hl.
  - eapply post_bind; [apply (post_any fl _ (is_object_field c)); apply post_object_field; exact IH|].
    intros l Hl. apply post_ret. constructor. apply Forall_wf_object_fields. exact Hl.
  - pb_true. apply post_ret. constructor.
  - pb_true. apply post_ret. constructor.
  - pb_true. apply post_ret. constructor.
  - pb_true. apply post_ret. constructor.
  - pb_true. apply post_ret. apply named_value_wf.
  - pb_true. apply post_fail_prev.
  - eapply post_weaken; [apply post_variable|]. intros x [n Hn]. constructor; [reflexivity|exact Hn].
  - apply post_fail_here.
Qed.

Lemma post_value_literal fl c : post (wf_value c) (value_literal fl c).
Proof. unfold value_literal. apply post_with_fuel. apply post_value. Qed.
#[export] Hint Resolve post_value_literal : post.

Ltac pbb := eapply post_bind; [solve [eauto 2 with post]|cbv beta; intros ? ?; cbv beta in *].

Lemma post_string_literal fl : post wf_string (string_literal fl).
Proof. unfold string_literal. pb_true. pb_true. apply post_ret. constructor. Qed.
#[export] Hint Resolve post_string_literal : post.

Lemma post_description fl : post wf_description (description fl).
Proof.
  unfold description. pb_true. destruct (peek_description a); [|apply post_ret; constructor].
  pbb. apply post_ret. constructor. assumption.
Qed.
#[export] Hint Resolve post_description : post.

(* ---------- types ---------- *)
Definition base_type (t : node) : Prop :=
  (exists n, t = Nd KNamedType [ANode n] /\ wf_name n) \/ (exists i, t = Nd KListType [ANode i] /\ wf_type i).

Lemma post_type_ref fl : forall f, post wf_type (type_ref fl f).
Proof.
  induction f as [|f IH]; [apply post_out_of_fuel|]. cbn [type_ref].
  pb_true. eapply (post_bind base_type).
  - destruct a.
    + eapply post_bind; [exact IH|]. intros i Hi. pb_true. apply post_ret. right. eauto.
    + eapply post_weaken; [apply post_named_type|]. intros t [n Hn]. left. eauto.
  - intros t Ht. pb_true. apply post_ret.
    destruct a0, Ht as [(n & -> & Hn)|(i & -> & Hi)]; constructor; assumption.
Qed.

Lemma post_type_reference fl : post wf_type (type_reference fl).
Proof. unfold type_reference. apply post_with_fuel. apply post_type_ref. Qed.
#[export] Hint Resolve post_type_reference : post.

(* ---------- arguments, directives ---------- *)
Lemma post_argument fl c : post (wf_argument c) (argument fl c).
Proof. unfold argument. pbb. pb_true. pbb. apply post_ret. constructor; assumption. Qed.

Lemma post_arguments fl c : post (fun o => wf_arguments c (oattr o)) (arguments fl c).
Proof. unfold arguments. apply post_optional_many. apply post_argument. Qed.
#[export] Hint Resolve post_arguments : post.

Lemma post_fragment_argument fl : post wf_fragment_argument (fragment_argument fl).
Proof. unfold fragment_argument. pbb. pb_true. pbb. apply post_ret. constructor; assumption. Qed.

Lemma post_fragment_arguments fl :
  post (fun o => wf_nelist wf_fragment_argument (oattr o)) (fragment_arguments fl).
Proof. unfold fragment_arguments. apply post_optional_many. apply post_fragment_argument. Qed.
#[export] Hint Resolve post_fragment_arguments : post.

Lemma post_directive fl c : post (wf_directive c) (directive fl c).
Proof. unfold directive. pb_true. pbb. pbb. apply post_ret. constructor; assumption. Qed.

Lemma post_directives fl c : post (wf_directives c) (directives fl c).
Proof.
  unfold directives. eapply (post_bind (Forall (wf_directive c))).
  - apply post_with_fuel. intros f. apply post_while_peek. apply post_directive.
  - intros l Hl. apply post_ret. apply lattr_wf. exact Hl.
Qed.
#[export] Hint Resolve post_directives : post.

(* ---------- selection sets ---------- *)
Lemma post_fragment_name fl : post wf_fragment_name (fragment_name fl).
Proof.
  intros ts a r. unfold fragment_name, bind, cur.
  destruct (seqb (snd (tok_at ts)) s_on) eqn:E; [discriminate|].
  unfold name, bind, expect_token, bind, cur.
  destruct (fst (tok_at ts) =? K_NAME)%N; [|discriminate].
  destruct (adv fl ts) as [u r1| |]; try discriminate.
  unfold ret. intros H; inversion H; subst. constructor. exact E.
Qed.
#[export] Hint Resolve post_fragment_name : post.

Lemma Forall_wf_selections xfa l : Forall (wf_selection xfa) l -> wf_selections xfa l.
Proof. induction 1; constructor; assumption. Qed.

Lemma post_field fl xfa ss : post (wf_selection_set xfa) ss -> post (wf_selection xfa) (field fl ss).
Proof.
  intros Hss. unfold field. pbb. pb_true.
  eapply (post_bind (fun an : attr * node => wf_opt wf_name (fst an) /\ wf_name (snd an))).
  { destruct a0.
    - pbb. apply post_ret. split; [constructor; assumption|assumption].
    - apply post_ret. split; [constructor|assumption]. }
  intros an [Hal Hn]. pbb. pbb. pb_true.
  eapply (post_bind (fun s => s = ANone \/ exists y, s = ANode y /\ wf_selection_set xfa y)).
  { destruct (fst a3 =? K_BRACE_L)%N.
    - eapply post_bind; [exact Hss|]. intros y Hy. apply post_ret. right. eauto.
    - apply post_ret. left. reflexivity. }
  intros s [->|(y & -> & Hy)]; apply post_ret; constructor; assumption.
Qed.

Lemma post_fragment fl xfa ss : post (wf_selection_set xfa) ss -> post (wf_selection xfa) (fragment fl xfa ss).
Proof.
  intros Hss. unfold fragment. pb_true. pb_true. pb_true.
  destruct (negb a0 && (fst a1 =? K_NAME)%N).
  - pbb. pb_true.
    eapply (post_bind (fun o => wf_spread_arguments xfa (oattr o))).
    { destruct ((fst a3 =? K_PAREN_L)%N && xfa) eqn:E.
      - apply andb_true_iff in E as [_ ->]. unfold wf_spread_arguments. apply post_fragment_arguments.
      - apply post_ret. unfold wf_spread_arguments. destruct xfa; [constructor|reflexivity]. }
    intros o Ho. pbb. apply post_ret. constructor; assumption.
  - eapply (post_bind (wf_opt wf_named_type)).
    { destruct a0; [pbb; apply post_ret; constructor; assumption|apply post_ret; constructor]. }
    intros tc Htc. pbb. eapply post_bind; [exact Hss|]. intros s Hs.
    apply post_ret. constructor; assumption.
Qed.

Lemma post_selection fl xfa ss : post (wf_selection_set xfa) ss -> post (wf_selection xfa) (selection fl xfa ss).
Proof.
  intros Hss. unfold selection. pb_true.
  destruct (fst a =? K_SPREAD)%N; [apply post_fragment|apply post_field]; exact Hss.
Qed.

Lemma post_sel_set fl xfa : forall f, post (wf_selection_set xfa) (sel_set fl xfa f).
Proof.
  induction f as [|f IH]; [apply post_out_of_fuel|]. cbn [sel_set].
  eapply post_bind; [apply (post_many fl _ (wf_selection xfa)); apply post_selection; exact IH|].
  intros l [x l' Hx Hl]. apply post_ret. constructor; [exact Hx|apply Forall_wf_selections; exact Hl].
Qed.

Lemma post_selection_set fl xfa : post (wf_selection_set xfa) (selection_set fl xfa).
Proof. unfold selection_set. apply post_with_fuel. apply post_sel_set. Qed.
#[export] Hint Resolve post_selection_set : post.

(* ---------- operations, fragments ---------- *)
Lemma post_default fl :
  forall e : bool, post (wf_opt (wf_value true))
    (if e then x <- value_literal fl true ;; ret (ANode x) else ret ANone).
Proof. intros [|]; [pbb; apply post_ret; constructor; assumption|apply post_ret; constructor]. Qed.

Lemma post_variable_definition fl : post wf_variable_definition (variable_definition fl).
Proof.
  unfold variable_definition. pbb. pbb. pb_true. pbb. pb_true.
  eapply post_bind; [apply post_default|]. intros dv Hdv. pbb.
  apply post_ret. constructor; assumption.
Qed.

Lemma post_variable_definitions fl :
  post (fun o => wf_variable_definitions (oattr o)) (variable_definitions fl).
Proof. unfold variable_definitions. apply post_optional_many. apply post_variable_definition. Qed.
#[export] Hint Resolve post_variable_definitions : post.

Lemma post_operation_type fl : post wf_operation_code (operation_type fl).
Proof.
  unfold operation_type. pb_true. unfold operation_type_of.
  destruct (seqb a s_query); [apply post_ret; left; reflexivity|].
  destruct (seqb a s_mutation); [apply post_ret; right; left; reflexivity|].
  destruct (seqb a s_subscription); [apply post_ret; right; right; reflexivity|apply post_fail_prev].
Qed.
#[export] Hint Resolve post_operation_type : post.

Lemma post_operation_definition fl xfa : post (wf_operation xfa) (operation_definition fl xfa).
Proof.
  unfold operation_definition. pb_true. destruct (fst a =? K_BRACE_L)%N.
  - pbb. apply post_ret. apply wf_operation_intro; [assumption|constructor|constructor|constructor|constructor|left; reflexivity].
  - pbb. pbb. pb_true.
    eapply (post_bind (wf_opt wf_name)).
    { destruct (fst a2 =? K_NAME)%N; [pbb; apply post_ret; constructor; assumption|apply post_ret; constructor]. }
    intros n Hn. pbb. pbb. pbb. apply post_ret. constructor; assumption.
Qed.

Lemma post_type_condition fl : post wf_named_type (type_condition fl).
Proof. unfold type_condition. pb_true. apply post_named_type. Qed.
#[export] Hint Resolve post_type_condition : post.

Lemma post_fragment_definition fl xfa : post (wf_fragment_definition xfa) (fragment_definition fl xfa).
Proof.
  unfold fragment_definition. pbb. pb_true. pbb.
  eapply (post_bind (fun vs => if xfa then wf_variable_definitions vs else vs = AList [])).
  { destruct xfa; [pbb; apply post_ret; assumption|apply post_ret; reflexivity]. }
  intros vs Hvs. pbb. pbb. pbb. apply post_ret. constructor; assumption.
Qed.

(* ---------- type system ---------- *)
Lemma post_operation_type_definition fl : post wf_operation_type_definition (operation_type_definition fl).
Proof. unfold operation_type_definition. pbb. pb_true. pbb. apply post_ret. constructor; assumption. Qed.

Lemma post_implements_interfaces fl : post (wf_nelist wf_named_type) (implements_interfaces fl).
Proof.
  unfold implements_interfaces. pb_true. destruct a; [|apply post_ret; constructor].
  eapply post_bind; [apply (post_delimited_many fl _ wf_named_type); apply post_named_type|].
  intros l Hl. apply post_ret. apply list1_nelist. exact Hl.
Qed.
#[export] Hint Resolve post_implements_interfaces : post.

Lemma post_union_member_types fl : post (wf_nelist wf_named_type) (union_member_types fl).
Proof.
  unfold union_member_types. pb_true. destruct a; [|apply post_ret; constructor].
  eapply post_bind; [apply (post_delimited_many fl _ wf_named_type); apply post_named_type|].
  intros l Hl. apply post_ret. apply list1_nelist. exact Hl.
Qed.
#[export] Hint Resolve post_union_member_types : post.

Lemma post_input_value_def fl : post wf_input_value_definition (input_value_def fl).
Proof.
  unfold input_value_def. pbb. pbb. pb_true. pbb. pb_true.
  eapply post_bind; [apply post_default|]. intros dv Hdv. pbb.
  apply post_ret. constructor; assumption.
Qed.

Lemma post_argument_defs fl :
  post (fun o => wf_nelist wf_input_value_definition (oattr o)) (argument_defs fl).
Proof. unfold argument_defs. apply post_optional_many. apply post_input_value_def. Qed.
#[export] Hint Resolve post_argument_defs : post.

Lemma post_input_fields_definition fl :
  post (fun o => wf_nelist wf_input_value_definition (oattr o)) (input_fields_definition fl).
Proof. unfold input_fields_definition. apply post_optional_many. apply post_input_value_def. Qed.
#[export] Hint Resolve post_input_fields_definition : post.

Lemma post_field_definition fl : post wf_field_definition (field_definition fl).
Proof.
  unfold field_definition. pbb. pbb. pbb. pb_true. pbb. pbb.
  apply post_ret. constructor; assumption.
Qed.

Lemma post_fields_definition fl :
  post (fun o => wf_nelist wf_field_definition (oattr o)) (fields_definition fl).
Proof. unfold fields_definition. apply post_optional_many. apply post_field_definition. Qed.
#[export] Hint Resolve post_fields_definition : post.

Lemma post_enum_value_name fl : post wf_enum_value_name (enum_value_name fl).
Proof.
  intros ts a r. unfold enum_value_name, bind, cur.
  destruct (seqb (snd (tok_at ts)) s_true) eqn:E1; [discriminate|].
  destruct (seqb (snd (tok_at ts)) s_false) eqn:E2; [discriminate|].
  destruct (seqb (snd (tok_at ts)) s_null) eqn:E3; [discriminate|]. cbn [orb].
  unfold name, bind, expect_token, bind, cur.
  destruct (fst (tok_at ts) =? K_NAME)%N; [|discriminate].
  destruct (adv fl ts) as [u r1| |]; try discriminate.
  unfold ret. intros H; inversion H; subst. constructor. repeat split; assumption.
Qed.
#[export] Hint Resolve post_enum_value_name : post.

Lemma post_enum_value_definition fl : post wf_enum_value_definition (enum_value_definition fl).
Proof. unfold enum_value_definition. pbb. pbb. pbb. apply post_ret. constructor; assumption. Qed.

Lemma post_enum_values_definition fl :
  post (fun o => wf_nelist wf_enum_value_definition (oattr o)) (enum_values_definition fl).
Proof. unfold enum_values_definition. apply post_optional_many. apply post_enum_value_definition. Qed.
#[export] Hint Resolve post_enum_values_definition : post.

Lemma post_directive_location fl : post wf_location (directive_location fl).
Proof.
  unfold directive_location. pb_true. destruct (is_directive_location a) eqn:E; [|apply post_fail_prev].
  apply post_ret. constructor. exact E.
Qed.

Section TS.
Variable fl : nat.
Variable xfa xdd : bool.

Lemma post_schema_definition : post (wf_type_system_definition xdd) (schema_definition fl).
Proof.
  unfold schema_definition. pbb. pb_true. pbb.
  eapply post_bind; [apply (post_many fl _ wf_operation_type_definition); apply post_operation_type_definition|].
  intros l Hl. apply post_ret. constructor; assumption.
Qed.

Lemma post_scalar_type_definition : post (wf_type_system_definition xdd) (scalar_type_definition fl).
Proof. unfold scalar_type_definition. pbb. pb_true. pbb. pbb. apply post_ret. constructor; assumption. Qed.

Lemma post_object_type_definition : post (wf_type_system_definition xdd) (object_type_definition fl).
Proof.
  unfold object_type_definition. pbb. pb_true. pbb. pbb. pbb. pbb. apply post_ret. constructor; assumption.
Qed.

Lemma post_interface_type_definition : post (wf_type_system_definition xdd) (interface_type_definition fl).
Proof.
  unfold interface_type_definition. pbb. pb_true. pbb. pbb. pbb. pbb. apply post_ret.
  apply wf_interface_def; assumption.
Qed.

Lemma post_union_type_definition : post (wf_type_system_definition xdd) (union_type_definition fl).
Proof. unfold union_type_definition. pbb. pb_true. pbb. pbb. pbb. apply post_ret. constructor; assumption. Qed.

Lemma post_enum_type_definition : post (wf_type_system_definition xdd) (enum_type_definition fl).
Proof. unfold enum_type_definition. pbb. pb_true. pbb. pbb. pbb. apply post_ret. constructor; assumption. Qed.

Lemma post_input_object_type_definition : post (wf_type_system_definition xdd) (input_object_type_definition fl).
Proof.
  unfold input_object_type_definition. pbb. pb_true. pbb. pbb. pbb. apply post_ret.
  apply wf_input_def; assumption.
Qed.

Lemma post_directive_definition : post (wf_type_system_definition xdd) (directive_definition fl xdd).
Proof.
  unfold directive_definition. pbb. pb_true. pb_true. pbb. pbb.
  eapply (post_bind (fun ds => if xdd then wf_directives true ds else ds = ANone)).
  { destruct xdd; [apply post_directives|apply post_ret; reflexivity]. }
  intros ds Hds. pb_true. pb_true.
  eapply post_bind; [apply (post_delimited_many fl _ wf_location); apply post_directive_location|].
  intros ls Hls. apply post_ret. constructor; assumption.
Qed.

(* extensions *)
Lemma some_present_1 a : attr_empty a = false -> some_present [a].
Proof. unfold some_present. cbn [existsb]. intros ->. reflexivity. Qed.
Lemma some_present_2 a b : attr_empty a && attr_empty b = false -> some_present [a; b].
Proof. unfold some_present. cbn [existsb]. destruct (attr_empty a), (attr_empty b); cbn; congruence. Qed.
Lemma some_present_3 a b c : attr_empty a && attr_empty b && attr_empty c = false -> some_present [a; b; c].
Proof.
  unfold some_present. cbn [existsb]. destruct (attr_empty a), (attr_empty b), (attr_empty c); cbn; congruence.
Qed.

Lemma post_schema_extension : post (wf_extension xdd) (schema_extension fl).
Proof.
  unfold schema_extension. pb_true. pb_true. pbb.
  eapply post_bind; [apply (post_optional_many fl _ wf_operation_type_definition); apply post_operation_type_definition|].
  intros o Ho. cbv beta in Ho.
  destruct (attr_empty a1 && attr_empty (oattr o)) eqn:E; [apply post_fail_here|].
  apply post_ret. constructor; try assumption. apply some_present_2. exact E.
Qed.

Lemma post_scalar_type_extension : post (wf_extension xdd) (scalar_type_extension fl).
Proof.
  unfold scalar_type_extension. pb_true. pb_true. pbb. pbb.
  destruct (attr_empty a2) eqn:E; [apply post_fail_here|].
  apply post_ret. constructor; try assumption. apply some_present_1. exact E.
Qed.

Lemma post_object_type_extension : post (wf_extension xdd) (object_type_extension fl).
Proof.
  unfold object_type_extension. pb_true. pb_true. pbb. pbb. pbb. pbb.
  destruct (attr_empty a2 && attr_empty a3 && attr_empty (oattr a4)) eqn:E; [apply post_fail_here|].
  apply post_ret. constructor; try assumption. apply some_present_3. exact E.
Qed.

Lemma post_interface_type_extension : post (wf_extension xdd) (interface_type_extension fl).
Proof.
  unfold interface_type_extension. pb_true. pb_true. pbb. pbb. pbb. pbb.
  destruct (attr_empty a2 && attr_empty a3 && attr_empty (oattr a4)) eqn:E; [apply post_fail_here|].
  apply post_ret. apply wf_interface_ext; try assumption. apply some_present_3. exact E.
Qed.

Lemma post_union_type_extension : post (wf_extension xdd) (union_type_extension fl).
Proof.
  unfold union_type_extension. pb_true. pb_true. pbb. pbb. pbb.
  destruct (attr_empty a2 && attr_empty a3) eqn:E; [apply post_fail_here|].
  apply post_ret. constructor; try assumption. apply some_present_2. exact E.
Qed.

Lemma post_enum_type_extension : post (wf_extension xdd) (enum_type_extension fl).
Proof.
  unfold enum_type_extension. pb_true. pb_true. pbb. pbb. pbb.
  destruct (attr_empty a2 && attr_empty (oattr a3)) eqn:E; [apply post_fail_here|].
  apply post_ret. constructor; try assumption. apply some_present_2. exact E.
Qed.

Lemma post_input_object_type_extension : post (wf_extension xdd) (input_object_type_extension fl).
Proof.
  unfold input_object_type_extension. pb_true. pb_true. pbb. pbb. pbb.
  destruct (attr_empty a2 && attr_empty (oattr a3)) eqn:E; [apply post_fail_here|].
  apply post_ret. apply wf_input_ext; try assumption. apply some_present_2. exact E.
Qed.

Lemma post_directive_definition_extension : xdd = true ->
  post (wf_extension xdd) (directive_definition_extension fl).
Proof.
  intros Hx. unfold directive_definition_extension. pb_true. pb_true. pb_true. pbb. pbb.
  destruct (attr_empty a3) eqn:E; [apply post_fail_here|].
  apply post_ret. constructor; try assumption. apply some_present_1. exact E.
Qed.

Lemma post_type_system_extension : post (wf_extension xdd) (type_system_extension fl xdd).
Proof.
  unfold type_system_extension. pb_true. cbv zeta.
  destruct (fst a =? K_NAME)%N; [|apply post_fail_next].
  destruct (seqb (snd a) s_schema); [apply post_schema_extension|].
  destruct (seqb (snd a) s_scalar); [apply post_scalar_type_extension|].
  destruct (seqb (snd a) s_type); [apply post_object_type_extension|].
  destruct (seqb (snd a) s_interface); [apply post_interface_type_extension|].
  destruct (seqb (snd a) s_union); [apply post_union_type_extension|].
  destruct (seqb (snd a) s_enum); [apply post_enum_type_extension|].
  destruct (seqb (snd a) s_input); [apply post_input_object_type_extension|].
  destruct (seqb (snd a) s_directive && xdd) eqn:E; [|apply post_fail_next].
  apply andb_true_iff in E as [_ E]. apply post_directive_definition_extension. exact E.
Qed.

Lemma post_definition : post (wf_definition xfa xdd) (definition fl xfa xdd).
Proof.
  assert (OP : post (wf_definition xfa xdd) (operation_definition fl xfa)).
  { eapply post_weaken; [apply post_operation_definition|]. intros x Hx. apply wf_def_operation. exact Hx. }
  unfold definition. pb_true. destruct (fst a =? K_BRACE_L)%N; [exact OP|]. cbv zeta.
  pb_true.
  destruct (peek_description a && (fst a0 =? K_BRACE_L)%N); [apply post_fail_here|].
  destruct (fst a0 =? K_NAME)%N; [|destruct (peek_description a); [apply post_fail_next|apply post_fail_here]].
  assert (TS : forall m, post (wf_type_system_definition xdd) m -> post (wf_definition xfa xdd) m).
  { intros m Hm. eapply post_weaken; [exact Hm|]. intros x Hx. apply wf_def_type_system. exact Hx. }
  destruct (seqb (snd a0) s_schema); [apply TS, post_schema_definition|].
  destruct (seqb (snd a0) s_scalar); [apply TS, post_scalar_type_definition|].
  destruct (seqb (snd a0) s_type); [apply TS, post_object_type_definition|].
  destruct (seqb (snd a0) s_interface); [apply TS, post_interface_type_definition|].
  destruct (seqb (snd a0) s_union); [apply TS, post_union_type_definition|].
  destruct (seqb (snd a0) s_enum); [apply TS, post_enum_type_definition|].
  destruct (seqb (snd a0) s_input); [apply TS, post_input_object_type_definition|].
  destruct (seqb (snd a0) s_directive); [apply TS, post_directive_definition|].
  destruct (seqb (snd a0) s_query || seqb (snd a0) s_mutation || seqb (snd a0) s_subscription); [exact OP|].
  destruct (seqb (snd a0) s_fragment).
  { eapply post_weaken; [apply post_fragment_definition|]. intros x Hx. apply wf_def_fragment. exact Hx. }
  destruct (peek_description a); [apply post_fail_here|].
  destruct (seqb (snd a0) s_extend); [|apply post_fail_here].
  eapply post_weaken; [apply post_type_system_extension|]. intros x Hx. apply wf_def_extension. exact Hx.
Qed.

Lemma post_document : post (wf_document xfa xdd) (document fl xfa xdd).
Proof.
  unfold document.
  eapply post_bind; [apply (post_many fl _ (wf_definition xfa xdd)); apply post_definition|].
  intros l [x l' Hx Hl]. apply post_ret. constructor; assumption.
Qed.

Lemma post_value_entry c : post (wf_value c) (value_entry fl c).
Proof. unfold value_entry. pb_true. pbb. pb_true. apply post_ret. assumption. Qed.

Lemma post_type_entry : post wf_type (type_entry fl).
Proof. unfold type_entry. pb_true. pbb. pb_true. apply post_ret. assumption. Qed.

Lemma post_schema_coordinate : post wf_coordinate (schema_coordinate fl).
Proof.
  unfold schema_coordinate.
  eapply (post_bind (fun _ => True)); [apply post_true|]. intros od _.
  eapply post_bind; [apply post_name|]. intros n Hn.
  eapply (post_bind (fun m => match m with Some x => wf_name x | None => True end)).
  { destruct od.
    - apply post_ret. exact I.
    - eapply (post_bind (fun _ => True)); [apply post_true|]. intros b _.
      destruct b; [|apply post_ret; exact I].
      eapply post_bind; [apply post_name|]. intros x Hx. apply post_ret. exact Hx. }
  intros m Hm.
  eapply (post_bind (fun m => match m with Some x => wf_name x | None => True end)).
  { destruct (od || match m with Some _ => true | None => false end).
    - eapply (post_bind (fun _ => True)); [apply post_true|]. intros b _.
      destruct b; [|apply post_ret; exact I].
      eapply post_bind; [apply post_name|]. intros x Hx.
      eapply (post_bind (fun _ => True)); [apply post_true|]. intros _ _.
      eapply (post_bind (fun _ => True)); [apply post_true|]. intros _ _.
      apply post_ret. exact Hx.
    - apply post_ret. exact I. }
  intros ar Har. apply post_ret.
  destruct od.
  - destruct ar; constructor; assumption.
  - destruct m; [destruct ar|]; constructor; assumption.
Qed.

Lemma post_coordinate_entry : post wf_coordinate (coordinate_entry fl).
Proof.
  unfold coordinate_entry. pb_true. eapply post_bind; [apply post_schema_coordinate|]. intros c Hc.
  pb_true. apply post_ret. assumption.
Qed.

Theorem core_wf e : post (wf_ast e xfa xdd) (core e fl xfa xdd).
Proof.
  destruct e; cbn [core wf_ast].
  - apply post_document.
  - apply post_value_entry.
  - apply post_value_entry.
  - apply post_type_entry.
  - apply post_coordinate_entry.
Qed.
End TS.

(* whatever an entry point returns is well formed *)
Theorem parse_entry_wf e o ts x c :
  parse_entry e o ts = Ok (x, c) ->
  wf_ast e (exp_fragment_arguments o) (exp_directives_on_directive_definitions o) x.
Proof.
  unfold parse_entry.
  destruct (core e _ _ _ _) as [d r|y|] eqn:E; try discriminate.
  intros H; inversion H; subst. eapply core_wf. exact E.
Qed.
