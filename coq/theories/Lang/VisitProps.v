(* Proofs about the traversal model. *)
From GV Require Import Base.Prelude Lang.Visit.

Scheme tree_mut := Induction for tree Sort Prop
  with slots_mut := Induction for slots Sort Prop
  with slot_mut := Induction for slot Sort Prop
  with trees_mut := Induction for trees Sort Prop.

Section Pure.
  Variable St : Type.
  Variable decide : phase -> tree -> St -> action * St.

  Definition not_edit (r : res) : Prop := match r with REdit _ => False | _ => True end.

  (* a visitor that never returns Remove or a replacement *)
  Definition non_editing : Prop :=
    forall ph t s, match fst (decide ph t s) with Remove | Replace _ => False | _ => True end.

  Definition rec_pure (rec : visit_fn St) : Prop :=
    forall t k p n h s, not_edit (fst (rec t k p n h s)).

  Lemma vtrees_pure rec : rec_pure rec -> forall l j path nanc s l' e s',
    vtrees St rec l j path nanc s = (Some (Some (l', e)), s') -> l' = l /\ e = false.
  Proof.
    intros Hr. induction l as [|c rest IH]; intros j path nanc s l' e s' H; cbn in H.
    - inversion H; auto.
    - pose proof (Hr c (KIdx j) (path ++ [KIdx j]) nanc true s) as Hc.
      destruct (rec c (KIdx j) (path ++ [KIdx j]) nanc true s) as [r s1]. cbn in Hc.
      destruct r as [| |v|]; try discriminate; try contradiction.
      destruct (vtrees St rec rest (S j) path nanc s1) as [[[[rest' e']|]|] s2] eqn:E; try discriminate.
      inversion H; subst. apply IH in E as [-> ->]. auto.
  Qed.

  Lemma vslots_pure rec : rec_pure rec -> forall ss i path inner s ss' e s',
    vslots St rec ss i path inner s = (Some (Some (ss', e)), s') -> ss' = ss /\ e = false.
  Proof.
    intros Hr. induction ss as [|sl rest IH]; intros i path inner s ss' e s' H; cbn in H.
    - inversion H; auto.
    - destruct sl as [|c|l].
      + destruct (vslots St rec rest (S i) path inner s) as [[[[rest' e']|]|] s2] eqn:E; try discriminate.
        inversion H; subst. apply IH in E as [-> ->]. auto.
      + pose proof (Hr c (KName i) (path ++ [KName i]) inner true s) as Hc.
        destruct (rec c (KName i) (path ++ [KName i]) inner true s) as [r s1]. cbn in Hc.
        destruct r as [| |v|]; try discriminate; try contradiction.
        destruct (vslots St rec rest (S i) path inner s1) as [[[[rest' e']|]|] s2] eqn:E; try discriminate.
        inversion H; subst. apply IH in E as [-> ->]. auto.
      + destruct (vtrees St rec l 0%nat (path ++ [KName i]) (S inner) s) as [[[[l' e0]|]|] s1] eqn:El;
          try discriminate.
        apply (vtrees_pure rec Hr) in El as [-> ->].
        destruct (vslots St rec rest (S i) path inner s1) as [[[[rest' e']|]|] s2] eqn:E; try discriminate.
        inversion H; subst. apply IH in E as [-> ->]. auto.
  Qed.

  Lemma node_step_pure rec : non_editing -> rec_pure rec -> rec_pure (node_step St decide rec).
  Proof.
    intros Hd Hr t k p n h s. unfold node_step, do_call.
    pose proof (Hd Enter t (fst s)) as He.
    destruct (decide Enter t (fst s)) as [a s1]. cbn in He.
    destruct a; try contradiction; cbn; auto.
    unfold go.
    destruct (vslots St rec (tslots t) 0%nat p (inner_nanc h n) _) as [[[[ss' e]|]|] s2] eqn:E; cbn; auto.
    apply (vslots_pure rec Hr) in E as [-> ->].
    unfold do_call. pose proof (Hd Leave t (fst s2)) as Hl.
    destruct (decide Leave t (fst s2)) as [a2 s3]. cbn in Hl.
    destruct a2; try contradiction; cbn; auto.
  Qed.

  Theorem visit_tree_pure fuel : non_editing -> rec_pure (visit_tree St decide fuel).
  Proof.
    intros Hd. induction fuel as [|f IH]; cbn [visit_tree].
    - intros t k p n h s. exact I.
    - apply node_step_pure; assumption.
  Qed.
End Pure.

(* ---- the all-idle visitor: the call log is the DFS bracket sequence ---- *)
Definition idle_dec : phase -> tree -> unit -> action * unit := fun _ _ _ => (Idle, tt).

Fixpoint depth_tree (t : tree) : nat :=
  match t with Node _ _ ss => S (depth_slots ss) end
with depth_slots (ss : slots) : nat :=
  match ss with SNil => O | SCons sl r => Nat.max (depth_slot sl) (depth_slots r) end
with depth_slot (sl : slot) : nat :=
  match sl with SNone => O | SOne t => depth_tree t | SArr l => depth_trees l end
with depth_trees (l : trees) : nat :=
  match l with TNil => O | TCons t r => Nat.max (depth_tree t) (depth_trees r) end.

Definition mk_idle (ph : phase) (t : tree) (k : key) (path : list key) (nanc : nat) : call :=
  mkCall ph (tid t) (tkindof t) k path nanc 0.

(* DFS enter/leave bracket sequence with the context of every call *)
Fixpoint dfs_tree (t : tree) (k : key) (path : list key) (nanc : nat) (hp : bool) : list call :=
  match t with
  | Node _ _ ss =>
    mk_idle Enter t k path nanc :: dfs_slots ss 0%nat path (inner_nanc hp nanc)
      ++ [mk_idle Leave t k path nanc]
  end
with dfs_slots (ss : slots) (i : nat) (path : list key) (inner : nat) : list call :=
  match ss with
  | SNil => []
  | SCons sl r =>
    (match sl with
     | SNone => []
     | SOne c => dfs_tree c (KName i) (path ++ [KName i]) inner true
     | SArr l => dfs_trees l 0%nat (path ++ [KName i]) (S inner)
     end) ++ dfs_slots r (S i) path inner
  end
with dfs_trees (l : trees) (j : nat) (path : list key) (nanc : nat) : list call :=
  match l with
  | TNil => []
  | TCons c r => dfs_tree c (KIdx j) (path ++ [KIdx j]) nanc true ++ dfs_trees r (S j) path nanc
  end.

Definition idle_ok (rec : visit_fn unit) (t : tree) : Prop :=
  forall k p n h s, rec t k p n h s = (RKeep, (tt, rev (dfs_tree t k p n h) ++ snd s)).

Lemma idle_all fuel :
  (forall t, (depth_tree t <= fuel)%nat -> idle_ok (visit_tree unit idle_dec fuel) t).
Proof.
  induction fuel as [|f IH].
  - intros [k i ss] H. cbn in H. lia.
  - set (rec := visit_tree unit idle_dec f) in *.
    assert (HT : forall l, (depth_trees l <= f)%nat -> forall j p n s,
              vtrees unit rec l j p n s = (Some (Some (l, false)), (tt, rev (dfs_trees l j p n) ++ snd s))).
    { induction l as [|c r IHl]; intros Hd j p n s; cbn in *.
      - destruct s as [[] lg]; reflexivity.
      - rewrite (IH c ltac:(lia)). rewrite IHl by lia. cbn [snd].
        rewrite rev_app_distr, app_assoc. reflexivity. }
    assert (HS : forall ss, (depth_slots ss <= f)%nat -> forall i p n s,
              vslots unit rec ss i p n s = (Some (Some (ss, false)), (tt, rev (dfs_slots ss i p n) ++ snd s))).
    { induction ss as [|sl r IHs]; intros Hd i p n s; cbn in *.
      - destruct s as [[] lg]; reflexivity.
      - destruct sl as [|c|l]; cbn in Hd.
        + rewrite IHs by lia. reflexivity.
        + rewrite (IH c ltac:(lia)). rewrite IHs by lia. cbn [snd].
          rewrite rev_app_distr, app_assoc. reflexivity.
        + rewrite HT by lia. rewrite IHs by lia. cbn [snd].
          rewrite rev_app_distr, app_assoc. reflexivity. }
    intros [kd id ss] Hd k p n h s. cbn in Hd.
    cbn [visit_tree]. fold rec. unfold node_step, do_call, idle_dec. cbn [fst snd].
    unfold go. cbn [tslots]. rewrite HS by lia. cbn [fst snd orb].
    unfold do_call. cbn [fst snd tid tkindof action_code].
    cbn [dfs_tree]. unfold mk_idle. cbn [tid tkindof].
    do 2 f_equal. cbn [rev]. rewrite rev_app_distr. cbn [rev app].
    rewrite <- !app_assoc. reflexivity.
Qed.

Theorem idle_visit_log root : 
  visit unit idle_dec (depth_tree root) root tt = (RKeep, tt, dfs_tree root KNone [] 0%nat false).
Proof.
  unfold visit. rewrite (idle_all (depth_tree root) root (le_n _)). cbn [snd].
  rewrite app_nil_r, rev_involutive. reflexivity.
Qed.
